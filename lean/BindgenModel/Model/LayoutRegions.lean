import BindgenModel.Model.CompCodegen
/-!
# Decidable regions of C02 (executable; the driver evaluates them, the harness mirrors them)

* `ClangPlain c` — layer 2's domain: a non-packed struct of data members with known layouts,
  power-of-two alignments ≤ 8 and offsets as a C compiler assigns them.
* `padInexact o c` — the region the proof of the plain-struct theorem had to exclude: a padding
  field is requested with alignment 8 and a size that is not a multiple of 8; `blob` turns it
  into `__BindgenOpaqueArray8<[u8; n]>`, whose size rustc rounds up to a multiple of 8.
* `hasInexactPad r` — the same region read off the emitted aggregate (used to classify observed
  failures: known finding `pad_blob_inexact`).
-/
namespace BindgenModel.CompCodegen
open BindgenModel.Layout BindgenModel.StructLayout

/-- the array-of-over-aligned-elements hack of `saw_field` does not fire -/
def arrayHackInactive (ty : FieldTy) : Bool :=
  match ty.array with
  | some (some el, _) => decide (el.align ≤ maxGuaranteedAlign)
  | _ => true

/-- facts the C ABI guarantees about the members of a non-packed struct, threaded through the
running end offset `cur` (bytes) -/
def plainFieldsFrom : Nat → List CField → Bool
  | _, [] => true
  | cur, .data ty (some off) :: fs =>
    match ty.layout with
    | some l =>
      (l.align == 1 || l.align == 2 || l.align == 4 || l.align == 8) &&
      l.size % l.align == 0 && off % 8 == 0 && (off / 8) % l.align == 0 && decide (cur ≤ off / 8) &&
      arrayHackInactive ty && plainFieldsFrom (off / 8 + l.size) fs
    | none => false
  | _, _ => false

/-- end offset (bytes) of the last member -/
def plainEnd : Nat → List CField → Nat
  | cur, [] => cur
  | cur, .data ty (some off) :: fs =>
    match ty.layout with
    | some l => plainEnd (off / 8 + l.size) fs
    | none => plainEnd cur fs
  | cur, _ :: fs => plainEnd cur fs

def fieldAlignsLe (a : Nat) (fs : List CField) : Bool :=
  fs.all fun f => match f.layout with | some l => decide (l.align ≤ a) | none => true

/-- layer 2's domain -/
def ClangPlain (c : CAgg) : Bool :=
  !c.isUnion && !c.packedAttr && !c.hasOwnVirtual && !c.hasVtablePtr && c.bases.isEmpty &&
  !c.isOpaque && !c.forwardDecl && !c.zeroSized && !c.fields.isEmpty &&
  match c.layout with
  | some l => decide (0 < l.align) && fieldAlignsLe l.align c.fields && plainFieldsFrom 0 c.fields &&
              l.size == alignTo (plainEnd 0 c.fields) l.align
  | none => false

def padInexactFrom (force : Bool) : Nat → List CField → Bool
  | _, [] => false
  | cur, .data ty (some off) :: fs =>
    match ty.layout with
    | some l =>
      let pb := off / 8 - cur
      let pa := min l.align maxGuaranteedAlign
      (!force && decide (pb ≠ 0) && (decide (pb ≥ l.align) || decide (l.align > maxGuaranteedAlign)) &&
        decide (pa > 4) && decide (pb % pa ≠ 0)) || padInexactFrom force (off / 8 + l.size) fs
    | none => padInexactFrom force cur fs
  | cur, _ :: fs => padInexactFrom force cur fs

/-- input-side region (exact for records in `ClangPlain`) -/
def padInexact (o : Opts) (c : CAgg) : Bool := padInexactFrom o.forcePadding 0 c.fields

/-- output-side region: some emitted padding field is an aligned opaque wrapper whose payload
size is not a multiple of its alignment -/
def hasInexactPad (r : RustAgg) : Bool :=
  r.fields.any fun f => match f.name, f.blob with
    | .padding _, some (.opaqueA a s) => decide (s % a ≠ 0)
    | _, _ => false

/-! ### domains of layers 3, 6, 7 -/

/-- members of a record packed to `n` (`#pragma pack(n)`, or `__attribute__((packed))` for
`n = 1`): every member sits at the least multiple of `min(align, n)` after its predecessor -/
def packedFieldsFrom (n : Nat) : Nat → List CField → Bool
  | _, [] => true
  | cur, .data ty (some off) :: fs =>
    match ty.layout with
    | some l =>
      decide (0 < l.align) && off % 8 == 0 && off / 8 == alignTo cur (min l.align n) &&
      arrayHackInactive ty && !ty.containsAlign && packedFieldsFrom n (off / 8 + l.size) fs
    | none => false
  | _, _ => false

/-- layer 3's domain: a struct the code recognises as packed, with alignment `n`
(`n = 1`: `__attribute__((packed))`; `n > 1`: `#pragma pack(n)` detected through a member that
is more aligned than the record).  For `n > 1` all member alignments are below 16 (otherwise
`requires_explicit_align` asks for `repr(align)` as well) and one of them reaches `n`. -/
def ClangPacked (c : CAgg) : Bool :=
  !c.isUnion && !c.hasOwnVirtual && !c.hasVtablePtr && c.bases.isEmpty &&
  !c.isOpaque && !c.forwardDecl && !c.zeroSized && !c.fields.isEmpty && c.isPacked &&
  match c.layout with
  | some l => decide (0 < l.align) && packedFieldsFrom l.align 0 c.fields &&
              l.size == alignTo (plainEnd 0 c.fields) l.align &&
              (l.align == 1 ||
                (c.fields.all (fun f => match f.layout with | some fl => decide (fl.align < 16) | none => true) &&
                 c.fields.any (fun f => match f.layout with | some fl => decide (fl.align ≥ l.align) | none => false)))
  | none => false

def unionFieldsOk : List CField → Bool
  | [] => true
  | .data ty off :: fs =>
    (match ty.layout with | some l => decide (0 < l.align) | none => false) &&
    (match off with | some o => o == 0 | none => true) && arrayHackInactive ty && unionFieldsOk fs
  | _ :: _ => false

def unionMaxSize : List CField → Nat
  | [] => 0
  | f :: fs => max (match f.layout with | some l => l.size | none => 0) (unionMaxSize fs)

/-- layer 6's domain: a non-packed union of data members -/
def ClangUnion (c : CAgg) : Bool :=
  c.isUnion && !c.packedAttr && !c.hasOwnVirtual && !c.hasVtablePtr && c.bases.isEmpty &&
  !c.isOpaque && !c.forwardDecl && !c.zeroSized && !c.fields.isEmpty &&
  match c.layout with
  | some l => decide (0 < l.align) && l.align != 3 && fieldAlignsLe l.align c.fields && unionFieldsOk c.fields &&
              l.size == alignTo (unionMaxSize c.fields) l.align
  | none => false

/-- layer 7's domain: an opaque record whose layout is known -/
def ClangOpaque (c : CAgg) : Bool :=
  c.isOpaque && !c.forwardDecl &&
  match c.layout with
  | some l => decide (0 < l.align) && l.align != 3 && l.size % l.align == 0
  | none => false

/-- rustc rejects `packed` together with `align` (E0587) -/
def packedAlignConflict (r : RustAgg) : Bool := r.packed.isSome && r.align.isSome

/-- rustc rejects a `packed` type that contains a `repr(align)` type (E0588) -/
def packedContainsAligned (r : RustAgg) : Bool := r.packed.isSome && r.fields.any (·.containsAlign)

/-- `repr(packed)` was dropped (explicit alignment requested and `already_packed`) although a
member is more aligned than the record: the Rust type is over-aligned -/
def packedDropped (c : CAgg) (r : RustAgg) : Bool :=
  c.isPacked && !c.isOpaque && r.packed.isNone &&
    (match c.layout with
     | some l => r.fields.any (fun f => decide (f.align > l.align))
     | none => false)

/-- `repr(C, packed(N))`, N > 1, cannot place a member where the C compiler put it
(`__attribute__((packed))` combined with `aligned(N)`) -/
def packedNMisplaces (c : CAgg) (r : RustAgg) : Bool :=
  match r.packed with
  | some n => decide (n > 1) && !r.isUnion &&
      (c.fields.any (fun f => match f with
        | .data ty (some off) => (match ty.layout with
            | some l => decide ((off / 8) % (min (max l.align 1) n) ≠ 0)
            | none => false)
        | _ => false) ||
       -- the same seen through a later member (the misplaced one is an anonymous member whose
       -- offset libclang does not report): C has a member before the place `packed(n)` gives it
       (match reprC r with
        | some l => (cOffsets 0 c.fields).any fun (i, o) => l.userOffsets.any fun (j, ro) => i == j && decide (o < ro)
        | none => false))
  | none => false

def FName.isPadding : FName → Bool
  | .padding _ => true
  | _ => false

/-- `--explicit-padding`: `add_tail_padding` and `pad_struct` both pad the tail (the former does
not advance `latest_offset`), so the aggregate ends with two padding fields -/
def doubleTailPad (r : RustAgg) : Bool :=
  match r.fields.reverse with
  | a :: b :: _ => a.name.isPadding && b.name.isPadding
  | _ => false

/-- `--explicit-padding` on a union emitted in wrapper form: tail padding in front of the
full-size `bindgen_union_field` blob -/
def padBeforeUnionBlob (r : RustAgg) : Bool :=
  r.fields.any (·.name.isPadding) && r.fields.any (fun f => f.name == .unionField)

/-- a bit-field allocation unit of a union that is shorter than one of its bit-fields
(`bitfields_to_allocation_units` keeps the extent of the *last* bit-field, and in a union every
bit-field starts at offset 0) -/
def unionUnitShort (c : CAgg) : Bool :=
  c.isUnion && c.fields.any fun f => match f with
    | .unit _ l e _ => decide (8 * l.size < e)
    | _ => false

/-- the emitted struct is not packed, yet the C compiler placed a member at an offset that is not
a multiple of the member type's alignment (`#pragma pack` / enclosing `packed` that the
field-alignment heuristic of `is_packed` does not detect because the record itself carries a
larger `aligned(N)`): no `repr(C)` struct without `packed` can reproduce that -/
def unpackedMisalignedMember (c : CAgg) (r : RustAgg) : Bool :=
  r.packed.isNone && !r.isUnion && !c.isUnion &&
  ((c.fields.any fun f => match f with
    | .data ty (some off) => (match ty.layout with
        | some l => decide ((off / 8) % (max l.align 1) ≠ 0)
        | none => false)
    | _ => false) ||
   -- the same situation seen through a later member (the misaligned one is an anonymous member
   -- whose offset libclang does not report): C placed a member before the place natural
   -- alignment gives it
   (!hasInexactPad r && match reprC r with
    | some l => (cOffsets 0 c.fields).any fun (i, o) => l.userOffsets.any fun (j, ro) => i == j && decide (o < ro)
    | none => false))

/-- a bit-field allocation unit that the emitted aggregate places (alignment 1, right after the
previous field) at another byte than the one libclang's bit offsets say it starts at: the
accessors read and write the wrong bytes (`saw_bitfield_unit` never looks at the unit's offset) -/
def unitMisplaced (c : CAgg) (r : RustAgg) : Bool :=
  match reprC r with
  | some l => c.fields.any fun f => match f with
      | .unit n _ _ (some s) => (match l.unitOffset n with | some o => o * 8 != s | none => false)
      | _ => false
  | none => false

/-- a record the tracker treats as packed never gets padding fields, so the emitted aggregate
cannot reproduce a gap the C compiler left in front of a member (member-level `aligned(N)` inside
a packed / `#pragma pack` record): some member is placed before the offset libclang reports -/
def packedGap (c : CAgg) (r : RustAgg) : Bool :=
  (r.packed.isSome || c.isPacked) && !r.isUnion &&
  match reprC r with
  | some l => (cOffsets 0 c.fields).any fun (i, o) => l.userOffsets.any fun (j, ro) => i == j && decide (ro < o)
  | none => false

/-- a union that is smaller in Rust than in C although no unit is visibly short: a run of
bit-fields whose last member is a zero-width bit-field is dropped altogether (the unit keeps the
extent of the last bit-field: 0 bits, and empty units are not flushed); with only such bit-fields
the union is considered zero-sized and gets a one-byte `_address` -/
def unionBitfieldsDropped (c : CAgg) (r : RustAgg) : Bool :=
  c.isUnion && !unionUnitShort c &&
  match c.layout, reprC r with
  | some l, some rl => decide (rl.size < l.size)
  | _, _ => false

def regionNames (c : CAgg) (r : RustAgg) : List String :=
  (if unionBitfieldsDropped c r then ["union_bitfields_dropped"] else []) ++
  (if packedGap c r then ["packed_member_gap"] else []) ++
  (if unitMisplaced c r then ["bitfield_unit_misplaced"] else []) ++
  (if unpackedMisalignedMember c r then ["unpacked_misaligned_member"] else []) ++
  (if doubleTailPad r then ["explicit_padding_double_tail"] else []) ++
  (if padBeforeUnionBlob r then ["explicit_padding_union_wrapper"] else []) ++
  (if unionUnitShort c then ["union_bitfield_unit_short"] else []) ++
  (if hasInexactPad r then ["pad_blob_inexact"] else []) ++
  (if packedAlignConflict r then ["packed_align_conflict"] else []) ++
  (if packedContainsAligned r then ["packed_contains_aligned"] else []) ++
  (if packedDropped c r then ["packed_dropped"] else []) ++
  (if packedNMisplaces c r then ["packedN_misplaces"] else [])

/-! witnesses -/

/-- `struct { char c; long x __attribute__((aligned(16))); }` -/
def witnessAligned8 : CAgg :=
  { layout := some { size := 32, align := 16 },
    fields := [.data { layout := some { size := 1, align := 1 } } (some 0),
               .data { layout := some { size := 8, align := 8 } } (some 128)] }

/-- `struct { int a; __int128 b; }` -/
def witnessInt128 : CAgg :=
  { layout := some { size := 32, align := 16 },
    fields := [.data { layout := some { size := 4, align := 4 } } (some 0),
               .data { layout := some { size := 16, align := 16 } } (some 128)] }

/-- `struct { char a; int b; short c; long d; }` -/
def witnessPlain : CAgg :=
  { layout := some { size := 24, align := 8 },
    fields := [.data { layout := some { size := 1, align := 1 } } (some 0),
               .data { layout := some { size := 4, align := 4 } } (some 32),
               .data { layout := some { size := 2, align := 2 } } (some 64),
               .data { layout := some { size := 8, align := 8 } } (some 128)] }

/-- `struct __attribute__((packed, aligned(8))) PA { char a; int b; };` -/
def witnessPackedAlign : CAgg :=
  { layout := some { size := 8, align := 8 }, packedAttr := true,
    fields := [.data { layout := some { size := 1, align := 1 } } (some 0),
               .data { layout := some { size := 4, align := 4 } } (some 8)] }

/-- `struct __attribute__((aligned(16))) AL { int x; }; struct __attribute__((packed)) PC { char c; struct AL a; };` -/
def witnessPackedContains : CAgg :=
  { layout := some { size := 17, align := 1 }, packedAttr := true,
    fields := [.data { layout := some { size := 1, align := 1 } } (some 0),
               .data { layout := some { size := 16, align := 16 }, containsAlign := true } (some 8)] }

/-- `struct __attribute__((packed, aligned(2))) PD2 { long double x; };` -/
def witnessPackedDropped : CAgg :=
  { layout := some { size := 16, align := 2 }, packedAttr := true,
    fields := [.data { layout := some { size := 16, align := 16 } } (some 0)] }

/-- `struct __attribute__((packed, aligned(4))) PN { char a; long b; };` -/
def witnessPackedN : CAgg :=
  { layout := some { size := 12, align := 4 }, packedAttr := true,
    fields := [.data { layout := some { size := 1, align := 1 } } (some 0),
               .data { layout := some { size := 8, align := 8 } } (some 8)] }

/-- `union __attribute__((packed)) UB { long a : 42; int b : 3; };` -/
def witnessUnionUnitShort : CAgg :=
  { isUnion := true, layout := some { size := 6, align := 1 }, packedAttr := true,
    fields := [.unit 1 { size := 1, align := 1 } 42 (some 0)] }

/-- `struct DT { int a : 3; long b; char c : 2; };` with `--explicit-padding` -/
def witnessDoubleTail : CAgg :=
  { layout := some { size := 24, align := 8 },
    fields := [.unit 1 { size := 1, align := 1 } 3 (some 0),
               .data { layout := some { size := 8, align := 8 } } (some 64),
               .unit 2 { size := 1, align := 1 } 2 (some 128)] }

/-- `union UW { int z[0]; char c[5]; int a; };` with `--explicit-padding` -/
def witnessUnionWrapper : CAgg :=
  { isUnion := true, layout := some { size := 8, align := 4 }, allCanCopy := false,
    fields := [.data { layout := some { size := 0, align := 4 }, array := some (some { size := 4, align := 4 }, 0) } (some 0),
               .data { layout := some { size := 5, align := 1 }, array := some (some { size := 1, align := 1 }, 5) } (some 0),
               .data { layout := some { size := 4, align := 4 } } (some 0)] }

/-- `union UF { int z[0]; long a; char b : 3; };` with `--explicit-padding` -/
def witnessTailUnderflow : CAgg :=
  { isUnion := true, layout := some { size := 8, align := 8 }, allCanCopy := false,
    fields := [.data { layout := some { size := 0, align := 4 }, array := some (some { size := 4, align := 4 }, 0) } (some 0),
               .data { layout := some { size := 8, align := 8 } } (some 0),
               .unit 1 { size := 1, align := 1 } 3 (some 0)] }

/-- `#pragma pack(2)` around `struct __attribute__((aligned(8))) UM { char a; long b; };` -/
def witnessMisaligned : CAgg :=
  { layout := some { size := 16, align := 8 },
    fields := [.data { layout := some { size := 1, align := 1 } } (some 0),
               .data { layout := some { size := 8, align := 8 } } (some 16)] }

/-- `#pragma pack(2)` around `struct Q { char a; int b; short c; };` -/
def witnessPackedOk : CAgg :=
  { layout := some { size := 8, align := 2 },
    fields := [.data { layout := some { size := 1, align := 1 } } (some 0),
               .data { layout := some { size := 4, align := 4 } } (some 16),
               .data { layout := some { size := 2, align := 2 } } (some 48)] }

/-- `union U { char c; double d; int a[3]; };` -/
def witnessUnionOk : CAgg :=
  { isUnion := true, layout := some { size := 16, align := 8 },
    fields := [.data { layout := some { size := 1, align := 1 } } (some 0),
               .data { layout := some { size := 8, align := 8 } } (some 0),
               .data { layout := some { size := 12, align := 4 }, array := some (some { size := 4, align := 4 }, 3) } (some 0)] }

/-- an opaque record of 24 bytes, alignment 8, that had bit-fields -/
def witnessOpaqueOk : CAgg :=
  { layout := some { size := 24, align := 8 }, isOpaque := true,
    fields := [.unit 1 { size := 3, align := 1 } 20 (some 0), .data { layout := some { size := 8, align := 8 } } (some 64)] }

/-- `struct T7 { char a; int b : 30; };` (clang: `b` at bit 32) -/
def witnessUnitMisplaced : CAgg :=
  { layout := some { size := 8, align := 4 },
    fields := [.data { layout := some { size := 1, align := 1 } } (some 0),
               .unit 1 { size := 4, align := 1 } 30 (some 32)] }

/-- `#pragma pack(4)` around `struct PG { signed char a; signed char b __attribute__((aligned(16))); long c; };` -/
def witnessPackedGap : CAgg :=
  { layout := some { size := 16, align := 4 }, packedAttr := false,
    fields := [.data { layout := some { size := 1, align := 1 } } (some 0),
               .data { layout := some { size := 1, align := 1 } } (some 32),
               .data { layout := some { size := 8, align := 8 } } (some 64)] }

/-- `struct { long a; __int128 b; }` -/
def witnessAlign16 : CAgg :=
  { layout := some { size := 32, align := 16 },
    fields := [.data { layout := some { size := 8, align := 8 } } (some 0),
               .data { layout := some { size := 16, align := 16 } } (some 128)] }

/-- `union R25 { int : 22; unsigned int : 0; };` (clang: size 3, align 1; the IR has no field) -/
def witnessUnionDropped : CAgg :=
  { isUnion := true, layout := some { size := 3, align := 1 }, zeroSized := true, fields := [] }

end BindgenModel.CompCodegen
