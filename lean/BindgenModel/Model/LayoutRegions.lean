import BindgenModel.Model.CompCodegen
/-!
# Decidable regions of C02 (executable; the driver evaluates them, the harness mirrors them)

* `ClangPlain c` — layer 2's domain: a non-packed struct of data members with known layouts,
  power-of-two alignments ≤ 8 and offsets as a C compiler assigns them.
* `padInexact o c` — the region the proof of the plain-struct theorem had to exclude: a padding
  field is requested with alignment 8 and a size that is not a multiple of 8; `blob` turns it
  into `__BindgenOpaqueArray8<[u8; n]>`, whose size rustc rounds up to a multiple of 8.
* `hasInexactPad r` — the same region read off the emitted aggregate (used to classify observed
  failures: known finding `pad_blob_inexact`).
-/
namespace BindgenModel.CompCodegen
open BindgenModel.Layout BindgenModel.StructLayout

/-- the array-of-over-aligned-elements hack of `saw_field` does not fire -/
def arrayHackInactive (ty : FieldTy) : Bool :=
  match ty.array with
  | some (some el, _) => decide (el.align ≤ maxGuaranteedAlign)
  | _ => true

/-- facts the C ABI guarantees about the members of a non-packed struct, threaded through the
running end offset `cur` (bytes) -/
def plainFieldsFrom : Nat → List CField → Bool
  | _, [] => true
  | cur, .data ty (some off) :: fs =>
    match ty.layout with
    | some l =>
      (l.align == 1 || l.align == 2 || l.align == 4 || l.align == 8) &&
      l.size % l.align == 0 && off % 8 == 0 && (off / 8) % l.align == 0 && decide (cur ≤ off / 8) &&
      arrayHackInactive ty && plainFieldsFrom (off / 8 + l.size) fs
    | none => false
  | _, _ => false

/-- end offset (bytes) of the last member -/
def plainEnd : Nat → List CField → Nat
  | cur, [] => cur
  | cur, .data ty (some off) :: fs =>
    match ty.layout with
    | some l => plainEnd (off / 8 + l.size) fs
    | none => plainEnd cur fs
  | cur, _ :: fs => plainEnd cur fs

def fieldAlignsLe (a : Nat) (fs : List CField) : Bool :=
  fs.all fun f => match f.layout with | some l => decide (l.align ≤ a) | none => true

/-- layer 2's domain -/
def ClangPlain (c : CAgg) : Bool :=
  !c.isUnion && !c.packedAttr && !c.hasOwnVirtual && !c.hasVtablePtr && c.bases.isEmpty &&
  !c.isOpaque && !c.forwardDecl && !c.zeroSized && !c.fields.isEmpty &&
  match c.layout with
  | some l => decide (0 < l.align) && fieldAlignsLe l.align c.fields && plainFieldsFrom 0 c.fields &&
              l.size == alignTo (plainEnd 0 c.fields) l.align
  | none => false

def padInexactFrom (force : Bool) : Nat → List CField → Bool
  | _, [] => false
  | cur, .data ty (some off) :: fs =>
    match ty.layout with
    | some l =>
      let pb := off / 8 - cur
      let pa := min l.align maxGuaranteedAlign
      (!force && decide (pb ≠ 0) && (decide (pb ≥ l.align) || decide (l.align > maxGuaranteedAlign)) &&
        decide (pa > 4) && decide (pb % pa ≠ 0)) || padInexactFrom force (off / 8 + l.size) fs
    | none => padInexactFrom force cur fs
  | cur, _ :: fs => padInexactFrom force cur fs

/-- input-side region (exact for records in `ClangPlain`) -/
def padInexact (o : Opts) (c : CAgg) : Bool := padInexactFrom o.forcePadding 0 c.fields

/-- output-side region: some emitted padding field is an aligned opaque wrapper whose payload
size is not a multiple of its alignment -/
def hasInexactPad (r : RustAgg) : Bool :=
  r.fields.any fun f => match f.name, f.blob with
    | .padding _, some (.opaqueA a s) => decide (s % a ≠ 0)
    | _, _ => false

/-! witnesses -/

/-- `struct { char c; long x __attribute__((aligned(16))); }` -/
def witnessAligned8 : CAgg :=
  { layout := some { size := 32, align := 16 },
    fields := [.data { layout := some { size := 1, align := 1 } } (some 0),
               .data { layout := some { size := 8, align := 8 } } (some 128)] }

/-- `struct { int a; __int128 b; }` -/
def witnessInt128 : CAgg :=
  { layout := some { size := 32, align := 16 },
    fields := [.data { layout := some { size := 4, align := 4 } } (some 0),
               .data { layout := some { size := 16, align := 16 } } (some 128)] }

/-- `struct { char a; int b; short c; long d; }` -/
def witnessPlain : CAgg :=
  { layout := some { size := 24, align := 8 },
    fields := [.data { layout := some { size := 1, align := 1 } } (some 0),
               .data { layout := some { size := 4, align := 4 } } (some 32),
               .data { layout := some { size := 2, align := 2 } } (some 64),
               .data { layout := some { size := 8, align := 8 } } (some 128)] }

end BindgenModel.CompCodegen
