import BindgenModel.Model.Layout
/-! Lemmas about `alignTo`, `forSize` and `blob` (layer 1 of C02; `blob_exact` also serves C10). -/
namespace BindgenModel.Layout

theorem alignTo_zero (s : Nat) : alignTo s 0 = s := by simp [alignTo]

theorem alignTo_ge (s a : Nat) : s ≤ alignTo s a := by
  unfold alignTo
  split
  · omega
  · split
    · omega
    · have : s % a < a := Nat.mod_lt _ (by omega)
      omega

theorem alignTo_mod (s a : Nat) (ha : 0 < a) : alignTo s a % a = 0 := by
  unfold alignTo
  rw [if_neg (by omega)]
  split
  · assumption
  · have hlt : s % a < a := Nat.mod_lt _ ha
    have h1 : s + a - s % a = a * (s / a) + a := by
      have := Nat.div_add_mod s a
      omega
    rw [h1]
    simp

theorem alignTo_lt (s a : Nat) (ha : 0 < a) : alignTo s a < s + a := by
  unfold alignTo
  rw [if_neg (by omega)]
  split
  · omega
  · have : s % a < a := Nat.mod_lt _ ha
    have : 0 < s % a := by omega
    omega

/-- `alignTo` returns the least multiple of `a` that is `≥ s` -/
theorem alignTo_least (s a m : Nat) (ha : 0 < a) (hm : m % a = 0) (hs : s ≤ m) : alignTo s a ≤ m := by
  have h1 := alignTo_lt s a ha
  have h2 := alignTo_mod s a ha
  have h3 := alignTo_ge s a
  -- m and alignTo s a are multiples of a, alignTo s a < s + a ≤ m + a
  have e1 : alignTo s a = a * (alignTo s a / a) := by
    have := Nat.div_add_mod (alignTo s a) a; omega
  have e2 : m = a * (m / a) := by
    have := Nat.div_add_mod m a; omega
  by_cases h : alignTo s a / a ≤ m / a
  · have := Nat.mul_le_mul_left a h
    omega
  · have h' : m / a + 1 ≤ alignTo s a / a := by omega
    have := Nat.mul_le_mul_left a h'
    rw [Nat.mul_add] at this
    omega

theorem alignTo_of_mod_eq_zero (s a : Nat) (h : s % a = 0) : alignTo s a = s := by
  simp [alignTo, h]

/-- the unique multiple of `a` in `[s, s + a)` -/
theorem alignTo_eq_of (s a m : Nat) (ha : 0 < a) (hm : m % a = 0) (hs : s ≤ m) (hlt : m < s + a) :
    alignTo s a = m := by
  have h1 := alignTo_least s a m ha hm hs
  have h2 := alignTo_mod s a ha
  have h3 := alignTo_ge s a
  have e1 : alignTo s a = a * (alignTo s a / a) := by
    have := Nat.div_add_mod (alignTo s a) a; omega
  have e2 : m = a * (m / a) := by
    have := Nat.div_add_mod m a; omega
  by_cases h : m / a ≤ alignTo s a / a
  · have := Nat.mul_le_mul_left a h
    omega
  · have h' : alignTo s a / a + 1 ≤ m / a := by omega
    have := Nat.mul_le_mul_left a h'
    rw [Nat.mul_add] at this
    omega

theorem alignTo_idem (s a : Nat) : alignTo (alignTo s a) a = alignTo s a := by
  by_cases ha : a = 0
  · subst ha; simp [alignTo]
  · exact alignTo_of_mod_eq_zero _ _ (alignTo_mod s a (by omega))

/-- a multiple of `a` that is a multiple of `b`-aligned … : aligning a multiple of `a` to a divisor `b` of `a` is the identity -/
theorem alignTo_of_dvd (s a b : Nat) (hs : s % a = 0) (hb : a % b = 0) : alignTo s b = s := by
  apply alignTo_of_mod_eq_zero
  have h1 : a ∣ s := Nat.dvd_of_mod_eq_zero hs
  have h2 : b ∣ a := Nat.dvd_of_mod_eq_zero hb
  exact Nat.mod_eq_zero_of_dvd (Nat.dvd_trans h2 h1)

/-! ### `blob` -/

/-- **blob_exact.** For a layout whose alignment is not 3 and divides its size, the type `blob`
builds has exactly that size and that alignment (alignment 0 is treated as 1). -/
theorem blob_exact (l : Layout) (ffi : Bool) (h3 : l.align ≠ 3) (hdvd : l.size % (max l.align 1) = 0) :
    (blob l ffi).size = l.size ∧ (blob l ffi).align = max l.align 1 := by
  obtain ⟨A, hA⟩ : ∃ A, max l.align 1 = A := ⟨_, rfl⟩
  have hA3 : A ≠ 3 := by omega
  have hA1 : 1 ≤ A := by omega
  simp only [blob, hA] at *
  by_cases h4 : A ≤ 4
  · have hk : knownTypeForSize A = some A := by
      unfold knownTypeForSize
      have : A = 1 ∨ A = 2 ∨ A = 4 := by omega
      rcases this with h | h | h <;> simp [h]
    simp only [h4, if_true, hk]
    have hmul : A * (l.size / A) = l.size := by
      have := Nat.div_add_mod l.size A; omega
    split
    · rename_i h1; simp only [BlobTy.size, BlobTy.align]; rw [h1, Nat.mul_one] at hmul; exact ⟨hmul, trivial⟩
    · split <;> simp [BlobTy.size, BlobTy.align, hmul]
  · simp only [h4, if_false, BlobTy.size, BlobTy.align]
    exact ⟨alignTo_of_mod_eq_zero _ _ hdvd, trivial⟩

/-- what the aligned wrapper does to a size that is not a multiple of the alignment: it grows -/
theorem blob_inexact_grows (l : Layout) (ffi : Bool) (h : 4 < l.align) (hnd : l.size % l.align ≠ 0) :
    l.size < (blob l ffi).size := by
  unfold blob
  have hA : max l.align 1 = l.align := by omega
  rw [hA]
  have h4 : ¬ l.align ≤ 4 := by omega
  simp only [h4, if_false, BlobTy.size]
  unfold alignTo
  rw [if_neg (by omega), if_neg hnd]
  have : l.size % l.align < l.align := Nat.mod_lt _ (by omega)
  omega

/-- concrete witness: the padding in front of an `__int128` member after an `int` -/
theorem blob_inexact_witness : (blob { size := 12, align := 8 } false).size = 16 := by decide

/-! ### `forSize` -/

theorem forSizeLoop_pos (fuel ptr size next : Nat) (h : 0 < next) : 0 < forSizeLoop fuel ptr size next := by
  induction fuel generalizing next with
  | zero => simpa [forSizeLoop]
  | succ n ih =>
    unfold forSizeLoop
    split
    · exact ih _ (by omega)
    · exact h

/-- the loop only ever stops at a value whose half divides `size` (when it started that way) -/
theorem forSizeLoop_dvd (fuel ptr size next : Nat) (h : size % (next / 2) = 0) (hn : next % 2 = 0) :
    size % (forSizeLoop fuel ptr size next / 2) = 0 ∧ forSizeLoop fuel ptr size next % 2 = 0 := by
  induction fuel generalizing next with
  | zero => simpa [forSizeLoop] using ⟨h, hn⟩
  | succ n ih =>
    unfold forSizeLoop
    split
    · rename_i hc
      apply ih
      · have : next * 2 / 2 = next := by omega
        rw [this]; exact hc.1
      · omega
    · exact ⟨h, hn⟩

/-- `Layout::for_size` always returns an alignment that divides the size -/
theorem forSize_dvd (ptr size : Nat) : size % (forSize ptr size).align = 0 ∧ (forSize ptr size).size = size := by
  unfold forSize
  refine ⟨?_, rfl⟩
  exact (forSizeLoop_dvd (ptr + 1) ptr size 2 (by simp [Nat.mod_one]) (by decide)).1

end BindgenModel.Layout
