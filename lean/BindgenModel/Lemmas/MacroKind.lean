import BindgenModel.Model.MacroKind
/-! Lemmas for the generic ladder theorem: a threshold ladder is constant between cut points,
so checking the candidate points decides it on the whole i64 range. -/
namespace BindgenModel.MacroKind
open BindgenModel.Generated

theorem mem_candidates {K : List Int} {c : Int} :
    c ∈ candidates K ↔ c = i64Min ∨ c = i64Max ∨ ∃ k ∈ K, c = k - 1 ∨ c = k := by
  simp only [candidates, List.mem_cons, List.mem_flatMap, List.not_mem_nil, or_false]

/-- every in-range value is bracketed by two candidate points with the same cut valuation -/
theorem bracket (K : List Int) (v : Int) (h1 : i64Min ≤ v) (h2 : v ≤ i64Max) :
    ∃ a z, a ≤ v ∧ v ≤ z ∧ i64Min ≤ a ∧ z ≤ i64Max ∧ a ∈ candidates K ∧ z ∈ candidates K ∧
      ∀ k ∈ K, ((k ≤ a ↔ k ≤ v) ∧ (k ≤ z ↔ k ≤ v)) := by
  induction K with
  | nil =>
    exact ⟨i64Min, i64Max, h1, h2, Int.le_refl _, Int.le_refl _,
      mem_candidates.2 (Or.inl rfl), mem_candidates.2 (Or.inr (Or.inl rfl)), by simp⟩
  | cons k K ih =>
    obtain ⟨a, z, ha, hz, hamin, hzmax, hac, hzc, hk⟩ := ih
    have lift : ∀ c, c ∈ candidates K → c ∈ candidates (k :: K) := by
      intro c hc
      rcases mem_candidates.1 hc with h | h | ⟨k', hk', h⟩
      · exact mem_candidates.2 (Or.inl h)
      · exact mem_candidates.2 (Or.inr (Or.inl h))
      · exact mem_candidates.2 (Or.inr (Or.inr ⟨k', List.mem_cons_of_mem _ hk', h⟩))
    by_cases hkv : k ≤ v
    · by_cases hka : k ≤ a
      · refine ⟨a, z, ha, hz, hamin, hzmax, lift a hac, lift z hzc, ?_⟩
        intro k' hk'
        rcases List.mem_cons.1 hk' with rfl | hk'
        · constructor <;> constructor <;> intro _ <;> omega
        · exact hk k' hk'
      · refine ⟨k, z, hkv, hz, by omega, hzmax,
          mem_candidates.2 (Or.inr (Or.inr ⟨k, List.mem_cons_self, Or.inr rfl⟩)), lift z hzc, ?_⟩
        intro k' hk'
        rcases List.mem_cons.1 hk' with rfl | hk'
        · constructor <;> constructor <;> intro _ <;> omega
        · have := hk k' hk'
          constructor <;> constructor <;> intro _ <;> omega
    · by_cases hkz : z < k
      · refine ⟨a, z, ha, hz, hamin, hzmax, lift a hac, lift z hzc, ?_⟩
        intro k' hk'
        rcases List.mem_cons.1 hk' with rfl | hk'
        · constructor <;> constructor <;> intro _ <;> omega
        · exact hk k' hk'
      · refine ⟨a, k - 1, ha, by omega, hamin, by omega, lift a hac,
          mem_candidates.2 (Or.inr (Or.inr ⟨k, List.mem_cons_self, Or.inl rfl⟩)), ?_⟩
        intro k' hk'
        rcases List.mem_cons.1 hk' with rfl | hk'
        · constructor <;> constructor <;> intro _ <;> omega
        · have := hk k' hk'
          constructor <;> constructor <;> intro _ <;> omega

theorem all_congr' {α} (l : List α) (f g : α → Bool) (h : ∀ x ∈ l, f x = g x) : l.all f = l.all g := by
  induction l with
  | nil => rfl
  | cons x xs ih =>
    simp only [List.all_cons, h x List.mem_cons_self, ih fun y hy => h y (List.mem_cons_of_mem _ hy)]

theorem any_congr' {α} (l : List α) (f g : α → Bool) (h : ∀ x ∈ l, f x = g x) : l.any f = l.any g := by
  induction l with
  | nil => rfl
  | cons x xs ih =>
    simp only [List.any_cons, h x List.mem_cons_self, ih fun y hy => h y (List.mem_cons_of_mem _ hy)]

/-- an atom has the same truth value at two points that agree on its cuts -/
theorem atomHolds_congr (o : MOpts) (t : MAtom) (a v : Int)
    (h : ∀ k ∈ atomCuts t, (k ≤ a ↔ k ≤ v)) : atomHolds o a t = atomHolds o v t := by
  cases t with
  | valLt b =>
    have := h b (by simp [atomCuts])
    simp only [atomHolds, decide_eq_decide]; omega
  | valGt b =>
    have := h (b + 1) (by simp [atomCuts])
    simp only [atomHolds, decide_eq_decide]; omega
  | optSigned => rfl
  | optNotFit => rfl

theorem evalRows_congr (o : MOpts) (rows : List MRow) (a v : Int)
    (h : ∀ k ∈ rowsCuts rows, (k ≤ a ↔ k ≤ v)) : evalRows o a rows = evalRows o v rows := by
  induction rows with
  | nil => rfl
  | cons r rs ih =>
    have hr : condHolds o a r.cond = condHolds o v r.cond := by
      unfold condHolds
      apply all_congr'
      intro c hc
      unfold clauseHolds
      apply any_congr'
      intro t ht
      apply atomHolds_congr
      intro k hk
      apply h
      simp only [rowsCuts, List.flatMap_cons, List.mem_append, List.mem_flatMap]
      exact Or.inl ⟨c, hc, t, ht, hk⟩
    have hrs : evalRows o a rs = evalRows o v rs := by
      apply ih
      intro k hk
      apply h
      simp only [rowsCuts, List.flatMap_cons, List.mem_append]
      exact Or.inr hk
    simp only [evalRows, hr, hrs]

theorem mem_allOpts (o : MOpts) : o ∈ allOpts := by
  rcases o with ⟨s, f⟩
  cases s <;> cases f <;> simp [allOpts]

end BindgenModel.MacroKind
