import BindgenModel.Model.BitfieldUnit
/-! Helper lemmas for C03 (bit-extensional reasoning about the gather/store loops). -/
namespace BindgenModel.BitfieldUnit

theorem bitAt_split (s : List Byte) (start k r : Nat) (hr : r < 8) :
    bitAt s (8 * start + (8 * k + r)) = (s.getD (start + k) 0).getLsbD r := by
  unfold bitAt
  have h1 : (8 * start + (8 * k + r)) / 8 = start + k := by omega
  have h2 : (8 * start + (8 * k + r)) % 8 = r := by omega
  rw [h1, h2]

theorem gather_bit (W : Nat) (s : List Byte) (start : Nat) :
    ∀ k, 8 * k ≤ W → ∀ i, i < W →
      (gather W s start k).getLsbD i = (decide (i < 8 * k) && bitAt s (8 * start + i)) := by
  intro k
  induction k with
  | zero => intro _ i _; simp [gather]
  | succ k ih =>
    intro hk i hi
    have hk' : 8 * k ≤ W := by omega
    have hmod : k * 8 % W = k * 8 := Nat.mod_eq_of_lt (by omega)
    simp only [gather, shlW, hmod, BitVec.getLsbD_or, ih hk' i hi, BitVec.getLsbD_shiftLeft,
      BitVec.getLsbD_setWidth]
    by_cases h1 : i < 8 * k
    · have : i < k * 8 := by omega
      have h3 : i < 8 * (k + 1) := by omega
      simp [h1, this, h3]
    · by_cases h2 : i < 8 * (k + 1)
      · have hnk : ¬ i < k * 8 := by omega
        have hr : i - k * 8 < 8 := by omega
        have e : i = 8 * k + (i - k * 8) := by omega
        have := bitAt_split s start k (i - k * 8) hr
        rw [← e] at this
        simp [h1, h2, hi, hnk, this]
        intro _; omega
      · have hnk : ¬ i < k * 8 := by omega
        have hr : 8 ≤ i - k * 8 := by omega
        have := BitVec.getLsbD_of_ge (s.getD (start + k) 0) (i - k * 8) hr
        simp [h1, h2, hnk]
        intro _ _; simpa using this

end BindgenModel.BitfieldUnit

namespace BindgenModel.BitfieldUnit

theorem one_shl_sub_one (W w : Nat) (h : w < W) :
    (1#W <<< w) - 1#W = BitVec.ofNat W (2 ^ w - 1) := by
  apply BitVec.eq_of_toNat_eq
  have hW : 0 < W := by omega
  have h2 : 2 ^ w < 2 ^ W := Nat.pow_lt_pow_right (by omega) h
  have h1 : 1 ≤ 2 ^ w := Nat.one_le_two_pow
  have h3 : 1 < 2 ^ W := by omega
  simp only [BitVec.toNat_sub, BitVec.toNat_shiftLeft, BitVec.toNat_ofNat, Nat.shiftLeft_eq,
    Nat.one_mul, Nat.mod_eq_of_lt h2, Nat.mod_eq_of_lt h3]
  have : 2 ^ W - 1 + 2 ^ w = 2 ^ W + (2 ^ w - 1) := by omega
  rw [this, Nat.add_mod_left, Nat.mod_eq_of_lt (by omega)]

theorem lowMask_bit (W w i : Nat) (hi : i < W) : (lowMask W w).getLsbD i = decide (i < w) := by
  unfold lowMask
  split
  · rename_i h
    rw [one_shl_sub_one W w h]
    rw [BitVec.getLsbD_ofNat, Nat.testBit_two_pow_sub_one]
    simp [hi]
  · rename_i h
    have : i < w := by omega
    simp [hi, this]

theorem getW_bit (W : Nat) (hW : W % 8 = 0) (s : List Byte) (off w : Nat)
    (hfit : w + off % 8 ≤ W) (i : Nat) (hi : i < W) :
    (getW W s off w).getLsbD i = (decide (i < w) && bitAt s (off + i)) := by
  unfold getW
  split
  · rename_i h; subst h; simp
  · rename_i hw
    simp only [BitVec.getLsbD_and, BitVec.getLsbD_ushiftRight, lowMask_bit W w i hi]
    by_cases hiw : i < w
    · have h8 : 8 * ((w + off % 8 + 7) / 8) ≤ W := by omega
      have hlt : off % 8 + i < W := by omega
      rw [gather_bit W s (off / 8) _ h8 _ hlt]
      have hlt2 : off % 8 + i < 8 * ((w + off % 8 + 7) / 8) := by omega
      have e : 8 * (off / 8) + (off % 8 + i) = off + i := by omega
      simp [hiw, hlt2, e]
    · simp [hiw]

end BindgenModel.BitfieldUnit

namespace BindgenModel.BitfieldUnit

theorem store_length {W : Nat} (s : List Byte) (start : Nat) (val mask : BitVec W) (k : Nat) :
    (store s start val mask k).length = s.length := by
  induction k with
  | zero => rfl
  | succ k ih => simp [store, ih]

/-- byte `b` after the store loop -/
theorem store_getD {W : Nat} (s : List Byte) (start : Nat) (val mask : BitVec W) (k : Nat)
    (hin : start + k ≤ s.length) (b : Nat) :
    (store s start val mask k).getD b 0 =
      if start ≤ b ∧ b < start + k then
        (s.getD b 0 &&& ~~~((shrW mask ((b - start) * 8)).setWidth 8)) |||
          ((shrW val ((b - start) * 8)).setWidth 8 &&& (shrW mask ((b - start) * 8)).setWidth 8)
      else s.getD b 0 := by
  induction k with
  | zero =>
    have : ¬ (start ≤ b ∧ b < start + 0) := by omega
    simp only [store]
    rw [if_neg this]
  | succ k ih =>
    have ih := ih (by omega)
    simp only [store]
    have hlen := store_length s start val mask k
    by_cases hb : start + k = b
    · have h1 : start + k < (store s start val mask k).length := by omega
      have e : b - start = k := by omega
      have hc : ¬ (start ≤ b ∧ b < start + k) := by omega
      have hc' : start ≤ b ∧ b < start + (k + 1) := by omega
      rw [if_neg hc] at ih
      rw [if_pos hc', e]
      simp only [List.getD_eq_getElem?_getD] at ih ⊢
      rw [List.getElem?_set, if_pos hb, if_pos h1]
      rw [hb, ih]
      rfl
    · simp only [List.getD_eq_getElem?_getD] at ih ⊢
      rw [List.getElem?_set_ne hb, ih]
      by_cases h2 : start ≤ b ∧ b < start + k
      · have : start ≤ b ∧ b < start + (k + 1) := by omega
        simp [h2, this]
      · have : ¬ (start ≤ b ∧ b < start + (k + 1)) := by omega
        simp [h2, this]

end BindgenModel.BitfieldUnit

namespace BindgenModel.BitfieldUnit

/-- bit `i` of the field mask built by `set` -/
theorem fieldMask_bit (W w shift i : Nat) (hfit : w + shift ≤ W) (hi : i < W) :
    ((if w + shift ≥ W then (BitVec.allOnes W) <<< shift
      else ((1#W <<< w) - 1#W) <<< shift : BitVec W)).getLsbD i
      = decide (shift ≤ i ∧ i < shift + w) := by
  split
  · rename_i h
    have : w + shift = W := by omega
    simp only [BitVec.getLsbD_shiftLeft, hi, decide_true, Bool.true_and]
    by_cases h1 : i < shift
    · simp [h1]; omega
    · have h2 : i - shift < W := by omega
      have h3 : shift ≤ i ∧ i < shift + w := by omega
      simp [h1, h2, h3]
  · rename_i h
    have hw : w < W := by omega
    rw [one_shl_sub_one W w hw]
    simp only [BitVec.getLsbD_shiftLeft, hi, decide_true, Bool.true_and, BitVec.getLsbD_ofNat,
      Nat.testBit_two_pow_sub_one]
    by_cases h1 : i < shift
    · simp [h1]; omega
    · have h2 : i - shift < W := by omega
      by_cases h3 : i - shift < w
      · have : shift ≤ i ∧ i < shift + w := by omega
        simp [h1, h2, h3, this]
      · have : ¬ (shift ≤ i ∧ i < shift + w) := by omega
        simp [h1, h3, this]

theorem setW_length (W : Nat) (s : List Byte) (off w : Nat) (v : BitVec W) :
    (setW W s off w v).length = s.length := by
  unfold setW; split
  · rfl
  · exact store_length _ _ _ _ _

/-- `set` writes exactly the field's bits and leaves every other bit unchanged. -/
theorem setW_bit (W : Nat) (hW : W % 8 = 0) (s : List Byte) (off w : Nat) (v : BitVec W)
    (hfit : w + off % 8 ≤ W) (hin : (off + w + 7) / 8 ≤ s.length) (j : Nat) :
    bitAt (setW W s off w v) j =
      if off ≤ j ∧ j < off + w then v.getLsbD (j - off) else bitAt s j := by
  unfold setW
  split
  · rename_i h; subst h
    have : ¬ (off ≤ j ∧ j < off + 0) := by omega
    rw [if_neg this]
  · rename_i hw
    have hneed : off / 8 + (w + off % 8 + 7) / 8 ≤ s.length := by omega
    unfold bitAt
    rw [store_getD _ _ _ _ _ hneed]
    have h8 : 8 * ((w + off % 8 + 7) / 8) ≤ W := by omega
    have hr : j % 8 < 8 := Nat.mod_lt _ (by omega)
    by_cases hb : off / 8 ≤ j / 8 ∧ j / 8 < off / 8 + (w + off % 8 + 7) / 8
    · rw [if_pos hb]
      have hidx : (j / 8 - off / 8) * 8 < W := by omega
      have hidx2 : (j / 8 - off / 8) * 8 + j % 8 < W := by omega
      have hmod : (j / 8 - off / 8) * 8 % W = (j / 8 - off / 8) * 8 := Nat.mod_eq_of_lt hidx
      have e1 : (j / 8 - off / 8) * 8 + j % 8 = j - 8 * (off / 8) := by omega
      simp only [BitVec.getLsbD_or, BitVec.getLsbD_and, BitVec.getLsbD_not, BitVec.getLsbD_setWidth,
        shrW, hmod, BitVec.getLsbD_ushiftRight, hr, decide_true, Bool.true_and]
      rw [fieldMask_bit W w (off % 8) _ hfit hidx2]
      simp only [BitVec.getLsbD_shiftLeft, BitVec.getLsbD_and, hidx2, decide_true, Bool.true_and]
      by_cases hj : off ≤ j ∧ j < off + w
      · have m1 : off % 8 ≤ (j / 8 - off / 8) * 8 + j % 8 ∧
            (j / 8 - off / 8) * 8 + j % 8 < off % 8 + w := by omega
        have m2 : ¬ ((j / 8 - off / 8) * 8 + j % 8 < off % 8) := by omega
        have e2 : (j / 8 - off / 8) * 8 + j % 8 - off % 8 = j - off := by omega
        have hlt : j - off < W := by omega
        rw [if_pos hj]
        simp [m1, m2, e2, lowMask_bit W w (j - off) hlt, hj.2]
        omega
      · have m1 : ¬ (off % 8 ≤ (j / 8 - off / 8) * 8 + j % 8 ∧
            (j / 8 - off / 8) * 8 + j % 8 < off % 8 + w) := by omega
        rw [if_neg hj]
        simp [m1]
    · rw [if_neg hb]
      have hj : ¬ (off ≤ j ∧ j < off + w) := by omega
      rw [if_neg hj]

end BindgenModel.BitfieldUnit
