import BindgenModel.Model.Analyses
import BindgenModel.Lemmas.Worklist
/-! Lattice facts about the three-point chain and the normal-form rules. -/
namespace BindgenModel.Analyses
open BindgenModel.Worklist

theorem vmax_le_iff (a b c : V) : vmax a b ≤ c ↔ a ≤ c ∧ b ≤ c := by
  unfold vmax; split <;> simp only [Fin.le_def] at * <;> omega

theorem le_vmax_left (a b : V) : a ≤ vmax a b := by
  unfold vmax; split <;> simp only [Fin.le_def] at * <;> omega

theorem le_vmax_right (a b : V) : b ≤ vmax a b := by
  unfold vmax; split <;> simp only [Fin.le_def] at * <;> omega

theorem foldl_vmax_le (l : List V) (init b : V) :
    l.foldl vmax init ≤ b ↔ init ≤ b ∧ ∀ x ∈ l, x ≤ b := by
  induction l generalizing init with
  | nil => simp
  | cons y ys ih =>
    simp only [List.foldl_cons, ih, vmax_le_iff, List.mem_cons, forall_eq_or_imp]
    constructor
    · rintro ⟨⟨h1, h2⟩, h3⟩; exact ⟨h1, h2, h3⟩
    · rintro ⟨h1, h2, h3⟩; exact ⟨⟨h1, h2⟩, h3⟩

theorem joinList_le (l : List V) (b : V) : joinList l ≤ b ↔ ∀ x ∈ l, x ≤ b := by
  unfold joinList
  rw [foldl_vmax_le]
  constructor
  · exact fun h => h.2
  · exact fun h => ⟨Fin.zero_le _, h⟩

theorem le_joinList (l : List V) (x : V) (hx : x ∈ l) : x ≤ joinList l :=
  (joinList_le l (joinList l)).mp (Fin.le_refl _) x hx

theorem joinList_map_mono (cs : List Nat) (s s' : Nat → V) (h : ∀ c ∈ cs, s c ≤ s' c) :
    joinList (cs.map s) ≤ joinList (cs.map s') := by
  rw [joinList_le]
  intro x hx
  obtain ⟨c, hc, rfl⟩ := List.mem_map.mp hx
  exact Fin.le_trans (h c hc) (le_joinList _ _ (List.mem_map.mpr ⟨c, hc, rfl⟩))

theorem all_congr_mem {α : Type} (l : List α) (f g : α → Bool) (h : ∀ a ∈ l, f a = g a) :
    l.all f = l.all g := by
  induction l with
  | nil => rfl
  | cons x xs ih =>
    simp only [List.all_cons]
    rw [h x (by simp), ih (fun a ha => h a (by simp [ha]))]

theorem clauseVal_mono (c : List Nat) (s s' : Nat → V) (h : ∀ m, s m ≤ s' m) :
    clauseVal s c ≤ clauseVal s' c := by
  unfold clauseVal
  by_cases h1 : (c.all fun a => s a != 0) = true
  · have h2 : (c.all fun a => s' a != 0) = true := by
      simp only [List.all_eq_true, bne_iff_ne, ne_eq] at h1 ⊢
      intro a ha hz
      have := h a
      have h1a := h1 a ha
      rw [hz] at this
      exact h1a (Fin.le_antisymm this (Fin.zero_le _))
    simp [h1, h2]
  · simp only [h1]
    exact Fin.zero_le _

theorem eval_mono (r : NodeRule) (s s' : Nat → V) (h : ∀ m, s m ≤ s' m) : r.eval s ≤ r.eval s' := by
  unfold NodeRule.eval
  rw [vmax_le_iff, vmax_le_iff]
  refine ⟨⟨Fin.le_trans (le_vmax_left _ _) (le_vmax_left _ _), ?_⟩, ?_⟩
  · refine Fin.le_trans ?_ (Fin.le_trans (le_vmax_right _ _) (le_vmax_left _ _))
    rw [joinList_le]
    intro x hx
    obtain ⟨t, ht, rfl⟩ := List.mem_map.mp hx
    refine Fin.le_trans (t.fn.mono _ _ (joinList_map_mono t.children s s' fun c _ => h c)) ?_
    exact le_joinList _ _ (List.mem_map.mpr ⟨t, ht, rfl⟩)
  · refine Fin.le_trans ?_ (le_vmax_right _ _)
    rw [joinList_le]
    intro x hx
    obtain ⟨c, hc, rfl⟩ := List.mem_map.mp hx
    exact Fin.le_trans (clauseVal_mono c s s' h) (le_joinList _ _ (List.mem_map.mpr ⟨c, hc, rfl⟩))

theorem eval_reads_only (r : NodeRule) (s s' : Nat → V) (h : ∀ m ∈ r.reads, s m = s' m) :
    r.eval s = r.eval s' := by
  unfold NodeRule.eval
  have h1 : (r.terms.map fun t => t.fn.f (joinList (t.children.map s))) =
      (r.terms.map fun t => t.fn.f (joinList (t.children.map s'))) := by
    apply List.map_congr_left
    intro t ht
    congr 2
    apply List.map_congr_left
    intro c hc
    exact h c (by unfold NodeRule.reads; exact List.mem_append_left _ (List.mem_flatMap.mpr ⟨t, ht, hc⟩))
  have h2 : r.conj.map (clauseVal s) = r.conj.map (clauseVal s') := by
    apply List.map_congr_left
    intro c hc
    unfold clauseVal
    have : (c.all fun a => s a != 0) = (c.all fun a => s' a != 0) := by
      apply all_congr_mem
      intro a ha
      rw [h a (by unfold NodeRule.reads; exact List.mem_append_right _ (List.mem_flatMap.mpr ⟨c, hc, ha⟩))]
    rw [this]
  rw [h1, h2]

end BindgenModel.Analyses
