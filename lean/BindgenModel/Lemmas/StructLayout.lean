import BindgenModel.Lemmas.Layout
import BindgenModel.Model.LayoutRegions
/-!
# Layer 2 of C02: the plain-struct theorem

Induction over the field list with an invariant relating the `StructLayoutTracker` state to the
running state of the `repr(C)` placement (`placeFields`).
-/
namespace BindgenModel.C02
open BindgenModel.Layout BindgenModel.StructLayout BindgenModel.CompCodegen

theorem padInexact_force (o : Opts) (c : CAgg) (hf : o.forcePadding = true) : padInexact o c = false := by
  sorry

theorem plain_struct (o : Opts) (c : CAgg) (h : ClangPlain c = true) (hp : padInexact o c = false) :
    ∃ r l, emit o c = some r ∧ reprC r = some l ∧
      (∀ cl, c.layout = some cl → l.size = cl.size ∧ l.align = cl.align) ∧
      l.userOffsets = cOffsets 0 c.fields := by
  sorry

theorem explicit_padding_irrelevant (o : Opts) (c : CAgg) (h : ClangPlain c = true)
    (hp : padInexact { o with forcePadding := false } c = false) :
    ∃ r₁ l₁ r₂ l₂, emit { o with forcePadding := true } c = some r₁ ∧ reprC r₁ = some l₁ ∧
      emit { o with forcePadding := false } c = some r₂ ∧ reprC r₂ = some l₂ ∧
      l₁.size = l₂.size ∧ l₁.align = l₂.align ∧ l₁.userOffsets = l₂.userOffsets := by
  sorry

end BindgenModel.C02
