import BindgenModel.Lemmas.Layout
import BindgenModel.Model.LayoutRegions
/-!
# Layer 2 of C02: the plain-struct theorem

Induction over the field list with an invariant relating the `StructLayoutTracker` state to the
running state of the `repr(C)` placement (`placeFields`).
-/
namespace BindgenModel.C02
open BindgenModel.Layout BindgenModel.StructLayout BindgenModel.CompCodegen

/-! ### the excluded region is empty under `--explicit-padding` -/

theorem padInexactFrom_force (cur : Nat) (fs : List CField) : padInexactFrom true cur fs = false := by
  induction fs generalizing cur with
  | nil => rfl
  | cons f fs ih =>
    cases f with
    | unit n l => simpa [padInexactFrom] using ih cur
    | data ty off =>
      cases off with
      | none => simpa [padInexactFrom] using ih cur
      | some off =>
        unfold padInexactFrom
        split
        · simp [ih]
        · exact ih cur

theorem padInexact_force (o : Opts) (c : CAgg) (hf : o.forcePadding = true) : padInexact o c = false := by
  unfold padInexact
  rw [hf]
  exact padInexactFrom_force 0 c.fields

/-! ### tracker invariant -/

/-- the state of the tracker between two plain data members, `cur` = running end offset -/
structure Inv (t : Tracker) (force : Bool) (cur : Nat) : Prop where
  np : t.isPacked = false
  nu : t.compIsUnion = false
  nru : t.isRustUnion = false
  nfa : t.lastFieldWasFlexibleArray = false
  fp : t.forcePadding = force
  nb : t.lastFieldWasBitfield = false
  off : t.latestOffset = cur
  al : ∀ pl, t.latestFieldLayout = some pl → alignTo cur pl.align = cur

theorem alignToLatestField_noop {t : Tracker} {force : Bool} {cur : Nat} (h : Inv t force cur) (new : Layout) :
    t.alignToLatestField new = (t, false) := by
  obtain ⟨np, nu, nru, nfa, fp, nb, off, al⟩ := h
  unfold Tracker.alignToLatestField
  rw [np]
  simp only [Bool.false_eq_true, if_false]
  split
  · rfl
  · rename_i l hl
    have := al l hl
    simp only [nb, Bool.false_eq_true, false_and, if_false, Tracker.paddingBytes, off, this, Nat.sub_self,
      Nat.add_zero]
    cases t
    simp_all

theorem sawField_eq_withLayout (t : Tracker) (ty : FieldTy) (fl : Layout) (off : Option Nat)
    (hl : ty.layout = some fl) (hh : arrayHackInactive ty = true) :
    t.sawField ty off = t.sawFieldWithLayout fl off := by
  unfold Tracker.sawField
  rw [hl]
  simp only
  unfold arrayHackInactive at hh
  split
  · rename_i el len he
    rw [he] at hh
    simp only [decide_eq_true_eq] at hh
    rw [if_neg (by omega)]
  · rfl

/-- the tracker after a plain member, before a possible padding field is counted -/
def afterField (t : Tracker) (fl : Layout) (O : Nat) : Tracker :=
  { t with latestOffset := O + fl.size, latestFieldLayout := some fl,
           maxFieldAlign := max t.maxFieldAlign fl.align, lastFieldWasBitfield := false }

theorem sawFieldWithLayout_plain {t : Tracker} {force : Bool} {cur : Nat} (h : Inv t force cur)
    (fl : Layout) (off : Nat)
    (ha : fl.align = 1 ∨ fl.align = 2 ∨ fl.align = 4 ∨ fl.align = 8)
    (hO : (off / 8) % fl.align = 0) (hc : cur ≤ off / 8) :
    t.sawFieldWithLayout fl (some off) =
      if (force = true ∨ off / 8 - cur ≥ fl.align) ∧ off / 8 - cur ≠ 0 then
        ({ afterField t fl (off / 8) with
             paddingCount := t.paddingCount + 1,
             maxFieldAlign := max (max t.maxFieldAlign fl.align) (if force then 1 else fl.align) },
         some { idx := t.paddingCount,
                layout := { size := off / 8 - cur, align := if force then 1 else fl.align } })
      else (afterField t fl (off / 8), none) := by
  have hnoop := alignToLatestField_noop h fl
  obtain ⟨np, nu, nru, nfa, fp, nb, hoff, al⟩ := h
  unfold Tracker.sawFieldWithLayout
  rw [hnoop]
  simp only [nu, np, fp, hoff, Bool.false_eq_true, false_or, or_false, Bool.not_false, if_true, if_false]
  have hpb : (if off / 8 > cur then off / 8 - cur else if fl.align = 0 then 0 else t.paddingBytes fl)
      = off / 8 - cur := by
    split
    · rfl
    · have he : off / 8 = cur := by omega
      rw [if_neg (by omega)]
      unfold Tracker.paddingBytes
      rw [hoff, alignTo_of_mod_eq_zero _ _ (he ▸ hO)]
      omega
  have hmin : min fl.align maxGuaranteedAlign = fl.align := by
    unfold maxGuaranteedAlign; omega
  have hgt : ¬ fl.align > maxGuaranteedAlign := by
    unfold maxGuaranteedAlign; omega
  simp only [hpb, hmin, hgt, or_false]
  have hadd : cur + (off / 8 - cur) = off / 8 := by omega
  rw [hadd]
  by_cases hcond : (force = true ∨ off / 8 - cur ≥ fl.align) ∧ off / 8 - cur ≠ 0
  · rw [if_pos hcond, if_pos hcond]
    cases t
    simp only at np nu fp hoff
    subst np nu fp hoff
    simp [afterField, Tracker.paddingField]
  · rw [if_neg hcond, if_neg hcond]
    cases t
    simp only at np nu fp hoff
    subst np nu fp hoff
    simp [afterField]

theorem Inv.afterField {t : Tracker} {force : Bool} {cur : Nat} (h : Inv t force cur) (fl : Layout) (O : Nat)
    (hO : O % fl.align = 0) (hs : fl.size % fl.align = 0) :
    Inv (afterField t fl O) force (O + fl.size) := by
  refine ⟨h.np, h.nu, h.nru, h.nfa, h.fp, rfl, rfl, ?_⟩
  intro pl hpl
  simp only [C02.afterField, Option.some.injEq] at hpl
  subst hpl
  apply alignTo_of_mod_eq_zero
  rw [Nat.add_mod, hO, hs]
  simp

theorem Inv.setCount {t : Tracker} {force : Bool} {cur : Nat} (h : Inv t force cur) (k m : Nat) :
    Inv { t with paddingCount := k, maxFieldAlign := m } force cur :=
  ⟨h.np, h.nu, h.nru, h.nfa, h.fp, h.nb, h.off, h.al⟩

/-! ### the `repr(C)` side -/

/-- `RLayout.userOffsets` on a bare offset list -/
def uo (offs : List (FName × Nat)) : List (Nat × Nat) :=
  offs.filterMap fun (n, o) => match n with | .user i => some (i, o) | _ => none

theorem userOffsets_eq (l : RLayout) : l.userOffsets = uo l.offsets := rfl

theorem uo_cons_user (i o : Nat) (r : List (FName × Nat)) : uo ((.user i, o) :: r) = (i, o) :: uo r := rfl

theorem uo_cons_padding (k o : Nat) (r : List (FName × Nat)) : uo ((.padding k, o) :: r) = uo r := rfl

theorem uo_append (a b : List (FName × Nat)) : uo (a ++ b) = uo a ++ uo b := by
  simp [uo, List.filterMap_append]

theorem placeFields_cons (cur ma : Nat) (f : RField) (fs : List RField) :
    placeFields none cur ma (f :: fs) =
      ((f.name, alignTo cur f.align) :: (placeFields none (alignTo cur f.align + f.size) (max ma f.align) fs).1,
       (placeFields none (alignTo cur f.align + f.size) (max ma f.align) fs).2) := by
  simp [placeFields, effAlign]

theorem placeFields_nil (cur ma : Nat) : placeFields none cur ma [] = ([], cur, ma) := rfl

theorem placeFields_append (xs ys : List RField) (cur ma : Nat) :
    placeFields none cur ma (xs ++ ys) =
      ((placeFields none cur ma xs).1 ++
          (placeFields none (placeFields none cur ma xs).2.1 (placeFields none cur ma xs).2.2 ys).1,
       (placeFields none (placeFields none cur ma xs).2.1 (placeFields none cur ma xs).2.2 ys).2) := by
  induction xs generalizing cur ma with
  | nil => simp [placeFields]
  | cons x xs ih =>
    rw [List.cons_append, placeFields_cons, placeFields_cons, ih]
    simp

/-! ### padding blobs -/

theorem blob_small (l : Layout) (ffi : Bool) (h : l.align = 1 ∨ l.align = 2 ∨ l.align = 4) :
    (blob l ffi).size = l.align * (l.size / l.align) ∧ (blob l ffi).align = l.align ∧
      blob l ffi ≠ .panic := by
  have hA : max l.align 1 = l.align := by omega
  have h4 : l.align ≤ 4 := by omega
  have hk : knownTypeForSize l.align = some l.align := by
    unfold knownTypeForSize
    rcases h with h | h | h <;> simp [h]
  simp only [blob, hA, h4, if_true, hk]
  split
  · rename_i h1
    simp [BlobTy.size, BlobTy.align, h1]
  · split <;> simp [BlobTy.size, BlobTy.align]

theorem blob_big (l : Layout) (ffi : Bool) (h : 4 < l.align) : blob l ffi = .opaqueA l.align l.size := by
  have hA : max l.align 1 = l.align := by omega
  have h4 : ¬ l.align ≤ 4 := by omega
  simp only [blob, hA, h4, if_false]

/-- a padding field in front of a plain member ends exactly where the member starts -/
theorem pad_place (force : Bool) (a cur O : Nat) (ha : a = 1 ∨ a = 2 ∨ a = 4 ∨ a = 8)
    (hO : O % a = 0) (hc : cur ≤ O) (hcond : force = true ∨ O - cur ≥ a)
    (hex : force = false → a = 8 → (O - cur) % 8 = 0) :
    blob { size := O - cur, align := if force then 1 else a } false ≠ .panic ∧
    (blob { size := O - cur, align := if force then 1 else a } false).align = (if force then 1 else a) ∧
    alignTo cur (blob { size := O - cur, align := if force then 1 else a } false).align +
      (blob { size := O - cur, align := if force then 1 else a } false).size = O := by
  cases force with
  | true =>
    simp only [if_true]
    obtain ⟨h1, h2, h3⟩ := blob_small { size := O - cur, align := 1 } false (Or.inl rfl)
    simp only at h1 h2
    refine ⟨h3, h2, ?_⟩
    rw [h1, h2, alignTo_of_mod_eq_zero _ _ (Nat.mod_one _)]
    omega
  | false =>
    simp only [Bool.false_eq_true, if_false, false_or, forall_const] at *
    rcases ha with ha | ha | ha | ha
    · subst ha
      obtain ⟨h1, h2, h3⟩ := blob_small { size := O - cur, align := 1 } false (by simp)
      simp only at h1 h2
      refine ⟨h3, h2, ?_⟩
      rw [h1, h2, alignTo_of_mod_eq_zero _ _ (Nat.mod_one _)]
      omega
    · subst ha
      obtain ⟨h1, h2, h3⟩ := blob_small { size := O - cur, align := 2 } false (by simp)
      simp only at h1 h2
      refine ⟨h3, h2, ?_⟩
      rw [h1, h2]
      simp only [alignTo]
      split
      · omega
      · split <;> omega
    · subst ha
      obtain ⟨h1, h2, h3⟩ := blob_small { size := O - cur, align := 4 } false (by simp)
      simp only at h1 h2
      refine ⟨h3, h2, ?_⟩
      rw [h1, h2]
      simp only [alignTo]
      split
      · omega
      · split <;> omega
    · subst ha
      have hb := blob_big { size := O - cur, align := 8 } false (by simp)
      simp only at hb
      rw [hb]
      have := hex rfl
      refine ⟨by simp, rfl, ?_⟩
      simp only [BlobTy.align, BlobTy.size]
      rw [alignTo_of_mod_eq_zero _ _ this, alignTo_of_mod_eq_zero _ _ (by omega)]
      omega

/-! ### one plain member -/

/-- the padding field `Field::codegen` pushes in front of a member, if any -/
def padList (pad : Option Pad) : List RField :=
  match pad with
  | some p => [padField p]
  | none => []

theorem memberField_plain (idx : Nat) (ty : FieldTy) (fl : Layout) (hl : ty.layout = some fl)
    (ha : 1 ≤ fl.align) :
    memberField false idx ty = { name := .user idx, size := fl.size, align := fl.align, containsAlign := ty.containsAlign } := by
  have : max fl.align 1 = fl.align := by omega
  simp [memberField, hl, this]

theorem step {t : Tracker} {force : Bool} {cur : Nat} (h : Inv t force cur) (idx : Nat)
    (ty : FieldTy) (fl : Layout) (off : Nat)
    (hl : ty.layout = some fl) (hh : arrayHackInactive ty = true)
    (ha : fl.align = 1 ∨ fl.align = 2 ∨ fl.align = 4 ∨ fl.align = 8)
    (hs : fl.size % fl.align = 0) (hO : (off / 8) % fl.align = 0) (hc : cur ≤ off / 8)
    (hex : force = false → off / 8 - cur ≥ fl.align → fl.align = 8 → (off / 8 - cur) % 8 = 0) :
    ∃ t1 pad pre, t.sawField ty (some off) = (t1, pad) ∧ Inv t1 force (off / 8 + fl.size) ∧
      max 1 t1.maxFieldAlign = max (max 1 t.maxFieldAlign) fl.align ∧ 1 ≤ t1.maxFieldAlign ∧
      (padList pad).any (fun f => f.blob == some .panic) = false ∧
      uo pre = [] ∧
      placeFields none cur (max 1 t.maxFieldAlign)
        (padList pad ++ [memberField false idx ty]) =
        (pre ++ [(.user idx, off / 8)], off / 8 + fl.size, max 1 t1.maxFieldAlign) := by
  rw [sawField_eq_withLayout t ty fl _ hl hh, sawFieldWithLayout_plain h fl off ha hO hc,
    memberField_plain idx ty fl hl (by omega)]
  have hinv := h.afterField fl (off / 8) hO hs
  by_cases hcond : (force = true ∨ off / 8 - cur ≥ fl.align) ∧ off / 8 - cur ≠ 0
  · rw [if_pos hcond]
    obtain ⟨hb1, hb2, hb3⟩ := pad_place force fl.align cur (off / 8) ha hO hc hcond.1 (by
      intro hf h8
      rcases hcond.1 with h1 | h1
      · simp [hf] at h1
      · exact hex hf h1 h8)
    refine ⟨_, _, [(.padding t.paddingCount,
      alignTo cur (blob { size := off / 8 - cur, align := if force then 1 else fl.align } false).align)],
      rfl, hinv.setCount _ _, ?_, ?_, ?_, rfl, ?_⟩
    · simp only
      split <;> omega
    · simp only
      omega
    · simpa [padList, padField, blobField] using hb1
    · rw [hb2] at hb3
      simp only [padList, padField, blobField, List.cons_append, List.nil_append, placeFields_cons, placeFields_nil,
        hb2, hb3, alignTo_of_mod_eq_zero _ _ hO]
      have : max (max (max 1 t.maxFieldAlign) (if force = true then 1 else fl.align)) fl.align =
          max 1 (max (max t.maxFieldAlign fl.align) (if force = true then 1 else fl.align)) := by
        split <;> omega
      rw [this]
  · rw [if_neg hcond]
    refine ⟨_, _, [], rfl, hinv, ?_, ?_, rfl, rfl, ?_⟩
    · simp only [afterField]
      omega
    · simp only [afterField]
      omega
    · have hplace : alignTo cur fl.align = off / 8 := by
        apply alignTo_eq_of _ _ _ (by omega) hO hc
        cases force <;> simp at hcond <;> omega
      simp only [padList, List.nil_append, placeFields_cons, placeFields_nil, hplace, afterField]
      have : max (max 1 t.maxFieldAlign) fl.align = max 1 (max t.maxFieldAlign fl.align) := by omega
      rw [this]

/-! ### the field loop -/

theorem emitFields_plain (force : Bool) (B : Nat) :
    ∀ (fs : List CField) (idx : Nat) (t : Tracker) (cur : Nat), Inv t force cur →
      plainFieldsFrom cur fs = true → padInexactFrom force cur fs = false →
      fieldAlignsLe B fs = true → max 1 t.maxFieldAlign ≤ B →
      Inv (emitFields false idx t fs).1 force (plainEnd cur fs) ∧
      max 1 (emitFields false idx t fs).1.maxFieldAlign ≤ B ∧
      (fs ≠ [] → 1 ≤ (emitFields false idx t fs).1.maxFieldAlign) ∧
      (emitFields false idx t fs).2.any (fun f => f.blob == some .panic) = false ∧
      ∃ offs, placeFields none cur (max 1 t.maxFieldAlign) (emitFields false idx t fs).2 =
          (offs, plainEnd cur fs, max 1 (emitFields false idx t fs).1.maxFieldAlign) ∧
        uo offs = cOffsets idx fs := by
  intro fs
  induction fs with
  | nil =>
    intro idx t cur hinv _ _ _ hB
    simp only [emitFields, plainEnd, placeFields_nil, cOffsets]
    exact ⟨hinv, hB, by simp, by simp, [], rfl, rfl⟩
  | cons f fs ih =>
    intro idx t cur hinv hp hpi hle hB
    cases f with
    | unit n l => simp [plainFieldsFrom] at hp
    | data ty off =>
      cases off with
      | none => simp [plainFieldsFrom] at hp
      | some off =>
        cases hl : ty.layout with
        | none => simp [plainFieldsFrom, hl] at hp
        | some fl =>
          simp only [plainFieldsFrom, hl, Bool.and_eq_true, Bool.or_eq_true, beq_iff_eq,
            decide_eq_true_eq] at hp
          obtain ⟨⟨⟨⟨⟨⟨ha, hs⟩, _⟩, hO⟩, hc⟩, hh⟩, hp'⟩ := hp
          have ha' : fl.align = 1 ∨ fl.align = 2 ∨ fl.align = 4 ∨ fl.align = 8 := by omega
          simp only [padInexactFrom, hl, Bool.or_eq_false_iff] at hpi
          obtain ⟨hpi1, hpi'⟩ := hpi
          simp only [fieldAlignsLe, List.all_cons, CField.layout, hl, Bool.and_eq_true,
            decide_eq_true_eq] at hle
          obtain ⟨hle1, hle'⟩ := hle
          have hex : force = false → off / 8 - cur ≥ fl.align → fl.align = 8 → (off / 8 - cur) % 8 = 0 := by
            intro hf hge h8
            subst hf
            have hmin : min fl.align maxGuaranteedAlign = 8 := by simp [maxGuaranteedAlign, h8]
            simp only [hmin, Bool.not_false, Bool.true_and, Bool.and_eq_false_iff, Bool.or_eq_false_iff,
              decide_eq_false_iff_not] at hpi1
            omega
          obtain ⟨t1, pad, pre, hsaw, hinv1, hm1, hm1', hnp, hpre, hplace⟩ :=
            step hinv idx ty fl off hl hh ha' hs hO hc hex
          have he : emitFields false idx t (CField.data ty (some off) :: fs) =
              ((emitFields false (idx + 1) t1 fs).1,
               padList pad ++ memberField false idx ty :: (emitFields false (idx + 1) t1 fs).2) := by
            simp only [emitFields, hsaw]
            cases pad <;> rfl
          obtain ⟨ih1, ih2, ih3, ih4, offs, ih5, ih6⟩ :=
            ih (idx + 1) t1 (off / 8 + fl.size) hinv1 hp' hpi' hle' (by omega)
          rw [he]
          simp only [plainEnd, hl, cOffsets]
          refine ⟨ih1, ih2, ?_, ?_, pre ++ (.user idx, off / 8) :: offs, ?_, ?_⟩
          · intro _
            by_cases hfs : fs = []
            · subst hfs
              simpa [emitFields] using hm1'
            · exact ih3 hfs
          · rw [List.any_append, hnp, List.any_cons, ih4]
            simp [memberField_plain idx ty fl hl (by omega)]
          · have : ∀ (xs : List RField) (m : RField) (r : List RField), xs ++ m :: r = (xs ++ [m]) ++ r := by
              intros; simp
            rw [this, placeFields_append, hplace]
            simp only [ih5]
            simp
          · rw [uo_append, hpre, List.nil_append, uo_cons_user, ih6]

/-! ### after the field loop -/

theorem isPacked_plain (c : CAgg) (l : Layout) (hpa : c.packedAttr = false) (hl : c.layout = some l)
    (hv : c.hasOwnVirtual = false) (hle : fieldAlignsLe l.align c.fields = true) : c.isPacked = false := by
  unfold CAgg.isPacked
  simp only [hpa, hl, hv, Bool.false_eq_true, if_false, Bool.false_and]
  rw [if_neg]
  simp only [Bool.not_eq_true]
  unfold fieldAlignsLe at hle
  rw [List.any_eq_false]
  intro f hf
  have := List.all_eq_true.mp hle f hf
  cases hfl : f.layout with
  | none => simp
  | some x =>
    simp only [hfl, decide_eq_true_eq] at this
    simp only [gt_iff_lt, decide_eq_true_eq]
    omega

theorem tail_plain {t : Tracker} {force : Bool} {e : Nat} (h : Inv t force e) (l : Layout) (ma : Nat)
    (hma : 1 ≤ ma) (hle : e ≤ l.size) :
    ∃ t2 pad pre c', t.addTailPadding l = (t2, pad) ∧ t.tailPaddingUnderflows l = false ∧
      Inv t2 force e ∧ t2.maxFieldAlign = t.maxFieldAlign ∧
      (padList pad).any (fun f => f.blob == some .panic) = false ∧ uo pre = [] ∧
      placeFields none e ma (padList pad) = (pre, c', ma) ∧ (c' = e ∨ c' = l.size) := by
  have hu : t.tailPaddingUnderflows l = false := rfl
  unfold Tracker.addTailPadding
  rw [h.fp, h.nru, h.nfa, h.off]
  cases force with
  | false =>
    exact ⟨t, none, [], e, by simp, hu, h, rfl, rfl, rfl, rfl, Or.inl rfl⟩
  | true =>
    by_cases he : e = l.size
    · exact ⟨t, none, [], e, by simp [he], hu, h, rfl, rfl, rfl, rfl, Or.inl rfl⟩
    · have hlt : ¬ e ≥ l.size := by omega
      obtain ⟨h1, h2, h3⟩ := blob_small { size := l.size - e, align := 1 } false (Or.inl rfl)
      have hb : blob { size := l.size - e, align := 0 } false = blob { size := l.size - e, align := 1 } false := by
        simp [blob]
      simp only at h1 h2
      refine ⟨{ t with paddingCount := t.paddingCount + 1, maxFieldAlign := max t.maxFieldAlign 0 },
        some { idx := t.paddingCount, layout := { size := l.size - e, align := 0 } },
        [(.padding t.paddingCount, e)], l.size, by simp [hlt, Tracker.paddingField], hu, h.setCount _ _,
        by simp, ?_, rfl, ?_, Or.inr rfl⟩
      · simpa [padList, padField, blobField, hb] using h3
      · simp only [padList, padField, blobField, hb, placeFields_cons, placeFields_nil, h1, h2,
          alignTo_of_mod_eq_zero _ _ (Nat.mod_one _)]
        have : max ma 1 = ma := by omega
        rw [this]
        have : e + 1 * ((l.size - e) / 1) = l.size := by
          rw [Nat.div_one]; omega
        rw [this]

theorem padStruct_plain {t : Tracker} {force : Bool} {e : Nat} (h : Inv t force e) (l : Layout)
    (ha : 0 < l.align) (hs : l.size = alignTo e l.align) : t.padStruct l = (t, none) := by
  have h1 := alignTo_lt e l.align ha
  have h2 := alignTo_ge e l.align
  unfold Tracker.padStruct
  rw [h.off, h.nb]
  rw [if_neg (by omega)]
  simp only
  split
  · rfl
  · rw [if_neg]
    simp only [Bool.false_eq_true, false_and, or_false]
    omega

/-! ### the plain-struct theorem -/

theorem hasBitfields_plain (cur : Nat) (fs : List CField) (h : plainFieldsFrom cur fs = true) :
    (fs.any fun f => match f with | .unit _ _ _ _ => true | _ => false) = false := by
  induction fs generalizing cur with
  | nil => rfl
  | cons f fs ih =>
    cases f with
    | unit n l => simp [plainFieldsFrom] at h
    | data ty off =>
      cases off with
      | none => simp [plainFieldsFrom] at h
      | some off =>
        cases hl : ty.layout with
        | none => simp [plainFieldsFrom, hl] at h
        | some fl =>
          simp only [plainFieldsFrom, hl, Bool.and_eq_true] at h
          simp only [List.any_cons, Bool.false_or]
          exact ih _ h.2

/-- the emitted aggregate, once its field list is known to be placed like the C record -/
theorem assemble (l : Layout) (ff pl : List RField) (offs : List (FName × Nat)) (c' ma : Nat)
    (flds : List CField) (A : Option Nat)
    (hA : (A = none ∧ ma = l.align) ∨ (A = some l.align ∧ ma ≤ l.align))
    (hfs : ((ff ++ pl).any fun f => f.blob == some BlobTy.panic) = false)
    (hpl : placeFields none 0 1 (ff ++ pl) = (offs, c', ma))
    (hsz' : alignTo c' l.align = l.size) (huo : uo offs = cOffsets 0 flds) :
    ∃ r l', (if ((ff ++ pl).any fun f => f.blob == some BlobTy.panic) = true then none
        else some { isUnion := false, packed := none, align := A, fields := ff ++ pl : RustAgg }) = some r ∧
      reprC r = some l' ∧
      (∀ cl, some l = some cl → l'.size = cl.size ∧ l'.align = cl.align) ∧
      l'.userOffsets = cOffsets 0 flds := by
  refine ⟨{ isUnion := false, packed := none, align := A, fields := ff ++ pl },
    { size := l.size, align := l.align, offsets := offs }, ?_, ?_, ?_, ?_⟩
  · rw [hfs]; simp
  · rcases hA with ⟨hA, hma⟩ | ⟨hA, hma⟩
    · subst hA
      simp only [reprC, Option.isSome_none, Bool.false_and, Bool.false_eq_true, if_false, hpl, hma, hsz']
    · subst hA
      have : max ma l.align = l.align := by omega
      simp only [reprC, Option.isSome_none, Bool.false_and, Bool.false_eq_true, if_false, hpl, this, hsz']
  · intro cl hcl
    cases hcl
    exact ⟨rfl, rfl⟩
  · rw [userOffsets_eq]
    exact huo

theorem plain_struct (o : Opts) (c : CAgg) (h : ClangPlain c = true) (hp : padInexact o c = false) :
    ∃ r l, emit o c = some r ∧ reprC r = some l ∧
      (∀ cl, c.layout = some cl → l.size = cl.size ∧ l.align = cl.align) ∧
      l.userOffsets = cOffsets 0 c.fields := by
  unfold ClangPlain at h
  cases hl : c.layout with
  | none => simp [hl] at h
  | some l =>
    simp only [hl, Bool.and_eq_true, Bool.not_eq_true', decide_eq_true_eq, beq_iff_eq,
      List.isEmpty_eq_false_iff, List.isEmpty_iff] at h
    obtain ⟨⟨⟨⟨⟨⟨⟨⟨⟨hiu, hpa⟩, hov⟩, hvt⟩, hbs⟩, hop⟩, hfw⟩, hzs⟩, hne⟩, ⟨⟨hal, hle⟩, hpf⟩, hsz⟩ := h
    have hpk := isPacked_plain c l hpa hl hov hle
    have hru : c.isRustUnion o = (false, false) := by simp [CAgg.isRustUnion, hiu]
    have hhb : c.hasBitfields = false := hasBitfields_plain 0 c.fields hpf
    have hinv0 : Inv {
        isPacked := false, knownTypeLayout := some l, isRustUnion := false, compIsUnion := false,
        forcePadding := o.forcePadding, ptrSize := o.ptrSize } o.forcePadding 0 :=
      ⟨rfl, rfl, rfl, rfl, rfl, rfl, rfl, by intro pl hpl; simp at hpl⟩
    obtain ⟨e1, e2, e3, e4, offs, e5, e6⟩ := emitFields_plain o.forcePadding l.align c.fields 0 _ 0 hinv0 hpf hp hle
      (by simp; omega)
    have e3 := e3 hne
    unfold emit
    simp only [hpk, hru, hiu, hl, hop, hvt, hbs, hfw, hzs, hhb, emitBases, Bool.false_and, Bool.and_false,
      Bool.false_eq_true, if_false, Bool.not_false, List.nil_append, Bool.and_self]
    have hm0 : max 1 (0 : Nat) = 1 := rfl
    simp only [hm0] at e5
    generalize emitFields false 0 _ c.fields = E at e1 e2 e3 e4 e5 ⊢
    obtain ⟨tE, ff⟩ := E
    simp only at e1 e2 e3 e4 e5 ⊢
    have hge := alignTo_ge (plainEnd 0 c.fields) l.align
    obtain ⟨t2, pad, pre, c', hT, hU, hinv2, hm2, hnp, hpre, hplace, hc'⟩ :=
      tail_plain e1 l (max 1 tE.maxFieldAlign) (by omega) (by omega)
    have hPS := padStruct_plain hinv2 l hal hsz
    simp only [hT, hU, hPS, Bool.false_eq_true, if_false, if_true, List.append_nil]
    have hfs : ((ff ++ padList pad).any fun f => f.blob == some BlobTy.panic) = false := by
      rw [List.any_append, e4, hnp]; rfl
    have hpl : placeFields none 0 1 (ff ++ padList pad) = (offs ++ pre, c', max 1 tE.maxFieldAlign) := by
      rw [placeFields_append, e5]
      simp only [hplace]
    have hsz' : alignTo c' l.align = l.size := by
      rcases hc' with h | h
      · rw [h, hsz]
      · rw [h, hsz, alignTo_idem]
    have huo : uo (offs ++ pre) = cOffsets 0 c.fields := by
      rw [uo_append, hpre, e6, List.append_nil]
    cases hR : t2.requiresExplicitAlign l with
    | false =>
      have hmax : max 1 tE.maxFieldAlign = l.align := by
        unfold Tracker.requiresExplicitAlign at hR
        rw [hm2] at hR
        split at hR
        · simp at hR
        · split at hR
          · omega
          · simp at hR
      simp only [Bool.false_eq_true, if_false, Bool.false_and]
      exact assemble l ff (padList pad) (offs ++ pre) c' (max 1 tE.maxFieldAlign) c.fields none
        (Or.inl ⟨rfl, hmax⟩) hfs hpl hsz' huo
    | true =>
      have hne1 : ¬ l.align = 1 := by
        intro h1
        unfold Tracker.requiresExplicitAlign at hR
        rw [hm2] at hR
        split at hR
        · omega
        · split at hR
          · simp at hR
          · omega
      simp only [if_true, if_neg hne1, Bool.false_and, Bool.false_eq_true, if_false]
      exact assemble l ff (padList pad) (offs ++ pre) c' (max 1 tE.maxFieldAlign) c.fields (some l.align)
        (Or.inr ⟨rfl, e2⟩) hfs hpl hsz' huo

theorem explicit_padding_irrelevant (o : Opts) (c : CAgg) (h : ClangPlain c = true)
    (hp : padInexact { o with forcePadding := false } c = false) :
    ∃ r₁ l₁ r₂ l₂, emit { o with forcePadding := true } c = some r₁ ∧ reprC r₁ = some l₁ ∧
      emit { o with forcePadding := false } c = some r₂ ∧ reprC r₂ = some l₂ ∧
      l₁.size = l₂.size ∧ l₁.align = l₂.align ∧ l₁.userOffsets = l₂.userOffsets := by
  obtain ⟨r₁, l₁, h1, h2, h3, h4⟩ :=
    plain_struct { o with forcePadding := true } c h (padInexact_force _ c rfl)
  obtain ⟨r₂, l₂, g1, g2, g3, g4⟩ := plain_struct { o with forcePadding := false } c h hp
  have hcl : ∃ cl, c.layout = some cl := by
    unfold ClangPlain at h
    cases hl : c.layout with
    | none => simp [hl] at h
    | some cl => exact ⟨cl, rfl⟩
  obtain ⟨cl, hcl⟩ := hcl
  obtain ⟨h3a, h3b⟩ := h3 cl hcl
  obtain ⟨g3a, g3b⟩ := g3 cl hcl
  exact ⟨r₁, l₁, r₂, l₂, h1, h2, g1, g2, by omega, by omega, by rw [h4, g4]⟩

end BindgenModel.C02
