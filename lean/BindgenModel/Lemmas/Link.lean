import BindgenModel.Model.Link
/-! Helper lemmas for C04 (symbol identity). -/
namespace BindgenModel.Link

theorem namesIdentical_refl (c : Name) (cc : CallConv) : namesIdentical c c cc = true := by
  simp [namesIdentical]

/-- the shape a mangled name must have (other than being equal) for the attribute to be omitted -/
def PlatformForm (c m : Name) (cc : CallConv) : Prop :=
  ∃ pre suf, manglingShape cc = some (pre, suf) ∧ ∃ rest, m = pre :: (c ++ rest) ∧
    (if suf then suffixOk rest = true else rest = [])

theorem split_of_checks {c m : Name} {pre : UInt8}
    (hlen : ¬ m.length < c.length + 1) (hhd : m.head? = some pre)
    (htk : (m.drop 1).take c.length = c) :
    m = pre :: (c ++ m.drop (c.length + 1)) := by
  cases m with
  | nil => simp at hlen
  | cons x t =>
    simp only [List.head?_cons, Option.some.injEq] at hhd
    simp only [List.drop_succ_cons, List.drop_zero] at htk ⊢
    subst hhd
    congr 1
    have := List.take_append_drop c.length t
    rw [htk] at this
    exact this.symm

theorem namesIdentical_iff (c m : Name) (cc : CallConv) :
    namesIdentical c m cc = true ↔ c = m ∨ PlatformForm c m cc := by
  constructor
  · intro h
    by_cases hcm : c = m
    · exact Or.inl hcm
    · right
      unfold namesIdentical at h
      rw [if_neg hcm] at h
      cases hs : manglingShape cc with
      | none => rw [hs] at h; simp at h
      | some ps =>
        obtain ⟨pre, suf⟩ := ps
        rw [hs] at h
        simp only at h
        by_cases h1 : m.length < c.length + 1
        · rw [if_pos h1] at h; simp at h
        · rw [if_neg h1] at h
          by_cases h2 : (m.head? != some pre) = true
          · rw [if_pos h2] at h; simp at h
          · rw [if_neg h2] at h
            by_cases h3 : ((m.drop 1).take c.length != c) = true
            · rw [if_pos h3] at h; simp at h
            · rw [if_neg h3] at h
              have hhd : m.head? = some pre := by simpa using h2
              have htk : (m.drop 1).take c.length = c := by simpa using h3
              have hm := split_of_checks h1 hhd htk
              refine ⟨pre, suf, hs, m.drop (c.length + 1), hm, ?_⟩
              cases suf with
              | true => simpa using h
              | false =>
                simp only [Bool.false_eq_true, if_false] at h ⊢
                by_cases h4 : (m.length != c.length + 1) = true
                · rw [if_pos h4] at h; simp at h
                · have : m.length = c.length + 1 := by simpa using h4
                  apply List.eq_nil_of_length_eq_zero
                  simp [this]
  · rintro (h | ⟨pre, suf, hs, rest, hm, hr⟩)
    · subst h; exact namesIdentical_refl _ _
    · unfold namesIdentical
      by_cases hcm : c = m
      · simp [hcm]
      · rw [if_neg hcm, hs]
        simp only
        subst hm
        have h1 : ¬ (pre :: (c ++ rest)).length < c.length + 1 := by simp
        rw [if_neg h1]
        simp only [List.head?_cons, bne_self_eq_false, Bool.false_eq_true, if_false,
          List.drop_succ_cons, List.drop_zero, List.take_left']
        cases suf with
        | true =>
          simp only [if_true] at hr ⊢
          simpa using hr
        | false =>
          simp only [Bool.false_eq_true, if_false] at hr ⊢
          subst hr
          simp

/-! digits -/

theorem decimalAux_all (fuel n : Nat) (acc : Name) (h : acc.all isAsciiDigit = true) :
    (decimalAux fuel n acc).all isAsciiDigit = true := by
  induction fuel generalizing n acc with
  | zero => simpa [decimalAux] using h
  | succ k ih =>
    unfold decimalAux
    have hd : isAsciiDigit (UInt8.ofNat (48 + n % 10)) = true := by
      have : n % 10 < 10 := Nat.mod_lt _ (by decide)
      generalize n % 10 = d at this
      have : d = 0 ∨ d = 1 ∨ d = 2 ∨ d = 3 ∨ d = 4 ∨ d = 5 ∨ d = 6 ∨ d = 7 ∨ d = 8 ∨ d = 9 := by omega
      rcases this with h | h | h | h | h | h | h | h | h | h <;> subst h <;> decide
    have hacc : (UInt8.ofNat (48 + n % 10) :: acc).all isAsciiDigit = true := by
      simp only [List.all_cons, hd, h, Bool.and_self]
    simp only
    split
    · exact hacc
    · exact ih _ _ hacc

theorem decimalAux_ne_nil (fuel n : Nat) (acc : Name) (h : acc ≠ [] ∨ 0 < fuel) :
    decimalAux fuel n acc ≠ [] := by
  induction fuel generalizing n acc with
  | zero => rcases h with h | h; simpa [decimalAux] using h; omega
  | succ k ih =>
    unfold decimalAux
    simp only
    split
    · simp
    · exact ih _ _ (Or.inl (by simp))

theorem decimal_all (n : Nat) : (decimal n).all isAsciiDigit = true :=
  decimalAux_all _ _ _ (by simp)

theorem decimal_ne_nil (n : Nat) : decimal n ≠ [] :=
  decimalAux_ne_nil _ _ _ (Or.inr (by omega))

theorem suffixOk_at_decimal (n : Nat) : suffixOk (atSign :: decimal n) = true := by
  have h1 := decimal_all n
  have h2 := decimal_ne_nil n
  unfold suffixOk
  cases hd : decimal n with
  | nil => exact absurd hd h2
  | cons x t =>
    rw [hd] at h1
    simp [h1]

end BindgenModel.Link
