import BindgenModel.Model.CExpr
/-! Lemmas for `C05_cexpr_eq_c_partial`: fixed-width facts and the agreement of cexpr's
wrapping-i64 operators with C's typed operators on signed `int` / `long` / `long long` operands. -/
namespace BindgenModel.CExpr

theorem bmod64_eq (x : Int) (h1 : -9223372036854775808 ≤ x) (h2 : x ≤ 9223372036854775807) :
    Int.bmod x 18446744073709551616 = x := by
  apply Int.bmod_eq_of_le <;> omega
theorem bmod32_eq (x : Int) (h1 : -2147483648 ≤ x) (h2 : x ≤ 2147483647) :
    Int.bmod x 4294967296 = x := by
  apply Int.bmod_eq_of_le <;> omega

theorem wrap64_eq (x : Int) (h1 : -9223372036854775808 ≤ x) (h2 : x ≤ 9223372036854775807) : wrap64 x = x :=
  bmod64_eq x h1 h2

theorem wrap64_eq' (x : Int) (h1 : -9223372036854775808 ≤ x) (h2 : x ≤ 9223372036854775807) : wrap64 x = x :=
  bmod64_eq x h1 h2

theorem wrap64_range (x : Int) : -9223372036854775808 ≤ wrap64 x ∧ wrap64 x ≤ 9223372036854775807 := by
  unfold wrap64
  have h1 := Int.bmod_lt (x := x) (m := 18446744073709551616) (by omega)
  have h2 := Int.le_bmod (x := x) (m := 18446744073709551616) (by omega)
  omega

theorem ofInt64_eq_signExtend (a : Int) (h1 : -2147483648 ≤ a) (h2 : a ≤ 2147483647) :
    BitVec.ofInt 64 a = (BitVec.ofInt 32 a).signExtend 64 := by
  apply BitVec.eq_of_toInt_eq
  rw [BitVec.toInt_signExtend_of_le (by omega), BitVec.toInt_ofInt, BitVec.toInt_ofInt]
  show Int.bmod a 18446744073709551616 = Int.bmod a 4294967296
  rw [bmod64_eq a (by omega) (by omega), bmod32_eq a h1 h2]

theorem toInt32_range (x : BitVec 32) : -2147483648 ≤ x.toInt ∧ x.toInt ≤ 2147483647 := by
  have h1 := BitVec.toInt_lt (x := x)
  have h2 := BitVec.le_toInt x
  simp at h1 h2
  omega
theorem toInt64_range (x : BitVec 64) : -9223372036854775808 ≤ x.toInt ∧ x.toInt ≤ 9223372036854775807 := by
  have h1 := BitVec.toInt_lt (x := x)
  have h2 := BitVec.le_toInt x
  simp at h1 h2
  omega

theorem band64_int (a b : Int) (ha1 : -2147483648 ≤ a) (ha2 : a ≤ 2147483647) (hb1 : -2147483648 ≤ b) (hb2 : b ≤ 2147483647) :
    -2147483648 ≤ band64 a b ∧ band64 a b ≤ 2147483647 := by
  unfold band64
  rw [ofInt64_eq_signExtend a ha1 ha2, ofInt64_eq_signExtend b hb1 hb2, ← BitVec.signExtend_and,
    BitVec.toInt_signExtend_of_le (by omega)]
  exact toInt32_range _
theorem bor64_int (a b : Int) (ha1 : -2147483648 ≤ a) (ha2 : a ≤ 2147483647) (hb1 : -2147483648 ≤ b) (hb2 : b ≤ 2147483647) :
    -2147483648 ≤ bor64 a b ∧ bor64 a b ≤ 2147483647 := by
  unfold bor64
  rw [ofInt64_eq_signExtend a ha1 ha2, ofInt64_eq_signExtend b hb1 hb2, ← BitVec.signExtend_or,
    BitVec.toInt_signExtend_of_le (by omega)]
  exact toInt32_range _
theorem bxor64_int (a b : Int) (ha1 : -2147483648 ≤ a) (ha2 : a ≤ 2147483647) (hb1 : -2147483648 ≤ b) (hb2 : b ≤ 2147483647) :
    -2147483648 ≤ bxor64 a b ∧ bxor64 a b ≤ 2147483647 := by
  unfold bxor64
  rw [ofInt64_eq_signExtend a ha1 ha2, ofInt64_eq_signExtend b hb1 hb2, ← BitVec.signExtend_xor,
    BitVec.toInt_signExtend_of_le (by omega)]
  exact toInt32_range _

/-- the signed types of rank ≥ int -/
def SL (t : CTy) : Prop := t = .int ∨ t = .long ∨ t = .llong

theorem holds_int (v : Int) : CTy.holds .int v = true ↔ (-2147483648 ≤ v ∧ v ≤ 2147483647) := by
  simp [CTy.holds, CTy.lo, CTy.hi, CTy.signed, CTy.bits]
theorem holds_long (v : Int) : CTy.holds .long v = true ↔ (-9223372036854775808 ≤ v ∧ v ≤ 9223372036854775807) := by
  simp [CTy.holds, CTy.lo, CTy.hi, CTy.signed, CTy.bits]
theorem holds_llong (v : Int) : CTy.holds .llong v = true ↔ (-9223372036854775808 ≤ v ∧ v ≤ 9223372036854775807) := by
  simp [CTy.holds, CTy.lo, CTy.hi, CTy.signed, CTy.bits]

theorem band64_range (a b : Int) : -9223372036854775808 ≤ band64 a b ∧ band64 a b ≤ 9223372036854775807 := toInt64_range _
theorem bor64_range (a b : Int) : -9223372036854775808 ≤ bor64 a b ∧ bor64 a b ≤ 9223372036854775807 := toInt64_range _
theorem bxor64_range (a b : Int) : -9223372036854775808 ≤ bxor64 a b ∧ bxor64 a b ≤ 9223372036854775807 := toInt64_range _

theorem band64_int' (a b : Int) : (-2147483648 ≤ a ∧ a ≤ 2147483647 ∧ -2147483648 ≤ b ∧ b ≤ 2147483647) →
    (-2147483648 ≤ band64 a b ∧ band64 a b ≤ 2147483647) := fun h => band64_int a b h.1 h.2.1 h.2.2.1 h.2.2.2
theorem bor64_int' (a b : Int) : (-2147483648 ≤ a ∧ a ≤ 2147483647 ∧ -2147483648 ≤ b ∧ b ≤ 2147483647) →
    (-2147483648 ≤ bor64 a b ∧ bor64 a b ≤ 2147483647) := fun h => bor64_int a b h.1 h.2.1 h.2.2.1 h.2.2.2
theorem bxor64_int' (a b : Int) : (-2147483648 ≤ a ∧ a ≤ 2147483647 ∧ -2147483648 ≤ b ∧ b ≤ 2147483647) →
    (-2147483648 ≤ bxor64 a b ∧ bxor64 a b ≤ 2147483647) := fun h => bxor64_int a b h.1 h.2.1 h.2.2.1 h.2.2.2

/-- normal form of `cIntBin` on two signed operands of rank ≥ int -/
macro "cbin_cases" hta:ident htb:ident ha:ident hb:ident h:ident : tactic => `(tactic|
  (rcases $hta:ident with hx | hx | hx <;> rcases $htb:ident with hy | hy | hy <;>
    (subst hx; subst hy
     simp only [holds_int, holds_long, holds_llong] at $ha:ident $hb:ident
     simp (disch := omega) [cIntBin, promote, uacInt, CTy.rank, CTy.signed, CTy.isFloat, CTy.bits, convInt,
      bmod32_eq, bmod64_eq, holds_int, holds_long, holds_llong] at $h:ident)))

/-- finish: `h : (if in-range then val r else ub) = val (int t v)` ⊢ cexpr result = v -/
macro "cbin_finish" h:ident : tactic => `(tactic|
  (split at $h:ident
   · simp only [CRes.val.injEq, CVal.int.injEq] at $h:ident
     obtain ⟨hx, hy⟩ := $h:ident
     subst hx; subst hy
     simp only [cexprIntBin, Outcome.ok.injEq, Res.int.injEq]
     apply wrap64_eq <;> omega
   · simp at $h:ident))

theorem add_agree (ta tb : CTy) (va vb : Int) (t : CTy) (v : Int) (hta : SL ta) (htb : SL tb)
    (ha : ta.holds va = true) (hb : tb.holds vb = true)
    (h : cIntBin .add ta tb va vb = .val (.int t v)) : cexprIntBin .add va vb = .ok (.int v) := by
  cbin_cases hta htb ha hb h <;> cbin_finish h

theorem sub_agree (ta tb : CTy) (va vb : Int) (t : CTy) (v : Int) (hta : SL ta) (htb : SL tb)
    (ha : ta.holds va = true) (hb : tb.holds vb = true)
    (h : cIntBin .sub ta tb va vb = .val (.int t v)) : cexprIntBin .sub va vb = .ok (.int v) := by
  cbin_cases hta htb ha hb h <;> cbin_finish h

theorem mul_agree (ta tb : CTy) (va vb : Int) (t : CTy) (v : Int) (hta : SL ta) (htb : SL tb)
    (ha : ta.holds va = true) (hb : tb.holds vb = true)
    (h : cIntBin .mul ta tb va vb = .val (.int t v)) : cexprIntBin .mul va vb = .ok (.int v) := by
  cbin_cases hta htb ha hb h <;> cbin_finish h

theorem div_agree (ta tb : CTy) (va vb : Int) (t : CTy) (v : Int) (hta : SL ta) (htb : SL tb)
    (ha : ta.holds va = true) (hb : tb.holds vb = true)
    (h : cIntBin .div ta tb va vb = .val (.int t v)) : cexprIntBin .div va vb = .ok (.int v) := by
  cbin_cases hta htb ha hb h <;>
    (split at h
     · simp at h
     · rename_i hz
       split at h
       · simp only [CRes.val.injEq, CVal.int.injEq] at h
         obtain ⟨rfl, rfl⟩ := h
         simp only [cexprIntBin, hz, if_false, Outcome.ok.injEq, Res.int.injEq]
         apply wrap64_eq <;> omega
       · simp at h)

theorem rem_agree (ta tb : CTy) (va vb : Int) (t : CTy) (v : Int) (hta : SL ta) (htb : SL tb)
    (ha : ta.holds va = true) (hb : tb.holds vb = true)
    (h : cIntBin .rem ta tb va vb = .val (.int t v)) : cexprIntBin .rem va vb = .ok (.int v) := by
  cbin_cases hta htb ha hb h <;>
    (split at h
     · simp at h
     · rename_i hz
       split at h
       · simp at h
       · split at h
         · simp only [CRes.val.injEq, CVal.int.injEq] at h
           obtain ⟨rfl, rfl⟩ := h
           simp only [cexprIntBin, hz, if_false, Outcome.ok.injEq, Res.int.injEq]
           apply wrap64_eq <;> omega
         · simp at h)

theorem band_agree (ta tb : CTy) (va vb : Int) (t : CTy) (v : Int) (hta : SL ta) (htb : SL tb)
    (ha : ta.holds va = true) (hb : tb.holds vb = true)
    (h : cIntBin .band ta tb va vb = .val (.int t v)) : cexprIntBin .band va vb = .ok (.int v) := by
  have r := band64_range va vb
  have ri := band64_int' va vb
  cbin_cases hta htb ha hb h <;>
    (obtain ⟨_, hv⟩ := h; subst hv; simp [cexprIntBin])

theorem bor_agree (ta tb : CTy) (va vb : Int) (t : CTy) (v : Int) (hta : SL ta) (htb : SL tb)
    (ha : ta.holds va = true) (hb : tb.holds vb = true)
    (h : cIntBin .bor ta tb va vb = .val (.int t v)) : cexprIntBin .bor va vb = .ok (.int v) := by
  have r := bor64_range va vb
  have ri := bor64_int' va vb
  cbin_cases hta htb ha hb h <;>
    (obtain ⟨_, hv⟩ := h; subst hv; simp [cexprIntBin])

theorem bxor_agree (ta tb : CTy) (va vb : Int) (t : CTy) (v : Int) (hta : SL ta) (htb : SL tb)
    (ha : ta.holds va = true) (hb : tb.holds vb = true)
    (h : cIntBin .bxor ta tb va vb = .val (.int t v)) : cexprIntBin .bxor va vb = .ok (.int v) := by
  have r := bxor64_range va vb
  have ri := bxor64_int' va vb
  cbin_cases hta htb ha hb h <;>
    (obtain ⟨_, hv⟩ := h; subst hv; simp [cexprIntBin])

theorem shl_agree (ta tb : CTy) (va vb : Int) (t : CTy) (v : Int) (hta : SL ta) (htb : SL tb)
    (ha : ta.holds va = true) (hb : tb.holds vb = true)
    (h : cIntBin .shl ta tb va vb = .val (.int t v)) : cexprIntBin .shl va vb = .ok (.int v) := by
  cbin_cases hta htb ha hb h <;>
    (split at h
     · simp at h
     · rename_i hr
       split at h
       · simp at h
       · split at h
         · simp only [CRes.val.injEq, CVal.int.injEq] at h
           obtain ⟨hx, hy⟩ := h
           subst hx; subst hy
           have hb64 : vb % 64 = vb := by omega
           simp only [cexprIntBin, hb64, Outcome.ok.injEq, Res.int.injEq]
           apply wrap64_eq <;> omega
         · simp at h)

theorem shr_agree (ta tb : CTy) (va vb : Int) (t : CTy) (v : Int) (hta : SL ta) (htb : SL tb)
    (ha : ta.holds va = true) (hb : tb.holds vb = true)
    (h : cIntBin .shr ta tb va vb = .val (.int t v)) : cexprIntBin .shr va vb = .ok (.int v) := by
  cbin_cases hta htb ha hb h <;>
    (split at h
     · simp at h
     · rename_i hr
       simp only [CRes.val.injEq, CVal.int.injEq] at h
       obtain ⟨hx, hy⟩ := h
       subst hx; subst hy
       have hb64 : vb % 64 = vb := by omega
       simp only [cexprIntBin, hb64])

/-- **operator agreement**: on signed operands of rank ≥ int, whenever C assigns the operation a
value (no UB), cexpr's wrapping-i64 operator computes the same value -/
theorem intBin_agree (op : BinOp) (ta tb : CTy) (va vb : Int) (t : CTy) (v : Int)
    (hop : isCexprBinOp op = true) (hta : SL ta) (htb : SL tb)
    (ha : ta.holds va = true) (hb : tb.holds vb = true)
    (h : cIntBin op ta tb va vb = .val (.int t v)) : cexprIntBin op va vb = .ok (.int v) := by
  cases op <;> simp [isCexprBinOp] at hop
  · exact mul_agree ta tb va vb t v hta htb ha hb h
  · exact div_agree ta tb va vb t v hta htb ha hb h
  · exact rem_agree ta tb va vb t v hta htb ha hb h
  · exact add_agree ta tb va vb t v hta htb ha hb h
  · exact sub_agree ta tb va vb t v hta htb ha hb h
  · exact shl_agree ta tb va vb t v hta htb ha hb h
  · exact shr_agree ta tb va vb t v hta htb ha hb h
  · exact band_agree ta tb va vb t v hta htb ha hb h
  · exact bxor_agree ta tb va vb t v hta htb ha hb h
  · exact bor_agree ta tb va vb t v hta htb ha hb h
end BindgenModel.CExpr
