import BindgenModel.Lemmas.StructLayout2
/-!
# Layers 4 (members of any alignment) and 5 (bit-field units) of C02
-/
namespace BindgenModel.C02
open BindgenModel.Layout BindgenModel.StructLayout BindgenModel.CompCodegen

/-! ### layer 4: like `ClangPlain`, member alignments 1, 2, 4 or any positive multiple of 8 -/

def plainFieldsFromA : Nat → List CField → Bool
  | _, [] => true
  | cur, .data ty (some off) :: fs =>
    match ty.layout with
    | some l =>
      (l.align == 1 || l.align == 2 || l.align == 4 || (l.align % 8 == 0 && decide (0 < l.align))) &&
      l.size % l.align == 0 && off % 8 == 0 && (off / 8) % l.align == 0 && decide (cur ≤ off / 8) &&
      arrayHackInactive ty && plainFieldsFromA (off / 8 + l.size) fs
    | none => false
  | _, _ => false

def ClangPlainA (c : CAgg) : Bool :=
  !c.isUnion && !c.packedAttr && !c.hasOwnVirtual && !c.hasVtablePtr && c.bases.isEmpty &&
  !c.isOpaque && !c.forwardDecl && !c.zeroSized && !c.fields.isEmpty &&
  match c.layout with
  | some l => decide (0 < l.align) && fieldAlignsLe l.align c.fields && plainFieldsFromA 0 c.fields &&
              l.size == alignTo (plainEnd 0 c.fields) l.align
  | none => false

/-! ### layer 5: structs with bit-field allocation units -/

def isPow2 (n : Nat) : Bool := n == 1 || n == 2 || n == 4 || n == 8 || n == 16 || n == 32 || n == 64 || n == 128

/-- data members as in layer 4, and units of alignment 1 that start where the previous field
ended (otherwise: region `bitfield_unit_misplaced`) -/
def unitsFieldsFrom : Nat → List CField → Bool
  | _, [] => true
  | cur, .data ty (some off) :: fs =>
    match ty.layout with
    | some l =>
      (l.align == 1 || l.align == 2 || l.align == 4 || (l.align % 8 == 0 && decide (0 < l.align))) &&
      l.size % l.align == 0 && off % 8 == 0 && (off / 8) % l.align == 0 && decide (cur ≤ off / 8) &&
      arrayHackInactive ty && unitsFieldsFrom (off / 8 + l.size) fs
    | none => false
  | cur, .unit _ l _ (some s) :: fs => l.align == 1 && s == 8 * cur && unitsFieldsFrom (cur + l.size) fs
  | _, _ => false

def unitsEnd : Nat → List CField → Nat
  | cur, [] => cur
  | cur, .data ty (some off) :: fs =>
    match ty.layout with
    | some l => unitsEnd (off / 8 + l.size) fs
    | none => unitsEnd cur fs
  | cur, .unit _ l _ _ :: fs => unitsEnd (cur + l.size) fs
  | cur, _ :: fs => unitsEnd cur fs

def ClangUnits (c : CAgg) : Bool :=
  !c.isUnion && !c.packedAttr && !c.hasOwnVirtual && !c.hasVtablePtr && c.bases.isEmpty &&
  !c.isOpaque && !c.forwardDecl && !c.zeroSized && !c.fields.isEmpty &&
  match c.layout with
  | some l => isPow2 l.align && fieldAlignsLe l.align c.fields && unitsFieldsFrom 0 c.fields &&
              l.size == alignTo (unitsEnd 0 c.fields) l.align
  | none => false

/-- offsets (bytes) at which libclang's numbers put the units, by `nth` -/
def cUnitOffsets : List CField → List (Nat × Nat)
  | [] => []
  | .unit n _ _ (some s) :: fs => (n, s / 8) :: cUnitOffsets fs
  | _ :: fs => cUnitOffsets fs

/-- `padInexactFrom` with the running end offset advanced over bit-field units as well
(`padInexactFrom` skips a unit without advancing, so on records with units it looks at the wrong
gap; on records without units the two agree, see `plainA_to_units`) -/
def padInexactFromU (force : Bool) : Nat → List CField → Bool
  | _, [] => false
  | cur, .data ty (some off) :: fs =>
    match ty.layout with
    | some l =>
      let pb := off / 8 - cur
      let pa := min l.align maxGuaranteedAlign
      (!force && decide (pb ≠ 0) && (decide (pb ≥ l.align) || decide (l.align > maxGuaranteedAlign)) &&
        decide (pa > 4) && decide (pb % pa ≠ 0)) || padInexactFromU force (off / 8 + l.size) fs
    | none => padInexactFromU force cur fs
  | cur, .unit _ l _ _ :: fs => padInexactFromU force (cur + l.size) fs
  | cur, _ :: fs => padInexactFromU force cur fs

/-! ### shared machinery: weakened tracker invariant -/

/-- the state of the tracker between two fields (data members or bit-field units), `cur` =
running end offset; `Inv` without `lastFieldWasBitfield = false` -/
structure WInv (t : Tracker) (force : Bool) (cur : Nat) : Prop where
  np : t.isPacked = false
  nu : t.compIsUnion = false
  nru : t.isRustUnion = false
  nfa : t.lastFieldWasFlexibleArray = false
  fp : t.forcePadding = force
  off : t.latestOffset = cur
  al : ∀ pl, t.latestFieldLayout = some pl → alignTo cur pl.align = cur
  bf : t.lastFieldWasBitfield = true → ∀ pl, t.latestFieldLayout = some pl → pl.align = 1

theorem alignToLatestField_noopW {t : Tracker} {force : Bool} {cur : Nat} (h : WInv t force cur) (new : Layout)
    (hn : 0 < new.align) : t.alignToLatestField new = (t, false) := by
  obtain ⟨np, nu, nru, nfa, fp, off, al, bf⟩ := h
  unfold Tracker.alignToLatestField
  rw [np]
  simp only [Bool.false_eq_true, if_false]
  split
  · rfl
  · rename_i l hl
    have h1 := al l hl
    have hneg : ¬ (t.lastFieldWasBitfield = true ∧ new.align ≤ l.size % max 1 l.align ∧
        new.size ≤ l.size % max 1 l.align) := by
      intro ⟨hb, h2, _⟩
      have := bf hb l hl
      rw [this] at h2
      simp only [Nat.max_self, Nat.mod_one] at h2
      omega
    simp only [hneg, if_false, Tracker.paddingBytes, off, h1, Nat.sub_self, Nat.add_zero]
    cases t
    simp_all

theorem sawFieldWithLayout_plainA {t : Tracker} {force : Bool} {cur : Nat} (h : WInv t force cur)
    (fl : Layout) (off : Nat) (ha : 0 < fl.align)
    (hO : (off / 8) % fl.align = 0) (hc : cur ≤ off / 8) :
    t.sawFieldWithLayout fl (some off) =
      if (force = true ∨ off / 8 - cur ≥ fl.align ∨ fl.align > 8) ∧ off / 8 - cur ≠ 0 then
        ({ afterField t fl (off / 8) with
             paddingCount := t.paddingCount + 1,
             maxFieldAlign := max (max t.maxFieldAlign fl.align) (if force then 1 else min fl.align 8) },
         some { idx := t.paddingCount,
                layout := { size := off / 8 - cur, align := if force then 1 else min fl.align 8 } })
      else (afterField t fl (off / 8), none) := by
  have hnoop := alignToLatestField_noopW h fl ha
  obtain ⟨np, nu, nru, nfa, fp, hoff, al, bf⟩ := h
  unfold Tracker.sawFieldWithLayout
  rw [hnoop]
  simp only [nu, np, fp, hoff, Bool.false_eq_true, false_or, or_false, Bool.not_false, if_true, if_false]
  have hpb : (if off / 8 > cur then off / 8 - cur else if fl.align = 0 then 0 else t.paddingBytes fl)
      = off / 8 - cur := by
    split
    · rfl
    · have he : off / 8 = cur := by omega
      rw [if_neg (by omega)]
      unfold Tracker.paddingBytes
      rw [hoff, alignTo_of_mod_eq_zero _ _ (he ▸ hO)]
      omega
  simp only [hpb, maxGuaranteedAlign]
  have hadd : cur + (off / 8 - cur) = off / 8 := by omega
  rw [hadd]
  by_cases hcond : (force = true ∨ off / 8 - cur ≥ fl.align ∨ fl.align > 8) ∧ off / 8 - cur ≠ 0
  · rw [if_pos hcond, if_pos hcond]
    cases t
    simp only at np nu fp hoff
    subst np nu fp hoff
    simp [afterField, Tracker.paddingField]
  · rw [if_neg hcond, if_neg hcond]
    cases t
    simp only at np nu fp hoff
    subst np nu fp hoff
    simp [afterField]

theorem WInv.afterField {t : Tracker} {force : Bool} {cur : Nat} (h : WInv t force cur) (fl : Layout) (O : Nat)
    (hO : O % fl.align = 0) (hs : fl.size % fl.align = 0) :
    WInv (afterField t fl O) force (O + fl.size) := by
  refine ⟨h.np, h.nu, h.nru, h.nfa, h.fp, rfl, ?_, ?_⟩
  · intro pl hpl
    simp only [C02.afterField, Option.some.injEq] at hpl
    subst hpl
    apply alignTo_of_mod_eq_zero
    rw [Nat.add_mod, hO, hs]
    simp
  · intro hb
    simp [C02.afterField] at hb

theorem WInv.setCount {t : Tracker} {force : Bool} {cur : Nat} (h : WInv t force cur) (k m : Nat) :
    WInv { t with paddingCount := k, maxFieldAlign := m } force cur :=
  ⟨h.np, h.nu, h.nru, h.nfa, h.fp, h.off, h.al, h.bf⟩

theorem mod8_of_mod (O a : Nat) (hO : O % a = 0) (ha : a % 8 = 0) : O % 8 = 0 :=
  Nat.mod_eq_zero_of_dvd (Nat.dvd_trans (Nat.dvd_of_mod_eq_zero ha) (Nat.dvd_of_mod_eq_zero hO))

/-- `pad_place` for a member of alignment 1, 2, 4 or a multiple of 8: the padding field (alignment
`min a 8`) ends exactly where the member starts -/
theorem pad_placeA (force : Bool) (a cur O : Nat)
    (ha : a = 1 ∨ a = 2 ∨ a = 4 ∨ (a % 8 = 0 ∧ 0 < a))
    (hO : O % a = 0) (hc : cur ≤ O) (hcond : force = true ∨ O - cur ≥ a ∨ a > 8) (hne : O - cur ≠ 0)
    (hex : force = false → a % 8 = 0 → (O - cur) % 8 = 0) :
    blob { size := O - cur, align := if force then 1 else min a 8 } false ≠ .panic ∧
    (blob { size := O - cur, align := if force then 1 else min a 8 } false).align = (if force then 1 else min a 8) ∧
    alignTo cur (blob { size := O - cur, align := if force then 1 else min a 8 } false).align +
      (blob { size := O - cur, align := if force then 1 else min a 8 } false).size = O := by
  have ha' : min a 8 = 1 ∨ min a 8 = 2 ∨ min a 8 = 4 ∨ min a 8 = 8 := by omega
  have hO' : O % min a 8 = 0 := by
    rcases ha with h | h | h | ⟨h, h0⟩
    · have : min a 8 = a := by omega
      rw [this]; exact hO
    · have : min a 8 = a := by omega
      rw [this]; exact hO
    · have : min a 8 = a := by omega
      rw [this]; exact hO
    · have : min a 8 = 8 := by omega
      rw [this]; exact mod8_of_mod O a hO h
  refine pad_place force (min a 8) cur O ha' hO' hc ?_ ?_
  · cases force with
    | true => exact Or.inl rfl
    | false =>
      right
      rcases ha with h | h | h | ⟨h, h0⟩
      · omega
      · have : ¬ a > 8 := by omega
        simp only [Bool.false_eq_true, false_or, this, or_false] at hcond
        omega
      · have : ¬ a > 8 := by omega
        simp only [Bool.false_eq_true, false_or, this, or_false] at hcond
        omega
      · have := hex rfl h
        omega
  · intro hf h8
    exact hex hf (by omega)

/-! ### offsets of the bit-field units on a bare offset list -/

def un (offs : List (FName × Nat)) : List (Nat × Nat) :=
  offs.filterMap fun (n, o) => match n with | .unit i => some (i, o) | _ => none

theorem un_cons_user (i o : Nat) (r : List (FName × Nat)) : un ((.user i, o) :: r) = un r := rfl
theorem un_cons_unit (i o : Nat) (r : List (FName × Nat)) : un ((.unit i, o) :: r) = (i, o) :: un r := rfl
theorem un_cons_padding (k o : Nat) (r : List (FName × Nat)) : un ((.padding k, o) :: r) = un r := rfl
theorem un_cons_bindgenAlign (o : Nat) (r : List (FName × Nat)) : un ((.bindgenAlign, o) :: r) = un r := rfl
theorem uo_cons_unit (i o : Nat) (r : List (FName × Nat)) : uo ((.unit i, o) :: r) = uo r := rfl
theorem uo_cons_bindgenAlign (o : Nat) (r : List (FName × Nat)) : uo ((.bindgenAlign, o) :: r) = uo r := rfl

theorem un_append (a b : List (FName × Nat)) : un (a ++ b) = un a ++ un b := by
  simp [un, List.filterMap_append]

/-! ### one data member -/

theorem stepA {t : Tracker} {force : Bool} {cur : Nat} (h : WInv t force cur) (idx : Nat)
    (ty : FieldTy) (fl : Layout) (off : Nat)
    (hl : ty.layout = some fl) (hh : arrayHackInactive ty = true)
    (ha : fl.align = 1 ∨ fl.align = 2 ∨ fl.align = 4 ∨ (fl.align % 8 = 0 ∧ 0 < fl.align))
    (hs : fl.size % fl.align = 0) (hO : (off / 8) % fl.align = 0) (hc : cur ≤ off / 8)
    (hex : force = false → off / 8 - cur ≠ 0 → (off / 8 - cur ≥ fl.align ∨ fl.align > 8) →
      fl.align % 8 = 0 → (off / 8 - cur) % 8 = 0) :
    ∃ t1 pad pre, t.sawField ty (some off) = (t1, pad) ∧ WInv t1 force (off / 8 + fl.size) ∧
      t1.lastFieldWasBitfield = false ∧
      max 1 t1.maxFieldAlign = max (max 1 t.maxFieldAlign) fl.align ∧ 1 ≤ t1.maxFieldAlign ∧
      (padList pad).any (fun f => f.blob == some .panic) = false ∧
      uo pre = [] ∧ un pre = [] ∧
      placeFields none cur (max 1 t.maxFieldAlign)
        (padList pad ++ [memberField false idx ty]) =
        (pre ++ [(.user idx, off / 8)], off / 8 + fl.size, max 1 t1.maxFieldAlign) := by
  have hpos : 0 < fl.align := by omega
  rw [sawField_eq_withLayout t ty fl _ hl hh, sawFieldWithLayout_plainA h fl off hpos hO hc,
    memberField_plain idx ty fl hl (by omega)]
  have hinv := h.afterField fl (off / 8) hO hs
  by_cases hcond : (force = true ∨ off / 8 - cur ≥ fl.align ∨ fl.align > 8) ∧ off / 8 - cur ≠ 0
  · rw [if_pos hcond]
    obtain ⟨hb1, hb2, hb3⟩ := pad_placeA force fl.align cur (off / 8) ha hO hc hcond.1 hcond.2 (by
      intro hf h8
      rcases hcond.1 with h1 | h1
      · simp [hf] at h1
      · exact hex hf hcond.2 h1 h8)
    refine ⟨_, _, [(.padding t.paddingCount,
      alignTo cur (blob { size := off / 8 - cur, align := if force then 1 else min fl.align 8 } false).align)],
      rfl, hinv.setCount _ _, rfl, ?_, ?_, ?_, rfl, rfl, ?_⟩
    · simp only
      split <;> omega
    · simp only
      omega
    · simpa [padList, padField, blobField] using hb1
    · rw [hb2] at hb3
      simp only [padList, padField, blobField, List.cons_append, List.nil_append, placeFields_cons, placeFields_nil,
        hb2, hb3, alignTo_of_mod_eq_zero _ _ hO]
      have : max (max (max 1 t.maxFieldAlign) (if force = true then 1 else min fl.align 8)) fl.align =
          max 1 (max (max t.maxFieldAlign fl.align) (if force = true then 1 else min fl.align 8)) := by
        split <;> omega
      rw [this]
  · rw [if_neg hcond]
    refine ⟨_, _, [], rfl, hinv, rfl, ?_, ?_, rfl, rfl, rfl, ?_⟩
    · simp only [afterField]
      omega
    · simp only [afterField]
      omega
    · have hplace : alignTo cur fl.align = off / 8 := by
        apply alignTo_eq_of _ _ _ (by omega) hO hc
        cases force <;> simp at hcond <;> omega
      simp only [padList, List.nil_append, placeFields_cons, placeFields_nil, hplace, afterField]
      have : max (max 1 t.maxFieldAlign) fl.align = max 1 (max t.maxFieldAlign fl.align) := by omega
      rw [this]

/-! ### one bit-field unit -/

theorem stepU {t : Tracker} {force : Bool} {cur : Nat} (h : WInv t force cur) (l : Layout)
    (ha : l.align = 1) :
    WInv (t.sawBitfieldUnit l) force (cur + l.size) ∧
      (t.sawBitfieldUnit l).maxFieldAlign = max t.maxFieldAlign 1 := by
  have hnoop := alignToLatestField_noopW h l (by omega)
  unfold Tracker.sawBitfieldUnit
  rw [hnoop]
  obtain ⟨np, nu, nru, nfa, fp, hoff, al, bf⟩ := h
  refine ⟨⟨np, nu, nru, nfa, fp, ?_, ?_, ?_⟩, ?_⟩
  · simp only [hoff]
  · intro pl hpl
    simp only [Option.some.injEq] at hpl
    subst hpl
    rw [ha]
    exact alignTo_of_mod_eq_zero _ _ (Nat.mod_one _)
  · intro _ pl hpl
    simp only [Option.some.injEq] at hpl
    subst hpl
    exact ha
  · simp only [ha]

/-! ### the field loop -/

def hasUnits (fs : List CField) : Bool :=
  fs.any fun f => match f with | .unit _ _ _ _ => true | _ => false

theorem hasBitfields_eq (c : CAgg) : c.hasBitfields = hasUnits c.fields := rfl

theorem emitFields_unit_cons (idx : Nat) (t : Tracker) (n : Nat) (l : Layout) (be : Nat) (sb : Option Nat)
    (fs : List CField) :
    emitFields false idx t (CField.unit n l be sb :: fs) =
      ((emitFields false (idx + 1) (t.sawBitfieldUnit l) fs).1,
       { name := .unit n, size := l.size, align := 1 } :: (emitFields false (idx + 1) (t.sawBitfieldUnit l) fs).2) := by
  simp [emitFields]

theorem emitFields_units (force : Bool) (B : Nat) :
    ∀ (fs : List CField) (idx : Nat) (t : Tracker) (cur : Nat), WInv t force cur →
      unitsFieldsFrom cur fs = true → padInexactFromU force cur fs = false →
      fieldAlignsLe B fs = true → max 1 t.maxFieldAlign ≤ B →
      WInv (emitFields false idx t fs).1 force (unitsEnd cur fs) ∧
      max 1 (emitFields false idx t fs).1.maxFieldAlign ≤ B ∧
      (fs ≠ [] → 1 ≤ (emitFields false idx t fs).1.maxFieldAlign) ∧
      (hasUnits fs = false → t.lastFieldWasBitfield = false →
        (emitFields false idx t fs).1.lastFieldWasBitfield = false) ∧
      (emitFields false idx t fs).2.any (fun f => f.blob == some .panic) = false ∧
      ∃ offs, placeFields none cur (max 1 t.maxFieldAlign) (emitFields false idx t fs).2 =
          (offs, unitsEnd cur fs, max 1 (emitFields false idx t fs).1.maxFieldAlign) ∧
        uo offs = cOffsets idx fs ∧ un offs = cUnitOffsets fs := by
  intro fs
  induction fs with
  | nil =>
    intro idx t cur hinv _ _ _ hB
    simp only [emitFields, unitsEnd, placeFields_nil, cOffsets, cUnitOffsets]
    exact ⟨hinv, hB, by simp, fun _ h => h, by simp, [], rfl, rfl, rfl⟩
  | cons f fs ih =>
    intro idx t cur hinv hp hpi hle hB
    cases f with
    | unit n l be sb =>
      cases sb with
      | none => simp [unitsFieldsFrom] at hp
      | some s =>
        simp only [unitsFieldsFrom, Bool.and_eq_true, beq_iff_eq] at hp
        obtain ⟨⟨ha, hs⟩, hp'⟩ := hp
        simp only [padInexactFromU] at hpi
        simp only [fieldAlignsLe, List.all_cons, CField.layout, Bool.and_eq_true, decide_eq_true_eq] at hle
        obtain ⟨hle1, hle'⟩ := hle
        obtain ⟨hinv1, hm1⟩ := stepU hinv l ha
        obtain ⟨ih1, ih2, ih3, _, ih4, offs, ih5, ih6, ih7⟩ :=
          ih (idx + 1) (t.sawBitfieldUnit l) (cur + l.size) hinv1 hp' hpi hle' (by rw [hm1]; omega)
        rw [emitFields_unit_cons]
        simp only [unitsEnd, cUnitOffsets]
        refine ⟨ih1, ih2, ?_, ?_, ?_, (.unit n, cur) :: offs, ?_, ?_, ?_⟩
        · intro _
          by_cases hfs : fs = []
          · subst hfs
            simp only [emitFields, hm1]
            omega
          · exact ih3 hfs
        · intro hu
          simp [hasUnits] at hu
        · rw [List.any_cons, ih4]
          rfl
        · rw [placeFields_cons]
          simp only [alignTo_of_mod_eq_zero _ _ (Nat.mod_one _)]
          have : max (max 1 t.maxFieldAlign) 1 = max 1 (t.sawBitfieldUnit l).maxFieldAlign := by
            rw [hm1]; omega
          rw [this, ih5]
        · rw [uo_cons_unit, ih6]
          simp [cOffsets]
        · rw [un_cons_unit, ih7, hs]
          have : 8 * cur / 8 = cur := by omega
          rw [this]
    | data ty off =>
      cases off with
      | none => simp [unitsFieldsFrom] at hp
      | some off =>
        cases hl : ty.layout with
        | none => simp [unitsFieldsFrom, hl] at hp
        | some fl =>
          simp only [unitsFieldsFrom, hl, Bool.and_eq_true, Bool.or_eq_true, beq_iff_eq,
            decide_eq_true_eq] at hp
          obtain ⟨⟨⟨⟨⟨⟨ha, hs⟩, _⟩, hO⟩, hc⟩, hh⟩, hp'⟩ := hp
          have ha' : fl.align = 1 ∨ fl.align = 2 ∨ fl.align = 4 ∨ (fl.align % 8 = 0 ∧ 0 < fl.align) := by
            omega
          simp only [padInexactFromU, hl, Bool.or_eq_false_iff] at hpi
          obtain ⟨hpi1, hpi'⟩ := hpi
          simp only [fieldAlignsLe, List.all_cons, CField.layout, hl, Bool.and_eq_true,
            decide_eq_true_eq] at hle
          obtain ⟨hle1, hle'⟩ := hle
          have hex : force = false → off / 8 - cur ≠ 0 → (off / 8 - cur ≥ fl.align ∨ fl.align > 8) →
              fl.align % 8 = 0 → (off / 8 - cur) % 8 = 0 := by
            intro hf hne hge h8
            subst hf
            simp only [Bool.not_false, Bool.true_and, Bool.and_eq_false_iff,
              Bool.or_eq_false_iff, decide_eq_false_iff_not] at hpi1
            have hmin : min fl.align 8 = 8 := by omega
            simp only [maxGuaranteedAlign, hmin] at hpi1
            omega
          obtain ⟨t1, pad, pre, hsaw, hinv1, hnb1, hm1, hm1', hnp, hpre, hpreu, hplace⟩ :=
            stepA hinv idx ty fl off hl hh ha' hs hO hc hex
          have he : emitFields false idx t (CField.data ty (some off) :: fs) =
              ((emitFields false (idx + 1) t1 fs).1,
               padList pad ++ memberField false idx ty :: (emitFields false (idx + 1) t1 fs).2) := by
            simp only [emitFields, hsaw]
            cases pad <;> rfl
          obtain ⟨ih1, ih2, ih3, ih3b, ih4, offs, ih5, ih6, ih7⟩ :=
            ih (idx + 1) t1 (off / 8 + fl.size) hinv1 hp' hpi' hle' (by omega)
          rw [he]
          simp only [unitsEnd, hl, cOffsets, cUnitOffsets]
          refine ⟨ih1, ih2, ?_, ?_, ?_, pre ++ (.user idx, off / 8) :: offs, ?_, ?_, ?_⟩
          · intro _
            by_cases hfs : fs = []
            · subst hfs
              simpa [emitFields] using hm1'
            · exact ih3 hfs
          · intro hu _
            apply ih3b _ hnb1
            simpa [hasUnits] using hu
          · rw [List.any_append, hnp, List.any_cons, ih4]
            simp [memberField_plain idx ty fl hl (by omega)]
          · have : ∀ (xs : List RField) (m : RField) (r : List RField), xs ++ m :: r = (xs ++ [m]) ++ r := by
              intros; simp
            rw [this, placeFields_append, hplace]
            simp only [ih5]
            simp
          · rw [uo_append, hpre, List.nil_append, uo_cons_user, ih6]
          · rw [un_append, hpreu, List.nil_append, un_cons_user, ih7]

/-! ### after the field loop -/

theorem tail_plainW {t : Tracker} {force : Bool} {e : Nat} (h : WInv t force e) (l : Layout) (ma : Nat)
    (hma : 1 ≤ ma) (hle : e ≤ l.size) :
    ∃ t2 pad pre c', t.addTailPadding l = (t2, pad) ∧ t.tailPaddingUnderflows l = false ∧
      WInv t2 force e ∧ t2.maxFieldAlign = t.maxFieldAlign ∧
      t2.lastFieldWasBitfield = t.lastFieldWasBitfield ∧
      (padList pad).any (fun f => f.blob == some .panic) = false ∧ uo pre = [] ∧
      placeFields none e ma (padList pad) = (pre, c', ma) ∧ (c' = e ∨ c' = l.size) := by
  have hu : t.tailPaddingUnderflows l = false := rfl
  unfold Tracker.addTailPadding
  rw [h.fp, h.nru, h.nfa, h.off]
  cases force with
  | false =>
    exact ⟨t, none, [], e, by simp, hu, h, rfl, rfl, rfl, rfl, rfl, Or.inl rfl⟩
  | true =>
    by_cases he : e = l.size
    · exact ⟨t, none, [], e, by simp [he], hu, h, rfl, rfl, rfl, rfl, rfl, Or.inl rfl⟩
    · obtain ⟨h1, h2, h3⟩ := blob_small { size := l.size - e, align := 1 } false (Or.inl rfl)
      have hb : blob { size := l.size - e, align := 0 } false = blob { size := l.size - e, align := 1 } false := by
        simp [blob]
      simp only at h1 h2
      refine ⟨{ t with paddingCount := t.paddingCount + 1, maxFieldAlign := max t.maxFieldAlign 0 },
        some { idx := t.paddingCount, layout := { size := l.size - e, align := 0 } },
        [(.padding t.paddingCount, e)], l.size, by (have hlt : ¬ e ≥ l.size := by omega); simp [hlt, Tracker.paddingField], hu, h.setCount _ _,
        by simp, rfl, ?_, rfl, ?_, Or.inr rfl⟩
      · simpa [padList, padField, blobField, hb] using h3
      · simp only [padList, padField, blobField, hb, placeFields_cons, placeFields_nil, h1, h2,
          alignTo_of_mod_eq_zero _ _ (Nat.mod_one _)]
        have : max ma 1 = ma := by omega
        rw [this]
        have : e + 1 * ((l.size - e) / 1) = l.size := by
          rw [Nat.div_one]; omega
        rw [this]

/-! ### layer 4 as the unit-free instance of the shared loop -/

theorem plainA_to_units (force : Bool) (cur : Nat) (fs : List CField) (h : plainFieldsFromA cur fs = true) :
    unitsFieldsFrom cur fs = true ∧ unitsEnd cur fs = plainEnd cur fs ∧
      padInexactFromU force cur fs = padInexactFrom force cur fs ∧ hasUnits fs = false := by
  induction fs generalizing cur with
  | nil => exact ⟨rfl, rfl, rfl, rfl⟩
  | cons f fs ih =>
    cases f with
    | unit n l => simp [plainFieldsFromA] at h
    | data ty off =>
      cases off with
      | none => simp [plainFieldsFromA] at h
      | some off =>
        cases hl : ty.layout with
        | none => simp [plainFieldsFromA, hl] at h
        | some fl =>
          simp only [plainFieldsFromA, hl, Bool.and_eq_true] at h
          obtain ⟨i1, i2, i3, i4⟩ := ih _ h.2
          refine ⟨?_, ?_, ?_, ?_⟩
          · simp only [unitsFieldsFrom, hl, Bool.and_eq_true]
            exact ⟨h.1, i1⟩
          · simp only [unitsEnd, plainEnd, hl, i2]
          · simp only [padInexactFromU, padInexactFrom, hl, i3]
          · simpa [hasUnits] using i4

theorem plain_struct_any_align (o : Opts) (c : CAgg) (h : ClangPlainA c = true) (hp : padInexact o c = false) :
    ∃ r l, emit o c = some r ∧ reprC r = some l ∧
      (∀ cl, c.layout = some cl → l.size = cl.size ∧ l.align = cl.align) ∧
      l.userOffsets = cOffsets 0 c.fields := by
  unfold ClangPlainA at h
  cases hl : c.layout with
  | none => simp [hl] at h
  | some l =>
    simp only [hl, Bool.and_eq_true, Bool.not_eq_true', decide_eq_true_eq, beq_iff_eq,
      List.isEmpty_eq_false_iff, List.isEmpty_iff] at h
    obtain ⟨⟨⟨⟨⟨⟨⟨⟨⟨hiu, hpa⟩, hov⟩, hvt⟩, hbs⟩, hop⟩, hfw⟩, hzs⟩, hne⟩, ⟨⟨hal, hle⟩, hpf⟩, hsz⟩ := h
    obtain ⟨hpfU, hend, hpiU, hnu⟩ := plainA_to_units o.forcePadding 0 c.fields hpf
    have hpk := isPacked_plain c l hpa hl hov hle
    have hru : c.isRustUnion o = (false, false) := by simp [CAgg.isRustUnion, hiu]
    have hhb : c.hasBitfields = false := hnu
    have hinv0 : WInv {
        isPacked := false, knownTypeLayout := some l, isRustUnion := false, compIsUnion := false,
        forcePadding := o.forcePadding, ptrSize := o.ptrSize } o.forcePadding 0 :=
      ⟨rfl, rfl, rfl, rfl, rfl, rfl, by intro pl hpl; simp at hpl, by intro hb; simp at hb⟩
    obtain ⟨e1, e2, e3, e3b, e4, offs, e5, e6, _⟩ :=
      emitFields_units o.forcePadding l.align c.fields 0 _ 0 hinv0 hpfU (by rw [hpiU]; exact hp) hle
        (by simp; omega)
    have e3 := e3 hne
    have e3b := e3b hnu rfl
    rw [hend] at e1 e5
    unfold emit
    simp only [hpk, hru, hiu, hl, hop, hvt, hbs, hfw, hzs, hhb, emitBases, Bool.false_and, Bool.and_false,
      Bool.false_eq_true, if_false, Bool.not_false, List.nil_append, Bool.and_self]
    have hm0 : max 1 (0 : Nat) = 1 := rfl
    simp only [hm0] at e5
    generalize emitFields false 0 _ c.fields = E at e1 e2 e3 e3b e4 e5 ⊢
    obtain ⟨tE, ff⟩ := E
    simp only at e1 e2 e3 e3b e4 e5 ⊢
    have hge := alignTo_ge (plainEnd 0 c.fields) l.align
    obtain ⟨t2, pad, pre, c', hT, hU, hinv2, hm2, hb2, hnp, hpre, hplace, hc'⟩ :=
      tail_plainW e1 l (max 1 tE.maxFieldAlign) (by omega) (by omega)
    have hPS := padStruct_none t2 l _ hinv2.off (by rw [hb2]; exact e3b) hal hsz
    simp only [hT, hU, hPS, Bool.false_eq_true, if_false, if_true, List.append_nil]
    have hfs : ((ff ++ padList pad).any fun f => f.blob == some BlobTy.panic) = false := by
      rw [List.any_append, e4, hnp]; rfl
    have hpl : placeFields none 0 1 (ff ++ padList pad) = (offs ++ pre, c', max 1 tE.maxFieldAlign) := by
      rw [placeFields_append, e5]
      simp only [hplace]
    have hsz' : alignTo c' l.align = l.size := by
      rcases hc' with h | h
      · rw [h, hsz]
      · rw [h, hsz, alignTo_idem]
    have huo : uo (offs ++ pre) = cOffsets 0 c.fields := by
      rw [uo_append, hpre, e6, List.append_nil]
    cases hR : t2.requiresExplicitAlign l with
    | false =>
      have hmax : max 1 tE.maxFieldAlign = l.align := by
        have := requiresExplicitAlign_false hR
        rw [hm2] at this
        omega
      simp only [Bool.false_eq_true, if_false, Bool.false_and]
      exact assemble l ff (padList pad) (offs ++ pre) c' (max 1 tE.maxFieldAlign) c.fields none
        (Or.inl ⟨rfl, hmax⟩) hfs hpl hsz' huo
    | true =>
      have hne1 : ¬ l.align = 1 := by
        intro h1
        unfold Tracker.requiresExplicitAlign at hR
        rw [hm2] at hR
        split at hR
        · omega
        · split at hR
          · simp at hR
          · omega
      simp only [if_true, if_neg hne1, Bool.false_and, Bool.false_eq_true, if_false]
      exact assemble l ff (padList pad) (offs ++ pre) c' (max 1 tE.maxFieldAlign) c.fields (some l.align)
        (Or.inr ⟨rfl, e2⟩) hfs hpl hsz' huo

/-! ### layer 5: helpers -/

/-- units-aware version of `padInexact` -/
def padInexactU (o : Opts) (c : CAgg) : Bool := padInexactFromU o.forcePadding 0 c.fields

theorem placeFields_max (x : Nat) (fs : List RField) (cur ma : Nat) :
    placeFields none cur (max ma x) fs =
      ((placeFields none cur ma fs).1, (placeFields none cur ma fs).2.1, max (placeFields none cur ma fs).2.2 x) := by
  induction fs generalizing cur ma with
  | nil => rfl
  | cons f fs ih =>
    rw [placeFields_cons, placeFields_cons]
    have : max (max ma x) f.align = max (max ma f.align) x := by omega
    rw [this, ih]

theorem forSizeLoop_pow2 (fuel ptr size next : Nat) (h : ∃ k, next = 2 ^ (k + 1)) :
    ∃ k, forSizeLoop fuel ptr size next = 2 ^ (k + 1) := by
  induction fuel generalizing next with
  | zero => simpa [forSizeLoop] using h
  | succ n ih =>
    unfold forSizeLoop
    split
    · apply ih
      obtain ⟨k, hk⟩ := h
      exact ⟨k + 1, by rw [hk, Nat.pow_succ 2 (k + 1)]⟩
    · exact h

theorem forSize_pow2 (ptr size : Nat) : ∃ k, (forSize ptr size).align = 2 ^ k := by
  obtain ⟨k, hk⟩ := forSizeLoop_pow2 (ptr + 1) ptr size 2 ⟨0, rfl⟩
  refine ⟨k, ?_⟩
  unfold forSize
  simp only [hk, Nat.pow_succ]
  omega

theorem pow2_dvd (k A : Nat) (hA : isPow2 A = true) (h : 2 ^ k < A) : A % 2 ^ k = 0 := by
  simp only [isPow2, Bool.or_eq_true, beq_iff_eq] at hA
  have hk : k < 7 := by
    apply Decidable.byContradiction
    intro hk
    have := Nat.pow_le_pow_right (by decide : 0 < 2) (by omega : 7 ≤ k)
    omega
  have : k = 0 ∨ k = 1 ∨ k = 2 ∨ k = 3 ∨ k = 4 ∨ k = 5 ∨ k = 6 := by omega
  rcases this with rfl | rfl | rfl | rfl | rfl | rfl | rfl <;> omega

theorem dvd_end (g A e size : Nat) (k : Nat) (hg : g = 2 ^ k) (hA : isPow2 A = true)
    (hsz : size = alignTo e A) (hpb : (size - e) % g = 0) (hne : size - e ≠ 0) : e % g = 0 := by
  have hApos : 0 < A := by
    simp only [isPow2, Bool.or_eq_true, beq_iff_eq] at hA; omega
  have h1 := alignTo_lt e A hApos
  have h2 := alignTo_ge e A
  have h3 := alignTo_mod e A hApos
  rw [← hsz] at h1 h2 h3
  have hgpos : 0 < g := by rw [hg]; exact Nat.pow_pos (by decide)
  have hle : g ≤ size - e := Nat.le_of_dvd (by omega) (Nat.dvd_of_mod_eq_zero hpb)
  have hAg : A % g = 0 := by
    rw [hg]; exact pow2_dvd k A hA (by rw [← hg]; omega)
  have hsg : g ∣ size := Nat.dvd_trans (Nat.dvd_of_mod_eq_zero hAg) (Nat.dvd_of_mod_eq_zero h3)
  have he : e = size - (size - e) := by omega
  rw [he]
  exact Nat.mod_eq_zero_of_dvd (Nat.dvd_sub hsg (Nat.dvd_of_mod_eq_zero hpb))

theorem tail_noforce {t : Tracker} {e : Nat} (h : WInv t false e) (l : Layout) :
    t.addTailPadding l = (t, none) ∧ t.tailPaddingUnderflows l = false := by
  unfold Tracker.addTailPadding Tracker.tailPaddingUnderflows
  rw [h.fp]
  simp

/-- `pad_struct` after a record whose last field may be a bit-field unit -/
theorem padStruct_units {t : Tracker} {e : Nat} (h : WInv t false e) (L : Layout)
    (hA : isPow2 L.align = true) (hs : L.size = alignTo e L.align)
    (hm : 1 ≤ t.maxFieldAlign) (hB : t.maxFieldAlign ≤ L.align) :
    ∃ t3 pad pre c', t.padStruct L = (t3, pad) ∧ 1 ≤ t3.maxFieldAlign ∧ t3.maxFieldAlign ≤ L.align ∧
      (padList pad).any (fun f => f.blob == some .panic) = false ∧ uo pre = [] ∧ un pre = [] ∧
      placeFields none e (max 1 t.maxFieldAlign) (padList pad) = (pre, c', max 1 t3.maxFieldAlign) ∧
      alignTo c' L.align = L.size := by
  have hApos : 0 < L.align := by
    simp only [isPow2, Bool.or_eq_true, beq_iff_eq] at hA; omega
  have h1 := alignTo_lt e L.align hApos
  have h2 := alignTo_ge e L.align
  by_cases hb : t.lastFieldWasBitfield = false
  · exact ⟨t, none, [], e, padStruct_none t L e h.off hb hApos hs, hm, hB, rfl, rfl, rfl, rfl, hs.symm⟩
  · have hb : t.lastFieldWasBitfield = true := by simpa using hb
    by_cases hpb : L.size - e = 0
    · refine ⟨t, none, [], e, ?_, hm, hB, rfl, rfl, rfl, rfl, hs.symm⟩
      unfold Tracker.padStruct
      rw [h.off, if_neg (by omega)]
      simp only [hpb, if_true]
    · have hla : (match t.latestFieldLayout with | some x => x.align | none => 0) ≤ 1 := by
        split
        · rename_i x hx
          have := h.bf hb x hx
          omega
        · omega
      have hps : t.padStruct L = ((t.paddingField (forSize t.ptrSize (L.size - e))).1,
          some (t.paddingField (forSize t.ptrSize (L.size - e))).2) := by
        unfold Tracker.padStruct
        rw [h.off, if_neg (by omega)]
        simp only [hpb, if_false, h.np, hb, true_and, true_or, if_true, Bool.false_eq_true]
        cases hlf : t.latestFieldLayout with
        | none => simp
        | some x =>
          have := h.bf hb x hlf
          simp only [this]
          rw [if_pos (Or.inr (by omega))]
      obtain ⟨hd, hsize⟩ := forSize_dvd t.ptrSize (L.size - e)
      obtain ⟨k, hk⟩ := forSize_pow2 t.ptrSize (L.size - e)
      generalize forSize t.ptrSize (L.size - e) = fl at hps hd hsize hk
      have hgpos : 0 < fl.align := by rw [hk]; exact Nat.pow_pos (by decide)
      have hg3 : fl.align ≠ 3 := by
        intro h3
        have : k < 2 := by
          apply Decidable.byContradiction
          intro hk2
          have := Nat.pow_le_pow_right (by decide : 0 < 2) (by omega : 2 ≤ k)
          omega
        have : k = 0 ∨ k = 1 := by omega
        rcases this with rfl | rfl <;> omega
      have hmax : max fl.align 1 = fl.align := by omega
      obtain ⟨b, ca, hbp, _, hbf⟩ := blobField_eq (.padding t.paddingCount) fl hg3 (by rw [hmax, hsize]; exact hd)
      have hge : e % fl.align = 0 := dvd_end fl.align L.align e L.size k hk hA hs (hsize ▸ hd) hpb
      have hgle : fl.align ≤ L.size - e := Nat.le_of_dvd (by omega) (Nat.dvd_of_mod_eq_zero hd)
      refine ⟨_, _, [(.padding t.paddingCount, e)], L.size, hps, ?_, ?_, ?_, rfl, rfl, ?_, ?_⟩
      · simp only [Tracker.paddingField]; omega
      · simp only [Tracker.paddingField]; omega
      · simp only [Tracker.paddingField, padList, padField, hbf, List.any_cons, List.any_nil, Bool.or_false]
        simpa using hbp
      · simp only [Tracker.paddingField, padList, padField, hbf, placeFields_cons, placeFields_nil, hmax, hsize,
          alignTo_of_mod_eq_zero _ _ hge]
        have : e + (L.size - e) = L.size := by omega
        rw [this]
        have : max (max 1 t.maxFieldAlign) fl.align = max 1 (max t.maxFieldAlign fl.align) := by omega
        rw [this]
      · rw [hs, alignTo_idem]

/-- `RLayout.unitOffset` finds every unit, provided the `nth` tags are pairwise distinct -/
theorem findUnit (offs : List (FName × Nat)) (hnd : ((un offs).map Prod.fst).Nodup) :
    ∀ n off, (n, off) ∈ un offs →
      offs.findSome? (fun (m, o) => if m == FName.unit n then some o else none) = some off := by
  induction offs with
  | nil => intro n off h; simp [un] at h
  | cons p r ih =>
    obtain ⟨m, o⟩ := p
    intro n off hmem
    cases m with
    | unit i =>
      rw [un_cons_unit, List.map_cons, List.nodup_cons] at hnd
      rw [un_cons_unit, List.mem_cons] at hmem
      rw [List.findSome?_cons]
      by_cases hni : i = n
      · subst hni
        simp only [beq_self_eq_true, if_true]
        rcases hmem with hmem | hmem
        · cases hmem; rfl
        · exact absurd (List.mem_map_of_mem (f := Prod.fst) hmem) hnd.1
      · have : (FName.unit i == FName.unit n) = false := by simp [hni]
        simp only [this, Bool.false_eq_true, if_false]
        rcases hmem with hmem | hmem
        · cases hmem; exact absurd rfl hni
        · exact ih hnd.2 n off hmem
    | _ =>
      have hnd' : ((un r).map Prod.fst).Nodup := hnd
      have hmem' : (n, off) ∈ un r := hmem
      rw [List.findSome?_cons]
      exact ih hnd' n off hmem'

/-! ### why `with_units` needs `hpu` and `hnd`: the statement without them is false -/

/-- a 4-byte unit followed by an `__int128`: real gap 12 (padding blob `__BindgenOpaqueArray8<[u8; 12]>`,
size 16), `padInexact` looks at the gap 16 -/
def withUnitsCexPad : CAgg :=
  { layout := some { size := 32, align := 16 },
    fields := [.unit 1 { size := 4, align := 1 } 30 (some 0),
               .data { layout := some { size := 16, align := 16 } } (some 128)] }

theorem with_units_cex_pad :
    ClangUnits withUnitsCexPad = true ∧ padInexact {} withUnitsCexPad = false ∧
      padInexactU {} withUnitsCexPad = true ∧
      ((emit {} withUnitsCexPad).bind reprC).map (fun l => (l.size, l.userOffsets)) = some (48, [(1, 32)]) ∧
      cOffsets 0 withUnitsCexPad.fields = [(1, 16)] := by decide

/-- two units carrying the same `nth` -/
def withUnitsCexDup : CAgg :=
  { layout := some { size := 2, align := 1 },
    fields := [.unit 1 { size := 1, align := 1 } 3 (some 0), .unit 1 { size := 1, align := 1 } 3 (some 8)] }

theorem with_units_cex_dup :
    ClangUnits withUnitsCexDup = true ∧ padInexact {} withUnitsCexDup = false ∧
      padInexactU {} withUnitsCexDup = false ∧
      (1, 1) ∈ cUnitOffsets withUnitsCexDup.fields ∧
      ((emit {} withUnitsCexDup).bind reprC).map (fun l => l.unitOffset 1) = some (some 0) := by decide

theorem alignFieldFor_eq (o : Opts) (e : Nat) (hu : o.u64Align = 8) (he : e = 2 ∨ e = 4 ∨ e = 8) :
    alignFieldFor o e = { name := .bindgenAlign, size := 0, align := e } := by
  rcases he with rfl | rfl | rfl <;> simp [alignFieldFor, hu]

/-- the emitted aggregate of layer 5, once its field list is known to be placed like the C record -/
theorem assemble5 (l : Layout) (F : List RField) (offs : List (FName × Nat)) (c' ma : Nat)
    (flds : List CField) (A : Option Nat)
    (hA : (A = none ∧ ma = l.align) ∨ (A = some l.align ∧ ma ≤ l.align))
    (hfs : (F.any fun f => f.blob == some BlobTy.panic) = false)
    (hpl : placeFields none 0 1 F = (offs, c', ma))
    (hsz' : alignTo c' l.align = l.size) (huo : uo offs = cOffsets 0 flds)
    (hun : un offs = cUnitOffsets flds) (hnd : ((cUnitOffsets flds).map Prod.fst).Nodup) :
    ∃ r l', (if (F.any fun f => f.blob == some BlobTy.panic) = true then none
        else some { isUnion := false, packed := none, align := A, fields := F : RustAgg }) = some r ∧
      reprC r = some l' ∧
      (∀ cl, some l = some cl → l'.size = cl.size ∧ l'.align = cl.align) ∧
      l'.userOffsets = cOffsets 0 flds ∧
      (∀ n off, (n, off) ∈ cUnitOffsets flds → l'.unitOffset n = some off) := by
  refine ⟨{ isUnion := false, packed := none, align := A, fields := F },
    { size := l.size, align := l.align, offsets := offs }, ?_, ?_, ?_, ?_, ?_⟩
  · rw [hfs]; simp
  · rcases hA with ⟨hA, hma⟩ | ⟨hA, hma⟩
    · subst hA
      simp only [reprC, Option.isSome_none, Bool.false_and, Bool.false_eq_true, if_false, hpl, hma, hsz']
    · subst hA
      have : max ma l.align = l.align := by omega
      simp only [reprC, Option.isSome_none, Bool.false_and, Bool.false_eq_true, if_false, hpl, this, hsz']
  · intro cl hcl
    cases hcl
    exact ⟨rfl, rfl⟩
  · rw [userOffsets_eq]
    exact huo
  · intro n off hmem
    rw [← hun] at hmem hnd
    exact findUnit offs hnd n off hmem

/-- layer 5 (without `--explicit-padding`; with it: region `explicit_padding_double_tail`).
Two hypotheses were added to the original statement, which is false without them:
* `hpu`: `padInexact` does not advance its running offset over a unit, so after a unit it tests the
  wrong gap; counterexample `with_units_cex_pad`;
* `hnd`: `RLayout.unitOffset` returns the first unit tagged `n`; counterexample `with_units_cex_dup`. -/
theorem with_units (o : Opts) (c : CAgg) (h : ClangUnits c = true)
    (hf : o.forcePadding = false) (hu : o.u64Align = 8)
    (hpu : padInexactU o c = false) (hnd : ((cUnitOffsets c.fields).map Prod.fst).Nodup) :
    ∃ r l, emit o c = some r ∧ reprC r = some l ∧
      (∀ cl, c.layout = some cl → l.size = cl.size ∧ l.align = cl.align) ∧
      l.userOffsets = cOffsets 0 c.fields ∧
      (∀ n off, (n, off) ∈ cUnitOffsets c.fields → l.unitOffset n = some off) := by
  unfold ClangUnits at h
  cases hl : c.layout with
  | none => simp [hl] at h
  | some l =>
    simp only [hl, Bool.and_eq_true, Bool.not_eq_true', beq_iff_eq,
      List.isEmpty_eq_false_iff, List.isEmpty_iff] at h
    obtain ⟨⟨⟨⟨⟨⟨⟨⟨⟨hiu, hpa⟩, hov⟩, hvt⟩, hbs⟩, hop⟩, hfw⟩, hzs⟩, hne⟩, ⟨⟨hal, hle⟩, hpf⟩, hsz⟩ := h
    have hal' := hal
    simp only [isPow2, Bool.or_eq_true, beq_iff_eq] at hal'
    have hpk := isPacked_plain c l hpa hl hov hle
    have hru : c.isRustUnion o = (false, false) := by simp [CAgg.isRustUnion, hiu]
    have hinv0 : WInv {
        isPacked := false, knownTypeLayout := some l, isRustUnion := false, compIsUnion := false,
        forcePadding := o.forcePadding, ptrSize := o.ptrSize } false 0 :=
      ⟨rfl, rfl, rfl, rfl, hf, rfl, by intro pl hpl; simp at hpl, by intro hb; simp at hb⟩
    unfold padInexactU at hpu
    rw [hf] at hpu
    obtain ⟨e1, e2, e3, _, e4, offs, e5, e6, e7⟩ :=
      emitFields_units false l.align c.fields 0 _ 0 hinv0 hpf hpu hle (by simp; omega)
    have e3 := e3 hne
    unfold emit
    simp only [hpk, hru, hiu, hl, hop, hvt, hbs, hfw, hzs, emitBases, Bool.false_and, Bool.and_false,
      Bool.false_eq_true, if_false, Bool.not_false, List.nil_append, Bool.and_self]
    have hm0 : max 1 (0 : Nat) = 1 := rfl
    simp only [hm0] at e5
    generalize emitFields false 0 _ c.fields = E at e1 e2 e3 e4 e5 ⊢
    obtain ⟨tE, ff⟩ := E
    simp only at e1 e2 e3 e4 e5 ⊢
    obtain ⟨hT, hU⟩ := tail_noforce e1 l
    obtain ⟨t3, pad, pre, c', hPS, hm3, hB3, hnp, hpre, hpreu, hplace, hsz'⟩ :=
      padStruct_units e1 l hal hsz e3 (by omega)
    simp only [hT, hU, hPS, Bool.false_eq_true, if_false, if_true, List.append_nil]
    have hfs : ((ff ++ padList pad).any fun f => f.blob == some BlobTy.panic) = false := by
      rw [List.any_append, e4, hnp]; rfl
    have hmx : max 1 t3.maxFieldAlign = t3.maxFieldAlign := by omega
    have hpl : placeFields none 0 1 (ff ++ padList pad) = (offs ++ pre, c', t3.maxFieldAlign) := by
      rw [placeFields_append, e5]
      simp only [hplace, hmx]
    have huo : uo (offs ++ pre) = cOffsets 0 c.fields := by
      rw [uo_append, hpre, e6, List.append_nil]
    have hun : un (offs ++ pre) = cUnitOffsets c.fields := by
      rw [un_append, hpreu, e7, List.append_nil]
    cases hR : t3.requiresExplicitAlign l with
    | false =>
      have hmax : t3.maxFieldAlign = l.align := by
        have := requiresExplicitAlign_false hR
        omega
      simp only [Bool.false_eq_true, if_false, Bool.false_and]
      exact assemble5 l (ff ++ padList pad) (offs ++ pre) c' t3.maxFieldAlign c.fields none
        (Or.inl ⟨rfl, hmax⟩) hfs hpl hsz' huo hun hnd
    | true =>
      have hne1 : ¬ l.align = 1 := by
        intro h1
        unfold Tracker.requiresExplicitAlign at hR
        split at hR
        · omega
        · split at hR
          · simp at hR
          · omega
      simp only [if_true, if_neg hne1, Bool.false_and, Bool.false_eq_true, if_false]
      by_cases hfront : c.hasBitfields = true ∧ l.align ≤ 8
      · have h248 : l.align = 2 ∨ l.align = 4 ∨ l.align = 8 := by omega
        simp only [hfront.1, hfront.2, decide_true, Bool.and_self, if_true]
        rw [alignFieldFor_eq o l.align hu h248]
        have hpl' : placeFields none 0 1 ({ name := .bindgenAlign, size := 0, align := l.align } :: (ff ++ padList pad)) =
            ((.bindgenAlign, 0) :: (offs ++ pre), c', l.align) := by
          rw [placeFields_cons]
          simp only [alignTo_zero_left, Nat.add_zero, placeFields_max, hpl]
          have : max t3.maxFieldAlign l.align = l.align := by omega
          rw [this]
        exact assemble5 l ({ name := .bindgenAlign, size := 0, align := l.align } :: (ff ++ padList pad))
          ((.bindgenAlign, 0) :: (offs ++ pre)) c' l.align c.fields none
          (Or.inl ⟨rfl, rfl⟩) (by rw [List.any_cons, hfs]; rfl) hpl' hsz'
          (by rw [uo_cons_bindgenAlign]; exact huo) (by rw [un_cons_bindgenAlign]; exact hun) hnd
      · have hcond : (c.hasBitfields && decide (l.align ≤ 8)) = false := by
          cases hhb : c.hasBitfields
          · rfl
          · simp only [hhb, true_and] at hfront
            simp [hfront]
        simp only [hcond, Bool.false_eq_true, if_false]
        exact assemble5 l (ff ++ padList pad) (offs ++ pre) c' t3.maxFieldAlign c.fields (some l.align)
          (Or.inr ⟨rfl, hB3⟩) hfs hpl hsz' huo hun hnd

end BindgenModel.C02
