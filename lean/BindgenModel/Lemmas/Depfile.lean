import BindgenModel.Model.Depfile
/-! Lemmas for C17: `escape` as a per-character map, and the phases of `makeParse` on escaped text. -/
namespace BindgenModel.Depfile

theorem replaceChar_append (c : Char) (r a b : Str) :
    replaceChar c r (a ++ b) = replaceChar c r a ++ replaceChar c r b := by
  induction a with
  | nil => rfl
  | cons x xs ih => by_cases h : x = c <;> simp [replaceChar, h, ih]

theorem escapeWith_append (tbl : List (Char × Str)) (a b : Str) :
    escapeWith tbl (a ++ b) = escapeWith tbl a ++ escapeWith tbl b := by
  induction tbl generalizing a b with
  | nil => rfl
  | cons p ps ih =>
    simp only [escapeWith, List.foldl_cons] at ih ⊢
    rw [replaceChar_append]; exact ih _ _

theorem escapeWith_cons (tbl : List (Char × Str)) (c : Char) (s : Str) :
    escapeWith tbl (c :: s) = escapeWith tbl [c] ++ escapeWith tbl s := by
  have := escapeWith_append tbl [c] s
  simpa using this

theorem escapeWith_nil (tbl : List (Char × Str)) : escapeWith tbl [] = [] := by
  induction tbl with
  | nil => rfl
  | cons p ps ih => simpa [escapeWith, replaceChar] using ih

/-- per-character form of the escape with the fix applied -/
def e2 (c : Char) : Str :=
  if c = '\\' then ['\\', '\\'] else if c = ' ' then ['\\', ' '] else if c = '#' then ['\\', '#']
  else if c = '$' then ['$', '$'] else [c]

/-- per-character form of the escape of deps.rs today -/
def eC (c : Char) : Str :=
  if c = '\\' then ['\\', '\\'] else if c = ' ' then ['\\', ' '] else [c]

theorem escape_fixed_single (c : Char) : escapeWith tblFixed [c] = e2 c := by
  unfold e2
  by_cases h1 : c = '\\'
  · subst h1; decide
  by_cases h2 : c = ' '
  · subst h2; decide
  by_cases h3 : c = '#'
  · subst h3; decide
  by_cases h4 : c = '$'
  · subst h4; decide
  simp [escapeWith, tblFixed, replaceChar, h1, h2, h3, h4]

theorem escape_current_single (c : Char) : escapeWith tblCurrent [c] = eC c := by
  unfold eC
  by_cases h1 : c = '\\'
  · subst h1; decide
  by_cases h2 : c = ' '
  · subst h2; decide
  simp [escapeWith, tblCurrent, replaceChar, h1, h2]

/-- the sequence of whole-string replacements is a per-character substitution -/
theorem escape_fixed_eq (s : Str) : escapeWith tblFixed s = s.flatMap e2 := by
  induction s with
  | nil => simp [escapeWith_nil]
  | cons c s ih => rw [escapeWith_cons, ih, escape_fixed_single]; simp

theorem escape_current_eq (s : Str) : escapeWith tblCurrent s = s.flatMap eC := by
  induction s with
  | nil => simp [escapeWith_nil]
  | cons c s ih => rw [escapeWith_cons, ih, escape_current_single]; simp

/-! ## the alphabet of the round-trip theorem -/

/-- characters with no meaning for make (and not touched by `escape`) -/
def plain (c : Char) : Prop :=
  unmodelled c = false ∧ isBlank c = false ∧ c ≠ '\\' ∧ c ≠ '#' ∧ c ≠ '$' ∧ c ≠ ':'

/-- characters of names that round-trip once `#` and `$` are escaped -/
def okF (c : Char) : Prop := plain c ∨ c = ' ' ∨ c = '#' ∨ c = '$'

/-- characters of names that round-trip with deps.rs as it is -/
def okC (c : Char) : Prop := plain c ∨ c = ' '

/-- text after comment removal: `\#` has become `#` -/
def e1 (c : Char) : Str := if c = ' ' then ['\\', ' '] else if c = '$' then ['$', '$'] else [c]
/-- text after variable expansion: `$$` has become `$` -/
def e0 (c : Char) : Str := if c = ' ' then ['\\', ' '] else [c]

theorem plain_ne_space {c : Char} (h : plain c) : c ≠ ' ' := by
  intro e; subst e; exact absurd h.2.1 (by decide)

theorem e2_plain {c : Char} (h : plain c) : e2 c = [c] := by
  simp [e2, h.2.2.1, plain_ne_space h, h.2.2.2.1, h.2.2.2.2.1]
theorem e1_plain {c : Char} (h : plain c) : e1 c = [c] := by
  simp [e1, plain_ne_space h, h.2.2.2.2.1]
theorem e0_plain {c : Char} (h : plain c) : e0 c = [c] := by
  simp [e0, plain_ne_space h]

theorem foldl_deps (f : Str → Str) (deps : List Str) (init : Str) :
    deps.foldl (fun buf d => buf ++ ' ' :: f d) init = init ++ deps.flatMap (fun d => ' ' :: f d) := by
  induction deps generalizing init with
  | nil => simp
  | cons d ds ih => simp [List.foldl_cons, ih, List.flatMap_cons]

theorem toStringWith_eq (tbl : List (Char × Str)) (tgt : Str) (deps : List Str) :
    toStringWith tbl tgt deps =
      escapeWith tbl tgt ++ ':' :: deps.flatMap (fun d => ' ' :: escapeWith tbl d) := by
  unfold toStringWith
  rw [foldl_deps (escapeWith tbl)]
  simp

/-! ## phase 1: comment removal -/

theorem sc_char {c : Char} (h1 : c ≠ '\\') (h2 : c ≠ '#') (h3 : c ≠ '$') (X : Str) :
    stripComment 0 false (c :: X) = (stripComment 0 false X).map (fun r => c :: r) := by
  simp [stripComment, h1, h2, h3, bs]

theorem sc_okF {c : Char} (h : okF c) (X : Str) :
    stripComment 0 false (e2 c ++ X) = (stripComment 0 false X).map (fun r => e1 c ++ r) := by
  rcases h with h | h | h | h
  · rw [e2_plain h, e1_plain h]; simpa using sc_char h.2.2.1 h.2.2.2.1 h.2.2.2.2.1 X
  · subst h; simp [e2, e1, stripComment, bs]
  · subst h; simp [e2, e1, stripComment, bs]
  · subst h; simp [e2, e1, stripComment, bs, badAfterDollar, isBlank, Function.comp_def]

theorem sc_name (n : Str) (hn : ∀ c ∈ n, okF c) (X : Str) :
    stripComment 0 false (n.flatMap e2 ++ X) =
      (stripComment 0 false X).map (fun r => n.flatMap e1 ++ r) := by
  induction n with
  | nil => simp
  | cons c n ih =>
    have hc := hn c (by simp)
    have hn' : ∀ c ∈ n, okF c := fun c hc => hn c (by simp [hc])
    simp only [List.flatMap_cons, List.append_assoc]
    rw [sc_okF hc, ih hn']
    simp [Option.map_map, Function.comp_def]

theorem sc_deps (deps : List Str) (hd : ∀ d ∈ deps, ∀ c ∈ d, okF c) :
    stripComment 0 false (deps.flatMap (fun d => ' ' :: d.flatMap e2)) =
      some (deps.flatMap (fun d => ' ' :: d.flatMap e1)) := by
  induction deps with
  | nil => simp [stripComment, bs]
  | cons d ds ih =>
    have h1 := hd d (by simp)
    have h2 : ∀ d ∈ ds, ∀ c ∈ d, okF c := fun d hd' => hd d (by simp [hd'])
    simp only [List.flatMap_cons, List.cons_append]
    rw [sc_char (by decide) (by decide) (by decide), sc_name d h1, ih h2]
    simp

/-! ## phase 2: the separator -/

theorem fc_okF {c : Char} (h : okF c) (X : Str) :
    findColon 0 0 (e1 c ++ X) = (findColon 0 0 X).map (fun p => (e1 c ++ p.1, p.2)) := by
  rcases h with h | h | h | h
  · rw [e1_plain h]; simp [findColon, h.2.2.1, h.2.2.2.2.2, h.2.2.2.2.1, bs]
  · subst h; simp [e1, findColon, bs]
  · subst h; simp [e1, findColon, bs]
  · subst h; simp [e1, findColon, bs, Function.comp_def]

theorem fc_name (n : Str) (hn : ∀ c ∈ n, okF c) (X : Str) :
    findColon 0 0 (n.flatMap e1 ++ X) =
      (findColon 0 0 X).map (fun p => (n.flatMap e1 ++ p.1, p.2)) := by
  induction n with
  | nil => simp
  | cons c n ih =>
    have hc := hn c (by simp)
    have hn' : ∀ c ∈ n, okF c := fun c hc => hn c (by simp [hc])
    simp only [List.flatMap_cons, List.append_assoc]
    rw [fc_okF hc, ih hn']
    simp [Option.map_map, Function.comp_def]

theorem fc_line (n : Str) (hn : ∀ c ∈ n, okF c) (R : Str) :
    findColon 0 0 (n.flatMap e1 ++ ':' :: R) = some (n.flatMap e1, R) := by
  rw [fc_name n hn]; simp [findColon, bs]

/-! ## phase 3: white-space normalisation of the target part -/

theorem norm_okF {c : Char} (h : okF c) (pend st : Bool) (Y : Str)
    (ih : ∀ pend, normalise pend true Y = (if pend then [' '] else []) ++ Y) :
    normalise pend st (e1 c ++ Y) = (if pend && st then [' '] else []) ++ (e1 c ++ Y) := by
  rcases h with h | h | h | h
  · rw [e1_plain h]; cases pend <;> cases st <;> simp [normalise, h.2.1, ih]
  · subst h; cases pend <;> cases st <;> simp [e1, normalise, isBlank, ih]
  · subst h; cases pend <;> cases st <;> simp [e1, normalise, isBlank, ih]
  · subst h; cases pend <;> cases st <;> simp [e1, normalise, isBlank, ih]

theorem norm_name (n : Str) (hn : ∀ c ∈ n, okF c) :
    ∀ pend st, normalise pend st (n.flatMap e1) = (if pend && st then [' '] else []) ++ n.flatMap e1 := by
  induction n with
  | nil => intro pend st; cases pend <;> cases st <;> simp [normalise]
  | cons c n ih =>
    have hc := hn c (by simp)
    have hn' : ∀ c ∈ n, okF c := fun c hc => hn c (by simp [hc])
    intro pend st
    simp only [List.flatMap_cons]
    exact norm_okF hc pend st _ (fun pend => by simpa using ih hn' pend true)

/-! ## phase 4: variable expansion -/

theorem ex_okF {c : Char} (h : okF c) (X Y : Str) (hX : ∀ pb, expand pb false X = some Y) :
    ∀ pb, expand pb false (e1 c ++ X) = some (e0 c ++ Y) := by
  intro pb
  rcases h with h | h | h | h
  · rw [e1_plain h, e0_plain h]; simp [expand, h.2.2.2.2.1, hX]
  · subst h; simp [e1, e0, expand, hX]
  · subst h; simp [e1, e0, expand, hX]
  · subst h; simp [e1, e0, expand, hX]

theorem ex_name (n : Str) (hn : ∀ c ∈ n, okF c) (X Y : Str) (hX : ∀ pb, expand pb false X = some Y) :
    ∀ pb, expand pb false (n.flatMap e1 ++ X) = some (n.flatMap e0 ++ Y) := by
  induction n with
  | nil => simpa using hX
  | cons c n ih =>
    have hc := hn c (by simp)
    have hn' : ∀ c ∈ n, okF c := fun c hc => hn c (by simp [hc])
    simp only [List.flatMap_cons, List.append_assoc]
    exact ex_okF hc _ _ (ih hn')

theorem ex_deps (deps : List Str) (hd : ∀ d ∈ deps, ∀ c ∈ d, okF c) :
    ∀ pb, expand pb false (deps.flatMap (fun d => ' ' :: d.flatMap e1)) =
      some (deps.flatMap (fun d => ' ' :: d.flatMap e0)) := by
  induction deps with
  | nil => intro pb; simp [expand]
  | cons d ds ih =>
    have h1 := hd d (by simp)
    have h2 : ∀ d ∈ ds, ∀ c ∈ d, okF c := fun d hd' => hd d (by simp [hd'])
    intro pb
    simp only [List.flatMap_cons, List.cons_append]
    have := ex_name d h1 _ _ (ih h2)
    simp [expand, this]

/-! ## phase 5–6: no second colon, no trailing blank -/

theorem okF_ne_colon {c : Char} (h : okF c) : c ≠ ':' := by
  rcases h with h | h | h | h
  · exact h.2.2.2.2.2
  all_goals (subst h; decide)

theorem e0_no_colon {c : Char} (h : okF c) : ':' ∉ e0 c := by
  have := okF_ne_colon h
  unfold e0; split <;> simp [Ne.symm this]

theorem deps_no_colon (deps : List Str) (hd : ∀ d ∈ deps, ∀ c ∈ d, okF c) :
    (deps.flatMap (fun d => ' ' :: d.flatMap e0)).contains ':' = false := by
  rw [Bool.eq_false_iff]
  intro h
  rw [List.contains_iff_mem] at h
  simp only [List.mem_flatMap, List.mem_cons] at h
  obtain ⟨d, hdm, h⟩ := h
  rcases h with h | ⟨c, hc, h⟩
  · exact absurd h (by decide)
  · exact e0_no_colon (hd d hdm c hc) h

theorem dtb_of_last (s : Str) (h : ∀ x, s.getLast? = some x → isBlank x = false) :
    dropTrailingBlanks s = s := by
  rcases List.eq_nil_or_concat s with rfl | ⟨s', x, rfl⟩
  · rfl
  · have hx : isBlank x = false := h x (by simp)
    simp [dropTrailingBlanks, hx]

/-- the last character of the name is not a space -/
def lastNotSpace (n : Str) : Prop := ∀ x, n.getLast? = some x → x ≠ ' '

theorem okF_nonblank {c : Char} (h : okF c) (hs : c ≠ ' ') : isBlank c = false := by
  rcases h with h | h | h | h
  · exact h.2.1
  · exact absurd h hs
  all_goals (subst h; decide)

theorem name_last (n : Str) (hn : ∀ c ∈ n, okF c) (hne : n ≠ []) (hl : lastNotSpace n) :
    ∃ s x, n.flatMap e0 = s ++ [x] ∧ isBlank x = false := by
  rcases List.eq_nil_or_concat n with rfl | ⟨n', z, rfl⟩
  · exact absurd rfl hne
  · have hz : z ≠ ' ' := hl z (by simp)
    have hok : okF z := hn z (by simp)
    refine ⟨n'.flatMap e0, z, ?_, okF_nonblank hok hz⟩
    simp [e0, hz]

theorem deps_last (deps : List Str) (hd : ∀ d ∈ deps, (∀ c ∈ d, okF c) ∧ d ≠ [] ∧ lastNotSpace d) :
    ∀ x, (deps.flatMap (fun d => ' ' :: d.flatMap e0)).getLast? = some x → isBlank x = false := by
  induction deps with
  | nil => intro x h; simp at h
  | cons d ds ih =>
    have h1 := hd d (by simp)
    have h2 : ∀ d ∈ ds, (∀ c ∈ d, okF c) ∧ d ≠ [] ∧ lastNotSpace d := fun d hd' => hd d (by simp [hd'])
    intro x hx
    simp only [List.flatMap_cons] at hx
    rw [List.getLast?_append] at hx
    cases hq : (ds.flatMap (fun d => ' ' :: d.flatMap e0)).getLast? with
    | some y =>
      rw [hq] at hx; simp at hx; subst hx; exact ih h2 y hq
    | none =>
      rw [hq] at hx
      obtain ⟨s, z, hs, hz⟩ := name_last d h1.1 h1.2.1 h1.2.2
      rw [hs] at hx
      have : (' ' :: (s ++ [z])).getLast? = some z := by
        rw [show ' ' :: (s ++ [z]) = (' ' :: s) ++ [z] by simp, List.getLast?_append]; simp
      rw [this] at hx; simp at hx; subst hx; exact hz

/-! ## phase 7: splitting into names -/

theorem sn_okF {c : Char} (h : okF c) (cur : Str) (st : Bool) (X : Str) :
    splitNames cur 0 st (e0 c ++ X) = splitNames (cur ++ [c]) 0 true X := by
  rcases h with h | h | h | h
  · rw [e0_plain h]; simp [splitNames, h.2.2.1, h.2.1, bs]
  · subst h; simp [e0, splitNames, isBlank, bs]
  · subst h; simp [e0, splitNames, isBlank, bs]
  · subst h; simp [e0, splitNames, isBlank, bs]

theorem sn_name (n : Str) (hn : ∀ c ∈ n, okF c) (hne : n ≠ []) (cur : Str) (st : Bool) (X : Str) :
    splitNames cur 0 st (n.flatMap e0 ++ X) = splitNames (cur ++ n) 0 true X := by
  induction n generalizing cur st with
  | nil => exact absurd rfl hne
  | cons c n ih =>
    have hc := hn c (by simp)
    have hn' : ∀ c ∈ n, okF c := fun c hc => hn c (by simp [hc])
    simp only [List.flatMap_cons, List.append_assoc]
    rw [sn_okF hc]
    by_cases hnn : n = []
    · subst hnn; simp
    · rw [ih hn' hnn]; simp

theorem sn_deps (ds : List Str) (hd : ∀ d ∈ ds, (∀ c ∈ d, okF c) ∧ d ≠ []) (cur : Str) :
    splitNames cur 0 true (ds.flatMap (fun d => ' ' :: d.flatMap e0)) = cur :: ds := by
  induction ds generalizing cur with
  | nil => simp [splitNames, bs]
  | cons d ds ih =>
    have h1 := hd d (by simp)
    have h2 : ∀ d ∈ ds, (∀ c ∈ d, okF c) ∧ d ≠ [] := fun d hd' => hd d (by simp [hd'])
    simp only [List.flatMap_cons, List.cons_append]
    simp only [splitNames, isBlank, bs]
    simp
    rw [sn_name d h1.1 h1.2, ih h2]; simp

theorem sn_all (ds : List Str) (hd : ∀ d ∈ ds, (∀ c ∈ d, okF c) ∧ d ≠ []) :
    splitNames [] 0 false (ds.flatMap (fun d => ' ' :: d.flatMap e0)) = ds := by
  cases ds with
  | nil => simp [splitNames]
  | cons d ds =>
    have h1 := hd d (by simp)
    have h2 : ∀ d ∈ ds, (∀ c ∈ d, okF c) ∧ d ≠ [] := fun d hd' => hd d (by simp [hd'])
    simp only [List.flatMap_cons, List.cons_append]
    simp only [splitNames, isBlank]
    simp
    rw [sn_name d h1.1 h1.2, sn_deps ds h2]; simp

theorem sn_target (n : Str) (hn : ∀ c ∈ n, okF c) (hne : n ≠ []) :
    splitNames [] 0 false (n.flatMap e0) = [n] := by
  have := sn_name n hn hne [] false []
  simp at this; rw [this]; simp [splitNames, bs]

/-! ## phase 8: `./` -/

/-- the name does not begin with `./` -/
def noDotSlash (n : Str) : Prop := ∀ t, n ≠ '.' :: '/' :: t

theorem stripDot_id (n : Str) (h : noDotSlash n) (fuel : Nat) : stripDot fuel n = n := by
  cases fuel with
  | zero => rfl
  | succ f =>
    match n, h with
    | [], _ => rfl
    | [_], _ => rfl
    | [_, _], _ => rfl
    | a :: b :: c :: t, h =>
      have : ¬ (a = '.' ∧ b = '/') := by
        rintro ⟨rfl, rfl⟩; exact h _ rfl
      simp [stripDot, this]

end BindgenModel.Depfile
