import BindgenModel.Model.CDecl
/-! Lemmas for C16: token view of the serializer, the declarator the printed text denotes,
and correctness of the reference parser on printed declarators. -/
namespace BindgenModel.CDecl
open BindgenModel.Generated.SerializeArms

/-! ## token view of piece lists -/

@[simp] theorem toks_nil : toks [] = [] := rfl
@[simp] theorem toks_append (a b : List Piece) : toks (a ++ b) = toks a ++ toks b := by
  simp [toks, List.filterMap_append]
@[simp] theorem toks_cons_some (p : Piece) (t : Tok) (r : List Piece) (h : p.tok = some t) :
    toks (p :: r) = t :: toks r := by
  simp [toks, h]
@[simp] theorem toks_pSp (r : List Piece) : toks (pSp :: r) = toks r := by
  simp [toks, pSp]
@[simp] theorem toks_pConst (r) : toks (pConst :: r) = .kconst :: toks r := toks_cons_some _ _ _ rfl
@[simp] theorem toks_pBase (b r) : toks (pBase b :: r) = .ty b :: toks r := toks_cons_some _ _ _ rfl
@[simp] theorem toks_pStar (c r) : toks (pStar c :: r) = .star c :: toks r := toks_cons_some _ _ _ rfl
@[simp] theorem toks_pId (s r) : toks (pId s :: r) = .id s :: toks r := toks_cons_some _ _ _ rfl
@[simp] theorem toks_pArr (n r) : toks (pArr n :: r) = .arr n :: toks r := toks_cons_some _ _ _ rfl
@[simp] theorem toks_pArrT (n r) : toks (pArrT n :: r) = .arr n :: toks r := toks_cons_some _ _ _ rfl
@[simp] theorem toks_pFnConst (r) : toks (pFnConst :: r) = .kconst :: toks r := toks_cons_some _ _ _ rfl
@[simp] theorem toks_pFnOpen (r) : toks (pFnOpen :: r) = .lpar :: toks r := toks_cons_some _ _ _ rfl
@[simp] theorem toks_pFnClose (r) : toks (pFnClose :: r) = .rpar :: toks r := toks_cons_some _ _ _ rfl
@[simp] theorem toks_pFnVoid (r) : toks (pFnVoid :: r) = .voidp :: toks r := toks_cons_some _ _ _ rfl
@[simp] theorem toks_pArgsOpen (r) : toks (pArgsOpen :: r) = .lpar :: toks r := toks_cons_some _ _ _ rfl
@[simp] theorem toks_pArgsClose (r) : toks (pArgsClose :: r) = .rpar :: toks r := toks_cons_some _ _ _ rfl
@[simp] theorem toks_pSep (r) : toks (pSep :: r) = .comma :: toks r := toks_cons_some _ _ _ rfl
@[simp] theorem toks_pParOpen (r) : toks (pParOpen :: r) = .lpar :: toks r := toks_cons_some _ _ _ rfl
@[simp] theorem toks_pParClose (r) : toks (pParClose :: r) = .rpar :: toks r := toks_cons_some _ _ _ rfl

@[simp] theorem toks_constP (c : Bool) : toks (constP c) = if c then [.kconst] else [] := by
  cases c <;> simp [constP]

theorem toks_flush (st : List (List Piece)) : toks (flush st) = toks st.flatten := by
  cases st <;> simp [flush]

theorem flatten_snoc (st : List (List Piece)) (x : List Piece) : (st ++ [x]).flatten = st.flatten ++ x := by
  simp

/-! ## leaves -/

/-- number of `const` written in front of a leaf-like type -/
def nConst : CType → Nat
  | .base c _ => if c then 1 else 0
  | .tref c t => if c then nConst t + 1 else nConst t
  | _ => 0

def leafOf : CType → Base
  | .base _ b => b
  | .tref _ t => leafOf t
  | _ => .void

theorem serP_baseLike (a : Bool) : ∀ (t : CType) (st : List (List Piece)), baseLike t = true →
    toks (serP a t st) = List.replicate (nConst t) .kconst ++ [.ty (leafOf t)] ++ toks st.flatten
  | .base c b, st, _ => by cases c <;> simp [serP, nConst, leafOf, toks_flush]
  | .tref c t, st, h => by
    have ih := serP_baseLike a t st (by simpa [baseLike] using h)
    cases c <;> simp [serP, nConst, leafOf, ih, List.replicate_succ]
  | .ptr _ _, _, h => by simp [baseLike] at h
  | .array _ _, _, h => by simp [baseLike] at h
  | .func _ _ _ _, _, h => by simp [baseLike] at h
  | .other, _, h => by simp [baseLike] at h

theorem den_baseLike : ∀ (t : CType), baseLike t = true → den t = .base (decide (0 < nConst t)) (leafOf t)
  | .base c b, _ => by cases c <;> simp [den, nConst, leafOf]
  | .tref c t, h => by
    have ih := den_baseLike t (by simpa [baseLike] using h)
    cases c <;> simp [den, nConst, leafOf, ih, addConst]
  | .ptr _ _, h => by simp [baseLike] at h
  | .array _ _, h => by simp [baseLike] at h
  | .func _ _ _ _, h => by simp [baseLike] at h
  | .other, h => by simp [baseLike] at h

theorem baseLike_ptrBase : ∀ (t : CType), baseLike t = true → ptrBase t = true
  | .base _ _, _ => by simp [ptrBase]
  | .tref c t, h => by
    have h' : baseLike t = true := by simpa [baseLike] using h
    cases c <;> simp [ptrBase, h', baseLike_ptrBase t h']
  | .ptr _ _, h => by simp [baseLike] at h
  | .array _ _, h => by simp [baseLike] at h
  | .func _ _ _ _, h => by simp [baseLike] at h
  | .other, h => by simp [baseLike] at h

/-- for pointer-to-leaf types, what is written after the type equals what a deeper stack would flush -/
theorem serP_ptrBase_snoc (a : Bool) : ∀ (t : CType) (st : List (List Piece)) (x : List Piece), ptrBase t = true →
    toks (serP a t st) ++ toks x = toks (serP a t (st ++ [x]))
  | .base c b, st, x, _ => by simp [serP, toks_flush]
  | .ptr c t, st, x, h => by
    have ih := serP_ptrBase_snoc a t ([pStar c] :: st) x (by simpa [ptrBase] using h)
    simpa [serP] using ih
  | .tref c t, st, x, h => by
    have ht : ptrBase t = true := by
      cases c
      · simpa [ptrBase] using h
      · exact baseLike_ptrBase t (by simpa [ptrBase] using h)
    have ih := serP_ptrBase_snoc a t st x ht
    simp [serP, List.append_assoc, ih]
  | .array _ _, _, _, h => by simp [ptrBase] at h
  | .func _ _ _ _, _, _, h => by simp [ptrBase] at h
  | .other, _, _, h => by simp [ptrBase] at h

/-- the region predicate does not look at the context for pointer-to-leaf types -/
theorem defect_ptrBase_ctx (a : Bool) : ∀ (t : CType) (c1 c2 : Ctx), ptrBase t = true →
    defect a c1 t = defect a c2 t
  | .base _ _, _, _, _ => by simp [defect]
  | .ptr _ _, _, _, _ => by simp [defect]
  | .tref c t, c1, c2, h => by
    cases c
    · simpa [defect] using defect_ptrBase_ctx a t c1 c2 (by simpa [ptrBase] using h)
    · have hb : baseLike t = true := by simpa [ptrBase] using h
      simpa [defect, hb] using defect_ptrBase_ctx a t c1 c2 (baseLike_ptrBase t hb)
  | .array _ _, _, _, h => by simp [ptrBase] at h
  | .func _ _ _ _, _, _, h => by simp [ptrBase] at h
  | .other, _, _, h => by simp [ptrBase] at h

/-! ## declarators as token lists, and the reference parser on them -/

def printD (a : Bool) : Decl → List Tok
  | .nm none => []
  | .nm (some s) => [.id s]
  | .ptr c d => .star c :: printD a d
  | .arr d n => printD a d ++ [.arr n]
  | .fn d ps => printD a d ++ toks (serPs a ps)
  | .paren d => .lpar :: printD a d ++ [.rpar]

def isPtr : Decl → Bool
  | .ptr _ _ => true
  | _ => false

/-- the printed form starts with `*`, `(` or an identifier -/
def headOK : Decl → Bool
  | .nm none => false
  | .nm (some _) => true
  | .ptr _ _ => true
  | .arr d _ => headOK d
  | .fn d _ => headOK d
  | .paren _ => true

/-- the declarator the parser returns: parameter lists hold the denoted types -/
def denD : Decl → Decl
  | .nm n => .nm n
  | .ptr c d => .ptr c (denD d)
  | .arr d n => .arr (denD d) n
  | .fn d ps => .fn (denD d) (denPs ps)
  | .paren d => .paren (denD d)

/-- what may follow a parameter declaration -/
def RestOK : List Tok → Prop
  | [] => True
  | .rpar :: _ => True
  | .comma :: _ => True
  | _ => False

/-- what may follow an abstract declarator that printed nothing -/
def AbsOK : List Tok → Prop
  | .star _ :: _ => False
  | .id _ :: _ => False
  | .lpar :: _ => False
  | _ => True

theorem RestOK.absOK {r : List Tok} (h : RestOK r) : AbsOK r := by
  cases r with
  | nil => trivial
  | cons t r => cases t <;> simp_all [RestOK, AbsOK]

/-- the parameter list printed by `serPs` parses back to the denoted parameter list -/
def ParsesBack (a : Bool) (ps : Params) : Prop :=
  ∀ (rest P : List Tok) (f : Nat), toks (serPs a ps) = .lpar :: P → 2 * P.length + 2 ≤ f →
    parseParams f (P ++ rest) = some (denPs ps, rest)

def WF (a : Bool) : Decl → Prop
  | .nm _ => True
  | .ptr _ d => WF a d
  | .arr d _ => WF a d ∧ isPtr d = false
  | .fn d ps => WF a d ∧ isPtr d = false ∧ headOK d = true ∧ ParsesBack a ps
  | .paren d => WF a d ∧ headOK d = true

theorem startsGroup_headOK (a : Bool) : ∀ (d : Decl) (x : List Tok), headOK d = true →
    startsGroup (printD a d ++ x) = true
  | .nm none, _, h => by simp [headOK] at h
  | .nm (some _), _, _ => by simp [printD, startsGroup]
  | .ptr _ _, _, _ => by simp [printD, startsGroup]
  | .arr d n, x, h => by
    have := startsGroup_headOK a d ([.arr n] ++ x) (by simpa [headOK] using h)
    simpa [printD, List.append_assoc] using this
  | .fn d ps, x, h => by
    have := startsGroup_headOK a d (toks (serPs a ps) ++ x) (by simpa [headOK] using h)
    simpa [printD, List.append_assoc] using this
  | .paren _, _, _ => by simp [printD, startsGroup]

theorem parseSuf_stop (d : Decl) (rest : List Tok) (h : RestOK rest) (f : Nat) (hf : 1 ≤ f) :
    parseSuf f d rest = some (d, rest) := by
  obtain ⟨f', rfl⟩ : ∃ f', f = f' + 1 := ⟨f - 1, by omega⟩
  cases rest with
  | nil => simp [parseSuf]
  | cons t r => cases t <;> simp_all [RestOK, parseSuf]

theorem parseDtor_abs (rest : List Tok) (h : AbsOK rest) (f : Nat) :
    parseDtor (f + 1) rest = parseSuf f (.nm none) rest := by
  cases rest with
  | nil => simp [parseDtor]
  | cons t r => cases t <;> simp_all [AbsOK, parseDtor]

/-- Reading a printed declarator.  Part 1: after a direct declarator the parser is in its suffix
    loop with the declarator read so far; part 2: a whole declarator is read back. -/
theorem parse_printD (a : Bool) : ∀ (D : Decl), WF a D →
    (isPtr D = false → ∀ (rest : List Tok) (res : Decl × List Tok) (m f : Nat),
        (D = .nm none → AbsOK rest) → 2 ≤ m →
        (∀ f', m ≤ f' → parseSuf f' (denD D) rest = some res) →
        m + 2 * (printD a D).length + 1 ≤ f →
        parseDtor f (printD a D ++ rest) = some res) ∧
    (∀ (rest : List Tok) (f : Nat), RestOK rest → 2 * (printD a D).length + 3 ≤ f →
        parseDtor f (printD a D ++ rest) = some (denD D, rest))
  | .nm none, _ => by
    have p1 : ∀ (rest : List Tok) (res : Decl × List Tok) (m f : Nat),
        (Decl.nm none = .nm none → AbsOK rest) → 2 ≤ m →
        (∀ f', m ≤ f' → parseSuf f' (denD (.nm none)) rest = some res) →
        m + 2 * (printD a (.nm none)).length + 1 ≤ f →
        parseDtor f (printD a (.nm none) ++ rest) = some res := by
      intro rest res m f habs _ hs hf
      obtain ⟨f', rfl⟩ : ∃ f', f = f' + 1 := ⟨f - 1, by simp [printD] at hf; omega⟩
      simp only [printD, List.nil_append]
      rw [parseDtor_abs rest (habs rfl)]
      exact hs f' (by simp [printD] at hf; omega)
    refine ⟨fun _ => p1, ?_⟩
    intro rest f hr hf
    exact p1 rest _ 2 f (fun _ => hr.absOK) (by omega) (fun f' h' => parseSuf_stop _ _ hr f' (by omega)) (by omega)
  | .nm (some s), _ => by
    have p1 : ∀ (rest : List Tok) (res : Decl × List Tok) (m f : Nat), 2 ≤ m →
        (∀ f', m ≤ f' → parseSuf f' (denD (.nm (some s))) rest = some res) →
        m + 2 * (printD a (.nm (some s))).length + 1 ≤ f →
        parseDtor f (printD a (.nm (some s)) ++ rest) = some res := by
      intro rest res m f _ hs hf
      obtain ⟨f', rfl⟩ : ∃ f', f = f' + 1 := ⟨f - 1, by simp [printD] at hf; omega⟩
      simp only [printD, List.singleton_append, parseDtor]
      exact hs f' (by simp [printD] at hf; omega)
    refine ⟨fun _ rest res m f _ hm hs hf => p1 rest res m f hm hs hf, ?_⟩
    intro rest f hr hf
    exact p1 rest _ 2 f (by omega) (fun f' h' => parseSuf_stop _ _ hr f' (by omega)) (by omega)
  | .ptr c d, hw => by
    have ih := (parse_printD a d (by simpa [WF] using hw)).2
    refine ⟨fun h => by simp [isPtr] at h, ?_⟩
    intro rest f hr hf
    obtain ⟨f', rfl⟩ : ∃ f', f = f' + 1 := ⟨f - 1, by omega⟩
    have := ih rest f' hr (by simp [printD] at hf; omega)
    simp [printD, parseDtor, this, denD]
  | .arr d n, hw => by
    have hw' : WF a d ∧ isPtr d = false := by simpa [WF] using hw
    have ih := (parse_printD a d hw'.1).1 hw'.2
    have p1 : ∀ (rest : List Tok) (res : Decl × List Tok) (m f : Nat), 2 ≤ m →
        (∀ f', m ≤ f' → parseSuf f' (denD (.arr d n)) rest = some res) →
        m + 2 * (printD a (.arr d n)).length + 1 ≤ f →
        parseDtor f (printD a (.arr d n) ++ rest) = some res := by
      intro rest res m f hm hs hf
      have := ih (.arr n :: rest) res (m + 1) f (fun _ => by simp [AbsOK]) (by omega)
        (fun f' h' => by
          obtain ⟨f'', rfl⟩ : ∃ f'', f' = f'' + 1 := ⟨f' - 1, by omega⟩
          simp only [parseSuf]
          exact hs f'' (by omega))
        (by simp [printD] at hf; omega)
      simpa [printD, List.append_assoc] using this
    refine ⟨fun _ rest res m f _ hm hs hf => p1 rest res m f hm hs hf, ?_⟩
    intro rest f hr hf
    exact p1 rest _ 2 f (by omega) (fun f' h' => parseSuf_stop _ _ hr f' (by omega)) (by omega)
  | .fn d ps, hw => by
    have hw' : WF a d ∧ isPtr d = false ∧ headOK d = true ∧ ParsesBack a ps := by simpa [WF] using hw
    have ih := (parse_printD a d hw'.1).1 hw'.2.1
    have hne : d ≠ .nm none := by
      intro h; rw [h] at hw'; simp [headOK] at hw'
    have p1 : ∀ (rest : List Tok) (res : Decl × List Tok) (m f : Nat), 2 ≤ m →
        (∀ f', m ≤ f' → parseSuf f' (denD (.fn d ps)) rest = some res) →
        m + 2 * (printD a (.fn d ps)).length + 1 ≤ f →
        parseDtor f (printD a (.fn d ps) ++ rest) = some res := by
      intro rest res m f hm hs hf
      cases ps with
      | nil =>
        have := ih (.voidp :: rest) res (m + 1) f (fun h => absurd h hne) (by omega)
          (fun f' h' => by
            obtain ⟨f'', rfl⟩ : ∃ f'', f' = f'' + 1 := ⟨f' - 1, by omega⟩
            simp only [parseSuf]
            exact hs f'' (by omega))
          (by simp [printD, serPs] at hf; omega)
        simpa [printD, serPs, List.append_assoc] using this
      | cons n t r =>
        obtain ⟨P, hP⟩ : ∃ P, toks (serPs a (.cons n t r)) = .lpar :: P := ⟨_, by simp [serPs]; rfl⟩
        have hpb := hw'.2.2.2
        have := ih (.lpar :: P ++ rest) res (m + 2 * P.length + 1) f (fun h => absurd h hne) (by omega)
          (fun f' h' => by
            obtain ⟨f'', rfl⟩ : ∃ f'', f' = f'' + 1 := ⟨f' - 1, by omega⟩
            have h1 := hpb rest P f'' hP (by omega)
            simp only [List.cons_append, parseSuf, h1]
            exact hs f'' (by omega))
          (by simp [printD, hP] at hf; omega)
        simpa [printD, hP, List.append_assoc] using this
    refine ⟨fun _ rest res m f _ hm hs hf => p1 rest res m f hm hs hf, ?_⟩
    intro rest f hr hf
    exact p1 rest _ 2 f (by omega) (fun f' h' => parseSuf_stop _ _ hr f' (by omega)) (by omega)
  | .paren d, hw => by
    have hw' : WF a d ∧ headOK d = true := by simpa [WF] using hw
    have ih := (parse_printD a d hw'.1).2
    have p1 : ∀ (rest : List Tok) (res : Decl × List Tok) (m f : Nat), 2 ≤ m →
        (∀ f', m ≤ f' → parseSuf f' (denD (.paren d)) rest = some res) →
        m + 2 * (printD a (.paren d)).length + 1 ≤ f →
        parseDtor f (printD a (.paren d) ++ rest) = some res := by
      intro rest res m f hm hs hf
      obtain ⟨f', rfl⟩ : ∃ f', f = f' + 1 := ⟨f - 1, by omega⟩
      have hg := startsGroup_headOK a d (.rpar :: rest) hw'.2
      have h1 := ih (.rpar :: rest) f' (by simp [RestOK]) (by simp [printD] at hf; omega)
      have h2 := hs f' (by simp [printD] at hf; omega)
      simp [printD, parseDtor, hg, h1, List.append_assoc]
      simpa [denD] using h2
    refine ⟨fun _ rest res m f _ hm hs hf => p1 rest res m f hm hs hf, ?_⟩
    intro rest f hr hf
    exact p1 rest _ 2 f (by omega) (fun f' h' => parseSuf_stop _ _ hr f' (by omega)) (by omega)

/-! ## a whole parameter declaration: specifiers, then the declarator collected on the stack -/

theorem parseSpec_consts (k : Nat) (b : Base) (x : List Tok) :
    parseSpec (List.replicate k .kconst ++ .ty b :: x) = some (decide (0 < k), b, x) := by
  induction k with
  | zero => simp [parseSpec]
  | succ k ih => simp [List.replicate_succ, parseSpec, ih]

/-- what the parser makes of a declarator applied to the specifier type -/
def applied (D : Decl) (t : CType) (rest : List Tok) : Option (Option Name × CType × List Tok) :=
  some (((denD D).apply t).2, ((denD D).apply t).1, rest)

theorem parse_leaf (a : Bool) (k : Nat) (b : Base) (D : Decl) (rest : List Tok) (f : Nat)
    (hw : WF a D) (hr : RestOK rest) (hf : 2 * (k + 1 + (printD a D).length) + 2 ≤ f) :
    parseParam f (List.replicate k .kconst ++ .ty b :: (printD a D ++ rest))
      = applied D (.base (decide (0 < k)) b) rest := by
  obtain ⟨f', rfl⟩ : ∃ f', f = f' + 1 := ⟨f - 1, by omega⟩
  have h1 := parseSpec_consts k b (printD a D ++ rest)
  have h2 := (parse_printD a D hw).2 rest f' hr (by omega)
  simp only [parseParam, h1, h2, applied]

/-- the stack (as pieces) and the declarator it stands for -/
structure Rel (a : Bool) (st : List (List Piece)) (D : Decl) : Prop where
  toks_eq : toks st.flatten = printD a D
  star : startsStar st.flatten = isPtr D
  wf : WF a D

def Inv : Ctx → Decl → Prop
  | .empty, D => D = .nm none
  | .direct, D => isPtr D = false ∧ headOK D = true
  | .ptr, D => isPtr D = true
  | .absArr, D => isPtr D = false

/-- the goal of the round trip for one type, in an arbitrary declarator context -/
def GoalT (a : Bool) (t : CType) : Prop :=
  ∀ (ctx : Ctx) (st : List (List Piece)) (D : Decl) (rest : List Tok) (f : Nat),
    defect a ctx t = none → Rel a st D → Inv ctx D → RestOK rest →
    2 * (toks (serP a t st)).length + 2 ≤ f →
    parseParam f (toks (serP a t st) ++ rest) = applied D (den t) rest

def GoalPs (a : Bool) : Params → Prop
  | .nil => True
  | .cons n t r => ∀ (rest : List Tok) (f : Nat), defectPs a (.cons n t r) = none →
      2 * (toks (serP a t (nameStack n)) ++ toks (serMore a r)).length + 2 ≤ f →
      parseParams f (toks (serP a t (nameStack n)) ++ toks (serMore a r) ++ rest)
        = some (denPs (.cons n t r), rest)

theorem goal_baseLike (a : Bool) (t : CType) (hb : baseLike t = true) : GoalT a t := by
  intro ctx st D rest f _ hrel _ hr hf
  rw [serP_baseLike a t st hb, hrel.toks_eq] at hf ⊢
  rw [den_baseLike t hb]
  have := parse_leaf a (nConst t) (leafOf t) D rest f hrel.wf hr (by simp at hf; omega)
  simpa [List.append_assoc] using this

theorem rel_name (a : Bool) (n : Option Name) : Rel a (nameStack n) (.nm n) := by
  cases n <;> exact ⟨by simp [nameStack, printD], by simp [nameStack, startsStar, isPtr, pId], by simp [WF]⟩

theorem inv_name (n : Option Name) : Inv (ctxOfName n) (.nm n) := by
  cases n <;> simp [ctxOfName, Inv, isPtr, headOK]

theorem isPtr_headOK : ∀ (D : Decl), isPtr D = true → headOK D = true
  | .ptr _ _, _ => rfl
  | .nm _, h => by simp [isPtr] at h
  | .arr _ _, h => by simp [isPtr] at h
  | .fn _ _, h => by simp [isPtr] at h
  | .paren _, h => by simp [isPtr] at h

theorem startsStar_append (x y : List Piece) (h : x ≠ []) : startsStar (x ++ y) = startsStar x := by
  cases x with
  | nil => exact absurd rfl h
  | cons p r => rfl

/-- parenthesise a declarator that starts with `*` -/
def par (D : Decl) : Decl := if isPtr D then .paren D else D

theorem par_false {D : Decl} (h : isPtr D = false) : par D = D := by simp [par, h]
theorem par_true {D : Decl} (h : isPtr D = true) : par D = .paren D := by simp [par, h]

theorem arrDecl_nil (n : Nat) : arrDecl [] n = [pArrT n] := by simp [arrDecl, startsStar]
theorem arrDecl_star (d : List Piece) (n : Nat) (h : startsStar d = true) :
    arrDecl d n = pParOpen :: (d ++ [pParClose, pArr n]) := by simp [arrDecl, h]
theorem arrDecl_nostar (p : Piece) (r : List Piece) (n : Nat) (h : startsStar (p :: r) = false) :
    arrDecl (p :: r) n = p :: (r ++ [pArr n]) := by simp [arrDecl, h]

theorem rel_arrDecl (a : Bool) (st : List (List Piece)) (D : Decl) (n : Nat) (h : Rel a st D) :
    Rel a [arrDecl st.flatten n] (.arr (par D) n) := by
  have hs := h.star
  have ht := h.toks_eq
  cases hp : isPtr D
  · rw [hp] at hs
    rw [par_false hp]
    cases hd : st.flatten with
    | nil =>
      rw [hd] at ht
      exact ⟨by simp [arrDecl_nil, printD, ← ht], by simp [arrDecl_nil, startsStar, isPtr, pArrT],
        by simp [WF, h.wf, hp]⟩
    | cons p r =>
      rw [hd] at hs ht
      refine ⟨?_, ?_, by simp [WF, h.wf, hp]⟩
      · simp only [List.flatten_cons, List.flatten_nil, List.append_nil, arrDecl_nostar p r n hs, printD, ← ht]
        rw [← List.cons_append, toks_append]
        simp
      · simp only [List.flatten_cons, List.flatten_nil, List.append_nil, arrDecl_nostar p r n hs, isPtr]
        rw [← List.cons_append, startsStar_append _ _ (by simp)]
        exact hs
  · rw [hp] at hs
    rw [par_true hp]
    refine ⟨?_, ?_, by simp [WF, h.wf, isPtr, isPtr_headOK D hp]⟩
    · simp [arrDecl_star _ n hs, printD, ← ht]
    · simp [arrDecl_star _ n hs, startsStar, isPtr, pParOpen]

/-! ## the round trip, by mutual induction on types and parameter lists -/

theorem defectPs_cons {a : Bool} {n : Option Name} {t : CType} {r : Params}
    (h : defectPs a (.cons n t r) = none) : defect a (ctxOfName n) t = none ∧ defectPs a r = none := by
  simp only [defectPs] at h
  split at h
  · simp at h
  · exact ⟨by assumption, h⟩

theorem defect_func {a : Bool} {ctx : Ctx} {c v : Bool} {r : CType} {ps : Params}
    (h : defect a ctx (.func c v r ps) = none) :
    c = false ∧ v = false ∧ ctx ≠ .empty ∧ ctx ≠ .absArr ∧ ptrBase r = true ∧
      defect a .empty r = none ∧ defectPs a ps = none := by
  simp only [defect] at h
  split at h
  · simp at h
  · split at h
    · simp at h
    · split at h
      · simp at h
      · split at h
        · simp at h
        · split at h
          · simp at h
          · rename_i h1 h2 h3 h4 _ h5
            refine ⟨by simpa using h1, by simpa using h2, ?_, ?_, by simpa using h4, h5, h⟩
            · intro e; simp [e] at h3
            · intro e; simp [e] at h3

theorem defect_array_false {ctx : Ctx} {t : CType} {n : Nat} (h : defect false ctx (.array t n) = none) :
    ctx ≠ .ptr ∧ ptrBase t = true ∧ defect false ctx t = none := by
  simp only [defect, Bool.false_eq_true, ↓reduceIte] at h
  split at h
  · simp at h
  · split at h
    · simp at h
    · rename_i h1 h2
      exact ⟨by intro e; simp [e] at h1, by simpa using h2, h⟩

theorem applied_arr_par (D : Decl) (t : CType) (n : Nat) (rest : List Tok) :
    applied (.arr (par D) n) t rest = applied D (.array t n) rest := by
  cases hp : isPtr D <;> simp [applied, par, hp, denD, Decl.apply]

theorem goalPs_parsesBack (a : Bool) (ps : Params) (hg : GoalPs a ps) (hd : defectPs a ps = none) :
    ParsesBack a ps := by
  intro rest P f hP hf
  cases ps with
  | nil => simp [serPs] at hP
  | cons n t r =>
    have hP' : P = toks (serP a t (nameStack n)) ++ toks (serMore a r) := by
      simp [serPs] at hP
      exact hP.symm
    subst hP'
    exact hg rest f hd hf

mutual
theorem goalT (a : Bool) : ∀ (t : CType), GoalT a t
  | .base _ _ => goal_baseLike a _ rfl
  | .other => by
    intro ctx st D rest f hd
    simp [defect] at hd
  | .ptr c t => by
    intro ctx st D rest f hd hrel hinv hr hf
    have ih := goalT a t .ptr ([pStar c] :: st) (.ptr c D) rest f (by simpa [defect] using hd)
      ⟨by simp [printD, hrel.toks_eq], by simp [startsStar, pStar, isPtr], by simpa [WF] using hrel.wf⟩
      (by simp [Inv, isPtr]) hr (by simpa [serP] using hf)
    simpa [serP, den, applied, denD, Decl.apply] using ih
  | .tref c t => by
    cases c
    · intro ctx st D rest f hd hrel hinv hr hf
      have ih := goalT a t ctx st D rest f (by simpa [defect] using hd) hrel hinv hr
        (by simpa [serP, constP] using hf)
      simpa [serP, constP, den] using ih
    · intro ctx st D rest f hd
      have hb : baseLike t = true := by
        simp only [defect, Bool.true_and] at hd
        split at hd
        · simp at hd
        · rename_i h1; simpa using h1
      exact goal_baseLike a (.tref true t) (by simpa [baseLike] using hb) ctx st D rest f hd
  | .array t n => by
    cases a
    · intro ctx st D rest f hd hrel hinv hr hf
      obtain ⟨hctx, hpb, hdt⟩ := defect_array_false hd
      have hnp : isPtr D = false := by
        cases ctx
        · simp only [Inv] at hinv; simp [hinv, isPtr]
        · exact hinv.1
        · exact absurd rfl hctx
        · exact hinv
      have hsnoc := serP_ptrBase_snoc false t st [pArr n] hpb
      have htoks : toks (serP false (.array t n) st) = toks (serP false t (st ++ [[pArr n]])) := by
        simp only [serP, Bool.false_eq_true, ↓reduceIte, toks_append]
        exact hsnoc
      have hrel' : Rel false (st ++ [[pArr n]]) (.arr D n) := by
        refine ⟨by simp [printD, hrel.toks_eq], ?_, by simp [WF, hrel.wf, hnp]⟩
        rw [flatten_snoc]
        have hs := hrel.star
        rw [hnp] at hs
        cases hfl : st.flatten with
        | nil => simp [startsStar, pArr, isPtr]
        | cons p r =>
          rw [← hfl, startsStar_append _ _ (by simp [hfl]), hs]
          simp [isPtr]
      have hinv' : Inv ctx.afterArr (.arr D n) := by
        cases ctx
        · simp [Ctx.afterArr, Inv, isPtr]
        · exact ⟨by simp [isPtr], by simpa [headOK] using hinv.2⟩
        · exact absurd rfl hctx
        · simp [Ctx.afterArr, Inv, isPtr]
      have ih := goalT false t ctx.afterArr (st ++ [[pArr n]]) (.arr D n) rest f
        (by rw [defect_ptrBase_ctx false t ctx.afterArr ctx hpb]; exact hdt) hrel' hinv' hr (by rw [← htoks]; exact hf)
      rw [htoks, ih]
      simp [applied, denD, Decl.apply, den]
    · intro ctx st D rest f hd hrel hinv hr hf
      have hrel' := rel_arrDecl true st D n hrel
      have hinv' : Inv ctx.afterArr (.arr (par D) n) := by
        cases ctx
        · simp only [Inv] at hinv; simp [Ctx.afterArr, Inv, isPtr]
        · exact ⟨by simp [isPtr], by simpa [headOK, par_false hinv.1] using hinv.2⟩
        · simp only [Inv] at hinv; simp [Ctx.afterArr, Inv, isPtr, headOK, par_true hinv]
        · simp [Ctx.afterArr, Inv, isPtr]
      have ih := goalT true t ctx.afterArr [arrDecl st.flatten n] (.arr (par D) n) rest f
        (by simpa [defect] using hd) hrel' hinv' hr (by simpa [serP] using hf)
      simp only [serP, ↓reduceIte]
      rw [ih, applied_arr_par]
      simp [den]
  | .func c v r ps => by
    intro ctx st D rest f hd hrel hinv hr hf
    obtain ⟨hc, hv, hne, hna, hpb, hdr, hdps⟩ := defect_func hd
    subst hc; subst hv
    have hhead : headOK D = true := by
      cases ctx
      · exact absurd rfl hne
      · exact hinv.2
      · exact isPtr_headOK D hinv
      · exact absurd rfl hna
    have hpbk : ParsesBack a ps := goalPs_parsesBack a ps (goalPs a ps) hdps
    let X : List Piece := [pFnOpen] ++ st.flatten ++ [pFnClose] ++ serPs a ps
    have htoks : toks (serP a (.func false false r ps) st) = toks (serP a r [X]) := by
      have := serP_ptrBase_snoc a r [] X hpb
      simp only [List.nil_append] at this
      rw [← this]
      simp [serP, X]
    have hrel' : Rel a [X] (.fn (.paren D) ps) := by
      refine ⟨by simp [X, printD, hrel.toks_eq], by simp [X, startsStar, pFnOpen, isPtr], ?_⟩
      simp [WF, hrel.wf, hhead, isPtr, headOK, hpbk]
    have ih := goalT a r .direct [X] (.fn (.paren D) ps) rest f
      (by rw [defect_ptrBase_ctx a r .direct .empty hpb]; exact hdr) hrel'
      (by simp [Inv, isPtr, headOK]) hr (by rw [← htoks]; exact hf)
    rw [htoks, ih]
    simp [applied, denD, Decl.apply, den]
theorem goalPs (a : Bool) : ∀ (ps : Params), GoalPs a ps
  | .nil => trivial
  | .cons n t .nil => by
    intro rest f hd hf
    obtain ⟨hdt, _⟩ := defectPs_cons hd
    obtain ⟨f', rfl⟩ : ∃ f', f = f' + 1 := ⟨f - 1, by omega⟩
    have h1 := goalT a t (ctxOfName n) (nameStack n) (.nm n) (.rpar :: rest) f' hdt (rel_name a n) (inv_name n)
      (by simp [RestOK]) (by simp [serMore] at hf; omega)
    simp only [serMore, toks_pArgsClose, toks_nil, List.append_assoc, List.singleton_append, parseParams, h1, applied]
    simp [denD, Decl.apply, denPs]
  | .cons n t (.cons n2 t2 r2) => by
    intro rest f hd hf
    obtain ⟨hdt, hdr⟩ := defectPs_cons hd
    obtain ⟨f', rfl⟩ : ∃ f', f = f' + 1 := ⟨f - 1, by omega⟩
    have h1 := goalT a t (ctxOfName n) (nameStack n) (.nm n)
      (.comma :: (toks (serP a t2 (nameStack n2)) ++ toks (serMore a r2) ++ rest)) f' hdt (rel_name a n) (inv_name n)
      (by simp [RestOK]) (by simp [serMore] at hf; omega)
    have h2 := goalPs a (.cons n2 t2 r2) rest f' hdr (by simp [serMore] at hf ⊢; omega)
    simp only [serMore, toks_pSep, toks_append, List.append_assoc, List.cons_append, parseParams] at h1 h2 ⊢
    simp only [h1, applied, h2]
    simp [denD, Decl.apply, denPs]
end

end BindgenModel.CDecl
