import BindgenModel.Model.Post
/-! # Lemmas about the post-processing model (level operations). -/
set_option linter.unusedSectionVars false
set_option linter.unusedSimpArgs false
namespace BindgenModel.Post
open BindgenModel.Generated

variable {α : Type} [DecidableEq α]

/-! ## the merge key -/

theorem fieldEq_refl (a : Foreign α) (m : MergeField) : fieldEq a a m = true := by
  cases m <;> simp [fieldEq]

theorem fieldEq_symm (a b : Foreign α) (m : MergeField) : fieldEq a b m = fieldEq b a m := by
  cases m <;> simp [fieldEq, Bool.beq_comm]

theorem fieldEq_trans {a b c : Foreign α} {m : MergeField} :
    fieldEq a b m = true → fieldEq b c m = true → fieldEq a c m = true := by
  cases m <;> simp [fieldEq] <;> intro h1 h2 <;> rw [h1, h2]

theorem keyEq_refl (fields) (a : Foreign α) : keyEq fields a a = true := by
  simp [keyEq, fieldEq_refl]

theorem keyEq_symm (fields) (a b : Foreign α) : keyEq fields a b = keyEq fields b a := by
  unfold keyEq
  congr 1
  funext m
  exact fieldEq_symm a b m

theorem keyEq_trans {fields} {a b c : Foreign α} :
    keyEq fields a b = true → keyEq fields b c = true → keyEq fields a c = true := by
  simp only [keyEq, List.all_eq_true]
  intro h1 h2 m hm
  exact fieldEq_trans (h1 m hm) (h2 m hm)

/-- the key does not look at the items of a block -/
theorem keyEq_items_left (fields) (a b : Foreign α) (xs : List α) :
    keyEq fields { a with items := xs } b = keyEq fields a b := by
  unfold keyEq
  congr 1

theorem keyEq_items_left' (fields) (a : Foreign α) (xs : List α) :
    keyEq fields { a with items := xs } = keyEq fields a := by
  funext b
  exact keyEq_items_left fields a b xs

theorem keyEq_attrs {fields} {a b : Foreign α} (h : MergeField.attrs ∈ fields)
    (k : keyEq fields a b = true) : a.attrs = b.attrs := by
  simp only [keyEq, List.all_eq_true] at k
  simpa [fieldEq] using k _ h

theorem keyEq_abi {fields} {a b : Foreign α} (h : MergeField.abi ∈ fields)
    (k : keyEq fields a b = true) : a.abi = b.abi := by
  simp only [keyEq, List.all_eq_true] at k
  simpa [fieldEq] using k _ h

theorem keyEq_unsafety {fields} {a b : Foreign α} (h : MergeField.unsafety ∈ fields)
    (k : keyEq fields a b = true) : a.unsafety = b.unsafety := by
  simp only [keyEq, List.all_eq_true] at k
  simpa [fieldEq] using k _ h

/-! ## merging a list of blocks -/

/-- `extern_blocks` after the loop, as a function of the blocks met in order -/
def mergeBlocks (fields : List MergeField) (bs : List (Foreign α)) : List (Foreign α) :=
  bs.foldl (absorb fields) []

def itemsOf (bs : List (Foreign α)) : List α := bs.flatMap Foreign.items

theorem foldl_absorb_cons (fields) (bs : List (Foreign α)) (a : Foreign α) (acc : List (Foreign α)) :
    bs.foldl (absorb fields) (a :: acc) =
      { a with items := a.items ++ itemsOf (bs.filter (keyEq fields a)) } ::
        (bs.filter (fun b => !keyEq fields a b)).foldl (absorb fields) acc := by
  induction bs generalizing a acc with
  | nil => simp [itemsOf]
  | cons f bs ih =>
    simp only [List.foldl_cons, absorb]
    by_cases hk : keyEq fields a f = true
    · simp only [hk, if_true, List.filter_cons_of_pos, Bool.not_true, Bool.false_eq_true,
        not_false_eq_true, List.filter_cons_of_neg]
      rw [ih]
      simp only [keyEq_items_left', keyEq_items_left, itemsOf, List.flatMap_cons, List.append_assoc]
    · simp only [hk, if_false, Bool.false_eq_true, not_false_eq_true, List.filter_cons_of_neg]
      have hk' : keyEq fields a f = false := by simpa using hk
      rw [ih]
      simp [hk']

/-- recursive characterisation: the first block absorbs, in order, the items of every later block
with an equal key; the other blocks are merged among themselves -/
theorem mergeBlocks_cons (fields) (f : Foreign α) (bs : List (Foreign α)) :
    mergeBlocks fields (f :: bs) =
      { f with items := f.items ++ itemsOf (bs.filter (keyEq fields f)) } ::
        mergeBlocks fields (bs.filter (fun b => !keyEq fields f b)) := by
  simp only [mergeBlocks, List.foldl_cons, absorb]
  exact foldl_absorb_cons fields bs f []

@[simp] theorem mergeBlocks_nil (fields : List MergeField) : mergeBlocks fields ([] : List (Foreign α)) = [] := rfl

theorem filter_length_lt_succ (p : β → Bool) (l : List β) : (l.filter p).length < l.length + 1 :=
  Nat.lt_succ_of_le (List.length_filter_le p l)

/-! ### heads (attrs, abi, unsafety) of the merged blocks -/

def SameHead (a b : Foreign α) : Prop := a.attrs = b.attrs ∧ a.abi = b.abi ∧ a.unsafety = b.unsafety

theorem keyEq_of_sameHead_left {fields} {a a' b : Foreign α} (h : SameHead a a') :
    keyEq fields a b = keyEq fields a' b := by
  unfold keyEq
  congr 1
  funext m
  obtain ⟨h1, h2, h3⟩ := h
  cases m <;> simp [fieldEq, h1, h2, h3]

/-- every merged block: same head as the first input block `f` with its key, and its items are the
items of all input blocks with that key, in input order -/
theorem mergeBlocks_spec (fields) (bs : List (Foreign α)) :
    ∀ b ∈ mergeBlocks fields bs, ∃ f ∈ bs, SameHead b f ∧
      b.items = itemsOf (bs.filter (keyEq fields f)) := by
  match bs with
  | [] => simp
  | f :: bs =>
    rw [mergeBlocks_cons]
    intro b hb
    rcases List.mem_cons.mp hb with rfl | hb
    · refine ⟨f, List.mem_cons_self, ⟨rfl, rfl, rfl⟩, ?_⟩
      simp [itemsOf, keyEq_refl]
    · obtain ⟨f', hf', hh, hi⟩ := mergeBlocks_spec fields _ b hb
      have hf'' := List.mem_filter.mp hf'
      refine ⟨f', List.mem_cons_of_mem _ hf''.1, hh, ?_⟩
      have hne : keyEq fields f f' = false := by simpa using hf''.2
      have hne' : keyEq fields f' f = false := by rw [keyEq_symm]; exact hne
      rw [hi, List.filter_filter]
      simp only [List.filter_cons, hne', Bool.false_eq_true, if_false]
      congr 1
      apply List.filter_congr
      intro x _
      by_cases hx : keyEq fields f' x = true
      · have : keyEq fields f x = false := by
          cases hfx : keyEq fields f x with
          | false => rfl
          | true =>
            have := keyEq_trans hfx (by rw [keyEq_symm]; exact hx)
            rw [hne] at this; exact absurd this (by simp)
        simp [hx, this]
      · simp [hx]
termination_by bs.length
decreasing_by simp only [List.length_cons]; exact filter_length_lt_succ _ _

/-- merged blocks have pairwise different keys -/
theorem mergeBlocks_pairwise (fields) (bs : List (Foreign α)) :
    (mergeBlocks fields bs).Pairwise (fun a b => keyEq fields a b = false) := by
  match bs with
  | [] => simp
  | f :: bs =>
    rw [mergeBlocks_cons]
    refine List.Pairwise.cons ?_ (mergeBlocks_pairwise fields _)
    intro b hb
    obtain ⟨f', hf', hh, -⟩ := mergeBlocks_spec fields _ b hb
    have hf'' := List.mem_filter.mp hf'
    rw [keyEq_items_left, keyEq_symm, keyEq_of_sameHead_left hh, keyEq_symm]
    simpa using hf''.2
termination_by bs.length
decreasing_by simp only [List.length_cons]; exact filter_length_lt_succ _ _

/-- a list of blocks with pairwise different keys is left alone -/
theorem mergeBlocks_of_pairwise (fields) (bs : List (Foreign α))
    (h : bs.Pairwise (fun a b => keyEq fields a b = false)) : mergeBlocks fields bs = bs := by
  induction bs with
  | nil => rfl
  | cons f bs ih =>
    obtain ⟨h1, h2⟩ := List.pairwise_cons.mp h
    rw [mergeBlocks_cons]
    have e1 : bs.filter (keyEq fields f) = [] := by
      apply List.filter_eq_nil_iff.mpr
      intro b hb; simp [h1 b hb]
    have e2 : bs.filter (fun b => !keyEq fields f b) = bs := by
      apply List.filter_eq_self.mpr
      intro b hb; simp [h1 b hb]
    rw [e1, e2, ih h2]
    simp [itemsOf]

theorem mergeBlocks_idem (fields) (bs : List (Foreign α)) :
    mergeBlocks fields (mergeBlocks fields bs) = mergeBlocks fields bs :=
  mergeBlocks_of_pairwise fields _ (mergeBlocks_pairwise fields bs)

/-! ### multiset of (attrs, abi, g unsafety, item) tuples -/

def Foreign.tuplesG (g : Bool → Bool) (f : Foreign α) : List (Tuple α) :=
  f.items.map fun i => ⟨f.attrs, f.abi, g f.unsafety, i⟩

def tuplesG (g : Bool → Bool) (bs : List (Foreign α)) : List (Tuple α) := bs.flatMap (Foreign.tuplesG g)

/-- blocks with equal key agree on attrs, abi and `g unsafety` -/
def Agree (fields : List MergeField) (g : Bool → Bool) (bs : List (Foreign α)) : Prop :=
  ∀ a ∈ bs, ∀ b ∈ bs, keyEq fields a b = true → a.attrs = b.attrs ∧ a.abi = b.abi ∧ g a.unsafety = g b.unsafety

theorem Agree.filter {fields g} {bs : List (Foreign α)} (h : Agree fields g bs) (p : Foreign α → Bool) :
    Agree fields g (bs.filter p) :=
  fun a ha b hb k => h a (List.mem_filter.mp ha).1 b (List.mem_filter.mp hb).1 k

theorem tuplesG_filter_key (fields g) (f : Foreign α) (bs : List (Foreign α))
    (h : ∀ b ∈ bs, keyEq fields f b = true → f.attrs = b.attrs ∧ f.abi = b.abi ∧ g f.unsafety = g b.unsafety) :
    (itemsOf (bs.filter (keyEq fields f))).map (fun i => (⟨f.attrs, f.abi, g f.unsafety, i⟩ : Tuple α))
      = tuplesG g (bs.filter (keyEq fields f)) := by
  induction bs with
  | nil => simp [itemsOf, tuplesG]
  | cons b bs ih =>
    have ih' := ih (fun x hx => h x (List.mem_cons_of_mem _ hx))
    by_cases hk : keyEq fields f b = true
    · obtain ⟨h1, h2, h3⟩ := h b List.mem_cons_self hk
      simp only [List.filter_cons_of_pos hk]
      simp only [itemsOf, tuplesG, List.flatMap_cons, List.map_append] at ih' ⊢
      rw [ih']
      simp [Foreign.tuplesG, h1, h2, h3]
    · simp only [List.filter_cons_of_neg hk]
      exact ih'

theorem mergeBlocks_tuplesG_perm (fields g) (bs : List (Foreign α)) (h : Agree fields g bs) :
    (tuplesG g (mergeBlocks fields bs)).Perm (tuplesG g bs) := by
  match bs with
  | [] => simp
  | f :: bs =>
    rw [mergeBlocks_cons]
    have hrest : Agree fields g bs := fun a ha b hb k => h a (List.mem_cons_of_mem _ ha) b (List.mem_cons_of_mem _ hb) k
    have ih := mergeBlocks_tuplesG_perm fields g (bs.filter (fun b => !keyEq fields f b)) (hrest.filter _)
    have hf : ∀ b ∈ bs, keyEq fields f b = true → f.attrs = b.attrs ∧ f.abi = b.abi ∧ g f.unsafety = g b.unsafety :=
      fun b hb k => h f List.mem_cons_self b (List.mem_cons_of_mem _ hb) k
    have e := tuplesG_filter_key fields g f bs hf
    simp only [tuplesG, List.flatMap_cons] at ih e ⊢
    have e0 : Foreign.tuplesG g { f with items := f.items ++ itemsOf (bs.filter (keyEq fields f)) }
        = Foreign.tuplesG g f ++ (bs.filter (keyEq fields f)).flatMap (Foreign.tuplesG g) := by
      simp only [Foreign.tuplesG, List.map_append]
      rw [e]
    rw [e0, List.append_assoc]
    apply List.Perm.append_left
    refine (List.Perm.append_left _ ih).trans ?_
    have := (List.filter_append_perm (keyEq fields f) bs).flatMap_right (Foreign.tuplesG g)
    simpa [List.flatMap_append] using this
termination_by bs.length
decreasing_by simp only [List.length_cons]; exact filter_length_lt_succ _ _

/-! ## merge at item level -/

def others (items : List (Item α)) : List (Item α) := items.filter (fun x => !x.isForeign)

theorem foldl_mergeStep (fields) (items : List (Item α)) (st : List (Item α) × List (Foreign α)) :
    items.foldl (mergeStep fields) st = (st.1 ++ others items, (blocksOf items).foldl (absorb fields) st.2) := by
  induction items generalizing st with
  | nil => simp [others, blocksOf]
  | cons x xs ih =>
    rw [List.foldl_cons, ih]
    cases x <;> simp [mergeStep, others, blocksOf, Item.isForeign, Item.asForeign, List.filterMap_cons]

/-- `visit_items`: the non-foreign items in their order, then the merged blocks -/
theorem mergeLevel_eq (fields) (items : List (Item α)) :
    mergeLevel fields items = others items ++ (mergeBlocks fields (blocksOf items)).map Item.foreign := by
  simp [mergeLevel, foldl_mergeStep, mergeBlocks]

theorem others_append (a b : List (Item α)) : others (a ++ b) = others a ++ others b := by
  simp [others]

theorem others_others (a : List (Item α)) : others (others a) = others a := by
  simp [others]

theorem others_map_foreign (bs : List (Foreign α)) : others (bs.map Item.foreign) = [] := by
  simp [others, Item.isForeign]

theorem blocksOf_append (a b : List (Item α)) : blocksOf (a ++ b) = blocksOf a ++ blocksOf b := by
  simp [blocksOf]

theorem blocksOf_others (a : List (Item α)) : blocksOf (others a) = [] := by
  induction a with
  | nil => rfl
  | cons x xs ih =>
    cases x <;> simp_all [others, blocksOf, Item.isForeign, Item.asForeign]

theorem blocksOf_map_foreign (bs : List (Foreign α)) : blocksOf (bs.map Item.foreign) = bs := by
  induction bs with
  | nil => rfl
  | cons x xs ih => simp_all [blocksOf, Item.asForeign]

theorem others_mergeLevel (fields) (items : List (Item α)) : others (mergeLevel fields items) = others items := by
  rw [mergeLevel_eq, others_append, others_others, others_map_foreign, List.append_nil]

theorem blocksOf_mergeLevel (fields) (items : List (Item α)) :
    blocksOf (mergeLevel fields items) = mergeBlocks fields (blocksOf items) := by
  rw [mergeLevel_eq, blocksOf_append, blocksOf_others, blocksOf_map_foreign, List.nil_append]

theorem mergeLevel_idem (fields) (items : List (Item α)) :
    mergeLevel fields (mergeLevel fields items) = mergeLevel fields items := by
  rw [mergeLevel_eq fields (mergeLevel fields items), others_mergeLevel, blocksOf_mergeLevel, mergeBlocks_idem,
    ← mergeLevel_eq]

/-! ## stable sort -/

section StableSort
variable {β : Type} (key : β → Nat)

def Sorted (l : List β) : Prop := l.Pairwise (fun a b => key a ≤ key b)

theorem insertBy_perm (x : β) (l : List β) : (insertBy key x l).Perm (x :: l) := by
  induction l with
  | nil => simp [insertBy]
  | cons y ys ih =>
    simp only [insertBy]
    split
    · exact List.Perm.refl _
    · exact (List.Perm.cons y ih).trans (List.Perm.swap x y ys)

theorem stableSort_perm (l : List β) : (stableSort key l).Perm l := by
  induction l with
  | nil => simp [stableSort]
  | cons x xs ih => exact (insertBy_perm key x _).trans (List.Perm.cons x ih)

theorem insertBy_sorted (x : β) (l : List β) (h : Sorted key l) : Sorted key (insertBy key x l) := by
  induction l with
  | nil => simp [insertBy, Sorted]
  | cons y ys ih =>
    simp only [insertBy]
    obtain ⟨h1, h2⟩ := List.pairwise_cons.mp h
    split
    · rename_i hle
      refine List.Pairwise.cons ?_ h
      intro z hz
      rcases List.mem_cons.mp hz with rfl | hz
      · exact hle
      · exact Nat.le_trans hle (h1 z hz)
    · rename_i hnle
      refine List.Pairwise.cons ?_ (ih h2)
      intro z hz
      have := (insertBy_perm key x ys).mem_iff.mp hz
      rcases List.mem_cons.mp this with rfl | hz'
      · omega
      · exact h1 z hz'

theorem stableSort_sorted (l : List β) : Sorted key (stableSort key l) := by
  induction l with
  | nil => simp [stableSort, Sorted]
  | cons x xs ih => exact insertBy_sorted key x _ ih

theorem insertBy_filter (x : β) (l : List β) (h : Sorted key l) (k : Nat) :
    (insertBy key x l).filter (fun a => key a == k) = (x :: l).filter (fun a => key a == k) := by
  induction l with
  | nil => simp [insertBy]
  | cons y ys ih =>
    obtain ⟨h1, h2⟩ := List.pairwise_cons.mp h
    simp only [insertBy]
    split
    · rfl
    · rename_i hnle
      have ih' := ih h2
      -- key y < key x
      by_cases hx : key x = k
      · have hy : ¬ key y = k := by omega
        simp only [List.filter_cons, beq_iff_eq, hy, hx, if_false, if_true] at ih' ⊢
        exact ih'
      · simp only [List.filter_cons, beq_iff_eq, hx, if_false] at ih' ⊢
        rw [ih']

/-- stability: the items of each key keep their relative order -/
theorem stableSort_filter (l : List β) (k : Nat) :
    (stableSort key l).filter (fun a => key a == k) = l.filter (fun a => key a == k) := by
  induction l with
  | nil => rfl
  | cons x xs ih =>
    simp only [stableSort]
    rw [insertBy_filter key x _ (stableSort_sorted key xs)]
    simp only [List.filter_cons, ih]

theorem insertBy_of_le_all (x : β) (l : List β) (h : ∀ y ∈ l, key x ≤ key y) : insertBy key x l = x :: l := by
  cases l with
  | nil => rfl
  | cons y ys => simp [insertBy, h y List.mem_cons_self]

theorem stableSort_of_sorted (l : List β) (h : Sorted key l) : stableSort key l = l := by
  induction l with
  | nil => rfl
  | cons x xs ih =>
    obtain ⟨h1, h2⟩ := List.pairwise_cons.mp h
    simp only [stableSort, ih h2]
    exact insertBy_of_le_all key x xs h1

theorem stableSort_idem (l : List β) : stableSort key (stableSort key l) = stableSort key l :=
  stableSort_of_sorted key _ (stableSort_sorted key l)

/-- a sorted list is determined by its per-key sublists -/
theorem sorted_ext (l₁ l₂ : List β) (h₁ : Sorted key l₁) (h₂ : Sorted key l₂)
    (h : ∀ k, l₁.filter (fun a => key a == k) = l₂.filter (fun a => key a == k)) : l₁ = l₂ := by
  induction l₁ generalizing l₂ with
  | nil =>
    cases l₂ with
    | nil => rfl
    | cons b t =>
      have := h (key b)
      simp at this
  | cons a t₁ ih =>
    obtain ⟨ha, ht₁⟩ := List.pairwise_cons.mp h₁
    cases l₂ with
    | nil =>
      have := h (key a)
      simp at this
    | cons b t₂ =>
      obtain ⟨hb, ht₂⟩ := List.pairwise_cons.mp h₂
      -- b ∈ a :: t₁ and a ∈ b :: t₂
      have hbmem : b ∈ a :: t₁ := by
        have : b ∈ (a :: t₁).filter (fun x => key x == key b) := by
          rw [h (key b)]; simp
        exact (List.mem_filter.mp this).1
      have hamem : a ∈ b :: t₂ := by
        have : a ∈ (b :: t₂).filter (fun x => key x == key a) := by
          rw [← h (key a)]; simp
        exact (List.mem_filter.mp this).1
      have hab : key a ≤ key b := by
        rcases List.mem_cons.mp hbmem with e | hm
        · rw [e]; exact Nat.le_refl _
        · exact ha b hm
      have hba : key b ≤ key a := by
        rcases List.mem_cons.mp hamem with e | hm
        · rw [e]; exact Nat.le_refl _
        · exact hb a hm
      have hkey : key a = key b := Nat.le_antisymm hab hba
      have hhead := h (key a)
      simp only [List.filter_cons, beq_self_eq_true, if_true, hkey] at hhead
      have hab' : a = b := by
        have := hhead
        simp only [← hkey, beq_self_eq_true, if_true] at this
        exact (List.cons.inj this).1
      subst hab'
      congr 1
      apply ih t₂ ht₁ ht₂
      intro k
      have := h k
      simp only [List.filter_cons] at this
      split at this
      · exact (List.cons.inj this).2
      · exact this

/-- any stable sort (sorted output, per-key order kept) computes `stableSort` -/
theorem stableSort_unique (l l' : List β) (hs : Sorted key l')
    (hst : ∀ k, l'.filter (fun a => key a == k) = l.filter (fun a => key a == k)) :
    l' = stableSort key l :=
  sorted_ext key _ _ hs (stableSort_sorted key l) (fun k => by rw [hst k, stableSort_filter])

end StableSort

end BindgenModel.Post
