import BindgenModel.Model.Reach
/-! Correctness of the work-list DFS of `ItemTraversal` (any finite graph, any predicate):
termination within `|V| + |roots| + 1` steps and "yielded set = reachable set". -/
namespace BindgenModel.Reach

/-- `Reach succ a b`: `b` is reachable from `a` along `succ` (reflexive, transitive). -/
inductive Reach (succ : Nat → List Nat) : Nat → Nat → Prop
  | refl (a : Nat) : Reach succ a a
  | step {a b c : Nat} : Reach succ a b → c ∈ succ b → Reach succ a c

/-- reachable from some root -/
def ReachFrom (succ : Nat → List Nat) (roots : List Nat) (x : Nat) : Prop :=
  ∃ r, r ∈ roots ∧ Reach succ r x

theorem Reach.trans {succ : Nat → List Nat} {a b c : Nat} (h1 : Reach succ a b) (h2 : Reach succ b c) :
    Reach succ a c := by
  induction h2 with
  | refl => exact h1
  | step _ hc ih => exact Reach.step ih hc

theorem Reach.mono {s1 s2 : Nat → List Nat} (h : ∀ v t, t ∈ s1 v → t ∈ s2 v) {a b : Nat}
    (r : Reach s1 a b) : Reach s2 a b := by
  induction r with
  | refl => exact Reach.refl _
  | step _ hc ih => exact Reach.step ih (h _ _ hc)

/-! ### the inner loop: tracing one item -/

theorem visit_fst (st : List Nat × List Nat) (t x : Nat) :
    x ∈ (visit st t).1 ↔ x ∈ st.1 ∨ x = t := by
  unfold visit
  by_cases h : st.1.contains t = true
  · simp only [h, if_true]
    constructor
    · exact Or.inl
    · rintro (h1 | h1)
      · exact h1
      · subst h1; simpa using h
  · simp only [h]
    simp [or_comm]

theorem foldl_visit_fst (l : List Nat) (seen stack : List Nat) (x : Nat) :
    x ∈ (l.foldl visit (seen, stack)).1 ↔ x ∈ seen ∨ x ∈ l := by
  induction l generalizing seen stack with
  | nil => simp
  | cons t l ih =>
    simp only [List.foldl_cons]
    have := ih (visit (seen, stack) t).1 (visit (seen, stack) t).2
    rw [show ((visit (seen, stack) t).1, (visit (seen, stack) t).2) = visit (seen, stack) t from rfl] at this
    rw [this, visit_fst]
    simp only [List.mem_cons]
    constructor
    · rintro ((h | h) | h)
      · exact Or.inl h
      · exact Or.inr (Or.inl h)
      · exact Or.inr (Or.inr h)
    · rintro (h | h | h)
      · exact Or.inl (Or.inl h)
      · exact Or.inl (Or.inr h)
      · exact Or.inr h

theorem foldl_visit_snd (l : List Nat) (seen stack : List Nat) (x : Nat) :
    x ∈ (l.foldl visit (seen, stack)).2 ↔ x ∈ stack ∨ (x ∈ l ∧ x ∉ seen) := by
  induction l generalizing seen stack with
  | nil => simp
  | cons t l ih =>
    simp only [List.foldl_cons]
    by_cases h : seen.contains t = true
    · have ht : t ∈ seen := by simpa using h
      have hv : visit (seen, stack) t = (seen, stack) := by simp [visit, ht]
      rw [hv, ih]
      constructor
      · rintro (h1 | ⟨h1, h2⟩)
        · exact Or.inl h1
        · exact Or.inr ⟨List.mem_cons_of_mem _ h1, h2⟩
      · rintro (h1 | ⟨h1, h2⟩)
        · exact Or.inl h1
        · rcases List.mem_cons.mp h1 with h3 | h3
          · subst h3; exact absurd ht h2
          · exact Or.inr ⟨h3, h2⟩
    · have ht : t ∉ seen := by simpa using h
      have hv : visit (seen, stack) t = (t :: seen, t :: stack) := by simp [visit, ht]
      rw [hv, ih]
      constructor
      · rintro (h1 | ⟨h1, h2⟩)
        · rcases List.mem_cons.mp h1 with h3 | h3
          · subst h3; exact Or.inr ⟨List.mem_cons_self, ht⟩
          · exact Or.inl h3
        · exact Or.inr ⟨List.mem_cons_of_mem _ h1, fun hc => h2 (List.mem_cons_of_mem _ hc)⟩
      · rintro (h1 | ⟨h1, h2⟩)
        · exact Or.inl (List.mem_cons_of_mem _ h1)
        · by_cases hx : x = t
          · subst hx; exact Or.inl List.mem_cons_self
          · rcases List.mem_cons.mp h1 with h3 | h3
            · exact absurd h3 hx
            · refine Or.inr ⟨h3, fun hc => ?_⟩
              rcases List.mem_cons.mp hc with h4 | h4
              · exact hx h4
              · exact h2 h4

/-! ### termination measure -/

/-- number of elements of the universe `V` not yet seen -/
def unseen (V seen : List Nat) : Nat := (V.filter (fun v => !seen.contains v)).length

theorem filter_length_lt {V : List Nat} {p q : Nat → Bool} (hqp : ∀ v, q v = true → p v = true)
    {t : Nat} (ht : t ∈ V) (hp : p t = true) (hq : q t = false) :
    (V.filter q).length < (V.filter p).length := by
  induction V with
  | nil => cases ht
  | cons v V ih =>
    have hle : (V.filter q).length ≤ (V.filter p).length := by
      clear ih ht
      induction V with
      | nil => simp
      | cons w W ihW =>
        simp only [List.filter_cons]
        by_cases hqw : q w = true
        · simp only [hqw, hqp w hqw, if_true, List.length_cons]; omega
        · simp only [hqw]
          by_cases hpw : p w = true
          · simp only [hpw, if_true, List.length_cons]; simp; omega
          · simp only [hpw]; simpa using ihW
    simp only [List.filter_cons]
    rcases List.mem_cons.mp ht with h | h
    · subst h
      simp only [hp, hq, if_true, List.length_cons]
      simp; omega
    · have := ih h
      by_cases hqv : q v = true
      · simp only [hqv, hqp v hqv, if_true, List.length_cons]; omega
      · simp only [hqv]
        by_cases hpv : p v = true
        · simp only [hpv, if_true, List.length_cons]; simp; omega
        · simp only [hpv]; simpa using this

theorem unseen_cons_lt {V seen : List Nat} {t : Nat} (ht : t ∈ V) (hs : t ∉ seen) :
    unseen V (t :: seen) < unseen V seen := by
  unfold unseen
  apply filter_length_lt (t := t) _ ht
  · simpa using hs
  · simp
  · intro v hv
    simp only [List.contains_cons, Bool.not_or, Bool.and_eq_true] at hv
    exact hv.2

theorem unseen_le (V seen : List Nat) : unseen V seen ≤ V.length := List.length_filter_le _ _

theorem foldl_visit_measure (V : List Nat) (l : List Nat) (hl : ∀ t, t ∈ l → t ∈ V) (seen stack : List Nat) :
    unseen V (l.foldl visit (seen, stack)).1 + (l.foldl visit (seen, stack)).2.length
      ≤ unseen V seen + stack.length := by
  induction l generalizing seen stack with
  | nil => simp
  | cons t l ih =>
    simp only [List.foldl_cons]
    have hl' : ∀ u, u ∈ l → u ∈ V := fun u hu => hl u (List.mem_cons_of_mem _ hu)
    by_cases h : seen.contains t = true
    · have ht : t ∈ seen := by simpa using h
      have hv : visit (seen, stack) t = (seen, stack) := by simp [visit, ht]
      rw [hv]; exact ih hl' seen stack
    · have ht : t ∉ seen := by simpa using h
      have hv : visit (seen, stack) t = (t :: seen, t :: stack) := by simp [visit, ht]
      rw [hv]
      have h1 := ih hl' (t :: seen) (t :: stack)
      have h2 := unseen_cons_lt (V := V) (hl t List.mem_cons_self) ht
      simp only [List.length_cons] at h1
      omega

/-- The loop ends with fuel to spare whenever the fuel exceeds `unseen + |stack|`. -/
theorem loop_isSome (succ : Nat → List Nat) (V : List Nat) (hV : ∀ v t, t ∈ succ v → t ∈ V) :
    ∀ (fuel : Nat) (seen stack out : List Nat), unseen V seen + stack.length < fuel →
      (loop succ fuel seen stack out).isSome = true := by
  intro fuel
  induction fuel with
  | zero => intro _ _ _ h; omega
  | succ f ih =>
    intro seen stack out h
    cases stack with
    | nil => simp [loop]
    | cons id rest =>
      simp only [loop]
      apply ih
      have := foldl_visit_measure V (succ id) (hV id) seen rest
      simp only [List.length_cons] at h
      omega

/-! ### `ItemTraversal::new` -/

theorem initState_gen (R : List Nat) (s q : List Nat) (x : Nat) :
    (x ∈ (R.foldl (fun st r => (if st.1.contains r then st.1 else r :: st.1, r :: st.2)) (s, q)).1 ↔ x ∈ s ∨ x ∈ R)
    ∧ (x ∈ (R.foldl (fun st r => (if st.1.contains r then st.1 else r :: st.1, r :: st.2)) (s, q)).2 ↔ x ∈ q ∨ x ∈ R)
    ∧ (R.foldl (fun st r => (if st.1.contains r then st.1 else r :: st.1, r :: st.2)) (s, q)).2.length = q.length + R.length := by
  induction R generalizing s q with
  | nil => simp
  | cons r R ih =>
    simp only [List.foldl_cons]
    obtain ⟨h1, h2, h3⟩ := ih (if s.contains r then s else r :: s) (r :: q)
    refine ⟨?_, ?_, ?_⟩
    · rw [h1]
      by_cases hr : r ∈ s
      · have hc : s.contains r = true := by simpa using hr
        rw [if_pos hc]
        simp only [List.mem_cons]
        constructor
        · rintro (h | h)
          · exact Or.inl h
          · exact Or.inr (Or.inr h)
        · rintro (h | h | h)
          · exact Or.inl h
          · exact Or.inl (h ▸ hr)
          · exact Or.inr h
      · have hc : ¬ (s.contains r = true) := by simpa using hr
        rw [if_neg hc]
        simp only [List.mem_cons]
        constructor
        · rintro ((h | h) | h)
          · exact Or.inr (Or.inl h)
          · exact Or.inl h
          · exact Or.inr (Or.inr h)
        · rintro (h | h | h)
          · exact Or.inl (Or.inr h)
          · exact Or.inl (Or.inl h)
          · exact Or.inr h
    · rw [h2]
      simp only [List.mem_cons]
      constructor
      · rintro ((h | h) | h)
        · exact Or.inr (Or.inl h)
        · exact Or.inl h
        · exact Or.inr (Or.inr h)
      · rintro (h | h | h)
        · exact Or.inl (Or.inr h)
        · exact Or.inl (Or.inl h)
        · exact Or.inr h
    · rw [h3]; simp only [List.length_cons]; omega

theorem initState_fst (R : List Nat) (x : Nat) : x ∈ (initState R).1 ↔ x ∈ R := by
  have := (initState_gen R [] [] x).1
  simpa [initState] using this

theorem initState_snd (R : List Nat) (x : Nat) : x ∈ (initState R).2 ↔ x ∈ R := by
  have := (initState_gen R [] [] x).2.1
  simpa [initState] using this

theorem initState_snd_length (R : List Nat) : (initState R).2.length = R.length := by
  have := (initState_gen R [] [] 0).2.2
  simpa [initState] using this

/-! ### the invariant -/

structure Inv (succ : Nat → List Nat) (R seen stack out : List Nat) : Prop where
  sound : ∀ x, x ∈ seen → ReachFrom succ R x
  cover : ∀ x, x ∈ seen ↔ x ∈ stack ∨ x ∈ out
  closed : ∀ u, u ∈ out → ∀ t, t ∈ succ u → t ∈ seen
  roots : ∀ r, r ∈ R → r ∈ seen

theorem Inv.step {succ : Nat → List Nat} {R seen rest out : List Nat} {id : Nat}
    (inv : Inv succ R seen (id :: rest) out) :
    Inv succ R ((succ id).foldl visit (seen, rest)).1 ((succ id).foldl visit (seen, rest)).2 (id :: out) := by
  have hid : id ∈ seen := (inv.cover id).mpr (Or.inl List.mem_cons_self)
  refine ⟨?_, ?_, ?_, ?_⟩
  · intro x hx
    rcases (foldl_visit_fst _ _ _ _).mp hx with h | h
    · exact inv.sound x h
    · obtain ⟨r, hr, hreach⟩ := inv.sound id hid
      exact ⟨r, hr, Reach.step hreach h⟩
  · intro x
    rw [foldl_visit_fst, foldl_visit_snd]
    constructor
    · rintro (h | h)
      · rcases (inv.cover x).mp h with h1 | h1
        · rcases List.mem_cons.mp h1 with h2 | h2
          · exact Or.inr (h2 ▸ List.mem_cons_self)
          · exact Or.inl (Or.inl h2)
        · exact Or.inr (List.mem_cons_of_mem _ h1)
      · by_cases hs : x ∈ seen
        · rcases (inv.cover x).mp hs with h1 | h1
          · rcases List.mem_cons.mp h1 with h2 | h2
            · exact Or.inr (h2 ▸ List.mem_cons_self)
            · exact Or.inl (Or.inl h2)
          · exact Or.inr (List.mem_cons_of_mem _ h1)
        · exact Or.inl (Or.inr ⟨h, hs⟩)
    · rintro ((h | ⟨h, _⟩) | h)
      · exact Or.inl ((inv.cover x).mpr (Or.inl (List.mem_cons_of_mem _ h)))
      · exact Or.inr h
      · rcases List.mem_cons.mp h with h1 | h1
        · exact Or.inl (h1 ▸ hid)
        · exact Or.inl ((inv.cover x).mpr (Or.inr h1))
  · intro u hu t ht
    rw [foldl_visit_fst]
    rcases List.mem_cons.mp hu with h | h
    · subst h; exact Or.inr ht
    · exact Or.inl (inv.closed u h t ht)
  · intro r hr
    rw [foldl_visit_fst]
    exact Or.inl (inv.roots r hr)

theorem loop_spec (succ : Nat → List Nat) (R : List Nat) :
    ∀ (fuel : Nat) (seen stack out res : List Nat), Inv succ R seen stack out →
      loop succ fuel seen stack out = some res → ∀ x, x ∈ res ↔ ReachFrom succ R x := by
  intro fuel
  induction fuel with
  | zero => intro _ _ _ _ _ h; simp [loop] at h
  | succ f ih =>
    intro seen stack out res inv h
    cases stack with
    | nil =>
      simp only [loop, Option.some.injEq] at h
      subst h
      intro x
      have hcov : ∀ y, y ∈ seen ↔ y ∈ out := fun y => by
        have := inv.cover y; simpa using this
      constructor
      · intro hx
        exact inv.sound x ((hcov x).mpr (by simpa using hx))
      · rintro ⟨r, hr, hreach⟩
        have : x ∈ out := by
          induction hreach with
          | refl => exact (hcov _).mp (inv.roots r hr)
          | step _ hc ih2 => exact (hcov _).mp (inv.closed _ ih2 _ hc)
        simpa using this
    | cons id rest =>
      simp only [loop] at h
      exact ih _ _ _ _ inv.step h

theorem Inv.init (succ : Nat → List Nat) (R : List Nat) :
    Inv succ R (initState R).1 (initState R).2 [] := by
  refine ⟨?_, ?_, ?_, ?_⟩
  · intro x hx
    exact ⟨x, (initState_fst R x).mp hx, Reach.refl x⟩
  · intro x
    rw [initState_fst, initState_snd]; simp
  · intro u hu; cases hu
  · intro r hr; exact (initState_fst R r).mpr hr

/-- The traversal yields exactly the nodes reachable from the roots. -/
theorem itemTraversal_spec (succ : Nat → List Nat) (fuel : Nat) (R res : List Nat)
    (h : itemTraversal succ fuel R = some res) : ∀ x, x ∈ res ↔ ReachFrom succ R x :=
  loop_spec succ R fuel _ _ _ _ (Inv.init succ R) h

/-- `|V| + |roots| + 1` calls of `next` always suffice when every edge target lies in `V`. -/
theorem itemTraversal_isSome (succ : Nat → List Nat) (V R : List Nat) (hV : ∀ v t, t ∈ succ v → t ∈ V) :
    (itemTraversal succ (V.length + R.length + 1) R).isSome = true := by
  unfold itemTraversal
  apply loop_isSome succ V hV
  have h1 := unseen_le V (initState R).1
  have h2 := initState_snd_length R
  omega

end BindgenModel.Reach
