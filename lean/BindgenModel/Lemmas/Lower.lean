import BindgenModel.Model.Lower
/-! Helper lemmas for C04 (signature lowering): the four mutual inductions. -/
namespace BindgenModel.Lower

theorem lowerRet_eq (d : Bool) (t : CTy) :
    lowerRet d t = if d then .never else if isVoid (canon t) then .unit else lowerTy t := by
  cases t with
  | alias id t => cases d <;> rfl
  | _ => cases d <;> simp [lowerRet, lowerTy, canon, isVoid]

theorem normRet_eq (d : Bool) (t : CTy) :
    normRet d t = if d then .void else if isVoid (canon t) then .void else norm t := by
  cases t with
  | alias id t => cases d <;> rfl
  | _ => cases d <;> simp [normRet, norm, canon, isVoid]

mutual
theorem cOf_lowerTy : ∀ t : CTy, cOf (lowerTy t) = norm t
  | .void => by simp [lowerTy, cOf, norm]
  | .scalar k => by simp [lowerTy, cOf, norm]
  | .comp id => by simp [lowerTy, cOf, norm]
  | .alias id t => by simp [lowerTy, cOf, norm, cOf_lowerTy t]
  | .ptr pc t => by
    simp only [lowerTy, norm]
    split
    · exact cOf_lowerTy t
    · simp [cOf, cOf_lowerTy t]
  | .array ec t n => by simp [lowerTy, cOf, norm, cOf_lowerTy t]
  | .func r as v d => by simp [lowerTy, cOf, norm, cOf_lowerRet d r, cOfs_lowerParams as]
theorem cOf_lowerRet : ∀ (d : Bool) (t : CTy), cOf (lowerRet d t) = normRet d t
  | d, .void => by cases d <;> simp [lowerRet, cOf, normRet]
  | d, .scalar k => by cases d <;> simp [lowerRet, cOf, normRet]
  | d, .comp id => by cases d <;> simp [lowerRet, cOf, normRet]
  | d, .alias id t => by
    cases d
    · simp only [lowerRet, normRet, Bool.false_eq_true, if_false]
      split
      · simp [cOf]
      · simp [cOf, cOf_lowerTy t]
    · simp [lowerRet, cOf, normRet]
  | d, .ptr pc t => by
    cases d
    · simp only [lowerRet, normRet, Bool.false_eq_true, if_false]
      split
      · exact cOf_lowerTy t
      · simp [cOf, cOf_lowerTy t]
    · simp [lowerRet, cOf, normRet]
  | d, .array ec t n => by cases d <;> simp [lowerRet, cOf, normRet, cOf_lowerTy t]
  | d, .func r as v d' => by
    cases d <;> simp [lowerRet, cOf, normRet, cOf_lowerRet d' r, cOfs_lowerParams as]
theorem cOf_paramArr : ∀ (c : Bool) (t : CTy), (paramArr c t).map cOf = adjArr c t
  | c, .void => by simp [paramArr, adjArr]
  | c, .scalar k => by simp [paramArr, adjArr]
  | c, .comp id => by simp [paramArr, adjArr]
  | c, .alias id t => by simp [paramArr, adjArr, cOf_paramArr c t]
  | c, .ptr pc t => by simp [paramArr, adjArr]
  | c, .array ec e n => by simp [paramArr, adjArr, cOf, cOf_lowerTy e]
  | c, .func r as v d => by simp [paramArr, adjArr]
theorem cOfs_lowerParams : ∀ as : CTys, cOfs (lowerParams as) = normParams as
  | .nil => by simp [lowerParams, cOfs, normParams]
  | .cons c t rest => by
    simp only [lowerParams, cOfs, normParams, cOfs_lowerParams rest]
    congr 1
    have h := cOf_paramArr c t
    cases hp : paramArr c t with
    | none => rw [hp] at h; simp at h; simp [← h, cOf_lowerTy t]
    | some r => rw [hp] at h; simp at h; simp [← h]
end

theorem isFunc_canon_alias (id : Nat) (t : CTy) : isFunc (canon (.alias id t)) = isFunc (canon t) := by
  simp [canon]

mutual
theorem norm_of_NF : ∀ t : CTy, NF t = true → norm t = t
  | .void, _ => by simp [norm]
  | .scalar k, _ => by simp [norm]
  | .comp id, _ => by simp [norm]
  | .alias id t, h => by
    simp only [NF] at h
    simp [norm, norm_of_NF t h]
  | .ptr pc t, h => by
    simp only [NF] at h
    exact norm_ptr_of_NFpt pc t h
  | .array ec t n, h => by
    simp only [NF, Bool.and_eq_true, Bool.not_eq_true'] at h
    simp [norm, norm_of_NF t h.2, h.1]
  | .func r as v d, h => by simp [NF] at h
theorem norm_ptr_of_NFpt : ∀ (pc : Bool) (t : CTy), NFpt pc t = true → norm (.ptr pc t) = .ptr pc t
  | pc, .func r as v d, h => by
    simp only [NFpt, Bool.and_eq_true, Bool.not_eq_true'] at h
    obtain ⟨⟨⟨h1, h2⟩, h3⟩, h4⟩ := h
    subst h1; subst h2
    simp [norm, canon, isFunc, normRet_of_NFRet r h3, normParams_of_NFs as h4]
  | pc, .void, _ => by simp [norm, canon, isFunc]
  | pc, .scalar k, _ => by simp [norm, canon, isFunc]
  | pc, .comp id, _ => by simp [norm, canon, isFunc]
  | pc, .alias id t, h => by
    simp only [NFpt, Bool.and_eq_true, Bool.not_eq_true'] at h
    simp [norm, canon, h.1, norm_of_NF t h.2]
  | pc, .ptr pc' t, h => by
    simp only [NFpt] at h
    have ih := norm_ptr_of_NFpt pc' t h
    rw [norm]
    simp only [canon, isFunc, Bool.false_eq_true, if_false]
    rw [ih]
  | pc, .array ec t n, h => by
    simp only [NFpt, Bool.and_eq_true, Bool.not_eq_true'] at h
    simp [norm, canon, isFunc, norm_of_NF t h.2, h.1]
theorem normRet_of_NFRet : ∀ t : CTy, NFRet t = true → normRet false t = t
  | .void, _ => by simp [normRet]
  | .scalar k, _ => by simp [normRet]
  | .comp id, _ => by simp [normRet]
  | .alias id t, h => by
    simp only [NFRet, Bool.and_eq_true, Bool.not_eq_true'] at h
    simp [normRet, h.1, norm_of_NF t h.2]
  | .ptr pc t, h => by
    simp only [NFRet] at h
    have ih := norm_ptr_of_NFpt pc t h
    rw [norm] at ih
    simp only [normRet, Bool.false_eq_true, if_false]
    exact ih
  | .array ec t n, h => by
    simp only [NFRet, Bool.and_eq_true, Bool.not_eq_true'] at h
    simp [normRet, norm_of_NF t h.2, h.1]
  | .func r as v d, h => by simp [NFRet] at h
theorem normParams_of_NFs : ∀ as : CTys, NFs as = true → normParams as = as
  | .nil, _ => by simp [normParams]
  | .cons c t rest, h => by
    simp only [NFs, Bool.and_eq_true, Bool.not_eq_true', Option.isNone_iff_eq_none] at h
    obtain ⟨⟨⟨h1, h2⟩, h3⟩, h4⟩ := h
    subst h1
    simp [normParams, h2, norm_of_NF t h3, normParams_of_NFs rest h4]
end

end BindgenModel.Lower
