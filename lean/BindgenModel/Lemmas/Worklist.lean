import BindgenModel.Model.Worklist
/-! Generic theory of the work-list loop: invariant, least fixed point, termination. -/
namespace BindgenModel.Worklist

variable {N L : Type} [DecidableEq N] [DecidableEq L]

def Stable (F : Framework N L) (s : N → L) (n : N) : Prop := F.le (F.rule s n) (s n) = true

/-- what an analysis must satisfy; each field is either a lattice law or a fact about the
rule / dependency tables of the analysis -/
structure Lawful (F : Framework N L) : Prop where
  le_refl : ∀ a, F.le a a = true
  le_trans : ∀ a b c, F.le a b = true → F.le b c = true → F.le a c = true
  le_antisymm : ∀ a b, F.le a b = true → F.le b a = true → a = b
  join_ub_l : ∀ a b, F.le a (F.join a b) = true
  join_ub_r : ∀ a b, F.le b (F.join a b) = true
  join_lub : ∀ a b c, F.le a c = true → F.le b c = true → F.le (F.join a b) c = true
  rank_strict : ∀ a b, F.le a b = true → a ≠ b → F.rank a < F.rank b
  rank_le : ∀ a, F.rank a ≤ F.height
  /-- the rule reads only the nodes listed in `reads` -/
  reads_only : ∀ s s' n, (∀ m ∈ F.reads n, s m = s' m) → F.rule s n = F.rule s' n
  /-- every node a rule reads re-queues the reader when it changes -/
  reads_deps : ∀ n m, m ∈ F.reads n → n ∈ F.nodes → n ∈ F.deps m
  mono : ∀ s s' n, (∀ m, F.le (s m) (s' m) = true) → F.le (F.rule s n) (F.rule s' n) = true

/-! ## the result is below every stable state (least) -/

theorem step_le (F : Framework N L) (h : Lawful F) (s p : N → L) (wl : List N)
    (hp : ∀ n, Stable F p n) (hs : ∀ n, F.le (s n) (p n) = true) :
    ∀ n, F.le ((step F s wl).1 n) (p n) = true := by
  intro n
  cases wl with
  | nil => simpa [step] using hs n
  | cons a wl =>
    simp only [step]
    split
    · exact hs n
    · simp only [upd]
      split
      · rename_i heq; subst heq
        apply h.join_lub _ _ _ (hs n)
        exact h.le_trans _ _ _ (h.mono s p n hs) (hp n)
      · exact hs n

theorem run_le (F : Framework N L) (h : Lawful F) (k : Nat) (wl : List N)
    (s p : N → L) (hp : ∀ n, Stable F p n) (hs : ∀ n, F.le (s n) (p n) = true) :
    ∀ n, F.le ((run F k s wl).1 n) (p n) = true := by
  induction k generalizing s wl with
  | zero => simpa [run] using hs
  | succ k ih =>
    cases wl with
    | nil => simpa [run] using hs
    | cons a wl =>
      simp only [run]
      exact ih _ _ (step_le F h s p (a :: wl) hp hs)

/-! ## loop invariant: every node outside the work-list is stable -/

def Inv (F : Framework N L) (s : N → L) (wl : List N) : Prop :=
  ∀ n ∈ F.nodes, n ∉ wl → Stable F s n

theorem step_inv (F : Framework N L) (h : Lawful F) (s : N → L) (wl : List N)
    (hi : Inv F s wl) : Inv F (step F s wl).1 (step F s wl).2 := by
  cases wl with
  | nil => simpa [step] using hi
  | cons a wl =>
    simp only [step]
    split
    · rename_i heq
      intro n hn hnw
      by_cases hna : n = a
      · subst hna
        unfold Stable
        have := h.join_ub_r (s n) (F.rule s n)
        rw [heq] at this; exact this
      · exact hi n hn (by simp [hna, hnw])
    · rename_i hne
      intro n hn hnw
      simp only [List.mem_append, List.mem_reverse, not_or] at hnw
      have hread : a ∉ F.reads n := fun hr => hnw.1 (h.reads_deps n a hr hn)
      have hrule : F.rule (upd s a (F.join (s a) (F.rule s a))) n = F.rule s n := by
        apply h.reads_only
        intro m hm
        simp only [upd]
        split
        · rename_i e; subst e; exact absurd hm hread
        · rfl
      unfold Stable
      rw [hrule]
      by_cases hna : n = a
      · subst hna
        simp only [upd, if_true]
        exact h.join_ub_r _ _
      · simp only [upd, hna, if_false]
        exact hi n hn (by simp [hna, hnw.2])

theorem run_inv (F : Framework N L) (h : Lawful F) (k : Nat) (s : N → L) (wl : List N)
    (hi : Inv F s wl) : Inv F (run F k s wl).1 (run F k s wl).2 := by
  induction k generalizing s wl with
  | zero => simpa [run] using hi
  | succ k ih =>
    cases wl with
    | nil => simpa [run] using hi
    | cons a wl =>
      simp only [run]
      exact ih _ _ (step_inv F h s (a :: wl) hi)

/-! ## termination: `fuel` always suffices -/

theorem sum_map_le {α : Type} (l : List α) (f g : α → Nat) (h : ∀ x ∈ l, g x ≤ f x) :
    (l.map g).sum ≤ (l.map f).sum := by
  induction l with
  | nil => simp
  | cons x xs ih =>
    simp only [List.map_cons, List.sum_cons]
    have := h x (by simp)
    have := ih (fun y hy => h y (by simp [hy]))
    omega

theorem sum_map_lt {α : Type} (l : List α) (f g : α → Nat) (h : ∀ x ∈ l, g x ≤ f x)
    (a : α) (ha : a ∈ l) (hlt : g a < f a) : (l.map g).sum < (l.map f).sum := by
  induction l with
  | nil => cases ha
  | cons x xs ih =>
    simp only [List.map_cons, List.sum_cons]
    have hx := h x (by simp)
    have hxs : ∀ y ∈ xs, g y ≤ f y := fun y hy => h y (by simp [hy])
    simp only [List.mem_cons] at ha
    rcases ha with rfl | ha
    · have := sum_map_le xs f g hxs; omega
    · have := ih hxs ha; omega

theorem foldl_max_ge (l : List Nat) (init : Nat) : init ≤ l.foldl Nat.max init := by
  induction l generalizing init with
  | nil => simp
  | cons x xs ih =>
    simp only [List.foldl_cons]
    exact Nat.le_trans (Nat.le_max_left _ _) (ih _)

theorem le_foldl_max (l : List Nat) (init x : Nat) (hx : x ∈ l) : x ≤ l.foldl Nat.max init := by
  induction l generalizing init with
  | nil => cases hx
  | cons y ys ih =>
    simp only [List.foldl_cons]
    simp only [List.mem_cons] at hx
    rcases hx with rfl | hx
    · exact Nat.le_trans (Nat.le_max_right _ _) (foldl_max_ge ys _)
    · exact ih _ hx

theorem deps_le_maxDeps (F : Framework N L) (n : N) (hn : n ∈ F.nodes) :
    (F.deps n).length ≤ maxDeps F := by
  unfold maxDeps
  apply le_foldl_max
  exact List.mem_map.mpr ⟨n, hn, rfl⟩

/-- a changed node strictly lowers the head-room -/
theorem headroom_upd_lt (F : Framework N L) (h : Lawful F) (s : N → L) (a : N) (ha : a ∈ F.nodes)
    (hne : F.join (s a) (F.rule s a) ≠ s a) :
    headroom F (upd s a (F.join (s a) (F.rule s a))) < headroom F s := by
  unfold headroom
  have hrank : F.rank (s a) < F.rank (F.join (s a) (F.rule s a)) :=
    h.rank_strict _ _ (h.join_ub_l _ _) (fun e => hne e.symm)
  apply sum_map_lt F.nodes _ _ _ a ha
  · simp only [upd, if_true]
    have := h.rank_le (F.join (s a) (F.rule s a))
    omega
  · intro x _
    simp only [upd]
    split
    · rename_i e; subst e; omega
    · exact Nat.le_refl _

theorem step_fuel (F : Framework N L) (h : Lawful F) (s : N → L) (a : N) (wl : List N)
    (ha : a ∈ F.nodes) :
    fuel F (step F s (a :: wl)).1 (step F s (a :: wl)).2 < fuel F s (a :: wl) := by
  simp only [step]
  split
  · simp [fuel]
  · rename_i hne
    have hlt := headroom_upd_lt F h s a ha hne
    have hd := deps_le_maxDeps F a ha
    simp only [fuel, List.length_append, List.length_reverse, List.length_cons]
    have : (headroom F (upd s a (F.join (s a) (F.rule s a))) + 1) * (maxDeps F + 1) ≤
        headroom F s * (maxDeps F + 1) := Nat.mul_le_mul_right _ hlt
    rw [Nat.add_mul] at this
    omega

/-- **termination**: with `fuel` the loop always empties the work-list -/
theorem run_terminates (F : Framework N L) (h : Lawful F)
    (hd : ∀ n ∈ F.nodes, ∀ m ∈ F.deps n, m ∈ F.nodes) :
    ∀ (k : Nat) (s : N → L) (wl : List N), (∀ n ∈ wl, n ∈ F.nodes) → fuel F s wl ≤ k →
      (run F k s wl).2 = [] := by
  intro k
  induction k with
  | zero =>
    intro s wl _ hk
    have : wl.length = 0 := by unfold fuel at hk; omega
    simp [run, List.eq_nil_of_length_eq_zero this]
  | succ k ih =>
    intro s wl hwl hk
    cases wl with
    | nil => simp [run]
    | cons a wl =>
      simp only [run]
      have ha : a ∈ F.nodes := hwl a (by simp)
      apply ih
      · intro n hn
        simp only [step] at hn
        split at hn
        · exact hwl n (by simp [hn])
        · simp only [List.mem_append, List.mem_reverse] at hn
          rcases hn with hn | hn
          · exact hd a ha n hn
          · exact hwl n (by simp [hn])
      · have := step_fuel F h s a wl ha
        omega

/-! ## the executable array refinement computes the same thing -/

theorem getA_replicate (bot : L) (size n : Nat) : getA bot (Array.replicate size bot) n = bot := by
  unfold getA
  simp [Array.getD_eq_getD_getElem?, Array.getElem?_replicate]
  split <;> rfl

theorem getA_set (bot : L) (a : Array L) (n : Nat) (v : L) (hn : n < a.size) :
    getA bot (a.setIfInBounds n v) = upd (getA bot a) n v := by
  funext m
  unfold getA upd
  by_cases hm : m = n
  · subst hm; simp [Array.getD_eq_getD_getElem?, hn]
  · have : n ≠ m := fun e => hm e.symm
    simp [Array.getD_eq_getD_getElem?, Array.getElem?_setIfInBounds_ne this, hm]

theorem stepA_step (F : Framework Nat L) (a : Array L) (wl : List Nat) (hwl : ∀ n ∈ wl, n < a.size) :
    getA F.bot (stepA F a wl).1 = (step F (getA F.bot a) wl).1 ∧
    (stepA F a wl).2 = (step F (getA F.bot a) wl).2 ∧ (stepA F a wl).1.size = a.size := by
  cases wl with
  | nil => simp [stepA, step]
  | cons n wl =>
    simp only [stepA, step]
    split
    · exact ⟨rfl, rfl, rfl⟩
    · refine ⟨getA_set F.bot a n _ (hwl n (by simp)), rfl, by simp⟩

theorem runA_run (F : Framework Nat L) (hd : ∀ n, ∀ m ∈ F.deps n, m ∈ F.nodes) (size : Nat)
    (hsz : ∀ n ∈ F.nodes, n < size) :
    ∀ (k : Nat) (a : Array L) (wl : List Nat), a.size = size → (∀ n ∈ wl, n < size) →
      getA F.bot (runA F k a wl).1 = (run F k (getA F.bot a) wl).1 ∧
      (runA F k a wl).2 = (run F k (getA F.bot a) wl).2 := by
  intro k
  induction k with
  | zero => intro a wl _ _; simp [runA, run]
  | succ k ih =>
    intro a wl ha hwl
    cases wl with
    | nil => simp [runA, run]
    | cons n wl =>
      simp only [runA, run]
      have hs := stepA_step F a (n :: wl) (by intro m hm; rw [ha]; exact hwl m hm)
      have hwl' : ∀ m ∈ (stepA F a (n :: wl)).2, m < size := by
        intro m hm
        rw [hs.2.1] at hm
        simp only [step] at hm
        split at hm
        · exact hwl m (by simp [hm])
        · simp only [List.mem_append, List.mem_reverse] at hm
          rcases hm with hm | hm
          · exact hsz m (hd n m hm)
          · exact hwl m (by simp [hm])
      have := ih (stepA F a (n :: wl)).1 (stepA F a (n :: wl)).2 (by rw [hs.2.2, ha]) hwl'
      rw [hs.1] at this
      rw [hs.2.1] at this ⊢
      exact this

end BindgenModel.Worklist
