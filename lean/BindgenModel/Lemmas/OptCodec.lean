import BindgenModel.Model.OptCodec
/-! Round-trip lemmas for the string codecs of the option flags, with explicit preconditions, and
witnesses where the precondition is violated. -/
namespace BindgenModel.OptCodec

theorem splitOnce_append (c : Char) (a b : List Char) (h : c ∉ a) :
    splitOnce c (a ++ c :: b) = some (a, b) := by
  induction a with
  | nil => simp [splitOnce]
  | cons x xs ih =>
    have hx : x ≠ c := fun e => h (by simp [e])
    have hxs : c ∉ xs := fun e => h (by simp [e])
    simp [splitOnce, hx, ih hxs]

/-- `rsplit_once(c)` finds the separator when the part AFTER it has no `c` (the part before may) -/
theorem rsplitOnce_append (c : Char) (a b : List Char) (h : c ∉ b) :
    rsplitOnce c (a ++ c :: b) = some (a, b) := by
  unfold rsplitOnce
  have : (a ++ c :: b).reverse = b.reverse ++ c :: a.reverse := by simp
  rw [this, splitOnce_append c b.reverse a.reverse (by simpa using h)]
  simp

/-- `{item}={abi}`: any item (even one containing `=`) comes back, because ABI names have no `=` -/
theorem abi_roundtrip (item abi : List Char) (h : '=' ∉ abi) :
    decAbi (encAbi item abi) = some (item, abi) := rsplitOnce_append '=' item abi h

theorem splitAll_ne_nil (c : Char) (s : List Char) : splitAll c s ≠ [] := by
  induction s with
  | nil => simp [splitAll]
  | cons x xs ih =>
    unfold splitAll
    split
    · simp
    · split
      · exact absurd ‹_› ih
      · simp

theorem splitAll_no_sep (c : Char) (s : List Char) (h : c ∉ s) : splitAll c s = [s] := by
  induction s with
  | nil => simp [splitAll]
  | cons x xs ih =>
    have hx : x ≠ c := fun e => h (by simp [e])
    have hxs : c ∉ xs := fun e => h (by simp [e])
    simp [splitAll, hx, ih hxs]

theorem splitAll_append (c : Char) (a rest : List Char) (h : c ∉ a) :
    splitAll c (a ++ c :: rest) = a :: splitAll c rest := by
  induction a with
  | nil => simp [splitAll]
  | cons x xs ih =>
    have hx : x ≠ c := fun e => h (by simp [e])
    have hxs : c ∉ xs := fun e => h (by simp [e])
    simp [splitAll, hx, ih hxs]

/-- `split(',')` undoes `join(",")` for a NON-EMPTY list of comma-free pieces -/
theorem splitAll_joinWith (c : Char) (ps : List (List Char)) (hne : ps ≠ [])
    (h : ∀ p ∈ ps, c ∉ p) : splitAll c (joinWith c ps) = ps := by
  induction ps with
  | nil => exact absurd rfl hne
  | cons p rest ih =>
    cases rest with
    | nil => simp [joinWith, splitAll_no_sep c p (h p (by simp))]
    | cons q qs =>
      have hp : c ∉ p := h p (by simp)
      have : joinWith c (p :: q :: qs) = p ++ c :: joinWith c (q :: qs) := rfl
      rw [this, splitAll_append c p _ hp, ih (by simp) (fun x hx => h x (by simp [hx]))]

theorem mem_joinWith {c x : Char} {ps : List (List Char)} (hx : x ≠ c) (h : ∀ p ∈ ps, x ∉ p) :
    x ∉ joinWith c ps := by
  induction ps with
  | nil => simp [joinWith]
  | cons p rest ih =>
    cases rest with
    | nil => simpa [joinWith] using h p (by simp)
    | cons q qs =>
      have : joinWith c (p :: q :: qs) = p ++ c :: joinWith c (q :: qs) := rfl
      rw [this]
      simp only [List.mem_append, List.mem_cons, not_or]
      exact ⟨h p (by simp), hx, ih (fun y hy => h y (by simp [hy]))⟩

/-- `{regex}={d1,d2,…}`: the regex may contain anything; the derives must be a non-empty list of
pieces without `=` and `,` -/
theorem derive_roundtrip (regex : List Char) (ds : List (List Char)) (hne : ds ≠ [])
    (h : ∀ d ∈ ds, '=' ∉ d ∧ ',' ∉ d) : decDerive (encDerive regex ds) = some (regex, ds) := by
  unfold decDerive encDerive
  rw [rsplitOnce_append '=' regex _ (mem_joinWith (by decide) (fun d hd => (h d hd).1))]
  simp [splitAll_joinWith ',' ds hne (fun d hd => (h d hd).2)]

/-- an empty derive list does not come back (`"".split(',')` is `[""]`) -/
theorem derive_fails_on_empty_list :
    decDerive (encDerive ['p', 't'] []) = some (['p', 't'], [[]]) := by decide

/-- a derive path containing `=` steals part of the regex side -/
theorem derive_fails_on_eq_in_derive :
    decDerive (encDerive ['p'] [['A', '=', 'B']]) = some (['p', '=', 'A'], [['B']]) := by decide

theorem splitOnce2_append (p : Char) (f t : List Char) (h : p ∉ f) :
    splitOnce2 p (f ++ p :: p :: t) = some (f, t) := by
  induction f with
  | nil => simp [splitOnce2]
  | cons x xs ih =>
    have hx : x ≠ p := fun e => h (by simp [e])
    have hxs : p ∉ xs := fun e => h (by simp [e])
    cases xs with
    | nil => simp [splitOnce2, hx]
    | cons y ys =>
      have := ih hxs
      simp only [List.cons_append] at this ⊢
      simp [splitOnce2, hx, this]

/-- `rsplit_once("::")` on `type::field` when the FIELD has no `:` (the type may, e.g. `ns::pt`) -/
theorem rsplitOnce2_append (p : Char) (t f : List Char) (h : p ∉ f) :
    rsplitOnce2 p (t ++ p :: p :: f) = some (t, f) := by
  unfold rsplitOnce2
  have : (t ++ p :: p :: f).reverse = f.reverse ++ p :: p :: t.reverse := by simp
  rw [this, splitOnce2_append p f.reverse t.reverse (by simpa using h)]
  simp

/-- `{type}::{field}={attr}` comes back when neither pattern contains `=` and the field pattern has
no `:`; the attribute may contain anything -/
theorem field_attr_roundtrip (t f a : List Char) (ht : '=' ∉ t) (hf : '=' ∉ f) (hc : ':' ∉ f) :
    decFieldAttr (encFieldAttr t f a) = some (t, f, a) := by
  unfold decFieldAttr encFieldAttr
  have he : '=' ∉ t ++ ':' :: ':' :: f := by
    simp only [List.mem_append, List.mem_cons, not_or]
    exact ⟨ht, by decide, by decide, hf⟩
  have : t ++ ':' :: ':' :: f ++ '=' :: a = (t ++ ':' :: ':' :: f) ++ '=' :: a := by simp
  rw [this, splitOnce_append '=' _ a he]
  simp [rsplitOnce2_append ':' t f hc]

/-- witness (DESIGN.md §7 row 7): `field_attribute("a=b", "x", "#[a]")` does not come back -/
theorem field_attr_fails_on_eq_in_type :
    decFieldAttr (encFieldAttr ['a', '=', 'b'] ['x'] ['#', '[', 'a', ']']) = none := by decide

/-- witness: a field pattern containing `::` moves the split point (`pt` / `a::b` comes back as
`pt::a` / `b`) -/
theorem field_attr_fails_on_colon_in_field :
    decFieldAttr (encFieldAttr ['p', 't'] ['a', ':', ':', 'b'] ['#']) = some (['p', 't', ':', ':', 'a'], ['b'], ['#']) := by
  decide

/-! ### bracket-aware attribute lists -/

theorem scanBack_append (lvl : Int) (ra rr : List Char)
    (hno : backNoTopEq lvl ra = true) (hbal : backLevel lvl ra = 0) :
    scanBack lvl (ra ++ '=' :: rr) = some (ra, rr) := by
  induction ra generalizing lvl with
  | nil =>
    simp only [backLevel] at hbal
    simp [scanBack, hbal]
  | cons c cs ih =>
    simp only [backNoTopEq, Bool.and_eq_true, Bool.not_eq_true', decide_eq_false_iff_not] at hno
    simp only [backLevel] at hbal
    obtain ⟨h1, h2⟩ := hno
    simp only [List.cons_append, scanBack]
    rw [if_neg h1, ih _ h2 hbal]

/-- `{regex}={a1,a2,…}` with the bracket-aware `rsplit_once`: the separator is found when, reading
the attribute text from its end, brackets balance and no `=` occurs outside brackets
(`#[serde(rename = "x")]` is fine, `#[a] = b` is not) -/
theorem attr_rsplit_roundtrip (regex attrs : List Char)
    (hno : backNoTopEq 0 attrs.reverse = true) (hbal : backLevel 0 attrs.reverse = 0) :
    rsplitBracket (regex ++ '=' :: attrs) = some (regex, attrs) := by
  unfold rsplitBracket
  have : (regex ++ '=' :: attrs).reverse = attrs.reverse ++ '=' :: regex.reverse := by simp
  rw [this, scanBack_append 0 _ _ hno hbal]
  simp

/-- witness: with an unbalanced attribute text (`#[a`) no `=` is ever at level 0: "Missing `=`" -/
theorem attr_fails_on_unbalanced :
    rsplitBracket (['x', '=', 'y'] ++ '=' :: ['#', '[', 'a']) = none := by decide

example : backNoTopEq 0 ("#[serde(rename = \"x\")]".toList.reverse) = true ∧
    backLevel 0 ("#[serde(rename = \"x\")]".toList.reverse) = 0 := by decide

/-! ### `--generate` -/

/-- every non-empty `CodegenConfig` survives `--generate a,b,c` … -/
theorem codegen_roundtrip : ∀ f t v m c d : Bool,
    (f || t || v || m || c || d) = true →
    parseCodegen (showCodegen ⟨f, t, v, m, c, d⟩) = some ⟨f, t, v, m, c, d⟩ := by decide

/-- … the empty one does not: `--generate ""` is rejected (`"".split(',')` yields `[""]`) -/
theorem codegen_fails_on_empty : parseCodegen (showCodegen CodegenBits.empty) = none := by decide

end BindgenModel.OptCodec
