import BindgenModel.Model.ConstEmit
import BindgenModel.Lemmas.CExpr
/-! Decimal print / read round trip (`int_expr` / `uint_expr` literals as rustc reads them). -/
namespace BindgenModel.ConstEmit

/-- value of little-endian digits -/
def ofDigitsRev (l : List Nat) : Nat := l.foldr (fun d acc => acc * 10 + d) 0

theorem digitsRev_spec : ∀ (fuel n : Nat), n < fuel →
    ofDigitsRev (digitsRev fuel n) = n ∧ (∀ d ∈ digitsRev fuel n, d < 10) ∧ digitsRev fuel n ≠ [] := by
  intro fuel
  induction fuel with
  | zero => intro n h; omega
  | succ fuel ih =>
    intro n h
    unfold digitsRev
    by_cases hn : n < 10
    · simp [hn, ofDigitsRev]
    · have hlt : n / 10 < fuel := by omega
      obtain ⟨h1, h2, _⟩ := ih (n / 10) hlt
      simp only [hn, if_false]
      refine ⟨?_, ?_, by simp⟩
      · simp only [ofDigitsRev, List.foldr_cons] at h1 ⊢
        rw [h1]; omega
      · intro d hd
        rcases List.mem_cons.1 hd with rfl | hd
        · omega
        · exact h2 d hd

theorem readDigit_digitChar : ∀ d, d < 10 → readDigit (digitChar d) = some d := by decide

theorem digitChar_ne_minus : ∀ d, d < 10 → digitChar d ≠ '-' := by decide

theorem readNatAux_digits (l : List Nat) (hl : ∀ d ∈ l, d < 10) (acc : Nat) :
    readNatAux (l.map digitChar) acc = some (l.foldl (fun a d => a * 10 + d) acc) := by
  induction l generalizing acc with
  | nil => rfl
  | cons d ds ih =>
    simp only [List.map_cons, readNatAux, readDigit_digitChar d (hl d List.mem_cons_self), List.foldl_cons]
    exact ih (fun x hx => hl x (List.mem_cons_of_mem _ hx)) _

/-- **round trip (unsigned).** rustc reads the literal printed by `uint_expr` as the same number -/
theorem readNat_printNat (n : Nat) : readNat (printNat n) = some n := by
  obtain ⟨h1, h2, h3⟩ := digitsRev_spec (n + 1) n (by omega)
  unfold readNat printNat
  have hne : ((digitsRev (n + 1) n).reverse.map digitChar).isEmpty = false := by
    cases h : digitsRev (n + 1) n with
    | nil => exact absurd h h3
    | cons a l => simp
  rw [hne]
  simp only [Bool.false_eq_true, if_false]
  rw [readNatAux_digits _ (fun d hd => h2 d (List.mem_reverse.1 hd)), List.foldl_reverse]
  exact congrArg some h1

theorem printNat_head_ne_minus (n : Nat) : (printNat n).head? ≠ some '-' := by
  obtain ⟨_, h2, h3⟩ := digitsRev_spec (n + 1) n (by omega)
  unfold printNat
  cases h : (digitsRev (n + 1) n).reverse with
  | nil => simp
  | cons a l =>
    have ha : a < 10 := h2 a (List.mem_reverse.1 (by rw [h]; exact List.mem_cons_self))
    simp only [List.map_cons, List.head?_cons, ne_eq, Option.some.injEq]
    exact digitChar_ne_minus a ha

/-- **round trip (signed).** rustc reads the literal printed by `int_expr` as the same number -/
theorem readInt_printInt (v : Int) : readInt (printInt v) = some v := by
  unfold readInt printInt
  by_cases hv : v < 0
  · simp only [hv, if_true, List.head?_cons, List.tail_cons, readNat_printNat, Option.map_some]
    congr 1
    have : Int.ofNat (-v).toNat = -v := Int.toNat_of_nonneg (by omega)
    omega
  · simp only [hv, if_false, printNat_head_ne_minus, readNat_printNat, Option.map_some]
    congr 1
    exact Int.toNat_of_nonneg (by omega)

theorem readInt_printNat (n : Nat) : readInt (printNat n) = some (n : Int) := by
  unfold readInt
  simp only [printNat_head_ne_minus, if_false, readNat_printNat, Option.map_some]
  rfl


/-! ## enum variants: what is emitted reads back as the C values -/
open BindgenModel.CExpr BindgenModel.Generated

theorem readLit_variantLiteral (isRust : Bool) (t : CTy) (hint : t.isFloat = false) (v : Int)
    (h : t.holds v = true) : readLit (variantLiteral isRust (extractVal t v)) = some v := by
  cases t <;> simp [CTy.isFloat] at hint <;>
    simp [CTy.holds, CTy.lo, CTy.hi, CTy.signed, CTy.bits] at h
  case bool =>
    have hv : v = 0 ∨ v = 1 := by omega
    rcases hv with rfl | rfl <;> cases isRust <;>
      simp [extractVal, variantLiteral, readLit, readInt_printNat]
  all_goals first
    | (have hw : wrap64 v = v := BindgenModel.CExpr.wrap64_eq' v (by omega) (by omega)
       simp [extractVal, CTy.signed, variantLiteral, readLit, hw, readInt_printInt]; done)
    | (have hm : ∀ m : Int, v < m → v % m = v := fun m hlt => Int.emod_eq_of_lt (by omega) hlt
       have hn : ((v.toNat : Nat) : Int) = v := Int.toNat_of_nonneg (by omega)
       simp (disch := omega) [extractVal, CTy.signed, CTy.bits, variantLiteral, readLit, hm, readInt_printNat, hn])

theorem extractVal_inj (t : CTy) (hint : t.isFloat = false) (a b : Int)
    (ha : t.holds a = true) (hb : t.holds b = true) (h : extractVal t a = extractVal t b) : a = b := by
  have ra := readLit_variantLiteral false t hint a ha
  have rb := readLit_variantLiteral false t hint b hb
  rw [h] at ra
  rw [ra] at rb
  exact Option.some.inj rb

theorem nameLookup_append_some (pre x : List (String × Int)) (n : String) (v : Int)
    (h : nameLookup pre n = some v) : nameLookup (pre ++ x) n = some v := by
  induction pre with
  | nil => simp [nameLookup] at h
  | cons p ps ih =>
    obtain ⟨k, w⟩ := p
    simp only [List.cons_append, nameLookup] at h ⊢
    split
    · rename_i hk; simp only [hk, if_true] at h; exact h
    · rename_i hk; simp only [hk, if_false] at h; exact ih h

theorem nameLookup_append_new (pre : List (String × Int)) (n : String) (v : Int)
    (h : n ∉ pre.map (·.1)) : nameLookup (pre ++ [(n, v)]) n = some v := by
  induction pre with
  | nil => simp [nameLookup]
  | cons p ps ih =>
    obtain ⟨k, w⟩ := p
    simp only [List.map_cons, List.mem_cons, not_or] at h
    simp only [List.cons_append, nameLookup]
    have hk : ¬ k = n := fun e => h.1 e.symm
    simp only [hk, if_false]
    exact ih h.2

/-- the loop of `Enum::codegen` emits items that read back as exactly the declared (name, value)
list: duplicates under the Rust-enum style become aliases of the first variant with the value -/
theorem readItems_emitVariants (isRust : Bool) (t : CTy) (hint : t.isFloat = false) :
    ∀ (vs : List (String × Int)) (seen : List (EVal × String)) (pre : List (String × Int)),
      (∀ p ∈ vs, t.holds p.2 = true) →
      (pre.map (·.1) ++ vs.map (·.1)).Nodup →
      (∀ ev nm, seenLookup seen ev = some nm →
        ∃ v, nameLookup pre nm = some v ∧ extractVal t v = ev ∧ t.holds v = true) →
      readItems pre (emitVariants isRust t vs seen) = some (pre ++ vs) := by
  intro vs
  induction vs with
  | nil => intro seen pre _ _ _; simp [emitVariants, readItems]
  | cons p rest ih =>
    intro seen pre hfit hnd hinv
    obtain ⟨n, v⟩ := p
    have hv : t.holds v = true := hfit (n, v) List.mem_cons_self
    have hfit' : ∀ q ∈ rest, t.holds q.2 = true := fun q hq => hfit q (List.mem_cons_of_mem _ hq)
    have hn_new : n ∉ pre.map (·.1) := by
      intro hmem
      have := List.nodup_append.1 hnd
      exact this.2.2 n hmem n (by simp) rfl
    have hnd' : ((pre ++ [(n, v)]).map (·.1) ++ rest.map (·.1)).Nodup := by
      simpa [List.map_append, List.append_assoc] using hnd
    have hlit := readLit_variantLiteral isRust t hint v hv
    have hfinal : pre ++ (n, v) :: rest = (pre ++ [(n, v)]) ++ rest := by simp
    simp only [emitVariants]
    cases hs : seenLookup seen (extractVal t v) with
    | some first =>
      obtain ⟨v', hl, hev, hh⟩ := hinv _ _ hs
      have hvv : v' = v := extractVal_inj t hint v' v hh hv hev
      subst hvv
      have hinv' : ∀ ev nm, seenLookup seen ev = some nm →
          ∃ w, nameLookup (pre ++ [(n, v')]) nm = some w ∧ extractVal t w = ev ∧ t.holds w = true := by
        intro ev nm h
        obtain ⟨w, h1, h2, h3⟩ := hinv ev nm h
        exact ⟨w, nameLookup_append_some _ _ _ _ h1, h2, h3⟩
      cases isRust with
      | true =>
        simp only [if_true, readItems, hl]
        rw [hfinal]
        exact ih seen _ hfit' hnd' hinv'
      | false =>
        simp only [Bool.false_eq_true, if_false, readItems, hlit]
        rw [hfinal]
        exact ih seen _ hfit' hnd' hinv'
    | none =>
      simp only [readItems, hlit]
      rw [hfinal]
      apply ih _ _ hfit' hnd'
      intro ev nm h
      simp only [seenLookup] at h
      split at h
      · rename_i heq
        simp only [Option.some.injEq] at h
        subst h
        exact ⟨v, nameLookup_append_new pre n v hn_new, heq, hv⟩
      · obtain ⟨w, h1, h2, h3⟩ := hinv ev nm h
        exact ⟨w, nameLookup_append_some _ _ _ _ h1, h2, h3⟩

end BindgenModel.ConstEmit
