import BindgenModel.Lemmas.StructLayout
/-!
# Layers 3 (packed), 6 (unions), 7 (opaque) of C02
-/
namespace BindgenModel.C02
open BindgenModel.Layout BindgenModel.StructLayout BindgenModel.CompCodegen

/-- layer 7: an opaque record is exactly one blob (plus the zero-sized `_bindgen_align` field or
`repr(align)`), with the C size and alignment -/
theorem opaque_exact (o : Opts) (c : CAgg) (h : ClangOpaque c = true) (hu : o.u64Align ≤ 8) :
    ∃ r l, emit o c = some r ∧ reprC r = some l ∧
      (∀ cl, c.layout = some cl → l.size = cl.size ∧ l.align = cl.align) ∧
      l.userOffsets = [] ∧ r.isUnion = false ∧
      (r.fields.filter (fun f => f.name == .opaqueBlob)).length = 1 := by
  sorry

/-- layer 3: packed structs (`repr(C, packed)` / `repr(C, packed(N))`) -/
theorem packed_struct (o : Opts) (c : CAgg) (h : ClangPacked c = true) :
    ∃ r l, emit o c = some r ∧ reprC r = some l ∧
      (∀ cl, c.layout = some cl → l.size = cl.size ∧ l.align = cl.align ∧ r.packed = some cl.align) ∧
      l.userOffsets = cOffsets 0 c.fields := by
  sorry

/-- layer 6: unions, as a Rust `union` or as a struct of `__BindgenUnionField`s plus a blob
(`--explicit-padding` on the latter form is the excluded region `explicit_padding_union_wrapper`) -/
theorem union_layout (o : Opts) (c : CAgg) (h : ClangUnion c = true)
    (hf : o.forcePadding = false ∨ (c.isRustUnion o).1 = true) :
    ∃ r l, emit o c = some r ∧ reprC r = some l ∧
      (∀ cl, c.layout = some cl → l.size = cl.size ∧ l.align = cl.align) ∧
      l.userOffsets.all (fun p => p.2 == 0) = true ∧
      l.userOffsets.map (·.1) = List.range c.fields.length ∧
      r.isUnion = (c.isRustUnion o).1 := by
  sorry

end BindgenModel.C02
