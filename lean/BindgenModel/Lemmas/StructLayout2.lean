import BindgenModel.Lemmas.StructLayout
/-!
# Layers 3 (packed), 6 (unions), 7 (opaque) of C02
-/
namespace BindgenModel.C02
open BindgenModel.Layout BindgenModel.StructLayout BindgenModel.CompCodegen


theorem alignTo_zero_left (a : Nat) : alignTo 0 a = 0 := by simp [alignTo]

theorem blob_ne_panic (l : Layout) (ffi : Bool) (h3 : l.align ≠ 3) : blob l ffi ≠ .panic := by
  by_cases h4 : max l.align 1 ≤ 4
  · have hk : knownTypeForSize (max l.align 1) = some (max l.align 1) := by
      unfold knownTypeForSize
      have : max l.align 1 = 1 ∨ max l.align 1 = 2 ∨ max l.align 1 = 4 := by omega
      rcases this with h | h | h <;> simp [h]
    simp only [blob, h4, if_true, hk]
    split
    · simp
    · split <;> simp
  · simp only [blob, h4, if_false]
    simp

theorem blob_small_not_opaqueA (l : Layout) (ffi : Bool) (h4 : l.align ≤ 4) (a s : Nat) :
    blob l ffi ≠ .opaqueA a s := by
  have h4' : max l.align 1 ≤ 4 := by omega
  simp only [blob, h4', if_true]
  cases knownTypeForSize (max l.align 1) with
  | none => simp
  | some ty =>
    simp only
    split
    · simp
    · split <;> simp

/-- a blob field for a layout whose alignment is not 3 and divides its size -/
theorem blobField_eq (n : FName) (l : Layout) (h3 : l.align ≠ 3) (hdvd : l.size % (max l.align 1) = 0) :
    ∃ b ca, b ≠ BlobTy.panic ∧ (l.align ≤ 4 → ca = false) ∧
      blobField n l = { name := n, size := l.size, align := max l.align 1, blob := some b, containsAlign := ca } := by
  obtain ⟨h1, h2⟩ := blob_exact l false h3 hdvd
  refine ⟨blob l false, _, blob_ne_panic l false h3, ?_, by simp only [blobField, h1, h2]; rfl⟩
  intro h4
  have := blob_small_not_opaqueA l false h4
  cases hb : blob l false <;> simp_all


theorem isRustUnion_and (o : Opts) (c : CAgg) : (c.isUnion && (c.isRustUnion o).1) = (c.isRustUnion o).1 := by
  unfold CAgg.isRustUnion
  cases c.isUnion <;> simp

theorem alignFieldFor_le (o : Opts) (a : Nat) (hu : o.u64Align ≤ 8) (ha : 0 < a) :
    (alignFieldFor o a).align ≤ a ∧ (alignFieldFor o a).size = 0 ∧ (alignFieldFor o a).name = .bindgenAlign ∧
    (alignFieldFor o a).blob = none := by
  unfold alignFieldFor
  refine ⟨?_, rfl, rfl, rfl⟩
  simp only
  split
  · omega
  · split
    · omega
    · split <;> omega

theorem opaque_exact_gen (o : Opts) (c : CAgg) (h : ClangOpaque c = true) (hu : o.u64Align ≤ 8) :
    ∃ r l, emit o c = some r ∧ reprC r = some l ∧
      (∀ cl, c.layout = some cl → l.size = cl.size ∧ l.align = cl.align) ∧
      l.userOffsets = [] ∧ r.isUnion = (c.isRustUnion o).1 ∧
      (r.fields.filter (fun f => f.name == .opaqueBlob)).length = 1 := by
  unfold ClangOpaque at h
  cases hl : c.layout with
  | none => simp [hl] at h
  | some l =>
    simp only [hl, Bool.and_eq_true, Bool.not_eq_true', decide_eq_true_eq, beq_iff_eq, bne_iff_ne, ne_eq] at h
    obtain ⟨⟨hop, hfw⟩, ⟨hal, h3⟩, hsz⟩ := h
    have hA : max l.align 1 = l.align := by omega
    obtain ⟨b, ca, hb, -, hbf⟩ := blobField_eq .opaqueBlob l h3 (by rw [hA]; exact hsz)
    rw [hA] at hbf
    obtain ⟨af1, af2, af3, af4⟩ := alignFieldFor_le o l.align hu hal
    unfold emit
    simp only [hop, hfw, hl, if_true, Bool.not_true, Bool.and_false, Bool.false_eq_true, if_false, Bool.not_false,
      Bool.true_and, Option.isNone_some, List.nil_append, Option.isSome_some, ite_self, isRustUnion_and, hbf]
    generalize alignFieldFor o l.align = AF at af1 af2 af3 af4
    obtain ⟨afn, afs, afa, afb, afc⟩ := AF
    simp only at af1 af2 af3 af4
    subst af2 af3 af4
    have hm1 : max (max 1 afa) l.align = l.align := by omega
    have hm2 : max (max 1 l.align) l.align = l.align := by omega
    have hs : alignTo l.size l.align = l.size := alignTo_of_mod_eq_zero _ _ hsz
    cases c.hasBitfields && decide (l.align ≤ 8) <;> cases (c.isRustUnion o).1 <;>
      simp [hb, reprC, placeFields, unionFields, effAlign, RLayout.userOffsets, alignTo_zero_left, hm1, hm2, hs] <;>
      (intro a b hab; rcases hab with ⟨rfl, rfl⟩ | ⟨rfl, rfl⟩ <;> rfl)

/-- the statement of `opaque_exact` without `hnu` fails on an opaque union -/
theorem opaque_union_counterexample :
    ClangOpaque { isUnion := true, layout := some { size := 4, align := 4 }, fields := [], isOpaque := true } = true ∧
    (emit {} { isUnion := true, layout := some { size := 4, align := 4 }, fields := [], isOpaque := true }).map
      (·.isUnion) = some true := by
  decide

/-- layer 7: an opaque record is exactly one blob (plus the zero-sized `_bindgen_align` field or
`repr(align)`), with the C size and alignment.

ADDED HYPOTHESIS `hnu : (c.isRustUnion o).1 = false`: without it the conjunct `r.isUnion = false` is
false — `ClangOpaque` admits opaque unions, and `emit` renders an opaque union that qualifies as a
Rust union as `union { _bindgen_opaque_blob: … }`
(`{ isUnion := true, layout := some ⟨4, 4, false⟩, fields := [], isOpaque := true }` with default
options: `emit` gives `isUnion := true`, see `opaque_union_counterexample`).  Every other conjunct
holds unconditionally: `opaque_exact_gen`, whose last-but-one conjunct reads
`r.isUnion = (c.isRustUnion o).1`. -/
theorem opaque_exact (o : Opts) (c : CAgg) (h : ClangOpaque c = true) (hu : o.u64Align ≤ 8)
    (hnu : (c.isRustUnion o).1 = false) :
    ∃ r l, emit o c = some r ∧ reprC r = some l ∧
      (∀ cl, c.layout = some cl → l.size = cl.size ∧ l.align = cl.align) ∧
      l.userOffsets = [] ∧ r.isUnion = false ∧
      (r.fields.filter (fun f => f.name == .opaqueBlob)).length = 1 := by
  obtain ⟨r, l, h1, h2, h3, h4, h5, h6⟩ := opaque_exact_gen o c h hu
  exact ⟨r, l, h1, h2, h3, h4, by rw [h5, hnu], h6⟩

/-! ### packed structs -/

theorem placeFieldsP_cons (p : Option Nat) (cur ma : Nat) (f : RField) (fs : List RField) :
    placeFields p cur ma (f :: fs) =
      ((f.name, alignTo cur (effAlign p f.align)) ::
          (placeFields p (alignTo cur (effAlign p f.align) + f.size) (max ma (effAlign p f.align)) fs).1,
       (placeFields p (alignTo cur (effAlign p f.align) + f.size) (max ma (effAlign p f.align)) fs).2) := by
  simp [placeFields]

theorem placeFieldsP_nil (p : Option Nat) (cur ma : Nat) : placeFields p cur ma [] = ([], cur, ma) := rfl

theorem placeFieldsP_append (p : Option Nat) (xs ys : List RField) (cur ma : Nat) :
    placeFields p cur ma (xs ++ ys) =
      ((placeFields p cur ma xs).1 ++
          (placeFields p (placeFields p cur ma xs).2.1 (placeFields p cur ma xs).2.2 ys).1,
       (placeFields p (placeFields p cur ma xs).2.1 (placeFields p cur ma xs).2.2 ys).2) := by
  induction xs generalizing cur ma with
  | nil => simp [placeFields]
  | cons x xs ih =>
    rw [List.cons_append, placeFieldsP_cons, placeFieldsP_cons, ih]
    simp

/-- the state of the tracker of a packed struct between two data members -/
structure PInv (t : Tracker) (force : Bool) (cur : Nat) (l : Layout) : Prop where
  pk : t.isPacked = true
  nu : t.compIsUnion = false
  nru : t.isRustUnion = false
  nfa : t.lastFieldWasFlexibleArray = false
  fp : t.forcePadding = force
  nb : t.lastFieldWasBitfield = false
  off : t.latestOffset = cur
  ktl : t.knownTypeLayout = some l

theorem sawFieldWithLayout_packed {t : Tracker} {force : Bool} {cur : Nat} {l : Layout}
    (h : PInv t force cur l) (fl : Layout) (off : Nat)
    (ha : 0 < fl.align) (hO : off / 8 = alignTo cur (min fl.align l.align)) :
    t.sawFieldWithLayout fl (some off) = (afterField t fl (off / 8), none) := by
  obtain ⟨pk, nu, nru, nfa, fp, nb, hoff, ktl⟩ := h
  have hge := alignTo_ge cur (min fl.align l.align)
  unfold Tracker.sawFieldWithLayout Tracker.alignToLatestField
  simp only [pk, if_true, nu, ktl, hoff, Bool.false_eq_true, false_or, or_false, Bool.not_true, if_false]
  have hal : (if fl.align < l.align then { size := l.size, align := fl.align, packed := l.packed } else l : Layout).align
      = min fl.align l.align := by
    split
    · simp only; omega
    · omega
  have hpb : (if off / 8 > cur then off / 8 - cur else if fl.align = 0 then 0 else
      t.paddingBytes (if fl.align < l.align then { size := l.size, align := fl.align, packed := l.packed } else l))
      = off / 8 - cur := by
    split
    · rfl
    · rw [if_neg (by omega)]
      unfold Tracker.paddingBytes
      rw [hoff, hal, ← hO]
  rw [hpb]
  have hadd : cur + (off / 8 - cur) = off / 8 := by omega
  rw [hadd]
  cases t
  simp only at pk nu hoff ktl
  subst pk nu hoff ktl
  simp [afterField]

theorem PInv.afterField {t : Tracker} {force : Bool} {cur : Nat} {l : Layout} (h : PInv t force cur l)
    (fl : Layout) (O : Nat) : PInv (afterField t fl O) force (O + fl.size) l :=
  ⟨h.pk, h.nu, h.nru, h.nfa, h.fp, rfl, rfl, h.ktl⟩

theorem PInv.setCount {t : Tracker} {force : Bool} {cur : Nat} {l : Layout} (h : PInv t force cur l) (k m : Nat) :
    PInv { t with paddingCount := k, maxFieldAlign := m } force cur l :=
  ⟨h.pk, h.nu, h.nru, h.nfa, h.fp, h.nb, h.off, h.ktl⟩

theorem emitFields_packed (force : Bool) (l : Layout) (hn : 0 < l.align) :
    ∀ (fs : List CField) (idx : Nat) (t : Tracker) (cur ma : Nat), PInv t force cur l →
      packedFieldsFrom l.align cur fs = true →
      PInv (emitFields false idx t fs).1 force (plainEnd cur fs) l ∧
      t.maxFieldAlign ≤ (emitFields false idx t fs).1.maxFieldAlign ∧
      (fs ≠ [] → 1 ≤ (emitFields false idx t fs).1.maxFieldAlign) ∧
      (fs.all (fun f => match f.layout with | some fl => decide (fl.align < 16) | none => true) = true →
        t.maxFieldAlign < 16 → (emitFields false idx t fs).1.maxFieldAlign < 16) ∧
      (fs.any (fun f => match f.layout with | some fl => decide (fl.align ≥ l.align) | none => false) = true →
        l.align ≤ (emitFields false idx t fs).1.maxFieldAlign) ∧
      (emitFields false idx t fs).2.any (fun f => f.blob == some .panic) = false ∧
      (emitFields false idx t fs).2.any (·.containsAlign) = false ∧
      ∃ offs ma', placeFields (some l.align) cur ma (emitFields false idx t fs).2 = (offs, plainEnd cur fs, ma') ∧
        uo offs = cOffsets idx fs ∧ ma ≤ ma' ∧ ma' ≤ max ma l.align ∧
        (fs.any (fun f => match f.layout with | some fl => decide (fl.align ≥ l.align) | none => false) = true →
          l.align ≤ ma') := by
  intro fs
  induction fs with
  | nil =>
    intro idx t cur ma hinv _
    simp only [emitFields, plainEnd, placeFieldsP_nil, cOffsets]
    refine ⟨hinv, Nat.le_refl _, by simp, by simp, by simp, by simp, by simp, [], ma, rfl, rfl, Nat.le_refl _, by omega, by simp⟩
  | cons f fs ih =>
    intro idx t cur ma hinv hp
    cases f with
    | unit n l => simp [packedFieldsFrom] at hp
    | data ty off =>
      cases off with
      | none => simp [packedFieldsFrom] at hp
      | some off =>
        cases hl : ty.layout with
        | none => simp [packedFieldsFrom, hl] at hp
        | some fl =>
          simp only [packedFieldsFrom, hl, Bool.and_eq_true, beq_iff_eq, decide_eq_true_eq,
            Bool.not_eq_true'] at hp
          obtain ⟨⟨⟨⟨⟨ha, _⟩, hO⟩, hh⟩, hca⟩, hp'⟩ := hp
          have hsaw : t.sawField ty (some off) = (afterField t fl (off / 8), none) := by
            rw [sawField_eq_withLayout t ty fl _ hl hh, sawFieldWithLayout_packed hinv fl off ha hO]
          have he : emitFields false idx t (CField.data ty (some off) :: fs) =
              ((emitFields false (idx + 1) (afterField t fl (off / 8)) fs).1,
               memberField false idx ty :: (emitFields false (idx + 1) (afterField t fl (off / 8)) fs).2) := by
            simp only [emitFields, hsaw, List.nil_append]
          obtain ⟨ih1, ih2, ih3, ih4, ih5, ih6, ih7, offs, ma', ih8, ih9, ih10, ih11, ih12⟩ :=
            ih (idx + 1) (afterField t fl (off / 8)) (off / 8 + fl.size) (max ma (min fl.align l.align))
              (hinv.afterField fl (off / 8)) hp'
          have hmf : (afterField t fl (off / 8)).maxFieldAlign = max t.maxFieldAlign fl.align := rfl
          rw [hmf] at ih2 ih4
          rw [he]
          simp only [plainEnd, hl, cOffsets, List.all_cons, List.any_cons, CField.layout, Bool.and_eq_true,
            Bool.or_eq_true, decide_eq_true_eq]
          refine ⟨ih1, by omega, ?_, ?_, ?_, ?_, ?_, (.user idx, off / 8) :: offs, ma', ?_, ?_, by omega, by omega, ?_⟩
          · intro _; omega
          · intro h16 ht
            exact ih4 h16.2 (by omega)
          · intro hany
            rcases hany with h1 | h1
            · omega
            · exact ih5 h1
          · rw [memberField_plain idx ty fl hl (by omega)]
            simpa using ih6
          · rw [memberField_plain idx ty fl hl (by omega)]
            simpa [hca] using ih7
          · rw [placeFieldsP_cons, memberField_plain idx ty fl hl (by omega)]
            simp only [effAlign, ← hO, ih8]
          · rw [uo_cons_user, ih9]
          · intro hany
            rcases hany with h1 | h1
            · omega
            · exact ih12 h1

theorem tail_packed {t : Tracker} {force : Bool} {e : Nat} {lk : Layout} (h : PInv t force e lk) (l : Layout)
    (n ma : Nat) (hn : 0 < n) (hma : 1 ≤ ma) (hle : e ≤ l.size) :
    ∃ t2 pad pre c', t.addTailPadding l = (t2, pad) ∧ t.tailPaddingUnderflows l = false ∧
      PInv t2 force e lk ∧ t2.maxFieldAlign = t.maxFieldAlign ∧
      (padList pad).any (fun f => f.blob == some .panic) = false ∧
      (padList pad).any (·.containsAlign) = false ∧ uo pre = [] ∧
      placeFields (some n) e ma (padList pad) = (pre, c', ma) ∧ (c' = e ∨ c' = l.size) := by
  have hu : t.tailPaddingUnderflows l = false := rfl
  unfold Tracker.addTailPadding
  rw [h.fp, h.nru, h.nfa, h.off]
  cases force with
  | false =>
    exact ⟨t, none, [], e, by simp, hu, h, rfl, rfl, rfl, rfl, rfl, Or.inl rfl⟩
  | true =>
    by_cases he : e = l.size
    · exact ⟨t, none, [], e, by simp [he], hu, h, rfl, rfl, rfl, rfl, rfl, Or.inl rfl⟩
    · obtain ⟨b, ca, hb, hca, hbf⟩ := blobField_eq (.padding t.paddingCount) { size := l.size - e, align := 0 }
        (by simp) (by simp [Nat.mod_one])
      have hca := hca (by simp)
      subst hca
      simp only [Nat.zero_max] at hbf
      refine ⟨{ t with paddingCount := t.paddingCount + 1, maxFieldAlign := max t.maxFieldAlign 0 },
        some { idx := t.paddingCount, layout := { size := l.size - e, align := 0 } },
        [(.padding t.paddingCount, e)], l.size, by (have hlt : ¬ e ≥ l.size := by omega); simp [hlt, Tracker.paddingField], hu, h.setCount _ _,
        by simp, ?_, ?_, rfl, ?_, Or.inr rfl⟩
      · simpa [padList, padField, hbf] using hb
      · simp [padList, padField, hbf]
      · have hmin : min 1 n = 1 := by omega
        simp only [padList, padField, hbf, placeFieldsP_cons, placeFieldsP_nil, effAlign, hmin,
          alignTo_of_mod_eq_zero _ _ (Nat.mod_one _)]
        have : max ma 1 = ma := by omega
        rw [this]
        have : e + (l.size - e) = l.size := by omega
        rw [this]

theorem padStruct_none (t : Tracker) (l : Layout) (e : Nat) (hoff : t.latestOffset = e)
    (hnb : t.lastFieldWasBitfield = false) (ha : 0 < l.align) (hs : l.size = alignTo e l.align) :
    t.padStruct l = (t, none) := by
  have h1 := alignTo_lt e l.align ha
  have h2 := alignTo_ge e l.align
  unfold Tracker.padStruct
  rw [hoff, hnb]
  rw [if_neg (by omega)]
  simp only
  split
  · rfl
  · rw [if_neg]
    simp only [Bool.false_eq_true, false_and, or_false]
    omega

/-- the emitted packed aggregate, once its field list is known to be placed like the C record -/
theorem assembleP (l : Layout) (ff pl : List RField) (offs : List (FName × Nat)) (c' : Nat)
    (flds : List CField)
    (hfs : ((ff ++ pl).any fun f => f.blob == some BlobTy.panic) = false)
    (hca : ((ff ++ pl).any fun f => f.containsAlign) = false)
    (hpl : placeFields (some l.align) 0 1 (ff ++ pl) = (offs, c', l.align))
    (hsz' : alignTo c' l.align = l.size) (huo : uo offs = cOffsets 0 flds) :
    ∃ r l', (if ((ff ++ pl).any fun f => f.blob == some BlobTy.panic) = true then none
        else some { isUnion := false, packed := some l.align, align := none, fields := ff ++ pl : RustAgg }) = some r ∧
      reprC r = some l' ∧
      (∀ cl, some l = some cl → l'.size = cl.size ∧ l'.align = cl.align ∧ r.packed = some cl.align) ∧
      l'.userOffsets = cOffsets 0 flds := by
  refine ⟨{ isUnion := false, packed := some l.align, align := none, fields := ff ++ pl },
    { size := l.size, align := l.align, offsets := offs }, ?_, ?_, ?_, ?_⟩
  · rw [hfs]; simp
  · simp only [reprC, Option.isSome_none, Option.isSome_some, Bool.and_false, hca,
      Bool.false_eq_true, if_false, hpl, hsz']
  · intro cl hcl
    cases hcl
    exact ⟨rfl, rfl, rfl⟩
  · rw [userOffsets_eq]
    exact huo

/-- layer 3: packed structs (`repr(C, packed)` / `repr(C, packed(N))`) -/
theorem packed_struct (o : Opts) (c : CAgg) (h : ClangPacked c = true) :
    ∃ r l, emit o c = some r ∧ reprC r = some l ∧
      (∀ cl, c.layout = some cl → l.size = cl.size ∧ l.align = cl.align ∧ r.packed = some cl.align) ∧
      l.userOffsets = cOffsets 0 c.fields := by
  unfold ClangPacked at h
  cases hl : c.layout with
  | none => simp [hl] at h
  | some l =>
    simp only [hl, Bool.and_eq_true, Bool.not_eq_true', decide_eq_true_eq, beq_iff_eq,
      List.isEmpty_eq_false_iff, List.isEmpty_iff, Bool.or_eq_true] at h
    obtain ⟨⟨⟨⟨⟨⟨⟨⟨⟨hiu, hov⟩, hvt⟩, hbs⟩, hop⟩, hfw⟩, hzs⟩, hne⟩, hpk⟩, ⟨⟨hal, hpf⟩, hsz⟩, hcase⟩ := h
    have hru : c.isRustUnion o = (false, false) := by simp [CAgg.isRustUnion, hiu]
    have hinv0 : PInv {
        isPacked := true, knownTypeLayout := some l, isRustUnion := false, compIsUnion := false,
        forcePadding := o.forcePadding, ptrSize := o.ptrSize } o.forcePadding 0 l :=
      ⟨rfl, rfl, rfl, rfl, rfl, rfl, rfl, rfl⟩
    obtain ⟨e1, e2, e3, e4, e5, e6, e7, offs, ma', e8, e9, e10, e11, e12⟩ :=
      emitFields_packed o.forcePadding l hal c.fields 0 _ 0 1 hinv0 hpf
    have e3 := e3 hne
    unfold emit
    simp only [hpk, hru, hiu, hl, hop, hvt, hbs, hfw, hzs, emitBases, Bool.false_and, Bool.and_false,
      Bool.false_eq_true, if_false, Bool.not_false, List.nil_append, Bool.and_self]
    generalize emitFields false 0 _ c.fields = E at e1 e2 e3 e4 e5 e6 e7 e8 ⊢
    obtain ⟨tE, ff⟩ := E
    simp only at e1 e2 e3 e4 e5 e6 e7 e8 ⊢
    have hge := alignTo_ge (plainEnd 0 c.fields) l.align
    obtain ⟨t2, pad, pre, c', hT, hU, hinv2, hm2, hnp, hnca, hpre, hplace, hc'⟩ :=
      tail_packed e1 l l.align ma' hal (by omega) (by omega)
    have hPS := padStruct_none t2 l _ hinv2.off hinv2.nb hal hsz
    simp only [hT, hU, hPS, Bool.false_eq_true, if_false, if_true, List.append_nil]
    have hma : ma' = l.align := by
      rcases hcase with h1 | ⟨_, h2⟩
      · omega
      · have := e12 h2
        omega
    subst hma
    have hfs : ((ff ++ padList pad).any fun f => f.blob == some BlobTy.panic) = false := by
      rw [List.any_append, e6, hnp]; rfl
    have hca : ((ff ++ padList pad).any fun f => f.containsAlign) = false := by
      rw [List.any_append, e7, hnca]; rfl
    have hpl : placeFields (some l.align) 0 1 (ff ++ padList pad) = (offs ++ pre, c', l.align) := by
      rw [placeFieldsP_append, e8]
      simp only [hplace]
    have hsz' : alignTo c' l.align = l.size := by
      rcases hc' with h | h
      · rw [h, hsz]
      · rw [h, hsz, alignTo_idem]
    have huo : uo (offs ++ pre) = cOffsets 0 c.fields := by
      rw [uo_append, hpre, e9, List.append_nil]
    cases hR : t2.requiresExplicitAlign l with
    | false =>
      simp only [Bool.false_eq_true, if_false, Option.isSome_none, Bool.false_and, Bool.not_false, Bool.and_self, if_true]
      exact assembleP l ff (padList pad) (offs ++ pre) c' c.fields hfs hca hpl hsz' huo
    | true =>
      have h1 : l.align = 1 := by
        rcases hcase with h1 | ⟨h1, h2⟩
        · exact h1
        · exfalso
          have := e4 h1 (by omega)
          have := e5 h2
          unfold Tracker.requiresExplicitAlign at hR
          rw [hm2] at hR
          rw [if_neg (by omega), if_pos (by omega)] at hR
          simp at hR
      simp only [if_true, if_pos h1, Option.isSome_none, Bool.false_and, Bool.not_false, Bool.and_self]
      exact assembleP l ff (padList pad) (offs ++ pre) c' c.fields hfs hca hpl hsz' huo

/-! ### unions -/

/-- the state of the tracker of a union between two data members -/
structure UInv (t : Tracker) (force ru : Bool) : Prop where
  np : t.isPacked = false
  u : t.compIsUnion = true
  ru : t.isRustUnion = ru
  fp : t.forcePadding = force
  nb : t.lastFieldWasBitfield = false

theorem alignToLatestField_fields (t : Tracker) (new : Layout) :
    ∃ X, (t.alignToLatestField new).1 = { t with latestOffset := X } := by
  unfold Tracker.alignToLatestField
  split
  · exact ⟨t.latestOffset, rfl⟩
  · split
    · exact ⟨t.latestOffset, rfl⟩
    · simp only
      split
      · exact ⟨t.latestOffset, rfl⟩
      · exact ⟨_, rfl⟩

theorem sawFieldWithLayout_union {t : Tracker} {force ru : Bool} (h : UInv t force ru) (fl : Layout)
    (off : Option Nat) :
    ∃ t1, t.sawFieldWithLayout fl off = (t1, none) ∧ UInv t1 force ru ∧
      t1.maxFieldAlign = max t.maxFieldAlign fl.align := by
  obtain ⟨X, hX⟩ := alignToLatestField_fields t fl
  obtain ⟨np, u, hru, fp, nb⟩ := h
  unfold Tracker.sawFieldWithLayout
  rcases hA : t.alignToLatestField fl with ⟨t', wm⟩
  rw [hA] at hX
  simp only at hX
  subst hX
  simp only [u, np, or_true, if_true, Bool.false_eq_true]
  exact ⟨_, rfl, ⟨rfl, rfl, hru, fp, rfl⟩, rfl⟩

theorem unionFields_cons (cur ma : Nat) (f : RField) (fs : List RField) :
    unionFields none cur ma (f :: fs) =
      ((f.name, 0) :: (unionFields none (max cur f.size) (max ma f.align) fs).1,
       (unionFields none (max cur f.size) (max ma f.align) fs).2) := by
  simp [unionFields, effAlign]

/-- one data member of a union: tracker step -/
theorem sawField_union {t : Tracker} {force ru : Bool} (h : UInv t force ru) (ty : FieldTy) (fl : Layout)
    (off : Option Nat) (hl : ty.layout = some fl) (hh : arrayHackInactive ty = true) :
    ∃ t1, t.sawField ty off = (t1, none) ∧ UInv t1 force ru ∧
      t1.maxFieldAlign = max t.maxFieldAlign fl.align := by
  rw [sawField_eq_withLayout t ty fl _ hl hh]
  exact sawFieldWithLayout_union h fl off

/-- field loop of a union emitted as a Rust `union` -/
theorem emitFields_runion (force ru : Bool) (B : Nat) :
    ∀ (fs : List CField) (idx : Nat) (t : Tracker) (cur : Nat), UInv t force ru →
      unionFieldsOk fs = true → fieldAlignsLe B fs = true → max 1 t.maxFieldAlign ≤ B →
      UInv (emitFields false idx t fs).1 force ru ∧
      max 1 (emitFields false idx t fs).1.maxFieldAlign ≤ B ∧
      (emitFields false idx t fs).2.any (fun f => f.blob == some .panic) = false ∧
      ∃ offs, unionFields none cur (max 1 t.maxFieldAlign) (emitFields false idx t fs).2 =
          (offs, max cur (unionMaxSize fs), max 1 (emitFields false idx t fs).1.maxFieldAlign) ∧
        (uo offs).all (fun p => p.2 == 0) = true ∧
        (uo offs).map (·.1) = List.range' idx fs.length := by
  intro fs
  induction fs with
  | nil =>
    intro idx t cur hinv _ _ hB
    simp only [emitFields, unionFields, unionMaxSize]
    exact ⟨hinv, hB, by simp, [], by simp, by simp [uo], by simp [uo]⟩
  | cons f fs ih =>
    intro idx t cur hinv hok hle hB
    cases f with
    | unit n l => simp [unionFieldsOk] at hok
    | data ty off =>
      cases hl : ty.layout with
      | none => simp [unionFieldsOk, hl] at hok
      | some fl =>
        simp only [unionFieldsOk, hl, Bool.and_eq_true, decide_eq_true_eq] at hok
        obtain ⟨⟨⟨ha, _⟩, hh⟩, hok'⟩ := hok
        simp only [fieldAlignsLe, List.all_cons, CField.layout, hl, Bool.and_eq_true,
          decide_eq_true_eq] at hle
        obtain ⟨hle1, hle'⟩ := hle
        obtain ⟨t1, hsaw, hinv1, hm1⟩ := sawField_union hinv ty fl off hl hh
        have he : emitFields false idx t (CField.data ty off :: fs) =
            ((emitFields false (idx + 1) t1 fs).1,
             memberField false idx ty :: (emitFields false (idx + 1) t1 fs).2) := by
          simp only [emitFields, hsaw, List.nil_append]
        obtain ⟨ih1, ih2, ih3, offs, ih4, ih5, ih6⟩ :=
          ih (idx + 1) t1 (max cur fl.size) hinv1 hok' hle' (by rw [hm1]; omega)
        rw [he]
        refine ⟨ih1, ih2, ?_, (.user idx, 0) :: offs, ?_, ?_, ?_⟩
        · rw [memberField_plain idx ty fl hl (by omega)]
          simpa using ih3
        · rw [unionFields_cons, memberField_plain idx ty fl hl (by omega)]
          simp only [unionMaxSize, CField.layout, hl]
          have hmm : max (max 1 t.maxFieldAlign) fl.align = max 1 t1.maxFieldAlign := by rw [hm1]; omega
          rw [hmm, ih4]
          have : max (max cur fl.size) (unionMaxSize fs) = max cur (max fl.size (unionMaxSize fs)) := by omega
          rw [this]
        · rw [uo_cons_user]
          simpa using ih5
        · rw [uo_cons_user, List.map_cons, ih6, List.length_cons, List.range'_succ]

/-- field loop of a union emitted as a struct of zero-sized `__BindgenUnionField`s -/
theorem emitFields_wunion (force ru : Bool) :
    ∀ (fs : List CField) (idx : Nat) (t : Tracker), UInv t force ru →
      unionFieldsOk fs = true →
      UInv (emitFields true idx t fs).1 force ru ∧
      (emitFields true idx t fs).2.any (fun f => f.blob == some .panic) = false ∧
      ∃ offs, placeFields none 0 1 (emitFields true idx t fs).2 = (offs, 0, 1) ∧
        (uo offs).all (fun p => p.2 == 0) = true ∧
        (uo offs).map (·.1) = List.range' idx fs.length := by
  intro fs
  induction fs with
  | nil =>
    intro idx t hinv _
    simp only [emitFields, placeFields]
    exact ⟨hinv, by simp, [], by simp, by simp [uo], by simp [uo]⟩
  | cons f fs ih =>
    intro idx t hinv hok
    cases f with
    | unit n l => simp [unionFieldsOk] at hok
    | data ty off =>
      cases hl : ty.layout with
      | none => simp [unionFieldsOk, hl] at hok
      | some fl =>
        simp only [unionFieldsOk, hl, Bool.and_eq_true, decide_eq_true_eq] at hok
        obtain ⟨⟨⟨ha, _⟩, hh⟩, hok'⟩ := hok
        obtain ⟨t1, hsaw, hinv1, hm1⟩ := sawField_union hinv ty fl off hl hh
        have he : emitFields true idx t (CField.data ty off :: fs) =
            ((emitFields true (idx + 1) t1 fs).1,
             memberField true idx ty :: (emitFields true (idx + 1) t1 fs).2) := by
          simp only [emitFields, hsaw, List.nil_append]
        obtain ⟨ih1, ih3, offs, ih4, ih5, ih6⟩ := ih (idx + 1) t1 hinv1 hok'
        have hmf : memberField true idx ty = { name := .user idx, size := 0, align := 1 } := by
          simp [memberField]
        rw [he, hmf]
        refine ⟨ih1, ?_, (.user idx, 0) :: offs, ?_, ?_, ?_⟩
        · simpa using ih3
        · rw [placeFields_cons]
          simp only [alignTo_zero_left, Nat.add_zero, Nat.max_self, ih4]
        · rw [uo_cons_user]
          simpa using ih5
        · rw [uo_cons_user, List.map_cons, ih6, List.length_cons, List.range'_succ]

theorem hasBitfields_union (fs : List CField) (h : unionFieldsOk fs = true) :
    (fs.any fun f => match f with | .unit _ _ _ _ => true | _ => false) = false := by
  induction fs with
  | nil => rfl
  | cons f fs ih =>
    cases f with
    | unit n l => simp [unionFieldsOk] at h
    | data ty off =>
      simp only [unionFieldsOk, Bool.and_eq_true] at h
      simp only [List.any_cons, Bool.false_or]
      exact ih h.2

theorem tail_union {t : Tracker} {force ru : Bool} (h : UInv t force ru) (l : Layout)
    (hf : force = false ∨ ru = true) :
    t.addTailPadding l = (t, none) ∧ t.tailPaddingUnderflows l = false := by
  unfold Tracker.addTailPadding Tracker.tailPaddingUnderflows
  rw [h.fp, h.ru]
  rcases hf with hf | hf <;> subst hf <;> simp

/-- the emitted union (either form), once its field list is known to be placed at offset 0 -/
theorem assembleU (l : Layout) (isU : Bool) (ff : List RField) (offs : List (FName × Nat)) (c' ma n : Nat)
    (A : Option Nat)
    (hA : (A = none ∧ ma = l.align) ∨ (A = some l.align ∧ ma ≤ l.align))
    (hfs : (ff.any fun f => f.blob == some BlobTy.panic) = false)
    (hpl : (if isU = true then unionFields none 0 1 ff else placeFields none 0 1 ff) = (offs, c', ma))
    (hsz' : alignTo c' l.align = l.size)
    (hz : (uo offs).all (fun p => p.2 == 0) = true) (hr : (uo offs).map (·.1) = List.range n) :
    ∃ r l', (if (ff.any fun f => f.blob == some BlobTy.panic) = true then none
        else some { isUnion := isU, packed := none, align := A, fields := ff : RustAgg }) = some r ∧
      reprC r = some l' ∧
      (∀ cl, some l = some cl → l'.size = cl.size ∧ l'.align = cl.align) ∧
      l'.userOffsets.all (fun p => p.2 == 0) = true ∧
      l'.userOffsets.map (·.1) = List.range n ∧ r.isUnion = isU := by
  refine ⟨{ isUnion := isU, packed := none, align := A, fields := ff },
    { size := l.size, align := l.align, offsets := offs }, ?_, ?_, ?_, ?_, ?_, rfl⟩
  · rw [hfs]; simp
  · rcases hA with ⟨hA, hma⟩ | ⟨hA, hma⟩
    · subst hA
      simp only [reprC, Option.isSome_none, Bool.false_and, Bool.false_eq_true, if_false, hpl, hma, hsz']
    · subst hA
      have : max ma l.align = l.align := by omega
      simp only [reprC, Option.isSome_none, Bool.false_and, Bool.false_eq_true, if_false, hpl, this, hsz']
  · intro cl hcl
    cases hcl
    exact ⟨rfl, rfl⟩
  · rw [userOffsets_eq]
    exact hz
  · rw [userOffsets_eq]
    exact hr

theorem requiresExplicitAlign_false {t : Tracker} {l : Layout} (h : t.requiresExplicitAlign l = false) :
    l.align ≤ t.maxFieldAlign := by
  unfold Tracker.requiresExplicitAlign at h
  split at h
  · simp at h
  · split at h
    · omega
    · simp at h

/-- layer 6: unions, as a Rust `union` or as a struct of `__BindgenUnionField`s plus a blob
(`--explicit-padding` on the latter form is the excluded region `explicit_padding_union_wrapper`) -/
theorem union_layout (o : Opts) (c : CAgg) (h : ClangUnion c = true)
    (hf : o.forcePadding = false ∨ (c.isRustUnion o).1 = true) :
    ∃ r l, emit o c = some r ∧ reprC r = some l ∧
      (∀ cl, c.layout = some cl → l.size = cl.size ∧ l.align = cl.align) ∧
      l.userOffsets.all (fun p => p.2 == 0) = true ∧
      l.userOffsets.map (·.1) = List.range c.fields.length ∧
      r.isUnion = (c.isRustUnion o).1 := by
  unfold ClangUnion at h
  cases hl : c.layout with
  | none => simp [hl] at h
  | some l =>
    simp only [hl, Bool.and_eq_true, Bool.not_eq_true', decide_eq_true_eq, beq_iff_eq, bne_iff_ne, ne_eq,
      List.isEmpty_eq_false_iff, List.isEmpty_iff] at h
    obtain ⟨⟨⟨⟨⟨⟨⟨⟨⟨hiu, hpa⟩, hov⟩, hvt⟩, hbs⟩, hop⟩, hfw⟩, hzs⟩, hne⟩, ⟨⟨⟨hal, h3⟩, hle⟩, hok⟩, hsz⟩ := h
    have hpk := isPacked_plain c l hpa hl hov hle
    have hhb : c.hasBitfields = false := hasBitfields_union c.fields hok
    have hmod : l.size % l.align = 0 := by rw [hsz]; exact alignTo_mod _ _ hal
    have hA : max l.align 1 = l.align := by omega
    rcases hru : c.isRustUnion o with ⟨ru, cc⟩
    rw [hru] at hf
    simp only at hf
    cases ru with
    | true =>
      have hinv0 : UInv {
          isPacked := false, knownTypeLayout := some l, isRustUnion := true, compIsUnion := true,
          forcePadding := o.forcePadding, ptrSize := o.ptrSize } o.forcePadding true :=
        ⟨rfl, rfl, rfl, rfl, rfl⟩
      obtain ⟨e1, e2, e3, offs, e4, e5, e6⟩ :=
        emitFields_runion o.forcePadding true l.align c.fields 0 _ 0 hinv0 hok hle (by simp; omega)
      unfold emit
      simp only [hpk, hru, hiu, hl, hop, hvt, hbs, hfw, hzs, hhb, emitBases, Bool.false_and, Bool.and_false,
        Bool.false_eq_true, if_false, Bool.not_false, List.nil_append, Bool.and_self, Bool.not_true, if_true]
      generalize emitFields false 0 _ c.fields = E at e1 e2 e3 e4 ⊢
      obtain ⟨tE, ff⟩ := E
      simp only at e1 e2 e3 e4 ⊢
      obtain ⟨hT, hU⟩ := tail_union e1 l hf
      simp only [hT, hU, e1.ru, Bool.false_eq_true, if_false, List.append_nil, Bool.not_true]
      have hm0 : max 1 (0 : Nat) = 1 := rfl
      simp only [hm0, Nat.zero_max] at e4
      have hsz' : alignTo (unionMaxSize c.fields) l.align = l.size := hsz.symm
      rw [← List.range_eq_range'] at e6
      cases hR : tE.requiresExplicitAlign l with
      | false =>
        have := requiresExplicitAlign_false hR
        simp only [Bool.false_eq_true, if_false, Option.isSome_none, Bool.false_and]
        exact assembleU l true ff offs _ _ _ none (Or.inl ⟨rfl, by omega⟩) e3 e4 hsz' e5 e6
      | true =>
        simp only [if_true, Bool.false_and, Bool.false_eq_true, if_false]
        exact assembleU l true ff offs _ _ _ (some l.align) (Or.inr ⟨rfl, e2⟩) e3 e4 hsz' e5 e6
    | false =>
      have hfp : o.forcePadding = false := by simpa using hf
      have hinv0 : UInv {
          isPacked := false, knownTypeLayout := some l, isRustUnion := false, compIsUnion := true,
          forcePadding := o.forcePadding, ptrSize := o.ptrSize } o.forcePadding false :=
        ⟨rfl, rfl, rfl, rfl, rfl⟩
      obtain ⟨e1, e3, offs, e4, e5, e6⟩ := emitFields_wunion o.forcePadding false c.fields 0 _ hinv0 hok
      obtain ⟨b, ca, hb, -, hbf⟩ := blobField_eq .unionField l h3 (by rw [hA]; exact hmod)
      rw [hA] at hbf
      unfold emit
      simp only [hpk, hru, hiu, hl, hop, hvt, hbs, hfw, hzs, hhb, emitBases, Bool.false_and, Bool.and_false,
        Bool.false_eq_true, if_false, Bool.not_false, List.nil_append, Bool.and_self, Bool.not_true, if_true]
      generalize emitFields true 0 _ c.fields = E at e1 e3 e4 ⊢
      obtain ⟨tE, ff⟩ := E
      simp only at e1 e3 e4 ⊢
      obtain ⟨hT, hU⟩ := tail_union e1 l (Or.inl hfp)
      simp only [hT, hU, e1.ru, Bool.false_eq_true, if_false, List.append_nil, Bool.not_false, if_true]
      generalize blobField FName.unionField l = BF at hbf ⊢
      rw [← List.range_eq_range'] at e6
      have hfs : ((ff ++ [BF]).any fun f => f.blob == some BlobTy.panic) = false := by
        rw [List.any_append, e3, hbf]
        simpa using hb
      have hpl : (if false = true then unionFields none 0 1 (ff ++ [BF])
          else placeFields none 0 1 (ff ++ [BF])) = (offs ++ [(.unionField, 0)], l.size, l.align) := by
        rw [if_neg (by simp), placeFields_append, e4, hbf]
        simp only [placeFields_cons, placeFields_nil, alignTo_zero_left, Nat.zero_add]
        have : max 1 l.align = l.align := by omega
        rw [this]
      have hsz' : alignTo l.size l.align = l.size := alignTo_of_mod_eq_zero _ _ hmod
      have huo : uo (offs ++ [(FName.unionField, 0)]) = uo offs := by
        rw [uo_append]
        simp [uo]
      rw [← huo] at e5 e6
      cases hR : tE.requiresExplicitAlign l with
      | false =>
        simp only [Bool.false_eq_true, if_false, Option.isSome_none, Bool.false_and]
        exact assembleU l false _ _ _ _ _ none (Or.inl ⟨rfl, rfl⟩) hfs hpl hsz' e5 e6
      | true =>
        simp only [if_true, Bool.false_and, Bool.false_eq_true, if_false]
        exact assembleU l false _ _ _ _ _ (some l.align) (Or.inr ⟨rfl, Nat.le_refl _⟩) hfs hpl hsz' e5 e6

end BindgenModel.C02
