import BindgenModel.Lemmas.Post
/-! # Lemmas about the recursion into inline modules (tree level). -/
set_option linter.unusedSectionVars false
set_option linter.unusedSimpArgs false
namespace BindgenModel.Post
open BindgenModel.Generated

variable {α : Type} [DecidableEq α]

/-! ## maps that keep rank and foreign-ness commute with the level operations -/

/-- `g` changes only the inside of inline modules -/
def ShapePreserving (g : Item α → Item α) : Prop :=
  ∀ x, (g x).rank = x.rank ∧ (g x).asForeign = x.asForeign ∧ (x.isForeign = true → g x = x)

theorem ShapePreserving.isForeign {g : Item α → Item α} (h : ShapePreserving g) (x : Item α) :
    (g x).isForeign = x.isForeign := by
  have := (h x).2.1
  cases hx : x <;> cases hg : g x <;> simp_all [Item.asForeign, Item.isForeign]

theorem others_map {g : Item α → Item α} (h : ShapePreserving g) (l : List (Item α)) :
    others (l.map g) = (others l).map g := by
  induction l with
  | nil => rfl
  | cons x xs ih =>
    simp only [others, List.map_cons, List.filter_cons, h.isForeign] at ih ⊢
    split <;> simp [ih]

theorem blocksOf_map {g : Item α → Item α} (h : ShapePreserving g) (l : List (Item α)) :
    blocksOf (l.map g) = blocksOf l := by
  induction l with
  | nil => rfl
  | cons x xs ih =>
    simp only [blocksOf, List.map_cons, List.filterMap_cons, (h x).2.1] at ih ⊢
    rw [ih]

theorem map_foreign_map {g : Item α → Item α} (h : ShapePreserving g) (bs : List (Foreign α)) :
    (bs.map Item.foreign).map g = bs.map Item.foreign := by
  induction bs with
  | nil => rfl
  | cons b bs ih =>
    simp only [List.map_cons, ih]
    rw [(h (.foreign b)).2.2 rfl]

/-- a level operation that commutes with shape-preserving maps -/
def Natural (L : List (Item α) → List (Item α)) : Prop :=
  ∀ g, ShapePreserving g → ∀ l, L (l.map g) = (L l).map g

theorem mergeLevel_natural (fields) : Natural (mergeLevel (α := α) fields) := by
  intro g hg l
  rw [mergeLevel_eq, mergeLevel_eq, others_map hg, blocksOf_map hg, List.map_append, map_foreign_map hg]

theorem insertBy_map {β γ : Type} (key : γ → Nat) (g : β → γ) (x : β) (l : List β) :
    insertBy key (g x) (l.map g) = (insertBy (key ∘ g) x l).map g := by
  induction l with
  | nil => rfl
  | cons y ys ih =>
    simp only [List.map_cons, insertBy, Function.comp]
    split
    · rfl
    · simp only [List.map_cons, ih, Function.comp]

theorem stableSort_map {β γ : Type} (key : γ → Nat) (g : β → γ) (l : List β) :
    stableSort key (l.map g) = (stableSort (key ∘ g) l).map g := by
  induction l with
  | nil => rfl
  | cons x xs ih =>
    simp only [List.map_cons, stableSort, ih, insertBy_map]

theorem sortLevel_natural : Natural (sortLevel (α := α)) := by
  intro g hg l
  unfold sortLevel
  rw [stableSort_map]
  have : (Item.rank ∘ g) = (Item.rank : Item α → Nat) := by
    funext x; exact (hg x).1
  rw [this]

theorem natural_id : Natural (fun l : List (Item α) => l) := fun _ _ _ => rfl

theorem Natural.comp {L₁ L₂ : List (Item α) → List (Item α)} (h₁ : Natural L₁) (h₂ : Natural L₂) :
    Natural (L₂ ∘ L₁) := by
  intro g hg l
  simp only [Function.comp, h₁ g hg, h₂ g hg]

/-! ## `treeItem` -/

theorem treeList_eq_map (L : List (Item α) → List (Item α)) (l : List (Item α)) :
    treeList L l = l.map (treeItem L) := by
  induction l with
  | nil => simp [treeList]
  | cons x xs ih => simp [treeList, ih]

theorem treeItem_shape (L : List (Item α) → List (Item α)) : ShapePreserving (treeItem L) := by
  intro x
  cases x <;> simp [treeItem, Item.rank, Item.asForeign, Item.isForeign]

/-- the code's order (this level first, then the inline modules) gives the same result -/
theorem treeFile_code_order {L : List (Item α) → List (Item α)} (hL : Natural L) (items : List (Item α)) :
    treeFile L items = (L items).map (treeItem L) := by
  rw [treeFile, treeList_eq_map, hL _ (treeItem_shape L)]

mutual
theorem treeItem_fuse {L₁ L₂ : List (Item α) → List (Item α)} (h₁ : Natural L₁) (x : Item α) :
    treeItem L₂ (treeItem L₁ x) = treeItem (L₂ ∘ L₁) x := by
  match x with
  | .plain _ _ => simp [treeItem]
  | .foreign _ => simp [treeItem]
  | .module h is =>
    simp only [treeItem, Function.comp]
    rw [treeList_eq_map L₂, treeList_eq_map L₁, ← h₁ _ (treeItem_shape L₂), ← treeList_eq_map L₁,
      ← treeList_eq_map L₂, treeList_fuse h₁ is]
theorem treeList_fuse {L₁ L₂ : List (Item α) → List (Item α)} (h₁ : Natural L₁) (l : List (Item α)) :
    treeList L₂ (treeList L₁ l) = treeList (L₂ ∘ L₁) l := by
  match l with
  | [] => simp [treeList]
  | x :: xs => simp only [treeList, treeItem_fuse h₁ x, treeList_fuse h₁ xs]
end

/-- two whole-file passes = one whole-file pass with the composed level operation -/
theorem treeFile_fuse {L₁ L₂ : List (Item α) → List (Item α)} (h₁ : Natural L₁) (items : List (Item α)) :
    treeFile L₂ (treeFile L₁ items) = treeFile (L₂ ∘ L₁) items := by
  simp only [treeFile, Function.comp]
  rw [treeList_eq_map L₂, ← h₁ _ (treeItem_shape L₂), ← treeList_eq_map L₂, treeList_fuse h₁]

theorem treeFile_idem {L : List (Item α) → List (Item α)} (hn : Natural L) (hi : ∀ l, L (L l) = L l)
    (items : List (Item α)) : treeFile L (treeFile L items) = treeFile L items := by
  rw [treeFile_fuse hn]
  have : L ∘ L = L := by funext l; exact hi l
  rw [this]

theorem treeFile_id (items : List (Item α)) : treeFile (fun l => l) items = items := by
  have key : ∀ n, ∀ x : Item α, sizeOf x ≤ n → treeItem (fun l => l) x = x := by
    intro n
    induction n with
    | zero =>
      intro x hx
      cases x <;> simp at hx <;> omega
    | succ n ih =>
      intro x hx
      cases x with
      | plain _ _ => rfl
      | foreign _ => rfl
      | module h is =>
        simp only [treeItem, treeList_eq_map]
        congr 1
        have : ∀ y ∈ is, treeItem (fun l => l) y = y := by
          intro y hy
          apply ih
          have := List.sizeOf_lt_of_mem hy
          simp at hx
          omega
        conv => rhs; rw [← List.map_id is]
        exact List.map_congr_left this
  simp only [treeFile, treeList_eq_map]
  conv => rhs; rw [← List.map_id items]
  exact List.map_congr_left (fun y _ => key _ y (Nat.le_refl _))

/-! ## inventory with module paths -/

/-- what the property counts: plain items and inline-module headers with their module path, and
foreign items with path, block attributes, ABI and (`g` of) unsafety -/
inductive Entry (α : Type) where
  | plain (path : List α) (kind : ItemKind) (text : α)
  | tuple (path : List α) (t : Tuple α)
  | modHead (path : List α) (head : α)
deriving DecidableEq, Repr

mutual
def invItem (g : Bool → Bool) (path : List α) : Item α → List (Entry α)
  | .plain k t => [.plain path k t]
  | .foreign f => (f.tuplesG g).map (.tuple path)
  | .module h is => .modHead path h :: invList g (path ++ [h]) is
def invList (g : Bool → Bool) (path : List α) : List (Item α) → List (Entry α)
  | [] => []
  | x :: xs => invItem g path x ++ invList g path xs
end

theorem invList_eq_flatMap (g) (path : List α) (l : List (Item α)) :
    invList g path l = l.flatMap (invItem g path) := by
  induction l with
  | nil => simp [invList]
  | cons x xs ih => simp [invList, ih]

theorem invList_append (g) (path : List α) (a b : List (Item α)) :
    invList g path (a ++ b) = invList g path a ++ invList g path b := by
  simp [invList_eq_flatMap]

theorem invList_perm (g) (path : List α) {a b : List (Item α)} (h : a.Perm b) :
    (invList g path a).Perm (invList g path b) := by
  simp only [invList_eq_flatMap]
  exact h.flatMap_right _

theorem invList_map_foreign (g) (path : List α) (bs : List (Foreign α)) :
    invList g path (bs.map Item.foreign) = (tuplesG g bs).map (.tuple path) := by
  induction bs with
  | nil => simp [invList, tuplesG]
  | cons b bs ih =>
    simp only [List.map_cons, invList, invItem, ih, tuplesG, List.flatMap_cons, List.map_append]

/-- split a level into non-foreign items and blocks -/
theorem invList_split (g) (path : List α) (l : List (Item α)) :
    (invList g path l).Perm (invList g path (others l) ++ (tuplesG g (blocksOf l)).map (.tuple path)) := by
  induction l with
  | nil => simp [invList, others, blocksOf, tuplesG]
  | cons x xs ih =>
    cases x with
    | foreign f =>
      have e1 : others (Item.foreign f :: xs) = others xs := by simp [others, Item.isForeign]
      have e2 : blocksOf (Item.foreign f :: xs) = f :: blocksOf xs := by simp [blocksOf, Item.asForeign]
      rw [e1, e2]
      simp only [invList, invItem, tuplesG, List.flatMap_cons, List.map_append]
      refine (List.Perm.append_left _ ih).trans ?_
      simp only [tuplesG]
      exact (List.perm_append_comm_assoc _ _ _)
    | plain k t =>
      have e1 : others (Item.plain k t :: xs) = Item.plain k t :: others xs := by simp [others, Item.isForeign]
      have e2 : blocksOf (Item.plain k t :: xs) = blocksOf xs := by simp [blocksOf, Item.asForeign, List.filterMap_cons]
      rw [e1, e2]
      simp only [invList, List.append_assoc]
      exact List.Perm.append_left _ ih
    | module h is =>
      have e1 : others (Item.module h is :: xs) = Item.module h is :: others xs := by simp [others, Item.isForeign]
      have e2 : blocksOf (Item.module h is :: xs) = blocksOf xs := by simp [blocksOf, Item.asForeign, List.filterMap_cons]
      rw [e1, e2]
      simp only [invList, List.append_assoc]
      exact List.Perm.append_left _ ih

theorem mergeLevel_inv_perm (fields g) (path : List α) (l : List (Item α))
    (h : Agree fields g (blocksOf l)) :
    (invList g path (mergeLevel fields l)).Perm (invList g path l) := by
  rw [mergeLevel_eq, invList_append, invList_map_foreign]
  refine List.Perm.trans ?_ (invList_split g path l).symm
  exact List.Perm.append_left _ ((mergeBlocks_tuplesG_perm fields g _ h).map _)

theorem sortLevel_inv_perm (g) (path : List α) (l : List (Item α)) :
    (invList g path (sortLevel l)).Perm (invList g path l) :=
  invList_perm g path (stableSort_perm _ l)

/-! ## the hypothesis at every level of the tree -/

mutual
def AgreeItem (fields : List MergeField) (g : Bool → Bool) : Item α → Prop
  | .module _ is => Agree fields g (blocksOf is) ∧ AgreeList fields g is
  | _ => True
def AgreeList (fields : List MergeField) (g : Bool → Bool) : List (Item α) → Prop
  | [] => True
  | x :: xs => AgreeItem fields g x ∧ AgreeList fields g xs
end

def AgreeFile (fields : List MergeField) (g : Bool → Bool) (items : List (Item α)) : Prop :=
  Agree fields g (blocksOf items) ∧ AgreeList fields g items

mutual
theorem agreeItem_of_forall {fields g} (h : ∀ bs : List (Foreign α), Agree fields g bs) (x : Item α) :
    AgreeItem fields g x := by
  match x with
  | .plain _ _ => simp [AgreeItem]
  | .foreign _ => simp [AgreeItem]
  | .module _ is => exact ⟨h _, agreeList_of_forall h is⟩
theorem agreeList_of_forall {fields g} (h : ∀ bs : List (Foreign α), Agree fields g bs) (l : List (Item α)) :
    AgreeList fields g l := by
  match l with
  | [] => simp [AgreeList]
  | x :: xs => exact ⟨agreeItem_of_forall h x, agreeList_of_forall h xs⟩
end

theorem agree_const {fields} (ha : MergeField.attrs ∈ fields) (hb : MergeField.abi ∈ fields) (c : Bool)
    (bs : List (Foreign α)) : Agree fields (fun _ => c) bs :=
  fun _ _ _ _ k => ⟨keyEq_attrs ha k, keyEq_abi hb k, rfl⟩

theorem agree_of_unsafety_key {fields} (ha : MergeField.attrs ∈ fields) (hb : MergeField.abi ∈ fields)
    (hu : MergeField.unsafety ∈ fields) (bs : List (Foreign α)) : Agree fields id bs :=
  fun _ _ _ _ k => ⟨keyEq_attrs ha k, keyEq_abi hb k, keyEq_unsafety hu k⟩

theorem agree_of_not_mixed {fields} (ha : MergeField.attrs ∈ fields) (hb : MergeField.abi ∈ fields)
    (bs : List (Foreign α)) (h : mixedUnsafetyBlocks bs = false) : Agree fields id bs := by
  induction bs with
  | nil => intro a ha'; simp at ha'
  | cons b bs ih =>
    simp only [mixedUnsafetyBlocks, Bool.or_eq_false_iff, List.any_eq_false, Bool.and_eq_true,
      beq_iff_eq, bne_iff_ne, ne_eq, not_and, Decidable.not_not] at h
    obtain ⟨h1, h2⟩ := h
    have ih' := ih h2
    intro x hx y hy k
    have ka := keyEq_attrs ha k
    have kb := keyEq_abi hb k
    refine ⟨ka, kb, ?_⟩
    rcases List.mem_cons.mp hx with rfl | hx' <;> rcases List.mem_cons.mp hy with rfl | hy'
    · rfl
    · exact h1 y hy' ⟨ka, kb⟩
    · exact (h1 x hx' ⟨ka.symm, kb.symm⟩).symm
    · exact (ih' x hx' y hy' k).2.2

mutual
theorem agreeItem_of_not_mixed {fields} (ha : MergeField.attrs ∈ fields) (hb : MergeField.abi ∈ fields)
    (x : Item α) (h : mixedUnsafetyItem x = false) : AgreeItem fields id x := by
  match x with
  | .plain _ _ => simp [AgreeItem]
  | .foreign _ => simp [AgreeItem]
  | .module _ is =>
    simp only [mixedUnsafetyItem, Bool.or_eq_false_iff] at h
    exact ⟨agree_of_not_mixed ha hb _ h.1, agreeList_of_not_mixed ha hb is h.2⟩
theorem agreeList_of_not_mixed {fields} (ha : MergeField.attrs ∈ fields) (hb : MergeField.abi ∈ fields)
    (l : List (Item α)) (h : mixedUnsafetyList l = false) : AgreeList fields id l := by
  match l with
  | [] => simp [AgreeList]
  | x :: xs =>
    simp only [mixedUnsafetyList, Bool.or_eq_false_iff] at h
    exact ⟨agreeItem_of_not_mixed ha hb x h.1, agreeList_of_not_mixed ha hb xs h.2⟩
end

theorem agreeFile_of_not_mixed {fields} (ha : MergeField.attrs ∈ fields) (hb : MergeField.abi ∈ fields)
    (items : List (Item α)) (h : mixedUnsafety items = false) : AgreeFile fields id items := by
  simp only [mixedUnsafety, Bool.or_eq_false_iff] at h
  exact ⟨agree_of_not_mixed ha hb _ h.1, agreeList_of_not_mixed ha hb items h.2⟩

/-! ## inventory preserved by a whole-file pass -/

/-- `L` keeps the inventory of a level whose blocks satisfy the agreement hypothesis -/
def LevelPerm (fields : List MergeField) (g : Bool → Bool) (L : List (Item α) → List (Item α)) : Prop :=
  ∀ (path : List α) (l : List (Item α)), Agree fields g (blocksOf l) →
    (invList g path (L l)).Perm (invList g path l)

mutual
theorem treeItem_inv_perm {fields g} {L : List (Item α) → List (Item α)} (hL : LevelPerm fields g L)
    (path : List α) (x : Item α) (h : AgreeItem fields g x) :
    (invItem g path (treeItem L x)).Perm (invItem g path x) := by
  match x with
  | .plain _ _ => simp [treeItem]
  | .foreign _ => simp [treeItem]
  | .module hd is =>
    simp only [treeItem, invItem]
    apply List.Perm.cons
    have hb : blocksOf (treeList L is) = blocksOf is := by
      rw [treeList_eq_map, blocksOf_map (treeItem_shape L)]
    exact (hL _ _ (by rw [hb]; exact h.1)).trans (treeList_inv_perm hL _ is h.2)
theorem treeList_inv_perm {fields g} {L : List (Item α) → List (Item α)} (hL : LevelPerm fields g L)
    (path : List α) (l : List (Item α)) (h : AgreeList fields g l) :
    (invList g path (treeList L l)).Perm (invList g path l) := by
  match l with
  | [] => simp [treeList]
  | x :: xs =>
    simp only [treeList, invList]
    exact (treeItem_inv_perm hL path x h.1).append (treeList_inv_perm hL path xs h.2)
end

theorem treeFile_inv_perm {fields g} {L : List (Item α) → List (Item α)} (hL : LevelPerm fields g L)
    (path : List α) (items : List (Item α)) (h : AgreeFile fields g items) :
    (invList g path (treeFile L items)).Perm (invList g path items) := by
  have hb : blocksOf (treeList L items) = blocksOf items := by
    rw [treeList_eq_map, blocksOf_map (treeItem_shape L)]
  exact (hL _ _ (by rw [hb]; exact h.1)).trans (treeList_inv_perm hL _ items h.2)

end BindgenModel.Post
