import BindgenModel.Model.Regex
/-! Language semantics of the regex model, correctness of the derivative matcher, and the
meaning of `^(p)$` under the `regex` crate's unanchored-search semantics. -/
namespace BindgenModel.Regex

/-- `Lang r s`: the string `s` belongs to the language of `r`. -/
inductive Lang : Re → List Char → Prop
  | eps : Lang .eps []
  | cls {n : Bool} {rs : List (Nat × Nat)} {c : Char} : clsMatches n rs c = true → Lang (.cls n rs) [c]
  | cat {a b : Re} {s t : List Char} : Lang a s → Lang b t → Lang (.cat a b) (s ++ t)
  | altL {a b : Re} {s : List Char} : Lang a s → Lang (.alt a b) s
  | altR {a b : Re} {s : List Char} : Lang b s → Lang (.alt a b) s
  | starNil {a : Re} : Lang (.star a) []
  | starCons {a : Re} {s t : List Char} : Lang a s → Lang (.star a) t → Lang (.star a) (s ++ t)

theorem Lang.none_false {s : List Char} (h : Lang .none s) : False := by cases h

theorem Lang.eps_nil {s : List Char} (h : Lang .eps s) : s = [] := by cases h; rfl

theorem Lang.cat_inv {a b : Re} {u : List Char} (h : Lang (.cat a b) u) :
    ∃ s t, u = s ++ t ∧ Lang a s ∧ Lang b t := by
  cases h with
  | cat h1 h2 => exact ⟨_, _, rfl, h1, h2⟩

theorem Lang.alt_inv {a b : Re} {u : List Char} (h : Lang (.alt a b) u) : Lang a u ∨ Lang b u := by
  cases h with
  | altL h => exact Or.inl h
  | altR h => exact Or.inr h

theorem mkCat_iff (a b : Re) (u : List Char) : Lang (mkCat a b) u ↔ Lang (.cat a b) u := by
  cases a with
  | none =>
    simp only [mkCat]
    constructor
    · intro h; exact h.none_false.elim
    · intro h; obtain ⟨_, _, _, h1, _⟩ := h.cat_inv; exact h1.none_false.elim
  | eps =>
    simp only [mkCat]
    constructor
    · intro h; have := Lang.cat Lang.eps h; simpa using this
    · intro h; obtain ⟨s, t, rfl, h1, h2⟩ := h.cat_inv; rw [h1.eps_nil]; simpa using h2
  | cls _ _ => simp only [mkCat]
  | cat _ _ => simp only [mkCat]
  | alt _ _ => simp only [mkCat]
  | star _ => simp only [mkCat]

theorem mkAlt_iff (a b : Re) (u : List Char) : Lang (mkAlt a b) u ↔ Lang (.alt a b) u := by
  have hnone_l : ∀ b, (Lang b u ↔ Lang (.alt .none b) u) := fun b =>
    ⟨Lang.altR, fun h => h.alt_inv.elim (fun h => h.none_false.elim) id⟩
  have hnone_r : ∀ a, (Lang a u ↔ Lang (.alt a .none) u) := fun a =>
    ⟨Lang.altL, fun h => h.alt_inv.elim id (fun h => h.none_false.elim)⟩
  cases a with
  | none => simp only [mkAlt]; exact hnone_l b
  | eps => cases b <;> simp only [mkAlt] <;> exact hnone_r _
  | cls _ _ => cases b <;> simp only [mkAlt] <;> exact hnone_r _
  | cat _ _ => cases b <;> simp only [mkAlt] <;> exact hnone_r _
  | alt _ _ => cases b <;> simp only [mkAlt] <;> exact hnone_r _
  | star _ => cases b <;> simp only [mkAlt] <;> exact hnone_r _

theorem nullable_iff (r : Re) : nullable r = true ↔ Lang r [] := by
  constructor
  · intro h
    induction r with
    | none => simp [nullable] at h
    | eps => exact Lang.eps
    | cls _ _ => simp [nullable] at h
    | cat a b iha ihb =>
      simp only [nullable, Bool.and_eq_true] at h
      have := Lang.cat (iha h.1) (ihb h.2); simpa using this
    | alt a b iha ihb =>
      simp only [nullable, Bool.or_eq_true] at h
      rcases h with h | h
      · exact Lang.altL (iha h)
      · exact Lang.altR (ihb h)
    | star a _ => exact Lang.starNil
  · intro h
    generalize hs : ([] : List Char) = s at h
    induction h with
    | eps => rfl
    | cls _ => cases hs
    | cat _ _ iha ihb =>
      have h0 := List.append_eq_nil_iff.mp hs.symm
      simp only [nullable, Bool.and_eq_true]
      exact ⟨iha h0.1.symm, ihb h0.2.symm⟩
    | altL _ ih => simp only [nullable, Bool.or_eq_true]; exact Or.inl (ih hs)
    | altR _ ih => simp only [nullable, Bool.or_eq_true]; exact Or.inr (ih hs)
    | starNil => rfl
    | starCons _ _ _ _ => rfl

theorem deriv_sound (c : Char) (r : Re) : ∀ s, Lang (deriv c r) s → Lang r (c :: s) := by
  induction r with
  | none => intro s h; simp only [deriv] at h; exact h.none_false.elim
  | eps => intro s h; simp only [deriv] at h; exact h.none_false.elim
  | cls n rs =>
    intro s h
    simp only [deriv] at h
    by_cases hm : clsMatches n rs c = true
    · rw [if_pos hm] at h; rw [h.eps_nil]; exact Lang.cls hm
    · rw [if_neg hm] at h; exact h.none_false.elim
  | cat a b iha ihb =>
    intro s h
    simp only [deriv] at h
    have hcat : ∀ u, Lang (mkCat (deriv c a) b) u → Lang (.cat a b) (c :: u) := by
      intro u hu
      obtain ⟨s1, s2, rfl, h1, h2⟩ := ((mkCat_iff _ _ _).mp hu).cat_inv
      have := Lang.cat (iha _ h1) h2
      simpa using this
    by_cases hn : nullable a = true
    · rw [if_pos hn] at h
      rcases ((mkAlt_iff _ _ _).mp h).alt_inv with h1 | h1
      · exact hcat _ h1
      · have := Lang.cat ((nullable_iff a).mp hn) (ihb _ h1)
        simpa using this
    · rw [if_neg hn] at h
      exact hcat _ h
  | alt a b iha ihb =>
    intro s h
    simp only [deriv] at h
    rcases ((mkAlt_iff _ _ _).mp h).alt_inv with h1 | h1
    · exact Lang.altL (iha _ h1)
    · exact Lang.altR (ihb _ h1)
  | star a iha =>
    intro s h
    simp only [deriv] at h
    obtain ⟨s1, s2, rfl, h1, h2⟩ := ((mkCat_iff _ _ _).mp h).cat_inv
    have := Lang.starCons (iha _ h1) h2
    simpa using this

theorem deriv_complete (c : Char) {r : Re} {u : List Char} (h : Lang r u) :
    ∀ s, u = c :: s → Lang (deriv c r) s := by
  induction h with
  | eps => intro s hs; cases hs
  | @cls n rs d hm =>
    intro s hs
    cases hs
    simp only [deriv, hm, if_true]
    exact Lang.eps
  | @cat a b s1 t1 h1 h2 iha ihb =>
    intro s hs
    simp only [deriv]
    cases s1 with
    | nil =>
      simp only [List.nil_append] at hs
      have hn : nullable a = true := (nullable_iff a).mpr h1
      rw [if_pos hn]
      exact (mkAlt_iff _ _ _).mpr (Lang.altR (ihb s hs))
    | cons d s1' =>
      simp only [List.cons_append, List.cons.injEq] at hs
      obtain ⟨rfl, rfl⟩ := hs
      have hc : Lang (mkCat (deriv d a) b) (s1' ++ t1) :=
        (mkCat_iff _ _ _).mpr (Lang.cat (iha s1' rfl) h2)
      by_cases hn : nullable a = true
      · rw [if_pos hn]; exact (mkAlt_iff _ _ _).mpr (Lang.altL hc)
      · rw [if_neg hn]; exact hc
  | altL _ ih =>
    intro s hs
    simp only [deriv]
    exact (mkAlt_iff _ _ _).mpr (Lang.altL (ih s hs))
  | altR _ ih =>
    intro s hs
    simp only [deriv]
    exact (mkAlt_iff _ _ _).mpr (Lang.altR (ih s hs))
  | starNil => intro s hs; cases hs
  | @starCons a s1 t1 h1 h2 iha ihb =>
    intro s hs
    cases s1 with
    | nil =>
      simp only [List.nil_append] at hs
      exact ihb s hs
    | cons d s1' =>
      simp only [List.cons_append, List.cons.injEq] at hs
      obtain ⟨rfl, rfl⟩ := hs
      simp only [deriv]
      exact (mkCat_iff _ _ _).mpr (Lang.cat (iha s1' rfl) h2)

theorem deriv_iff (c : Char) (r : Re) (s : List Char) : Lang (deriv c r) s ↔ Lang r (c :: s) :=
  ⟨deriv_sound c r s, fun h => deriv_complete c h s rfl⟩

/-- The derivative matcher decides membership in the language. -/
theorem matches_iff (r : Re) (s : List Char) : «matches» r s = true ↔ Lang r s := by
  induction s generalizing r with
  | nil => simp only [«matches»]; exact nullable_iff r
  | cons c t ih => simp only [«matches»]; rw [ih, deriv_iff]

/-! ### anchors and unanchored search (the `regex` crate's `is_match`) -/

/-- patterns with the two anchors `build_inner` adds -/
inductive ReA where
  | lift (r : Re)
  | bos
  | eos
  | cat (a b : ReA)

/-- `MatchA r pre mid post`: inside the haystack `pre ++ mid ++ post`, `r` matches the span `mid`. -/
inductive MatchA : ReA → List Char → List Char → List Char → Prop
  | lift {r : Re} {pre mid post : List Char} : Lang r mid → MatchA (.lift r) pre mid post
  | bos {post : List Char} : MatchA .bos [] [] post
  | eos {pre : List Char} : MatchA .eos pre [] []
  | cat {a b : ReA} {pre m1 m2 post : List Char} :
      MatchA a pre m1 (m2 ++ post) → MatchA b (pre ++ m1) m2 post → MatchA (.cat a b) pre (m1 ++ m2) post

/-- `Regex::is_match`: some span of the haystack matches -/
def IsMatch (r : ReA) (s : List Char) : Prop :=
  ∃ pre mid post, s = pre ++ mid ++ post ∧ MatchA r pre mid post

/-- `format!("^({item})$")` -/
def anchored (p : Re) : ReA := .cat .bos (.cat (.lift p) .eos)

/-- `^(p)$` is found in `s` exactly when the whole of `s` is in the language of `p`. -/
theorem anchored_whole_name (p : Re) (s : List Char) : IsMatch (anchored p) s ↔ Lang p s := by
  constructor
  · rintro ⟨pre, mid, post, hs, hm⟩
    unfold anchored at hm
    cases hm with
    | @cat _ _ _ m1 m2 _ h1 h2 =>
      cases h1 with
      | bos =>
        cases h2 with
        | @cat _ _ _ m3 m4 _ h3 h4 =>
          cases h4 with
          | eos =>
            cases h3 with
            | lift hl => simpa [hs] using hl
  · intro h
    refine ⟨[], s, [], by simp, ?_⟩
    unfold anchored
    have h2 : MatchA (.cat (.lift p) .eos) [] s [] := by
      have := MatchA.cat (a := .lift p) (b := .eos) (pre := []) (m1 := s) (m2 := []) (post := [])
        (MatchA.lift h) MatchA.eos
      simpa using this
    have h1 : MatchA .bos [] [] (s ++ []) := MatchA.bos
    have h3 := MatchA.cat (pre := []) (m1 := []) (m2 := s) (post := []) h1 (by simpa using h2)
    simpa using h3

/-- the executable whole-string matcher is `is_match` of the anchored pattern -/
theorem matches_eq_anchored (p : Re) (s : List Char) : «matches» p s = true ↔ IsMatch (anchored p) s := by
  rw [matches_iff, anchored_whole_name]

theorem lang_star_any (s : List Char) : Lang (.star anyChar) s := by
  induction s with
  | nil => exact Lang.starNil
  | cons c t ih =>
    have h : Lang anyChar [c] := Lang.cls (by simp [clsMatches, inRanges])
    have := Lang.starCons h ih
    simpa using this

/-- unanchored search of an anchor-free pattern: some substring is in the language -/
theorem searchMatches_iff (p : Re) (s : List Char) :
    searchMatches p s = true ↔ ∃ pre mid post, s = pre ++ mid ++ post ∧ Lang p mid := by
  unfold searchMatches
  rw [matches_iff]
  constructor
  · intro h
    obtain ⟨pre, rest, rfl, _, h2⟩ := h.cat_inv
    obtain ⟨mid, post, rfl, h3, _⟩ := h2.cat_inv
    exact ⟨pre, mid, post, by simp, h3⟩
  · rintro ⟨pre, mid, post, rfl, h⟩
    have := Lang.cat (lang_star_any pre) (Lang.cat h (lang_star_any post))
    simpa using this

theorem isMatch_lift_iff (p : Re) (s : List Char) : IsMatch (.lift p) s ↔ searchMatches p s = true := by
  rw [searchMatches_iff]
  constructor
  · rintro ⟨pre, mid, post, hs, hm⟩
    cases hm with
    | lift h => exact ⟨pre, mid, post, hs, h⟩
  · rintro ⟨pre, mid, post, hs, h⟩
    exact ⟨pre, mid, post, hs, MatchA.lift h⟩

end BindgenModel.Regex
