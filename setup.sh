#!/bin/sh
# Build the framework from files on disk only (offline).
set -e
cd "$(dirname "$0")"
export CARGO_NET_OFFLINE=true
python3 translator/translate.py /repo lean/BindgenModel/Generated || true
MODS=$(python3 -c "import json;d=json.load(open('lean/props_index.json'));print(' '.join(sorted({m for v in d.values() for m in v['modules']})))")
(cd lean && lake build bgmodel $MODS 2>&1 | tail -5)
python3 - <<'PY'
import sys, os
sys.path.insert(0, "checks")
import common
ok, out = common.cargo_build_harness()
print(out[-1500:])
ok2, out2 = common.cargo_build_cli()
print(out2[-500:])
# the C16 binary links bindgen with its `experimental` feature (harness feature `va`): build it last so that
# the binary left in the target directory is the one the check runs
import c16
ok3, out3 = c16._build_harness()
print(out3[-300:])
sys.exit(0 if ok and ok2 and ok3 else 1)
PY
