#!/bin/sh
# Build the framework from files on disk only (offline).
set -e
cd "$(dirname "$0")"
export CARGO_NET_OFFLINE=true
python3 translator/translate.py /repo lean/BindgenModel/Generated || true
MODS=$(python3 -c "import json;d=json.load(open('lean/props_index.json'));print(' '.join(sorted({m for v in d.values() for m in v['modules']})))")
(cd lean && lake build bgmodel $MODS 2>&1 | tail -5)
python3 - <<'PY'
import sys, os
sys.path.insert(0, "checks")
import common
ok, out = common.cargo_build_harness()
print(out[-1500:])
ok2, out2 = common.cargo_build_cli()
print(out2[-500:])
sys.exit(0 if ok and ok2 else 1)
PY
