"""C14 — bindings use only features of the selected Rust target, monotonically."""
import json, os, re, shutil, subprocess, tempfile
import common
from common import sh

STANDALONE = os.path.join(common.HARNESS, "standalone")
GENERATED = os.path.join(common.LEAN, "BindgenModel", "Generated")

# (name, edition, source, expectation): ground-truth split that the installed rustc can confirm
GROUND_TRUTH_PROBES = [
    ("unsafe_extern_block", "2018", 'unsafe extern "C" { pub fn f(); }', "ok"),
    ("plain_extern_block_2021", "2021", 'extern "C" { pub fn f(); }', "ok"),
    ("plain_extern_block_2024", "2024", 'extern "C" { pub fn f(); }', "error"),
    ("offset_of", "2018", "pub struct S{pub a:u8,pub b:u32} pub const X: usize = ::core::mem::offset_of!(S,b);", "ok"),
    ("cstr_literal_2018", "2018", 'pub const X: &::core::ffi::CStr = c"hi";', "error"),
    ("cstr_literal_2021", "2021", 'pub const X: &::core::ffi::CStr = c"hi";', "ok"),
    ("cstr_literal_2024", "2024", 'pub const X: &::core::ffi::CStr = c"hi";', "ok"),
    ("const_cstr_unchecked", "2018", 'pub const X: &::std::ffi::CStr = unsafe { ::std::ffi::CStr::from_bytes_with_nul_unchecked(b"hi\\0") };', "ok"),
    ("core_ffi_c_type", "2018", "pub type T = ::core::ffi::c_int; pub type U = ::core::ffi::c_ulonglong;", "ok"),
    ("core_ffi_cstr", "2018", "pub fn f(x: &::core::ffi::CStr) -> usize { x.to_bytes().len() }", "ok"),
    ("abi_c_unwind", "2018", 'extern "C-unwind" { pub fn f(); }', "ok"),
    ("abi_efiapi", "2018", 'extern "efiapi" { pub fn f(); }', "ok"),
    ("abi_thiscall", "2018", 'extern "thiscall" { pub fn f(); }', "not-E0658"),   # E0570 on x86_64: stable, wrong arch
    ("abi_vectorcall", "2018", 'extern "vectorcall" { pub fn f(); }', "E0658"),
    ("ptr_metadata", "2018", "pub fn f(p:*const (), n: usize)->*const [u8] { ::core::ptr::from_raw_parts(p,n) }", "E0658"),
    ("layout_for_ptr", "2018", "pub unsafe fn f(p:*const [u8])->::core::alloc::Layout { ::core::alloc::Layout::for_value_raw(p) }", "E0658"),
]


def ground_truth_probes(work):
    out, bad = [], []
    for name, ed, src, expect in GROUND_TRUTH_PROBES:
        f = os.path.join(work, "gt_%s.rs" % name)
        open(f, "w").write(src + "\n")
        rc, log = sh(["rustc", "--edition", ed, "--crate-type", "lib", "--emit", "metadata", "--cap-lints", "allow",
                      "-o", os.path.join(work, "gt.rmeta"), f], timeout=120)
        errs = re.findall(r"(?m)^error(?:\[(E\d+)\])?", log)
        if rc == 0:
            got = "ok"
        elif "E0658" in errs:
            got = "E0658"
        else:
            got = "error"
        good = (got == expect) or (expect == "not-E0658" and got != "E0658")
        out.append({"probe": name, "edition": ed, "expected": expect, "rustc": got})
        if not good:
            bad.append("%s (edition %s): table says %s, installed rustc says %s" % (name, ed, expect, got))
    return out, bad


def region_nightly_minor_zero(s):
    """python twin of regionNightlyMinorZero (Model/FeaturesSpec.lean)"""
    m = re.fullmatch(r"1\.\+?0+(?:\.(\+?[0-9]+))?-nightly", s)
    if not m:
        return False
    return m.group(1) is None or int(m.group(1).lstrip("+")) <= 2 ** 64 - 1


def build_sweeps(work):
    src = open(os.path.join(common.REPO, "bindgen", "features.rs"), encoding="utf-8").read()
    src = re.sub(r"(?m)^(#!\[)", r"// \1", src)
    main = os.path.join(work, "feat_main.rs")
    with open(main, "w") as w:
        w.write("#![allow(dead_code, deprecated, unused_imports, non_upper_case_globals)]\n" + src +
                '\ninclude!("%s");\n' % os.path.join(STANDALONE, "feat_sweep_body.rs"))
    bins = {}
    for mode, flags in (("dbg", ["-C", "opt-level=1", "-C", "overflow-checks=on", "-C", "debug-assertions=on"]),
                        ("rel", ["-C", "opt-level=2", "-C", "overflow-checks=off", "-C", "debug-assertions=off"])):
        out = os.path.join(work, "feat_" + mode)
        rc, log = sh(["rustc", "--edition", "2021", "--cap-lints", "allow", "--cfg", 'feature="__cli"'] + flags + [main, "-o", out], timeout=900)
        if rc != 0:
            return None, log
        bins[mode] = out
    return bins, ""


def unhex(h):
    return "" if h == "-" else bytes.fromhex(h).decode("utf-8", "replace")


def run_sweep(res, work, bins, mode):
    req = os.path.join(work, "req_%s.txt" % mode)
    ans = os.path.join(work, "ans_%s.txt" % mode)
    rc, out = sh([bins[mode], mode, res.tier, str(res.seed), req, ans], timeout=3600)
    if rc != 0:
        raise RuntimeError("feature sweep binary failed: " + out[-2000:])
    reqs = open(req).read().splitlines()
    impl = open(ans).read().splitlines()
    model = common.run_model(reqs)
    # ground-truth oracle on what the implementation enabled
    oreq, oidx = [], []
    for i, (r, a) in enumerate(zip(reqs, impl)):
        t = r.split()
        if t[1] == "new":
            on = [kv.split("=")[0] for kv in a.split()[1:] if kv.endswith("=1")]
            oreq.append("feat flag_oracle %s %s flags=%s" % (t[2], t[3], ",".join(on)))
            oidx.append(i)
        elif t[1] == "parse" and a.startswith("ok "):
            kv = dict(x.split("=", 1) for x in a.split()[1:])
            on = [k for k, v in kv.items() if v == "1" and k not in ("available",)]
            ed = unhex(t[4])
            oreq.append("feat flag_oracle t=%s e=%s flags=%s" % (kv["target"], ed, ",".join(on)))
            oidx.append(i)
            # independent reading of the version string (not the implementation's own parse): a
            # `1.N[.P]-nightly` compiler is only guaranteed to have what was stable in 1.(N-1)
            mm = re.match(r"^1\.(\d{1,4})(?:\.\d{1,6})?(?:-([a-z]+)[.0-9a-z]*)?$", unhex(t[3]))
            if mm and ed:
                minor = int(mm.group(1)) - (1 if mm.group(2) == "nightly" else 0)
                if minor >= 0 and kv["target"].startswith("stable:"):
                    oreq.append("feat flag_oracle t=stable:%d:0 e=%s flags=%s" % (minor, ed, ",".join(on)))
                    oidx.append(i)
    oans = common.run_model(oreq) if oreq else []
    em = re.search(r"earliest=stable:(\d+):", impl[0])
    earliest_minor = int(em.group(1)) if em else 0
    st = dict(n=len(reqs), corr=0, first_corr=None, oracle=0, first_oracle=None, panics=0, known_panics=0, errs={}, distinct=set(), samples=[])
    for i, (r, a, m) in enumerate(zip(reqs, impl, model)):
        t = r.split()
        if t[1] == "misc":
            a = re.sub(r"decr=\w+ ", "", a); m = re.sub(r"decr=\w+ (cstr_gate=\w+ )?", "", m)
        kind = a.split()[0] if t[1] == "parse" else t[1]
        if t[1] == "parse" and a.startswith("err"):
            kind = a
        st["errs"][kind] = st["errs"].get(kind, 0) + 1
        st["distinct"].add((t[1], a))
        if a != m:
            st["corr"] += 1
            st["first_corr"] = st["first_corr"] or dict(request=r, decoded=unhex(t[3]) if t[1] == "parse" else None, implementation=a, model=m, build=mode)
        elif a == "panic":
            st["panics"] += 1
            if t[1] == "parse" and region_nightly_minor_zero(unhex(t[3])):
                st["known_panics"] += 1
            elif t[1] == "latest_edition" and re.match(r"t=stable:(\d+):", t[2]) and int(t[2].split(":")[1]) < earliest_minor:
                # raw targets below EARLIEST_STABLE_RUST cannot be constructed through the public API
                # (C14_fromStr_ok_valid, C14_latestEdition_defined); the sweep builds them through the private field
                st["unreachable_panics"] = st.get("unreachable_panics", 0) + 1
            else:
                st["oracle"] += 1
                st["first_oracle"] = st["first_oracle"] or dict(request=r, decoded=unhex(t[3]) if t[1] == "parse" else None, observed="panic", build=mode)
        if len(st["samples"]) < 2 and i % 1777 == 5:
            st["samples"].append(dict(request=r, implementation=a, model=m))
    for k, a in enumerate(oans):
        if a != "ok":
            i = oidx[k]
            t = reqs[i].split()
            # rel build: `1.0-nightly` wraps to u64::MAX and thereby enables everything stable; that is the
            # underflow finding, predicted by the model (checked above), not a table problem
            st["oracle"] += 1
            st["first_oracle"] = st["first_oracle"] or dict(request=reqs[i], decoded=unhex(t[3]) if t[1] == "parse" else None,
                                                             implementation=impl[i], newer_than_target=a, build=mode)
    # wrap-around in the build without overflow checks (same finding, other symptom)
    st["wraps"] = sum(1 for r, a in zip(reqs, impl) if r.split()[1] == "parse" and "target=stable:18446744073709551615:18446744073709551615" in a
                      and region_nightly_minor_zero(unhex(r.split()[3])))
    st["distinct"] = len(st["distinct"])
    return st


def generated_theorems():
    names = []
    for f in ("FeaturesObl.lean", "FeatureSites.lean"):
        p = os.path.join(GENERATED, f)
        if os.path.exists(p):
            names += re.findall(r"(?m)^theorem (\w+)", open(p).read())
    return names


def broken_generated(log):
    """names of generated obligations that lake reported as failing"""
    out = []
    for m in re.finditer(r"error: (?:\S*/)?(BindgenModel/Generated/\w+\.lean):(\d+):", log):
        p = os.path.join(common.LEAN, m.group(1))
        try:
            line = open(p).read().splitlines()[int(m.group(2)) - 1]
        except Exception:
            continue
        t = re.match(r"theorem (\w+)", line)
        out.append(t.group(1) if t else "%s:%s" % (m.group(1), m.group(2)))
    return sorted(set(out))


def run(res):
    work = tempfile.mkdtemp(prefix="bgverif_c14_")
    try:
        _run(res, work)
    finally:
        shutil.rmtree(work, ignore_errors=True)


def _run(res, work):
    broken = []          # proof / translator problems: need a failing input before they count as found
    oracle_inputs = []   # concrete failing inputs from the property's own oracles

    ok, tlog = common.regen_tables("C14")
    for line in tlog.splitlines():
        if "EXTRACTION FAILED" in line and re.match(r"(Features|FeatureSites|FeaturesObl):", line):
            broken.append(("translator", line))

    lean = common.lean_obligations("C14", res.tier)
    gen = generated_theorems()
    n_gen_ok = len(gen) if not lean["failures"] else 0
    if lean["failures"]:
        names = broken_generated(lean["log"])
        for f in lean["failures"]:
            broken.append(("proof-obligation", (("generated obligation(s) %s: " % ", ".join(names)) if names else "") + f))
        ok2, out2 = common.lake_build(["bgmodel"])
        if not ok2:
            res.violation("proof-obligation", "model driver does not build: " + "; ".join(re.findall(r"error: ([^\n]*)", out2)[:4]),
                          out2[-3000:], found_input=False)
            return

    probes, probe_bad = ground_truth_probes(work)
    for b in probe_bad:
        res.violation("machinery-error", "ground-truth table (Model/FeaturesSpec.lean) contradicts the installed rustc: " + b, b, found_input=False)

    bins, log = build_sweeps(work)
    sweeps = {}
    if bins is None:
        broken.append(("correspondence", "features.rs no longer compiles inside the standalone sweep: " + log[-600:]))
    else:
        for mode in ("dbg", "rel"):
            st = run_sweep(res, work, bins, mode)
            sweeps[mode] = st
            if st["first_oracle"]:
                oracle_inputs.append(("features.rs (%s build): flag enabled before its stabilisation / panic outside the known region" % mode, st["first_oracle"]))
            if st["first_corr"]:
                broken.append(("correspondence", "Model/Features.lean no longer matches features.rs (%s build): %s" % (mode, json.dumps(st["first_corr"]))))

    ok, out = common.cargo_build_harness(["c14"])
    ok2, out2 = common.cargo_build_cli()
    rep = None
    if not (ok and ok2):
        res.violation("machinery-error", "harness or CLI build failed", (out + out2)[-3000:], found_input=False)
    else:
        rc, hout, rep = common.run_harness("c14", res, os.path.join(work, "h"))
        if rep is None:
            res.violation("machinery-error", "c14 harness produced no report", hout[-3000:], found_input=False)
    if rep:
        for o in rep["oracle_failures"]:
            oracle_inputs.append((o.get("class", "oracle"), o))
        for c in rep["correspondence_mismatches"][:3]:
            broken.append(("correspondence", "%s: %s" % (c.get("class"), json.dumps(c))))

    # ---- verdicts
    for cls, inp in oracle_inputs[:4]:
        res.violation("oracle-failure", cls, json.dumps(inp)[:2000], replay_input=inp, found_input=True)
    if broken and not oracle_inputs:
        for kind, what in broken[:4]:
            res.violation(kind, what, what, found_input=False)
    elif broken:
        for kind, what in broken[:2]:
            res.violation(kind, what + "  (failing input: see the oracle-failure replay of this run)", what, replay_input=oracle_inputs[0][1], found_input=True)

    # ---- known findings (only when listed, in region, and predicted by the model)
    listed = {f["id"] for f in common.known_findings("C14")}
    kp = sum(s["known_panics"] for s in sweeps.values()) + (rep or {}).get("known", {}).get("rust_target_nightly_underflow", 0)
    if kp:
        if "rust_target_nightly_underflow" in listed:
            res.known("rust_target_nightly_underflow: --rust-target 1.0-nightly (any `1.0[.p]-nightly`) panics with `attempt to subtract with overflow` in builds with overflow checks "
                      "(CLI exit 101) and wraps to 1.18446744073709551615 without them; %d region cases, all equal to the model's prediction" % kp)
        else:
            res.violation("oracle-failure", "RustTarget::from_str panics", "1.0-nightly", replay_input={"cli_args": ["--rust-target", "1.0-nightly"]}, found_input=True)
    kc = (rep or {}).get("known", {}).get("core_cstr_before_1_64", 0)
    if kc:
        if "core_cstr_before_1_64" in listed:
            res.known("core_cstr_before_1_64: --use-core --generate-cstr with --rust-target 1.59..1.63 emits ::core::ffi::CStr (stable since 1.64); %d CLI configurations, all predicted by the model" % kc)
        else:
            res.violation("oracle-failure", "::core::ffi::CStr emitted for a target older than 1.64", "", replay_input={"cli_args": ["--rust-target", "1.60", "--use-core", "--generate-cstr"]}, found_input=True)

    sw_n = sum(s["n"] for s in sweeps.values())
    samples = [s for st in sweeps.values() for s in st["samples"]][:3] + ((rep or {}).get("samples", [])[:3]) + ((rep or {}).get("known_samples", [])[:2])
    res.coverage.update({
        "obligations": lean["obligations"] + len(gen), "discharged": lean["discharged"] + n_gen_ok,
        "generated_table_obligations": gen,
        "checker_cmd": "translator -> Generated/{Features,FeaturesObl,FeatureSites}.lean; lake build BindgenModel.Props.C14 bgmodel && lake env lean <#print axioms audit>" +
                       (" && lake env leanchecker BindgenModel.Props.C14" if res.tier == "thorough" else ""),
        "theorems": lean["theorems"],
        "evaluations": sw_n + (rep or {}).get("evaluations", 0),
        "distinct_nontrivial": sum(s["distinct"] for s in sweeps.values()) + (rep or {}).get("distinct", 0),
        "rule": "function level: features.rs compiled standalone (with and without overflow checks): RustFeatures::new / is_available / latest_edition on every raw minor 0..latest+3 "
                "(thorough 0..300) x patches x nightly x every edition, from_str on systematic and seeded random strings; distinct = distinct (operation, answer) pairs. "
                "hook: bindgen::verif::rust_features on every minor 0..latest+3 in 5 spellings x editions. CLI: every minor earliest..max(latest+2, newest edition+1) and nightly x "
                "(no edition, 2018, 2021, 2024) x option sets (quick 6, thorough all 16 subsets of use-core/generate-cstr/flexarray-dst/override-abi) on the trigger header; "
                "token scan compared with the model and with the stabilisation table, rustc on accepted outputs; distinct = distinct (target, edition, options, construct set) tuples; "
                "non-trivial = at least one flag/construct/rejection decided",
        "samples": samples,
        "traces_validated_against_impl": sw_n + (rep or {}).get("hook_cases", 0) + (rep or {}).get("cli_cases", 0),
        "disagreements_checked": sum(s["corr"] for s in sweeps.values()) + (rep or {}).get("correspondence_mismatch_count", 0),
        "exhaustive": True,
        "ground_truth_probes": probes,
        "sweep": {m: {k: v for k, v in s.items() if k in ("n", "corr", "oracle", "panics", "known_panics", "wraps", "errs", "distinct")} for m, s in sweeps.items()},
        "harness": {k: v for k, v in (rep or {}).items() if k not in ("samples", "known_samples", "correspondence_mismatches", "oracle_failures")},
        "translator_log": tlog,
    })
    res.assumptions += [
        "ground truth = hand-written stabilisation table (Model/FeaturesSpec.lean); release numbers cannot be confirmed offline, only the stable/unstable and edition splits (ground_truth_probes)",
        "the default target of a non-CLI (build-script) library build is read from `rustc --version`; only the `__cli` default (LATEST_STABLE_RUST) is modelled and run",
        "extern \"thiscall\" cannot be compiled for x86_64, outputs with override-abi sets are checked against the table only, not with rustc",
    ]


def replay(path):
    d = json.load(open(path))
    print(json.dumps(d, indent=1)[:6000])
    inp = d.get("input") or {}
    if "request" in inp:
        print("model now answers:", common.run_model([inp["request"]]))
    args = inp.get("cli_args")
    case = inp.get("case")
    if not args and case:
        m = re.match(r"--rust-target (\S+) (?:--rust-edition (\d+)|\(no --rust-edition\)) opts=\[(.*)\]", case)
        if m:
            args = ["--rust-target", m.group(1)] + (["--rust-edition", m.group(2)] if m.group(2) else []) + m.group(3).split()
    if args:
        work = tempfile.mkdtemp(prefix="bgverif_c14r_")
        try:
            h = os.path.join(work, "trigger.h")
            src = open(os.path.join(common.HARNESS, "src", "bin", "c14.rs")).read()
            open(h, "w").write(re.search(r'const HEADER: &str = r#"(.*?)"#;', src, re.S).group(1))
            rc, out = sh([common.bindgen_cli(), h] + args, timeout=300)
            print("CLI rc=%d" % rc)
            print(out[-3000:])
        finally:
            shutil.rmtree(work, ignore_errors=True)
    return 0
