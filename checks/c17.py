"""C17 — reported dependencies are exactly the files that were read."""
import json, os, re, shutil, subprocess, tempfile
import common
from common import sh

PROP = "C17"
PROPS_FILE = os.path.join(common.LEAN, "BindgenModel", "Props", "C17.lean")
SITES_FILE = os.path.join(common.LEAN, "BindgenModel", "Generated", "EnvSites.lean")

KNOWN_TEXT = {
    "depfile_hash_dollar": "depfile_hash_dollar: a file name containing '#' or '$' is written unescaped into the depfile (e.g. `out: a#b c`); make truncates the list at '#' / drops '$x' — every observed case equals the model's prediction (fix proposed: fixes/C17-depfile-escape.diff)",
    "depfile_backslash": "depfile_backslash: a backslash not directly followed by a space is doubled by bindgen but make halves backslashes only before a blank (`a\\b` is read back as `a\\\\b`) — every observed case equals the model's prediction",
    "user_include_arg_not_reported": "user_include_arg_not_reported: a header the user force-includes through a clang argument (`bindgen a.h --depfile d -- -include pre.h`) is read by clang but appears neither in the depfile nor in the include_file callbacks (filter_builtins drops the inclusion directives of the command-line buffer); clang -M lists it",
    "depfile_trailing_space": "depfile_trailing_space: the last prerequisite ends in a space; make strips trailing blanks before unquoting (`a\\ ` is read back as `a\\`) — every observed case equals the model's prediction",
}


def theorem_at(line_no):
    """name of the theorem/def that contains line `line_no` of Props/C17.lean"""
    name = "?"
    try:
        for n, l in enumerate(open(PROPS_FILE), 1):
            m = re.match(r"\s*(?:theorem|def|example)\s+([A-Za-z0-9_'.]+)?", l)
            if m and n <= line_no:
                name = m.group(1) or "example"
    except OSError:
        pass
    return name


def broken_theorems(log):
    names = []
    for m in re.finditer(r"Props/C17\.lean:(\d+):\d+: ", log):
        t = theorem_at(int(m.group(1)))
        if t not in names:
            names.append(t)
    return names


def unclassified_env_sites():
    """direct read sites of Generated/EnvSites.lean that Props/C17.lean `classified` does not list"""
    try:
        gen = open(SITES_FILE).read()
        props = open(PROPS_FILE).read()
    except OSError:
        return []
    classified = set(re.findall(r'\("([^"]*)"\.toList, "([^"]*)"\.toList, "([^"]*)"\.toList, \.', props))
    out = []
    for m in re.finditer(r"-- (\S+)  fn (\S+)  (\S+)\((.*)\)\n\s*\{[^}]*via := \.direct \}", gen):
        f, fn, api, key = m.groups()
        if (f, fn, key) not in classified:
            out.append(dict(file=f, fn=fn, api=api, key=key))
    return out


def run(res):
    work = tempfile.mkdtemp(prefix="bgverif_c17_")
    try:
        _run(res, work)
    finally:
        shutil.rmtree(work, ignore_errors=True)


def _run(res, work):
    pending = []   # (kind, broken, detail) that still need a failing input
    ok, tlog = common.regen_tables("C17")
    if not ok:
        pending.append(("translator", "translator could not re-extract a C17 table (deps.rs escape chain / env read inventory): " + tlog, tlog))
    lean = common.lean_obligations(PROP, res.tier)
    for f in lean["failures"]:
        names = broken_theorems(lean["log"]) if f.startswith("lake build failed") else []
        pending.append(("proof-obligation", (", ".join(names) + ": " if names else "") + f, lean["log"][-3000:]))
    okh, hlog = common.cargo_build_harness(["c17"])
    okc, clog = common.cargo_build_cli()
    if not okh or not okc:
        res.violation("correspondence", "harness / bindgen-cli no longer builds against /repo", (hlog + clog)[-3000:], found_input=False)
        for k, b, d in pending:
            res.violation(k, b, d, found_input=False)
        return
    found_any = False
    # -- failing-input search for a new unannounced environment read
    env_broken = any("env_" in b for _, b, _ in pending)
    unclassified = unclassified_env_sites()
    if env_broken or unclassified:
        for site in unclassified:
            key = site["key"]
            if not re.fullmatch(r"[A-Za-z0-9_]+", key):
                continue
            rc, out = sh([common.harness_bin("c17"), "--tier", res.tier, "--seed", str(res.seed), "--out", work, "--env-probe", key],
                         env=dict(common.env_clean(), RUSTFLAGS=common.HOOK_RUSTFLAGS), timeout=600)
            probe = None
            try:
                probe = json.load(open(os.path.join(work, "env_probe.json")))
            except Exception:
                pass
            if rc == 1 and probe:
                found_any = True
                res.violation("oracle-failure",
                              "env_reads_announced: %s reads %s in fn %s without announcing it and the bindings depend on it" % (site["file"], key, site["fn"]),
                              "bindings differ when %s=%r; read_env_var never called with it" % (key, probe.get("bindings_differ_with_value")),
                              dict(site=site, probe=probe), found_input=True)
    rc, out, rep = common.run_harness("c17", res, work, timeout=5400)
    if rep is None:
        res.violation("machinery-error", "c17 harness produced no report", out[-3000:], found_input=False)
        for k, b, d in pending:
            res.violation(k, b, d, found_input=False)
        return
    listed = {f["id"] for f in common.known_findings(PROP)}
    oracle_fail = [f for f in rep["failures"] if f["kind"] == "oracle-failure"]
    corr_fail = [f for f in rep["failures"] if f["kind"] != "oracle-failure"]
    for f in oracle_fail[:3]:
        found_any = True
        res.violation("oracle-failure", f["class"], "implementation fails the property's own oracle (make / clang -M / callback log)", f["input"], found_input=True)
    for k in rep["known"]:
        if k["id"] in listed:
            res.known(KNOWN_TEXT.get(k["id"], k["id"]))
        else:
            found_any = True
            res.violation("oracle-failure", "depfile round trip fails in region %s, which is not a listed finding" % k["id"],
                          "make does not read back the names bindgen wrote", k["witness"], found_input=True)
    # model-vs-implementation disagreements: the oracle already ran on the same cases
    for f in corr_fail[:3]:
        res.violation("correspondence", "model vs implementation: " + f["class"] + " (theorems of Props/C17.lean no longer speak about this code)",
                      "model != implementation; oracle failures in this run: %d" % len(oracle_fail), f["input"], found_input=bool(oracle_fail))
    for k, b, d in pending:
        res.violation(k, b, d, found_input=found_any)
    c = rep["counters"]
    evaluations = c.get("A.compared", 0) + c.get("B.cases", 0) + c.get("C.library_runs", 0) + c.get("C.cli_runs", 0)
    res.coverage.update({
        "obligations": lean["obligations"], "discharged": lean["discharged"],
        "checker_cmd": "python3 translator/translate.py /repo lean/BindgenModel/Generated && lake build BindgenModel.Props.C17 bgmodel && lake env lean <#print axioms audit>" + (" && lake env leanchecker BindgenModel.Props.C17" if res.tier == "thorough" else ""),
        "theorems": lean["theorems"],
        "evaluations": evaluations,
        "distinct_nontrivial": rep["distinct_nontrivial"],
        "rule": "A: random make rule lines over {a,b,\\,space,#,$,:,tab,.,/,é,%,~} compared model makeParse vs GNU make's rule database (distinct = distinct parses); B: depfile_string(module, deps) on generated hostile names vs the model text (distinct = distinct depfile texts), a prefix of them round-tripped through real make; C: generated include DAGs (2..22 files, depth <= 6, fan-out <= 5, guards / #pragma once / #if regions, -I/-isystem/-iquote, hostile names, 0..3 inputs + header_contents) run through the library driver (recording callbacks, CargoCallbacks, depfile), the CLI, make and clang -M/-H (distinct = distinct (entered, reported) sequences of the model); every counted case has at least one name or one include directive",
        "samples": rep["samples"][:6],
        "traces_validated_against_impl": c.get("C.include_notifications", 0),
        "disagreements_checked": len(corr_fail),
        "counters": c,
        "kinds_hit": rep["kinds_hit"],
        "escape_table": rep["escape_table"],
        "known_region_cases": {k["id"]: k["count"] for k in rep["known"]},
        "harness_seconds": rep["seconds"],
    })
    res.assumptions += [
        "GNU make's reading of a rule line is a hand-written specification (Model/Depfile.lean makeParse) validated against the installed make 4.3 on every run; lines with make metacharacters outside the modelled fragment (% ; = * ? [ ] ~ ( ) | & newline, $( ${ ) are answered `none` and excluded from the round-trip theorem",
        "libclang contract of deps_eq_filesRead (one InclusionDirective cursor with the resolved file per #include processed in an active region, none in inactive regions) is validated by comparing the include_file callback sequence with the model's `reported` sequence on every generated DAG; __has_include, #include_next, computed includes and -include-pch are not modelled",
        "environment reads of dependencies (clang-sys: LIBCLANG_PATH, LLVM_CONFIG_PATH, …; Command::new: PATH) are outside the inventory (bindgen/**/*.rs only)",
        "RUSTFMT (formatter binary), TMPDIR (default wrapper path), CARGO_CFG_TARGET_ARCH in diagnostics are classified as not influencing the bindings; RUSTC / RUSTC_WRAPPER / CARGO_CFG_TARGET_ARCH in RustTarget::default (non-CLI builds only) are classified cargo-set (cargo documents that rerun-if-env-changed does not apply to variables it sets itself)",
    ]


def replay(path):
    d = json.load(open(path))
    print(json.dumps({k: v for k, v in d.items() if k != "input"}, indent=1))
    inp = d.get("input") or {}
    if isinstance(inp, dict) and "depfile_text" in inp:
        work = tempfile.mkdtemp(prefix="bgverif_c17r_")
        try:
            text = inp["depfile_text"]
            open(os.path.join(work, "Mf"), "wb").write(text.encode("utf-8", "surrogateescape"))
            p = subprocess.run(["env", "-i", "make", "-pqr", "-f", "Mf"], cwd=work, capture_output=True, text=True, errors="replace")
            rules = [l for l in p.stdout.split("\n") if l and not l.startswith("#") and not l.startswith("\t") and ":" in l and "=" not in l]
            print("depfile text :", repr(text))
            print("written names:", inp.get("target"), inp.get("deps"))
            print("make reads   :", [r for r in rules if not r.startswith("Mf:") and not r.startswith(".DEFAULT")])
            h = text.encode().hex() or "-"
            print("model reads  :", common.run_model(["c17 dep parse " + h]))
        finally:
            shutil.rmtree(work, ignore_errors=True)
    case = inp.get("case") if isinstance(inp, dict) else None
    if case:
        work = tempfile.mkdtemp(prefix="bgverif_c17r_")
        try:
            for f in case["files"]:
                p = os.path.join(work, f["path"])
                os.makedirs(os.path.dirname(p), exist_ok=True)
                open(p, "w").write(f["text"])
            ins = [i.replace("<root>", work) for i in case["inputs"]]
            if len(ins) == 1 and not case["header_contents"]:
                os.makedirs(os.path.join(work, "out dir"), exist_ok=True)
                rc, out = sh([common.bindgen_cli(), ins[0], "--depfile", "replay.d", "-o", "replay.rs", "--"] + case["clang_args"], cwd=work)
                print("bindgen rc=%d %s" % (rc, out[-500:]))
                if os.path.exists(os.path.join(work, "replay.d")):
                    print("depfile:", repr(open(os.path.join(work, "replay.d")).read()))
            print("model request:", case["model_request"])
            print("model answer :", common.run_model([case["model_request"]]))
        finally:
            shutil.rmtree(work, ignore_errors=True)
    return 0
