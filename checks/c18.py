"""C18 — extern-block merging and semantic sorting only regroup items."""
import json, os, shutil, subprocess, tempfile
import common
from common import sh

FINDING_ID = "merge_mixed_unsafety"
KNOWN_TEXT = ("merge_mixed_unsafety: --merge-extern-blocks merges blocks that differ only in unsafety "
              "(key = attrs+abi), e.g. a module raw line `extern \"C\" { .. }` absorbs bindgen's `unsafe extern \"C\"` items; "
              "every such case equals the model's prediction")


def name_obligations(prop_file, text):
    """Replace `Props/Cxx.lean:LINE:` references by the enclosing theorem names."""
    import re
    try:
        lines = open(os.path.join(common.LEAN, "BindgenModel", "Props", prop_file)).read().splitlines()
    except OSError:
        return text
    names = []
    for m in re.finditer(re.escape(prop_file) + r":(\d+):", text):
        n = int(m.group(1))
        for i in range(min(n, len(lines)) - 1, -1, -1):
            mm = re.match(r"(?:theorem|example|def)\s+(\w+)", lines[i])
            if mm:
                if mm.group(1) not in names:
                    names.append(mm.group(1))
                break
    return ("broken: " + ", ".join(names) + " -- " + text) if names else text


def run(res):
    work = tempfile.mkdtemp(prefix="bgverif_c18_")
    try:
        _run(res, work)
    finally:
        shutil.rmtree(work, ignore_errors=True)


def _run(res, work):
    pending = []   # (kind, broken, detail): machinery-level breaks that need a failing-input search
    ok, tlog = common.regen_tables("C18")
    if not ok:
        pending.append(("translator", "Generated/PostTables.lean can no longer be extracted from codegen/postprocessing/*.rs", tlog[-3000:]))
    lean = common.lean_obligations("C18", res.tier)
    for f in lean["failures"]:
        pending.append(("proof-obligation", name_obligations("C18.lean", f), lean["log"][-3000:]))
    model_ok = os.path.exists(common.bgmodel_path()) and not any("lake build failed" in f for f in lean["failures"])
    ok, blog = common.cargo_build_harness(["c18"])
    if not ok:
        res.violation("correspondence", "harness no longer builds against /repo (bindgen::verif::postprocess hook or syn API changed)",
                      blog[-3000:], found_input=False)
        for k, b, d in pending:
            res.violation(k, b, d, found_input=False)
        return
    rc, out, rep = common.run_harness("c18", res, work, extra_env=None if model_ok else {"C18_NO_MODEL": "1"})
    if rep is None:
        res.violation("machinery-error", "c18 harness produced no report (rc=%d)" % rc, out[-3000:], found_input=False)
        for k, b, d in pending:
            res.violation(k, b, d, found_input=False)
        return
    listed = any(f["id"] == FINDING_ID for f in common.known_findings("C18"))
    outside = []      # oracle failures that are not the known finding: concrete failing inputs
    corr = []
    known = 0
    for f in rep["failures"]:
        inp = {"layer": f["layer"], "merge": f["merge"], "sort": f["sort"], "input": f["input"], "flags": f["flags"]}
        is_known = listed and f["kind"] in ("oracle", "rustc") and f["in_region"] and f["matches_model"] and f["merge"]
        if is_known:
            known += 1
        elif f["kind"] == "correspondence":
            corr.append((f, inp))
        else:
            outside.append((f, inp))
    if known or rep.get("known_hits"):
        if listed and not any(o[0]["in_region"] for o in outside):
            res.known(KNOWN_TEXT)
    for f, inp in outside[:3]:
        res.violation("oracle-failure",
                      "%s on %s-level input (merge=%s sort=%s)%s" % (f["kind"], f["layer"], f["merge"], f["sort"],
                                                                   " inside the mixed-unsafety region but NOT as the model predicts" if f["in_region"] else ""),
                      f["detail"], inp)
    # model-vs-implementation disagreements and broken obligations: the search is the oracle run above
    witness = outside[0][1] if outside else None
    for f, inp in corr[:2]:
        res.violation("correspondence",
                      "Model/Post.lean no longer matches codegen/postprocessing (%s level, merge=%s sort=%s); the C18_* theorems no longer speak about this code"
                      % (f["layer"], f["merge"], f["sort"]), f["detail"], witness or inp, found_input=witness is not None)
    for k, b, d in pending:
        res.violation(k, b, d, witness, found_input=witness is not None)
    obligations = lean["obligations"]
    res.coverage.update({
        "obligations": obligations, "discharged": lean["discharged"],
        "checker_cmd": "python3 translator/translate.py /repo lean/BindgenModel/Generated && lake build BindgenModel.Props.C18 bgmodel && lake env lean <#print axioms audit>"
                       + (" && lake env leanchecker BindgenModel.Props.C18" if res.tier == "thorough" else ""),
        "theorems": lean["theorems"],
        "translator": tlog,
        "evaluations": rep["evaluations"], "distinct_nontrivial": rep["distinct_nontrivial"],
        "rule": "one evaluation = one (item tree, merge?, sort?) triple run through the real passes and through the Lean model "
                "with exact ordered comparison of the syn inventories, the property oracle (per-path multiset incl. attrs/abi/unsafety, "
                "per-kind order, per-key concatenation of foreign items) and idempotence; non-trivial = the processed inventory differs from "
                "the unprocessed one; distinct = distinct model request lines among the non-trivial ones. fn level: generated Rust item trees "
                "through bindgen::verif::postprocess; wp level: real bindgen on repository headers and generated C++ headers, four flag combinations",
        "samples": rep["samples"][:5],
        "traces_validated_against_impl": rep["evaluations"],
        "disagreements_checked": len(corr),
        "fn_cases": rep["fn_cases"], "wp_inputs": rep["wp_inputs"],
        "nontrivial": rep["nontrivial"],
        "known_region_cases": rep["region_cases"], "known_region_oracle_failures": rep["known_hits"],
        "known_region_oracle_failures_whole_program": rep["known_hits_wp"],
        "rustc_checked_ok": rep["rustc_ok"], "rustc_baseline_not_compiling": rep["rustc_baseline_fail"],
        "distribution": rep["distribution"], "skipped": rep["skipped"],
        "seconds": {"fn": rep["fn_seconds"], "wp": rep["wp_seconds"]},
        "model_driver_available": model_ok,
    })
    res.assumptions += [
        "bindgen emits no inline modules inside fn bodies / impl blocks (the syn visitors would reach them; the canonical inventory treats such items as opaque text)",
        "slice::sort_by_key is a stable sort (C18_stable_sort_unique: any stable sort by rank equals the model's insertion sort); validated by the exact ordered comparison",
        "equality of syn attribute lists / ABI literals coincides with equality of their token text (the inventory interns token strings)",
        "an empty extern block that is merged away is not counted as a lost item (the property counts foreign functions and statics)",
    ]


def replay(path):
    d = json.load(open(path))
    print(json.dumps({k: v for k, v in d.items() if k != "input"}, indent=1))
    inp = d.get("input") or {}
    if not inp:
        print("no input recorded (no-failing-input-found)")
        return 0
    work = tempfile.mkdtemp(prefix="bgverif_c18r_")
    try:
        if inp.get("layer") == "fn":
            f = os.path.join(work, "case.txt")
            with open(f, "w") as w:
                w.write("merge=%d sort=%d\n" % (1 if inp["merge"] else 0, 1 if inp["sort"] else 0))
                w.write(inp["input"])
            ok, log = common.cargo_build_harness(["c18"])
            rc, out = sh([common.harness_bin("c18"), "--replay", f, "--out", work])
            print(out)
        else:
            ok, log = common.cargo_build_cli()
            flags = list(inp["flags"][1:])
            if flags and flags[0] == "--no-layout-tests" or True:
                pass
            if inp["input"]:
                h = os.path.join(work, "replay.hpp")
                open(h, "w").write(inp["input"])
            else:
                h = inp["flags"][0].split(":", 1)[1]
            extra = (["--merge-extern-blocks"] if inp["merge"] else []) + (["--sort-semantically"] if inp["sort"] else [])
            for label, ex in (("unprocessed", []), ("processed", extra)):
                rc, out = sh([common.bindgen_cli(), h] + ex + flags, cwd=os.path.join(common.REPO, "bindgen-tests"))
                print("=== %s (rc=%d) ===\n%s" % (label, rc, out[-6000:]))
    finally:
        shutil.rmtree(work, ignore_errors=True)
    return 0
