"""C12 — generation always ends with bindings or an error value, never a panic (PARTIAL)."""
import json, os, re, shutil, sys, tempfile
import common
from common import sh

PROP = "C12"


def inventory():
    sys.path.insert(0, os.path.join(common.VERIF, "translator"))
    sys.path.insert(0, os.path.join(common.VERIF, "translator", "extract"))
    import sites  # noqa
    return sites.inventory(common.REPO)


def run(res):
    work = tempfile.mkdtemp(prefix="bgverif_c12_")
    try:
        _run(res, work)
    finally:
        shutil.rmtree(work, ignore_errors=True)


def _run(res, work):
    broken = []
    ok, tlog = common.regen_tables("C12")
    if not ok:
        broken.append(("translator", "extraction failed (entry path shapes / site inventory): " +
                       "; ".join(l for l in tlog.splitlines() if "FAILED" in l)[:600], tlog))
    lean = common.lean_obligations(PROP, res.tier)
    for f in lean["failures"]:
        broken.append(("proof-obligation", f, lean["log"][-3000:]))
    inv = inventory() if ok else None
    hist, missing, stale = {}, [], []
    table = open(os.path.join(common.LEAN, "BindgenModel", "Model", "PanicSites.lean")).read()
    rows = dict((int(h), c) for h, c in re.findall(r"^\s*\((\d{6,}), \.(\w+),", table, re.M))
    if inv is not None:
        have = set()
        for r in inv["panic"]:
            have.add(r["hash"])
            c = rows.get(r["hash"])
            if c is None:
                missing.append("%s %s:%d fn %s: %s" % (r["kind"], r["file"], r["line"], r["ctx"], r["snippet"][:140]))
            else:
                hist[c] = hist.get(c, 0) + 1
        stale = [h for h in rows if h not in have]
        if missing and not any("C12_all_panic_sites_classified" in b[1] or "lake build failed" in b[1] for b in broken):
            broken.append(("proof-obligation", "C12_all_panic_sites_classified: %d unclassified panic sites" % len(missing), ""))

    okh, blog = common.cargo_build_harness(["c12"])
    okc, clog = common.cargo_build_cli()
    rep = None
    model_ok = os.path.exists(common.bgmodel_path())
    if not (okh and okc):
        res.violation("correspondence", "harness or bindgen-cli no longer builds against /repo", (blog + clog)[-3000:], found_input=False)
    elif not model_ok:
        res.violation("proof-obligation", "model driver bgmodel did not build; the function-level correspondence cannot run", lean["log"][-2000:], found_input=False)
    else:
        rc, out, rep = common.run_harness("c12", res, work, timeout=4 * 3600)
        if rep is None:
            res.violation("machinery-error", "c12 harness produced no report (rc=%d)" % rc, out[-3000:], found_input=False)

    found_input = None
    if rep:
        # --- genuine failures outside every known region
        for f in rep["findings"][:5]:
            found_input = found_input or f["input"]
            res.violation("oracle-failure", "generation did not end with bindings or an error value (%s): %s" % (f["class"], f["key"]),
                          f["detail"], f["input"])
        # --- model vs implementation
        for f in rep["correspondence_failures"][:3]:
            res.violation("correspondence", "Model/Entry.lean no longer matches the implementation (%s); the C12 theorems about it no longer speak about this code" % f["class"],
                          f["detail"], f["input"], found_input=False)
        # --- known findings, re-observed in their regions with the predicted result
        if rep["from_str_known_region_hits"] and rep["cli_rust_target_1_0_nightly"].startswith("panic") and "subtract with overflow" in rep["cli_rust_target_1_0_nightly"]:
            res.known("rust_target_nightly_minor_zero: `--rust-target 1.0-nightly` panics (features.rs `minor -= 1`, attempt to subtract with overflow); %d generated target strings in the region, model predicts panic on each (C12_from_str_total_partial)" % rep["from_str_known_region_hits"])
        if rep["nested_record_probe_depth30_20s"] == "timeout":
            res.known("nested_record_exponential_parse: named record definitions nested 30 deep (each used as a field) do not finish within 20 s (parse phase doubles per level)")
        if rep["known_token_option_panics"]:
            res.known("token_option_not_validated: garbage values of token-spliced options panic in code generation: " + "; ".join(rep["known_token_option_panics"])[:600])
        k5 = rep["known_libclang_null_tu"]
        if k5["probe_in_region"] or k5["mutant_hits"]:
            res.known("libclang_null_translation_unit: `bindgen x.h -- -std=c99x` panics in BindgenContext::new (`libclang error; possible causes include ...`) instead of returning an error value; %d mutants hit the same region" % k5["mutant_hits"])
        k6 = rep["known_integer_complex"]
        if k6["probe_in_region"] or k6["hits"]:
            res.known("integer_complex_type: `_Complex int x;` panics (`Non floating-type complex?`, ir/context.rs); inside a libclang visitor callback the panic cannot unwind and the process aborts (SIGABRT); %d mutants / option sets in the region, %d of them aborts" % (k6["hits"], k6["of_which_process_aborts"]))
        k8 = rep.get("known_macro_div_zero", {"hits": 0})
        if k8["hits"]:
            res.known("macro_division_by_zero_aborts: `#define DZ (1/0)` — the external cexpr evaluator panics (`attempt to divide by zero`) inside a libclang visitor callback, the panic cannot unwind and the process aborts (SIGABRT); %d corpus headers / mutants in the region" % k8["hits"])
        k7 = rep["known_opaque_debug_assert"]
        if k7["probe_in_region"] or k7["random_option_set_hits"]:
            res.known("opaque_with_fields_debug_assert: --opaque-type '.*' --no-recursive-allowlist on a class with a base class trips debug_assert!(fields.is_empty()) in codegen (debug builds only); %d random option sets in the region" % k7["random_option_set_hits"])
        k4 = rep["known_explicit_padding_union"]
        if k4["probe_in_region"] or k4["random_option_set_hits"]:
            res.known("explicit_padding_union_as_struct: `union U { int a; int b : 9; };` with --explicit-padding (union emitted as a struct: --disable-untagged-union or a non-Copy member) panics in struct_layout.rs (subtract with overflow); %d random option sets hit the same region" % k4["random_option_set_hits"])

    for kind, what, log in broken:
        detail = what + ("\nunclassified panic sites:\n  " + "\n  ".join(missing[:25]) if missing else "") + "\n" + log[-1500:]
        if found_input is not None:
            res.violation(kind, what, detail, found_input, found_input=True)
        else:
            res.violation(kind, what, detail, found_input=False)

    res.coverage.update({
        "obligations": lean["obligations"] + 1, "discharged": lean["discharged"] + (1 if ok and not missing else 0),
        "obligation_note": "theorems of props_index.json[C12] (axiom-audited) + 1 generated side-condition (every panic site of the regenerated inventory has a row; also C12_all_panic_sites_classified in Lean)",
        "checker_cmd": "python3 translator/translate.py /repo lean/BindgenModel/Generated && lake build BindgenModel.Props.C12 bgmodel && lake env lean <#print axioms audit>" + (" && lake env leanchecker BindgenModel.Props.C12" if res.tier == "thorough" else ""),
        "theorems": lean["theorems"],
        "panic_sites_inventoried": len(inv["panic"]) if inv else 0,
        "panic_site_classes": hist, "unclassified_panic_sites": missing, "stale_classification_rows": stale,
        "partial": "theorems cover the entry-path decision cores and resolve termination; %d of %d panic sites are covered by a stated invariant, the rest (parser, analyses, codegen) only by the exploration below" % (
            sum(v for k, v in hist.items() if k in ("guard", "constEval", "constData")), sum(hist.values())),
    })
    if rep:
        keep = {k: v for k, v in rep.items() if k not in ("findings", "correspondence_failures", "samples")}
        res.coverage.update({
            "evaluations": rep["evaluations"], "distinct_nontrivial": rep["distinct_nontrivial"],
            "rule": "evaluations = runs of the real bindgen: RustTarget::from_str calls and edition/path-triage generations compared with the model, mutant / nesting generations in worker processes under catch_unwind compared with `clang -fsyntax-only`, CLI runs under a timeout; distinct_nontrivial = distinct (mutation operator, clang verdict, bindgen outcome, origin header) tuples among the mutants",
            "samples": rep["samples"],
            "traces_validated_against_impl": rep["from_str_strings"] + 160,
            "disagreements_checked": len(rep["correspondence_failures"]),
            "harness": keep,
        })
    else:
        res.coverage.update({"evaluations": 0, "distinct_nontrivial": 0, "rule": "harness did not run", "samples": []})
    res.assumptions += [
        "PARTIAL: freedom from panics of the libclang-facing parser, the analyses and code generation is exhibited only by the exploration (mutants, nesting, option sets, faults), not proved",
        "the sandbox runs as root: a mode-000 file is still readable, so `unreadable but some read bit set elsewhere` (proceed => clang cannot open => ClangDiagnostic) cannot be produced; InsufficientPermissions itself depends only on the mode bits and is exercised",
        "`RustTarget::from_str` is compared in a build with overflow checks (the harness profile and the debug CLI); the wrapping behaviour of a release build is proved on the model (C12_from_str_wraps_in_release) but not executed",
        "`ItemResolver::resolve` is modelled by hand; its shape is pinned by the translator anchor (extract/entry.py) and exercised only through whole generations",
        "mutants are classified by `clang -fsyntax-only` with the same clang arguments; bindgen's own libclang invocation may see more include paths (include-path detection) — a disagreement would be reported as accepted-but-error",
        "options documented as needing a cooperating callback (--represent-cxx-operators, --use-distinct-char16-t) and options that write to fixed places or only print (--dump-preprocessed-input, --emit-*, --output, --depfile, --generate-shell-completions) are excluded from the random option sets",
    ]


def replay(path):
    d = json.load(open(path))
    print(json.dumps({k: d[k] for k in d if k != "input"}, indent=1)[:3000])
    inp = d.get("input")
    if isinstance(inp, str):
        try:
            inp = json.loads(inp)
        except Exception:
            inp = None
    if not inp:
        print("no concrete input in this replay file")
        return 0
    common.cargo_build_harness(["c12"])
    common.cargo_build_cli()
    work = tempfile.mkdtemp(prefix="bgverif_c12r_")
    try:
        mode = inp.get("mode")
        if mode == "rust-target":
            print(common.run_model(["entry rt dbg " + inp["target"].encode().hex()]))
            h = os.path.join(work, "t.h"); open(h, "w").write("int x;\n")
            rc, out = sh([common.bindgen_cli(), h, "--rust-target", inp["target"]], timeout=60)
            print("cli rc=%d %s" % (rc, out[-600:]))
            return 0
        if mode == "mutant":
            h = os.path.join(work, inp["header_name"]); open(h, "w").write(inp["text"])
            flags = inp["pre"] + ["--"] + inp["clang"]
        elif mode == "options":
            h = os.path.join(work, "opt.hpp" if "c++" in inp["args"] else "opt.h"); open(h, "w").write(inp["header_text"])
            flags = inp["args"]
        elif mode == "nesting":
            print("re-run: cgen::nested(%r, %d) — use ./check C12 quick (deterministic from the seed)" % (inp["shape"], inp["depth"]))
            return 0
        else:
            print("replay of mode %r: re-run ./check C12 quick with VERIF_SEED=%s" % (mode, d.get("seed")))
            return 0
        rc, out = sh([common.harness_bin("c12"), "--tier", "quick", "--seed", "1", "--out", work, "--replay-case", h, "\x1f".join(flags)],
                     env=common.env_clean(), timeout=600)
        print(out[-3000:])
    finally:
        shutil.rmtree(work, ignore_errors=True)
    return 0
