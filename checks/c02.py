"""C02 — generated types match the C compiler's size, alignment, offsets and values."""
import json, os, shutil, tempfile
import common

KNOWN_TEXT = {
    "pad_blob_inexact": "padding in front of a member is emitted as __BindgenOpaqueArray8<[u8; n]> with n not a multiple of 8 (e.g. struct { int a; __int128 b; }): rustc rounds the blob up, members land too far (model predicts the exact wrong layout)",
    "packed_align_conflict": "repr(C, packed(N)) emitted together with repr(align(N)) (e.g. struct __attribute__((packed, aligned(8))) { char a; int b; }): rustc E0587",
    "packed_contains_aligned": "a packed aggregate contains a repr(align) type (e.g. packed struct with a member of an aligned(16) struct type): rustc E0588",
    "packed_dropped": "repr(packed) is dropped because an explicit alignment is requested and already_packed holds, although a member is more aligned than the record (e.g. #pragma pack(4) union { long double x; }): Rust alignment exceeds C's",
    "packedN_misplaces": "__attribute__((packed)) plus aligned(N) is emitted as packed(N): members the C compiler put at byte granularity are moved to multiples of min(align, N)",
    "unpacked_misaligned_member": "#pragma pack / enclosing packing is not detected when the record carries a larger aligned(N): the emitted struct is not packed and cannot place the member where C has it",
    "union_bitfield_unit_short": "the bit-field allocation unit of a union covers only its last bit-field (every bit-field of a union starts at 0): storage shorter than a wider earlier bit-field, union too small when packed",
    "explicit_padding_double_tail": "--explicit-padding: add_tail_padding does not advance latest_offset, pad_struct pads the tail a second time after a bit-field unit: struct too big",
    "explicit_padding_union_wrapper": "--explicit-padding on a union emitted in __BindgenUnionField form: tail padding in front of the full-size bindgen_union_field blob: struct too big",
    "bitfield_unit_misplaced": "a bit-field allocation unit is emitted with alignment 1 right after the previous field, although libclang's bit offsets put its first bit-field further on (e.g. struct { char a; int b : 30; }: b at bit 32, unit at byte 1): accessors read/write the wrong bytes",
    "packed_member_gap": "a packed record never gets padding fields: a gap the C compiler leaves in front of a member (member-level aligned(N) inside #pragma pack / packed) is lost, later members and the size are too small",
    "union_bitfields_dropped": "a run of bit-fields in a union that ends with a zero-width bit-field is dropped altogether (no unit, no accessors): the union is smaller than in C (e.g. union { int : 22; unsigned int : 0; } is 1 byte instead of 3)",
}


def run(res):
    work = tempfile.mkdtemp(prefix="bgverif_c02_")
    try:
        _run(res, work)
    finally:
        shutil.rmtree(work, ignore_errors=True)


def _lean(res):
    ok, log = common.regen_tables("C02")
    if not ok:
        res.violation("translator", "extraction of the layout constants failed (LayoutConsts): the model's constants are no longer tied to the source",
                      log[-3000:], found_input=False)
    lean = common.lean_obligations("C02", res.tier)
    for f in lean["failures"]:
        res.violation("proof-obligation", f, lean["log"][-3000:], found_input=False)
    return lean


def _run(res, work):
    lean = _lean(res)
    ok, log = common.cargo_build_harness(["c02"])
    if not ok:
        res.violation("machinery-error", "harness does not build against /repo's working tree (hook exports / API changed?)", log[-3000:], found_input=False)
        return
    rc, out, rep = common.run_harness("c02", res, work)
    if rep is None:
        res.violation("machinery-error", "c02 harness produced no report (rc=%s)" % rc, out[-3000:], found_input=False)
        return
    known_regions = {f["id"] for f in common.known_findings("C02")}
    issues = rep.get("issues", [])
    oracle_comps = {(i["variant"], i["comp"]) for i in issues if i["class"] == "oracle" and not i.get("known")}
    n_reported = 0
    for i in issues:
        k = i.get("known")
        if k:
            parts = k.split("+")
            if all(p in known_regions for p in parts):
                for p in parts:
                    res.known("%s: %s" % (p, KNOWN_TEXT.get(p, p)))
                continue
            # a region the model knows but known_findings.json does not list: not excused
        cls = i["class"]
        inp = {"header": i.get("header", ""), "variant": i.get("variant"), "record": i.get("comp")}
        if n_reported >= 5:
            continue
        n_reported += 1
        if cls == "oracle":
            res.violation("oracle-failure", "emitted type %s differs from the C compiler's layout (or is rejected by rustc / bindgen panics) outside the known regions [%s]" % (i["comp"], i["variant"]),
                          i["detail"], inp)
        elif cls == "correspondence":
            found = (i["variant"], i["comp"]) in oracle_comps
            res.violation("correspondence", "Model/{StructLayout,CompCodegen}.lean no longer match codegen for record %s [%s]; C02_plain_struct no longer speaks about this code" % (i["comp"], i["variant"]),
                          i["detail"], inp, found_input=found)
        elif cls in ("spec-vs-rustc", "libclang-vs-clang"):
            res.violation("correspondence", "a modelled tool deviates from its specification (%s): %s" % (cls, i["comp"]), i["detail"], inp, found_input=False)
        elif cls in ("asserts-compile", "roundtrip", "option-variance"):
            res.violation("oracle-failure", "%s: %s [%s]" % (cls, i["comp"], i["variant"]), i["detail"], inp)
        elif cls == "bindgen-failed":
            # the generator produced a header clang rejects: lost coverage, not a property failure
            n_reported -= 1
            continue
        else:
            res.violation("machinery-error", "harness: %s" % cls, i["detail"], inp, found_input=False)
    failed = rep.get("issues_by_class", {}).get("bindgen-failed", 0)
    if failed > max(3, rep.get("variants_run", 0) // 5):
        res.violation("machinery-error", "too many generated headers were rejected by clang (%d of %d runs)" % (failed, rep.get("variants_run", 0)), "", found_input=False)
    samples = rep.get("samples", [])
    res.coverage.update({
        "obligations": lean["obligations"], "discharged": lean["discharged"], "theorems": lean["theorems"],
        "checker_cmd": "translator (LayoutConsts) && lake build BindgenModel.Props.C02 bgmodel && lake env lean <#print axioms audit>" + (" && lake env leanchecker BindgenModel.Props.C02" if res.tier == "thorough" else ""),
        "layers": {"1 alignTo/blob_exact/forSize": "proved",
                   "2 plain_struct + explicit_padding_irrelevant": "proved (region pad_blob_inexact excluded, witnessed)",
                   "3 packed1/packedN (C02_packed_struct)": "proved",
                   "4 explicit_align / members of any alignment (C02_plain_struct_any_align)": "proved (region pad_blob_inexact excluded)",
                   "5 with_units (C02_with_units)": "proved without --explicit-padding (regions bitfield_unit_misplaced, explicit_padding_double_tail, pad_blob_inexact excluded, witnessed)",
                   "6 unions (C02_unions)": "proved (region explicit_padding_union_wrapper excluded, witnessed)",
                   "7 opaque (C02_opaque)": "proved",
                   "not under an unbounded theorem": "arrays of over-aligned elements (saw_field hack), C++ bases/vtables, records in the packed/aligned defect regions: executable model + correspondence only"},
        "evaluations": rep.get("comps_checked", 0) + rep.get("fn_level_calls", 0),
        "distinct_nontrivial": rep.get("distinct_nontrivial", 0),
        "rule": "evaluations = records compared (model emit vs real aggregate, reprC vs libclang) under all option variants + function-level align_to/for_size calls; distinct_nontrivial = distinct model requests (record shape: kind, layout, attribute facts, per-field layout/offset/array facts, options) with at least two fields",
        "samples": samples if samples else [{"note": "no sample recorded"}],
        "records_compared": rep.get("comps_checked", 0), "distinct_shapes": rep.get("distinct_shapes", 0),
        "fn_level_calls": rep.get("fn_level_calls", 0), "batches": rep.get("batches", 0), "variants_run": rep.get("variants_run", 0),
        "rustc_probe_values": rep.get("rustc_values", 0), "clang_table_values": rep.get("clang_values", 0),
        "roundtrip_structs": rep.get("roundtrip_structs", 0), "roundtrip_leaves": rep.get("roundtrip_leaves", 0),
        "comps_by_kind": rep.get("comps_by_kind", {}), "model_branches_hit": rep.get("model_branches_hit", {}),
        "issues_by_class": rep.get("issues_by_class", {}), "known_by_region": rep.get("known_by_region", {}),
        "known_region_examples": rep.get("known_region_examples", {}),
        "traces_validated_against_impl": rep.get("comps_checked", 0) + rep.get("fn_level_calls", 0),
        "disagreements_checked": rep.get("issues_by_class", {}).get("correspondence", 0),
    })
    res.assumptions += [
        "host target x86_64-unknown-linux-gnu (pointer size 8, u64 alignment 8); other targets are C06's subject",
        "member types are assumed to have the C layout when a record is judged (a wrong nested record is reported at the nested record)",
        "C++ classes (bases, vtables) are modelled but not generated",
        "bit-field accessor code is not compiled in the probes (C03/C01); observed there: accessors of unions in __BindgenUnionField form call the unsafe as_ref/as_mut outside unsafe, bool bit-fields cast `u8 as bool`",
    ]


def replay(path):
    d = json.load(open(path))
    print(json.dumps({k: v for k, v in d.items() if k != "input"}, indent=1))
    inp = d.get("input") or {}
    hdr = inp.get("header")
    if not hdr:
        return 0
    ok, log = common.cargo_build_harness(["c02"])
    if not ok:
        print(log[-2000:]); return 1
    common.lake_build(["bgmodel"])
    work = tempfile.mkdtemp(prefix="bgverif_c02_replay_")
    try:
        h = os.path.join(work, "replay.h")
        open(h, "w").write(hdr)
        e = common.env_clean(); e["RUSTFLAGS"] = common.HOOK_RUSTFLAGS
        rc, out = common.sh([common.harness_bin("c02"), "--out", work, "--replay", h], env=e, timeout=1800)
        print("\n".join(l for l in out.splitlines() if "clang diag" not in l and "warning" not in l))
    finally:
        shutil.rmtree(work, ignore_errors=True)
    return 0
