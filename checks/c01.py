"""C01 — generated bindings compile for every accepted header and option set (partial)."""
import json, os, shutil, tempfile
import common


def run(res):
    work = tempfile.mkdtemp(prefix="bgverif_c01_")
    try:
        _run(res, work)
    finally:
        shutil.rmtree(work, ignore_errors=True)


def _run(res, work):
    ok, tlog = common.regen_tables("C01")
    lean = common.lean_obligations("C01", res.tier)
    broken = []
    if not ok:
        broken.append("translator: " + tlog)
    broken += lean["failures"]
    okb, blog = common.cargo_build_harness(["c01"])
    okc, clog = common.cargo_build_cli()
    if not (okb and okc):
        res.violation("machinery-error", "harness / bindgen-cli do not build against /repo's working tree", (blog + clog)[-3000:], found_input=False)
        return
    rc, out, rep = common.run_harness("c01", res, work, timeout=3300)
    if rep is None:
        res.violation("machinery-error", "c01 harness produced no report (rc=%d)" % rc, out[-3000:], found_input=False)
        return
    fails = rep.get("failures", [])
    oracle = [f for f in fails if f["kind"] == "oracle"]
    corr = [f for f in fails if f["kind"] == "correspondence"]
    seen = set()
    for f in oracle:
        if f["class"] in seen:
            continue
        seen.add(f["class"])
        res.violation("oracle-failure", "rustc rejects the bindings (or bindgen fails) outside every known region: %s" % f["class"], f["detail"],
                      {"header": f["header"], "flags": f["flags"], "case": f["case"], "cpp": f.get("cpp"), "seed": res.seed, "tier": res.tier}, found_input=True)
    if corr and not oracle:
        f = corr[0]
        res.violation("correspondence", "Model/Names.lean no longer matches the implementation (%s): the C01 identifier theorems no longer speak about this code" % f["class"],
                      f["detail"], {"header": f["header"], "flags": f["flags"], "seed": res.seed}, found_input=False)
    elif corr:
        res.coverage["correspondence_disagreements"] = [f["class"] + ": " + f["detail"][:200] for f in corr[:5]]
    for b in broken:
        if oracle:
            res.coverage.setdefault("broken_obligations", []).append(b[:300])
        else:
            res.violation("proof-obligation" if not b.startswith("translator") else "translator", b[:400], lean["log"][-3000:], found_input=False)
    ids = {f["id"] for f in common.known_findings("C01")}
    agg = {}
    for k in rep.get("known", []):
        rid = k["what"].split(":")[0]
        if rid in ids:
            agg.setdefault(rid, []).append(k)
        else:
            res.violation("oracle-failure", "defect outside every listed region: " + k["what"][:200], k["what"], {"seed": res.seed}, found_input=True)
    for rid, ks in sorted(agg.items()):
        res.known("%s: re-observed in %d case(s), e.g. %s" % (rid, sum(k["count"] for k in ks), ks[0]["what"][len(rid) + 2:][:400]))
    c = rep.get("counters", {})
    evaluations = sum(c.get(k, 0) for k in ("bindings_compiled", "mangle_names_compared", "overload_sets_compared", "overload_sets_compiled"))
    res.coverage.update({
        "obligations": lean["obligations"], "discharged": lean["discharged"],
        "checker_cmd": "python3 translator/translate.py /repo lean/BindgenModel/Generated && lake build BindgenModel.Props.C01 bgmodel && lake env lean <#print axioms audit>" + (" && lake env leanchecker BindgenModel.Props.C01" if res.tier == "thorough" else ""),
        "theorems": lean["theorems"],
        "evaluations": evaluations,
        "distinct_nontrivial": rep.get("distinct_nontrivial", 0),
        "rule": "distinct = distinct classes over: header-family features hit (per language), bindgen flags drawn, mutation kinds accepted by clang, (overload-set length x region x duplicate) classes, mangled/kept identifier classes; every counted case is a header clang accepts whose bindings went through rustc (--emit metadata, the case's edition) or a name/overload set compared between the real bindgen and the model",
        "samples": rep.get("samples", [])[:6] + ["%d bindings compiled in %d rustc batches, %d rejected, %d unresolved-name errors accepted (blocklisted)" % (c.get("bindings_compiled", 0), c.get("rustc_batches", 0), c.get("bindings_rejected", 0), rep.get("accepted_unresolved", 0))],
        "traces_validated_against_impl": c.get("mangle_names_compared", 0) + c.get("overload_sets_compared", 0),
        "disagreements_checked": len(corr),
        "input_distribution": c,
        "distinct_classes": rep.get("distinct_classes", [])[:150],
        "translator": tlog,
    })
    res.assumptions += [
        "rustc 1.95 (stable) is the oracle: `--crate-type lib --emit metadata` with the case's edition; nightly-only output (--flexarray-dst DSTs, nightly rust targets) is not compiled",
        "header families are text generators filtered by `clang -fsyntax-only`; mutants of repository headers keep the header's own `// bindgen-flags:` line; Objective-C, --dynamic-loading, --wrap-static-fns, depfile and nightly-target headers are excluded",
        "unresolved names (E0412/E0425/E0433) are accepted only for names blocklisted by the case's flags; for repository headers whose flags use raw lines / ctypes-prefix / blocklists every unresolved name is accepted (they are what the user asked bindgen not to define)",
        "BindgenContext::rust_mangle is not exported by the hooks (hooks-needed/C01.diff); the model is tied to it through emitted identifiers",
    ]


def replay(path):
    d = json.load(open(path))
    inp = d.get("input") or {}
    print(json.dumps({k: v for k, v in d.items() if k != "input"}, indent=1)[:3000])
    if isinstance(inp, dict) and "header" in inp:
        work = tempfile.mkdtemp(prefix="bgverif_c01_replay_")
        try:
            cpp = inp.get("cpp") if inp.get("cpp") is not None else ("--enable-cxx-namespaces" in inp.get("flags", [])) or "using " in inp["header"] or ("c++" in " ".join(inp.get("flags", []))) or "class " in inp["header"] or "namespace " in inp["header"] or "template" in inp["header"]
            h = os.path.join(work, "replay.hpp" if cpp else "replay.h")
            open(h, "w").write(inp["header"])
            common.cargo_build_cli()
            cmd = [common.bindgen_cli(), h] + list(inp.get("flags", [])) + ["--"] + (["-x", "c++", "-std=c++14"] if cpp else [])
            b = os.path.join(work, "b.rs")
            rc, out = common.sh(cmd[:2] + ["-o", b] + cmd[2:])
            if rc != 0:
                print("bindgen:", out[-2000:])
            ed = "2021"
            fl = inp.get("flags", [])
            if "--rust-edition" in fl:
                ed = fl[fl.index("--rust-edition") + 1]
            rc2, out2 = common.sh(["rustc", "--edition", ed, "--crate-type", "lib", "--emit", "metadata", "--cap-lints", "allow", "-o", os.path.join(work, "b.rmeta"), b])
            print("header:\n" + inp["header"][:3000])
            print("flags:", fl)
            print("bindgen rc=%d; rustc rc=%d\n%s" % (rc, rc2, out2[-3000:]))
        finally:
            shutil.rmtree(work, ignore_errors=True)
    return 0
