"""C10 — blocklisted items are referenced but never defined; opaque types are exact blobs."""
import json, os, shutil, tempfile
import common

KNOWN_TEXT = {
    "derive_through_blocklisted_opaque": "derive_through_blocklisted_opaque: a type that is blocklisted (hide annotation / file) and also opaque is used by value; the reference to it is opaque, so constrain_type answers Yes from the layout and the container derives Copy/Clone/Debug through the blocklisted type (C10_fails_on_blocklisted_and_opaque); rustc rejects the derive against a derive-less user definition",
    "blob_padding_overaligned": "blob_padding_overaligned: helpers::blob is asked (by StructLayoutTracker::pad_field) for K padding bytes with alignment min(field align, 8) not dividing K and answers __BindgenOpaqueArray8<[u8; K]>, whose size rounds up to a multiple of 8 (C10_fails_on_overaligned_padding): a struct with a member aligned above 8 after a misaligned offset (struct W { char pre; struct O m0; } with O aligned(16)) is too large and the bindings fail their own layout assertion; observed size equals the model's",
    "opaque_empty_base_counted": "opaque_empty_base_counted: a C++ record derives from an empty record that --opaque-type (or the opaque annotation) makes opaque; the sizedness analysis answers NonZeroSized for the 1-byte opaque blob, so the derived record gets a `_base` member although the C++ compiler gives the empty base no storage: the derived record is too large and bindgen's own `Size of` assertion fails to compile (E0080)",
    "blocklisted_base_not_named": "blocklisted_base_not_named: a record that derives from a blocklisted type is emitted with padding in place of the base: the layout is kept but the use does not name the blocklisted type ('every use of a blocklisted type still names it')",
    "blocklist_file_hides_namespace": "blocklist_file_hides_namespace: --blocklist-file blocklists the namespace item first opened in that file, so declarations of the same namespace made in other files (neither blocklisted nor in the file) are no longer generated; equals the model's walk (C10_fails_on_namespace_first_opened_in_blocklisted_file)",
}


def run(res):
    work = tempfile.mkdtemp(prefix="bgverif_c10_")
    try:
        _run(res, work)
    finally:
        shutil.rmtree(work, ignore_errors=True)


def _run(res, work):
    ok, tlog = common.regen_tables("C10")
    lean = common.lean_obligations("C10", res.tier)
    ok_h, hlog = common.cargo_build_harness(["c10"])
    rep = None
    if ok_h and os.path.exists(common.bgmodel_path()):
        rc, out, rep = common.run_harness("c10", res, work, timeout=3400)
        if rep is None:
            res.violation("machinery-error", "harness c10 produced no report", out[-3000:], found_input=False)
            return
    elif not ok_h:
        res.violation("correspondence", "harness / bindgen no longer builds against /repo (hooks on)", hlog[-3000:], found_input=False)
        return

    fl = (rep or {}).get("failures", [])
    oracle_fail = [f for f in fl if f["kind"].startswith("oracle")]
    corr_fail = [f for f in fl if f["kind"] == "correspondence"]
    for f in oracle_fail[:3]:
        res.violation("oracle-failure", f["kind"], f["detail"], f["input"], found_input=True)
    for f in corr_fail[:3]:
        res.violation("correspondence", "Model/Blocklist.lean (is_blocklisted / is_opaque / blob / for_size_internal) no longer matches the implementation: C10_never_defined / C10_opaque_exact / C10_blob_exact no longer speak about this code",
                      f["detail"], f["input"], found_input=bool(oracle_fail))
    if not ok:
        res.violation("translator", "Generated/BlockSites.lean (or another table) could not be regenerated", tlog[-3000:],
                      oracle_fail[0]["input"] if oracle_fail else None, found_input=bool(oracle_fail))
    for f in lean["failures"]:
        first = oracle_fail[0]["input"] if oracle_fail else (corr_fail[0]["input"] if corr_fail else None)
        res.violation("proof-obligation", f, lean["log"][-3000:], first, found_input=bool(oracle_fail))

    if rep:
        listed = {f["id"] for f in common.known_findings("C10")} | {f["id"] for f in common.known_findings("C09")}
        for kid, k in rep.get("known", {}).items():
            if kid in KNOWN_TEXT and kid in listed:
                res.known(KNOWN_TEXT[kid] + " (%d cases this run)" % k["count"])
            else:
                res.violation("oracle-failure", "unlisted finding class " + kid, k["witness"], None, found_input=True)
        res.coverage.update({
            "obligations": lean["obligations"], "discharged": lean["discharged"],
            "checker_cmd": "translator/translate.py && lake build BindgenModel.Props.C10 bgmodel && lake env lean <#print axioms audit>" + (" && lake env leanchecker BindgenModel.Props.C10" if res.tier == "thorough" else ""),
            "theorems": lean["theorems"],
            "evaluations": rep["forsize_calls"] + rep["flags_compared"] + rep["blob_compared"],
            "distinct_nontrivial": rep["distinct_flag_sets"] + rep["distinct_blob_layouts"],
            "rule": "evaluations = Layout::for_size_internal calls compared with the model + bindgen runs whose per-item is_blocklisted/is_opaque flags were compared with `bgmodel blk items` + emitted opaque structs whose blob type and repr(align) were compared with `bgmodel blk blob/struct`; distinct = distinct (blocklisted set, opaque set) pairs with at least the root module present + distinct (size, align) layouts of emitted blobs; every counted run has a blocklist or an opaque selection",
            "samples": rep["samples"] or ["%d runs" % rep["runs"]],
            "traces_validated_against_impl": rep["flags_compared"] + rep["blob_compared"] + rep["forsize_calls"],
            "graphs": rep["graphs"], "runs": rep["runs"], "generation_failed": rep["gen_failed"],
            "ir_items_compared": rep["flag_items"], "blocklisted_items_seen": rep["blocked_items"], "opaque_items_seen": rep["opaque_items"],
            "blob_layouts_seen": rep["blob_layouts"],
            "reprC_spec_types_checked_with_rustc": rep["spec_types"],
            "oracle_never_defined_runs": rep["never_defined_checked"],
            "oracle_others_unchanged_runs": rep["others_checked"], "oracle_others_unchanged_items": rep["others_items"],
            "oracle_opaque_structs": rep["opaque_struct_checked"],
            "oracle_rustc_with_user_definitions": rep["rustc_block_compiled"], "oracle_rustc_baseline_broken": rep["rustc_baseline_broken"],
            "oracle_clang_probe_types": rep["probe_types"],
            "input_distribution": rep["hist"],
            "known_finding_cases": {k: v["count"] for k, v in rep.get("known", {}).items()},
            "translator": tlog,
        })
    res.assumptions += [
        "IR dump (items, layouts computed by libclang, annotations, paths) is the input of the model",
        "replaced types (`rustbindgen replaces`) are not exercised: `replaced` is false in every request",
        "type-level opacity of compound types is taken from the dump (non-type template parameters); bit-field-width induced opacity is not generated",
        "reprC (rustc's layout of uN, arrays, repr(C) / repr(align) newtypes) is a specification validated against rustc on every run, on x86_64",
        "blob is exercised through real opaque types (ffi_safe = false path); the ffi_safe = true path (function signatures) is modelled and proved, not executed",
    ]


def replay(path):
    d = json.load(open(path))
    print(json.dumps({k: v for k, v in d.items() if k != "input"}, indent=1))
    inp = d.get("input") or {}
    if "main_h" in inp:
        work = tempfile.mkdtemp(prefix="bgverif_c10r_")
        try:
            open(os.path.join(work, "main.h"), "w").write(inp["main_h"])
            open(os.path.join(work, "inc.h"), "w").write(inp["inc_h"])
            open(os.path.join(work, "flags.txt"), "w").write("\n".join(inp["flags"]) + "\n")
            open(os.path.join(work, "cxx"), "w").write("1" if inp.get("cxx") else "0")
            rc, out = common.sh([common.harness_bin("c10"), "--case-dir", work], env=common.env_clean(), timeout=600)
            print(out[:20000])
        finally:
            shutil.rmtree(work, ignore_errors=True)
    elif "request" in inp:
        print("model now answers:", common.run_model([inp["request"]]))
    else:
        print("input:", json.dumps(inp)[:2000])
    return 0
