"""Shared machinery of ./check: paths, builds, Lean audit, evidence, violations."""
import fcntl, hashlib, json, os, re, shutil, subprocess, sys, time

VERIF = os.path.dirname(os.path.dirname(os.path.abspath(__file__)))
REPO = os.environ.get("VERIF_REPO", "/repo")
LEAN = os.path.join(VERIF, "lean")
CACHE = os.path.join(VERIF, ".cache")
TARGET = os.path.join(CACHE, "target")
HARNESS = os.path.join(VERIF, "harness")
EVIDENCE = os.path.join(VERIF, "evidence")
REPLAYS = os.path.join(VERIF, "replays")
ALLOWED_AXIOMS = {"propext", "Classical.choice", "Quot.sound"}
TRUSTED_BASE = [
    "Lean 4.33.0 kernel (lake build; leanchecker in the thorough tier)",
    "axioms allowed per theorem: propext, Classical.choice, Quot.sound (audited with #print axioms on every run)",
    "translator (anchored regex extraction from /repo source into Generated/*.lean) and correspondence harness (generators, canonicalisers)",
    "modelled, not verified: libclang, rustc, clang, syn/quote/proc_macro2, regex, cexpr, clap, rustfmt, OS process/pipe semantics",
]

def _heal_dev_null():
    """`rustc -o /dev/null` run as root replaces the device by a regular file, after which every
    `stdin=DEVNULL` reads garbage.  Recreate the device if that happened (observed once)."""
    import stat
    try:
        if not stat.S_ISCHR(os.stat("/dev/null").st_mode):
            os.remove("/dev/null")
            os.mknod("/dev/null", 0o666 | stat.S_IFCHR, os.makedev(1, 3))
            os.chmod("/dev/null", 0o666)
    except OSError:
        pass


_heal_dev_null()
os.makedirs(CACHE, exist_ok=True)
os.makedirs(EVIDENCE, exist_ok=True)
os.makedirs(REPLAYS, exist_ok=True)


def env_clean():
    e = dict(os.environ)
    e["CARGO_NET_OFFLINE"] = "true"
    e["CARGO_TARGET_DIR"] = TARGET
    e.pop("BINDGEN_VERIF_LOG", None)
    e["BGMODEL"] = os.path.join(LEAN, ".lake", "build", "bin", "bgmodel")
    e["BINDGEN_CLI"] = os.path.join(TARGET, "debug", "bindgen")
    e["VERIF_DIR"] = VERIF
    e["VERIF_REPO"] = REPO
    return e


def sh(cmd, cwd=None, env=None, timeout=None, input=None, check=False):
    """Run a command, return (rc, stdout+stderr text)."""
    kw = {"input": input} if input is not None else {"stdin": subprocess.DEVNULL}
    p = subprocess.run(cmd, cwd=cwd, env=env or env_clean(), timeout=timeout,
                       stdout=subprocess.PIPE, stderr=subprocess.STDOUT, text=True,
                       errors="replace", **kw)
    out = "\n".join(l for l in p.stdout.splitlines() if "conda.cli.condarc" not in l)
    if check and p.returncode != 0:
        raise RuntimeError("command failed: %s\n%s" % (cmd, out[-4000:]))
    return p.returncode, out


class Lock:
    def __init__(self, name):
        self.path = os.path.join(CACHE, name + ".lock")
    def __enter__(self):
        self.f = open(self.path, "w")
        fcntl.flock(self.f, fcntl.LOCK_EX)
    def __exit__(self, *a):
        fcntl.flock(self.f, fcntl.LOCK_UN)
        self.f.close()


# ---------------------------------------------------------------- translator

def generated_deps(prop):
    """Names of the Generated/*.lean tables the Lean modules of `prop` (property theorems and the
    driver arm the harness talks to) import, transitively."""
    import re as _re
    idx = json.load(open(os.path.join(LEAN, "props_index.json"))).get(prop, {})
    todo = list(idx.get("modules", [])) + ["BindgenModel.Driver.%s" % prop]
    seen, gen = set(), set()
    while todo:
        m = todo.pop()
        if m in seen:
            continue
        seen.add(m)
        path = os.path.join(LEAN, *m.split(".")) + ".lean"
        if not os.path.exists(path):
            continue
        for imp in _re.findall(r"^import\s+(BindgenModel\.[\w.]+)", open(path).read(), _re.M):
            if imp.startswith("BindgenModel.Generated."):
                gen.add(imp.split(".")[-1])
            todo.append(imp)
    return gen


def regen_tables(prop=None):
    """Regenerate lean/BindgenModel/Generated/*.lean from /repo's working tree.
    Returns (ok, log). A failed extraction is reported like a broken correspondence.  With `prop`,
    only the tables that property's Lean modules import decide `ok` (an anchor that vanished in a
    table of another property is that property's broken tie, not this one's)."""
    sys.path.insert(0, os.path.join(VERIF, "translator"))
    import translate  # noqa
    with Lock("lake"):
        ok, log = translate.run(REPO, os.path.join(LEAN, "BindgenModel", "Generated"))
    if prop is None or ok:
        return ok, log
    own = generated_deps(prop) | set(EXTRA_TABLES.get(prop, ()))
    if not own:
        return ok, log
    lines = log.splitlines()
    failed = [l for l in lines if "EXTRACTION FAILED" in l]
    mine = [l for l in failed if l.split(":", 1)[0] in own]
    others = [l.split(":", 1)[0] for l in failed if l.split(":", 1)[0] not in own]
    kept = [l for l in lines if l.split(":", 1)[0] in own]
    if others:
        kept.append("(extraction failures in tables this property does not use: %s)" % ", ".join(others))
    return (not mine), "\n".join(kept)


# tables a check reads through python (not through a Lean import)
EXTRA_TABLES = {"C11": ("Sites",), "C12": ("Sites", "Entry", "PanicSites")}


# ---------------------------------------------------------------- lean

def lake_build(targets, timeout=1800):
    with Lock("lake"):
        rc, out = sh(["lake", "build"] + list(targets), cwd=LEAN, timeout=timeout)
    return rc == 0, out


def props_index():
    return json.load(open(os.path.join(LEAN, "props_index.json")))


def audit(prop):
    """#print axioms on every obligation theorem of `prop`.
    Returns dict name -> (ok, axioms or error)."""
    idx = props_index()[prop]
    mods = idx["modules"]
    thms = idx["theorems"]
    d = os.path.join(CACHE, "audit")
    os.makedirs(d, exist_ok=True)
    f = os.path.join(d, "Audit_%s.lean" % prop)
    with open(f, "w") as w:
        for m in mods:
            w.write("import %s\n" % m)
        for t in thms:
            w.write("#print axioms %s\n" % t)
    with Lock("lake"):
        rc, out = sh(["lake", "env", "lean", f], cwd=LEAN, timeout=900)
    res = {}
    flat = re.sub(r"\s+", " ", out)
    for t in thms:
        short = t
        m = re.search(r"'%s' depends on axioms: \[([^\]]*)\]" % re.escape(short), flat)
        if m:
            ax = [a.strip() for a in m.group(1).split(",") if a.strip()]
            res[t] = (set(ax) <= ALLOWED_AXIOMS, ax)
        elif re.search(r"'%s' does not depend on any axioms" % re.escape(short), flat):
            res[t] = (True, [])
        else:
            res[t] = (False, "not found / error")
    return res, out


FORBIDDEN = re.compile(r"\b(sorry|admit|native_decide|bv_decide|implemented_by)\b|^\s*axiom\s|\bunsafe\s|maxHeartbeats\s+0")

def scan_forbidden(mod_files):
    hits = []
    for f in mod_files:
        in_block = 0
        for n, line in enumerate(open(f, errors="replace"), 1):
            code = line
            # strip block comments (coarse) and line comments
            if in_block:
                if "-/" in code:
                    in_block = 0
                    code = code.split("-/", 1)[1]
                else:
                    continue
            while "/-" in code:
                pre, rest = code.split("/-", 1)
                if "-/" in rest:
                    code = pre + rest.split("-/", 1)[1]
                else:
                    code = pre
                    in_block = 1
                    break
            code = code.split("--", 1)[0]
            if FORBIDDEN.search(code):
                hits.append("%s:%d: %s" % (f, n, line.strip()))
    return hits


def lean_files():
    out = []
    for root, _, files in os.walk(os.path.join(LEAN, "BindgenModel")):
        for f in files:
            if f.endswith(".lean"):
                out.append(os.path.join(root, f))
    out.append(os.path.join(LEAN, "Main.lean"))
    return sorted(out)


def lean_obligations(prop, tier):
    """Build the property module + driver, audit axioms, (thorough) leanchecker.
    Returns dict with obligations, discharged, failures(list of str), log."""
    idx = props_index()[prop]
    ok, out = lake_build(idx["modules"] + ["bgmodel"])
    res = {"obligations": len(idx["theorems"]), "discharged": 0, "failures": [], "log": out[-6000:],
           "theorems": idx["theorems"]}
    if not ok:
        # which declarations failed?
        errs = re.findall(r"error: ([^\n]*)", out)
        res["failures"].append("lake build failed: " + "; ".join(errs[:8]))
        return res
    a, aout = audit(prop)
    for t, (good, ax) in a.items():
        if good:
            res["discharged"] += 1
        else:
            res["failures"].append("axiom audit: %s -> %s" % (t, ax))
    bad = scan_forbidden(lean_files())
    if bad:
        res["failures"].append("forbidden constructs: " + "; ".join(bad[:5]))
    if tier == "thorough":
        for m in idx["modules"]:
            with Lock("lake"):
                rc, o = sh(["lake", "env", "leanchecker", m], cwd=LEAN, timeout=1800)
            if rc != 0:
                res["failures"].append("leanchecker %s rc=%d %s" % (m, rc, o[-300:]))
    return res


def bgmodel_path():
    return os.path.join(LEAN, ".lake", "build", "bin", "bgmodel")


def run_model(lines, timeout=3600):
    """Pipe request lines to the model driver; returns list of answer lines."""
    p = subprocess.run([bgmodel_path()], input="\n".join(lines) + "\n", text=True,
                       stdout=subprocess.PIPE, stderr=subprocess.PIPE, timeout=timeout)
    if p.returncode != 0:
        raise RuntimeError("bgmodel failed rc=%d: %s" % (p.returncode, p.stderr[-2000:]))
    return p.stdout.splitlines()


# ---------------------------------------------------------------- cargo / harness

HOOK_RUSTFLAGS = "--cfg bindgen_verif"

def ensure_repo_link():
    """Point the harness' path dependency at the tree under verification (VERIF_REPO, default /repo)."""
    import re as _re
    man = os.path.join(HARNESS, "Cargo.toml")
    text = open(man).read()
    want = 'bindgen = { path = "%s/bindgen", features = ["__cli"] }' % os.path.realpath(REPO)
    new = _re.sub(r'bindgen = \{ path = "[^"]*", features = \["__cli"\] \}', want, text)
    if new != text:
        open(man, "w").write(new)


def cargo_build_harness(bins=None, timeout=3600):
    """Build the harness (and through its path dependency, bindgen from /repo's working
    tree with hooks on).  Returns (ok, log)."""
    ensure_repo_link()
    lock = os.path.join(HARNESS, "Cargo.lock")
    if not os.path.exists(lock):
        shutil.copy(os.path.join(REPO, "Cargo.lock"), lock)
    e = env_clean()
    e["RUSTFLAGS"] = HOOK_RUSTFLAGS
    cmd = ["cargo", "build", "--offline", "--profile", "verif"]
    for b in bins or []:
        cmd += ["--bin", b]
    rc, out = sh(cmd, cwd=HARNESS, env=e, timeout=timeout)
    return rc == 0, out


def harness_bin(name):
    return os.path.join(TARGET, "verif", name)


def run_harness(name, res, workdir, extra_args=(), extra_env=None, timeout=7200):
    """Run harness binary `name` with the standard arguments; it must write
    <workdir>/report.json.  Returns (rc, stdout+stderr, report dict or None)."""
    import json as _json
    e = env_clean()
    e["RUSTFLAGS"] = HOOK_RUSTFLAGS
    if extra_env:
        e.update(extra_env)
    rc, out = sh([harness_bin(name), "--tier", res.tier, "--seed", str(res.seed), "--out", workdir] + list(extra_args),
                 env=e, timeout=timeout)
    rep = None
    rp = os.path.join(workdir, "report.json")
    if os.path.exists(rp):
        try:
            rep = _json.load(open(rp))
        except Exception as ex:  # noqa
            out += "\nreport.json unreadable: %r" % (ex,)
    return rc, out, rep


def cargo_build_cli(timeout=3600):
    """Build bindgen-cli from /repo's working tree (hooks on) into our target dir."""
    e = env_clean()
    e["RUSTFLAGS"] = HOOK_RUSTFLAGS
    rc, out = sh(["cargo", "build", "--offline", "-p", "bindgen-cli"], cwd=REPO, env=e, timeout=timeout)
    return rc == 0, out


def bindgen_cli():
    return os.path.join(TARGET, "debug", "bindgen")


# ---------------------------------------------------------------- findings / results

def known_findings(prop):
    p = os.path.join(VERIF, "known_findings.json")
    if not os.path.exists(p):
        return []
    data = json.load(open(p))
    return [f for f in data.get("findings", []) if f["property"] == prop]


class Result:
    def __init__(self, prop, tier, seed):
        self.prop, self.tier, self.seed = prop, tier, seed
        self.t0 = time.time()
        self.violations = []     # list of dict(kind, broken, detail, replay_input, found_input)
        self.known_hits = []     # list of str
        self.coverage = {}
        self.assumptions = []
        self.level = "proof"

    def violation(self, kind, broken, detail, replay_input=None, found_input=True):
        self.violations.append(dict(kind=kind, broken=broken, detail=detail,
                                    input=replay_input, found_input=found_input))

    def known(self, what):
        if what not in self.known_hits:
            self.known_hits.append(what)

    def finish(self):
        wall = time.time() - self.t0
        cov = dict(self.coverage)
        cov.setdefault("trusted_base", TRUSTED_BASE)
        ev = {
            "property_id": self.prop, "tier": self.tier, "seed": self.seed, "level": self.level,
            "coverage": cov, "assumptions": self.assumptions, "wall_s": round(wall, 2),
            "violations": len(self.violations),
            "known_findings_reobserved": self.known_hits,
        }
        tmp = os.path.join(EVIDENCE, self.prop + ".json.tmp")
        with open(tmp, "w") as w:
            json.dump(ev, w, indent=1, sort_keys=True)
        os.replace(tmp, os.path.join(EVIDENCE, self.prop + ".json"))
        for k in self.known_hits:
            print("KNOWN-FINDING: property=%s %s" % (self.prop, k))
        if not self.violations:
            print("OK property=%s tier=%s wall=%.1fs" % (self.prop, self.tier, wall))
            return 0
        for i, v in enumerate(self.violations[:5]):
            name = "%s_%s_%d_%d.json" % (self.prop, self.tier, self.seed, i)
            path = os.path.join(REPLAYS, name)
            with open(path, "w") as w:
                json.dump({"property": self.prop, "kind": v["kind"], "broken": v["broken"],
                           "seed": self.seed, "tier": self.tier, "detail": v["detail"],
                           "input": v["input"],
                           "reproduce": "./check %s --replay %s" % (self.prop, path)}, w, indent=1)
            suffix = "" if v["found_input"] else " no-failing-input-found"
            print("VIOLATION property=%s replay=%s%s" % (self.prop, path, suffix))
        return 1


def conclude(res, lean, regen, rep, run_log=""):
    """Standard decision logic shared by the checks.

    lean  = result of lean_obligations();  regen = (ok, log) of regen_tables();
    rep   = harness report with lists `oracle_failures`, `correspondence_failures`, `machinery`.
    An oracle failure is a concrete failing input: VIOLATION with that input as replay.  A broken
    proof obligation / translator / correspondence without any oracle failure is still a
    VIOLATION, reported with `no-failing-input-found` and the name of what no longer checks."""
    broken = list(lean.get("failures", []))
    if regen is not None and not regen[0]:
        broken.append("translator: " + regen[1][-1500:])
    if rep is None:
        res.violation("machinery-error", "harness produced no report", run_log[-3000:], found_input=False)
        return
    oracle = rep.get("oracle_failures", [])
    corr = rep.get("correspondence_failures", [])
    for o in oracle[:3]:
        cls = o.get("class", "oracle") if isinstance(o, dict) else "oracle"
        detail = "implementation fails the property's own oracle"
        if broken:
            detail += "; also broken: " + "; ".join(broken)[:1500]
        res.violation("oracle-failure", cls, detail, o, True)
    if not oracle:
        for b in broken:
            kind = "translator" if b.startswith("translator:") else "proof-obligation"
            res.violation(kind, b[:600], lean.get("log", "")[-3000:], None, False)
        for c in corr[:3]:
            cls = c.get("class", "correspondence") if isinstance(c, dict) else "correspondence"
            res.violation("correspondence", "model no longer matches the implementation (%s); the theorems no longer speak about this code" % cls,
                          "model != implementation, no oracle failure found by the search", c, False)
    for m in rep.get("machinery", [])[:3]:
        res.violation("machinery-error", str(m)[:600], run_log[-2000:], None, False)


def proof_coverage(res, lean, prop, extra_checker=""):
    res.coverage.update({
        "obligations": lean["obligations"], "discharged": lean["discharged"],
        "theorems": lean["theorems"],
        "checker_cmd": "python3 translator/translate.py /repo lean/BindgenModel/Generated && (cd lean && lake build %s bgmodel) && lake env lean <#print axioms audit of every listed theorem>%s%s"
                       % (" ".join(props_index()[prop]["modules"]), " && lake env leanchecker <modules>" if res.tier == "thorough" else "", extra_checker),
    })


def seed_from_env():
    try:
        return int(os.environ.get("VERIF_SEED", "1"))
    except ValueError:
        return 1
