"""C11 — output is a pure function of inputs across processes, repeats and threads."""
import json, os, random, shutil, sys, tempfile
import common
from common import sh

PROP = "C11"


def inventory():
    sys.path.insert(0, os.path.join(common.VERIF, "translator"))
    sys.path.insert(0, os.path.join(common.VERIF, "translator", "extract"))
    import sites  # noqa
    return sites.inventory(common.REPO)


def classify_with_model(inv):
    """ask the model driver for the class of every site (the executable side of
    C11_all_sites_classified); returns (histogram, unclassified rows)"""
    rows = [("iter", r) for r in inv["hashiter"]] + [("state", r) for r in inv["state"]]
    ans = common.run_model(["det site %s %d" % (k, r["hash"]) for k, r in rows])
    hist, missing = {}, []
    for (k, r), a in zip(rows, ans):
        a = a.strip()
        hist[k + ":" + a] = hist.get(k + ":" + a, 0) + 1
        if a == "unclassified":
            missing.append("%s %s:%d fn %s: %s" % (k, r["file"], r["line"], r["ctx"], r["snippet"][:160]))
    return hist, missing


def model_self_runs(seed, n):
    """executions of the model: consumers under random permutations, schedules and histories
    (these exercise the executable definitions the theorems are about; they are not evidence
    about the implementation)"""
    rnd = random.Random(seed)
    reqs, expect_same = [], []
    classes = ["collectOrdered", "sortAfter", "anyAll", "insertAll", "forEachIndependent", "findUnique"]
    for _ in range(n):
        c = rnd.choice(classes)
        xs = [rnd.randrange(1, 50) for _ in range(rnd.randrange(0, 9))]
        k = rnd.randrange(1, 6)
        if c == "findUnique":
            # keep at most one element with a % (k+1) == 0  (hypothesis AtMostOne)
            seen = False
            ys = []
            for x in xs:
                if x % (k + 1) == 0:
                    if seen:
                        continue
                    seen = True
                ys.append(x)
            xs = ys
        p = xs[:]
        rnd.shuffle(p)
        fmt = lambda l: ",".join(map(str, l)) or "-"
        reqs.append("det consume %s k=%d xs=%s" % (c, k, fmt(xs)))
        reqs.append("det consume %s k=%d xs=%s" % (c, k, fmt(p)))
        expect_same.append((c, xs, p))
    n_sched = n // 4
    scheds = []
    for _ in range(n_sched):
        inputs = [rnd.randrange(0, 9) for _ in range(rnd.randrange(1, 6))]
        sched = [rnd.randrange(0, len(inputs)) for _ in range(rnd.randrange(0, 30))]
        reqs.append("det sched sys=sample inputs=%s sched=%s" % (",".join(map(str, inputs)), ",".join(map(str, sched)) or "-"))
        scheds.append((inputs, sched))
    for _ in range(n_sched):
        hist = [rnd.randrange(0, 9) for _ in range(rnd.randrange(1, 12))]
        reqs.append("det hist sys=sample %s" % ",".join(map(str, hist)))
    ans = common.run_model(reqs)
    bad = []
    for i, (c, xs, p) in enumerate(expect_same):
        if ans[2 * i] != ans[2 * i + 1]:
            bad.append("consume %s %s vs %s: %s / %s" % (c, xs, p, ans[2 * i], ans[2 * i + 1]))
    off = 2 * len(expect_same)
    finished = 0
    for j, (inputs, sched) in enumerate(scheds):
        a = ans[off + j]
        out, solo = a.split()
        out = out[4:].split(",")
        solo = solo[5:].split(",")
        for o, s in zip(out, solo):
            if o != "-":
                finished += 1
                if o != s:
                    bad.append("sched %s %s: %s" % (inputs, sched, a))
    off += len(scheds)
    for j in range(n_sched):
        a = ans[off + j]
        out, solo = a.split()
        if out[4:] != solo[5:]:
            bad.append("hist: " + a)
    return len(reqs), finished, bad


def run(res):
    work = tempfile.mkdtemp(prefix="bgverif_c11_")
    try:
        _run(res, work)
    finally:
        shutil.rmtree(work, ignore_errors=True)


def _run(res, work):
    broken = []   # proof obligations / translator problems: need the search below
    ok, tlog = common.regen_tables("C11")
    if not ok:
        broken.append(("translator", "site inventory extraction failed", tlog))
    lean = common.lean_obligations(PROP, res.tier)
    for f in lean["failures"]:
        broken.append(("proof-obligation", f, lean["log"][-3000:]))
    inv = inventory() if ok else None
    hist, missing = ({}, [])
    model_runs = (0, 0, [])
    if inv is not None and os.path.exists(common.bgmodel_path()) and not any("lake build failed" in b[1] for b in broken):
        hist, missing = classify_with_model(inv)
        model_runs = model_self_runs(res.seed, 400 if res.tier == "quick" else 4000)
        for b in model_runs[2][:3]:
            broken.append(("proof-obligation", "executable model contradicts its own theorem: " + b, ""))
    elif inv is not None:
        # the driver did not build: compute the unclassified rows from the committed table text
        table = open(os.path.join(common.LEAN, "BindgenModel", "Model", "Determinism.lean")).read()
        for k, rows in (("iter", inv["hashiter"]), ("state", inv["state"])):
            for r in rows:
                if "(%d," % r["hash"] not in table:
                    missing.append("%s %s:%d fn %s: %s" % (k, r["file"], r["line"], r["ctx"], r["snippet"][:160]))

    # ---- correspondence / oracle on the real code (this is also the failing-input search)
    okh, blog = common.cargo_build_harness(["c11"])
    okc, clog = common.cargo_build_cli()
    rep = None
    if not (okh and okc):
        res.violation("correspondence", "harness or bindgen-cli no longer builds against /repo", (blog + clog)[-3000:], found_input=False)
    else:
        rc, out, rep = common.run_harness("c11", res, work, timeout=3 * 3600)
        if rep is None:
            res.violation("machinery-error", "c11 harness produced no report (rc=%d)" % rc, out[-3000:], found_input=False)
    found = False
    if rep:
        pr = rep.get("macro_fallback_probe") or {}
        if pr.get("concurrent_differences", 0) > 0:
            listed = any(f["id"] == "macro_fallback_shared_scratch_files" for f in common.known_findings(PROP))
            # the finding was repaired in /repo (63f9f962, scratch names unique per generation): it is no longer
            # listed, so a difference is a violation again
            if listed and pr.get("differences_as_model_predicts") and pr.get("sequential_repeats_identical"):
                res.known("macro_fallback_shared_scratch_files: with --clang-macro-fallback concurrent generations share <dir>/.macro_eval.c and -precompile.h.pch; "
                          "%d of %d concurrent in-process generations of one header lost macro constants or failed (%s), sequential repeats identical — as C11_scratch_file_interleaving_witness predicts"
                          % (pr["concurrent_differences"], pr["concurrent_runs"], pr.get("example", "")))
            else:
                res.violation("oracle-failure", "--clang-macro-fallback probe differs in a way the scratch-file model does not predict",
                              json.dumps(pr), {"mode": "fallback-probe"})
                found = True
        for f in rep["failures"][:5]:
            found = True
            res.violation("oracle-failure",
                          "output differs between two runs of the same input (%s)" % f["phase"],
                          f["detail"], f["input"])
    for kind, what, log in broken:
        detail = what + ("\nunclassified sites:\n  " + "\n  ".join(missing[:20]) if missing else "")
        if found:
            # the oracle failure above is the concrete input; name the broken obligation too
            res.violation(kind, what, detail + "\n" + log[-1500:], found_input=True,
                          replay_input=rep["failures"][0]["input"])
        else:
            res.violation(kind, what + " — C11_all_sites_classified / perm_invariant no longer cover the source"
                          if missing else what, detail + "\n" + log[-1500:], found_input=False)

    stale = []
    if inv is not None:
        table = open(os.path.join(common.LEAN, "BindgenModel", "Model", "Determinism.lean")).read()
        import re
        have = set(r["hash"] for r in inv["hashiter"]) | set(r["hash"] for r in inv["state"])
        for m in re.finditer(r"^\s*\((\d{6,}),", table, re.M):
            if int(m.group(1)) not in have:
                stale.append(int(m.group(1)))

    n_sites = (len(inv["hashiter"]) + len(inv["state"])) if inv else 0
    res.coverage.update({
        "obligations": lean["obligations"] + 1, "discharged": lean["discharged"] + (1 if ok and not missing else 0),
        "obligation_note": "theorems of props_index.json[C11] (axiom-audited) + 1 generated side-condition: every site of the regenerated Generated/Sites.lean (a)(b) has a class (C11_all_sites_classified, re-evaluated through the model driver)",
        "checker_cmd": "python3 translator/translate.py /repo lean/BindgenModel/Generated && lake build BindgenModel.Props.C11 bgmodel && lake env lean <#print axioms audit>" + (" && lake env leanchecker BindgenModel.Props.C11" if res.tier == "thorough" else ""),
        "theorems": lean["theorems"],
        "sites_inventoried": {"state": len(inv["state"]) if inv else 0, "hash_iteration": len(inv["hashiter"]) if inv else 0,
                              "files_scanned": len(inv["files"]) if inv else 0, "test_only_files_skipped": inv["test_only_files"] if inv else []},
        "site_classes": hist, "unclassified_sites": missing, "stale_classification_rows": stale,
        "model_executions": model_runs[0], "model_schedule_generations_finished": model_runs[1],
    })
    if rep:
        keep = {k: v for k, v in rep.items() if k not in ("failures",)}
        res.coverage.update({
            "evaluations": rep["evaluations"], "distinct_nontrivial": rep["distinct_nontrivial"],
            "rule": "evaluations = generations run by the real bindgen (in-process library with hooks, and CLI processes) and compared byte-for-byte with the baseline of the same input: bindings text or error value, callback notification sequence (in-process recorder), depfile and --wrap-static-fns source (CLI); distinct_nontrivial = distinct baseline outputs of cases that generated successfully with at least two items; %d site classifications checked" % n_sites,
            "samples": rep["samples"],
            "traces_validated_against_impl": rep["evaluations"],
            "disagreements_checked": len(rep["failures"]),
            "harness": keep,
        })
    else:
        res.coverage.update({"evaluations": model_runs[0], "distinct_nontrivial": 0, "rule": "harness did not run", "samples": []})
    res.assumptions += [
        "the process environment (variables, current directory, file system, rustc/clang binaries) is constant during a process: the write-once cells CURRENT_RUST / LIBCLANG / INVOKED_BY_BUILD_SCRIPT are initialised from it once (class writeOnceEnv); a program that changes $RUSTC between two generations of one process keeps the first value (C11_history_matters_if_init_depends_on_input is the model-level witness of that shape)",
        "CURRENT_RUST is compiled only without the `__cli` feature; the harness links bindgen with `__cli`, so that cell is classified and modelled but not executed",
        "iteration-order independence is exercised through the seeded Fx hasher hook for crate::HashMap/HashSet; the two std HashMaps (parsed_macros, includes) are lookup-only and are exercised only through separate processes (per-process RandomState)",
        "`find` over abi_overrides (ir/function.rs) is order dependent when two --override-abi sets with different ABIs match one function name (outside the hypothesis of C11_perm_invariant_partial); with the production FxHasher the order is a fixed function of the ABI values, so output is still reproducible; the harness shows the dependence under the seed hook (seed_hook_sensitivity_probe) and never generates such option sets elsewhere",
        "generations with --clang-macro-fallback are excluded from the concurrent phases (known finding macro_fallback_shared_scratch_files: scratch files with generation-independent names); they are still run under all seeds and in histories sequentially, and the dedicated probe re-observes the defect",
        "one libclang handle is shared by all threads of the process; thread interleavings are those the OS scheduler produced in this run (completion orders are recorded), not an exhaustive enumeration",
        "three cases out of four run with --no-include-path-detection (skips two clang subprocesses per generation); every comparison is between runs of the identical flag list",
    ]


def replay(path):
    d = json.load(open(path))
    print(json.dumps({k: d[k] for k in d if k != "input"}, indent=1)[:3000])
    inp = d.get("input")
    if isinstance(inp, str):
        try:
            inp = json.loads(inp)
        except Exception:
            inp = None
    if not inp:
        print("no concrete input in this replay file (broken obligation without a failing input)")
        return 0
    cases = []
    if inp.get("mode") == "history":
        for st in inp["history"]:
            cases.append((st["case"], [st["seed"]], st["cb"]))
    else:
        cases.append((inp["case"], inp.get("seeds") or [inp.get("seed")], inp.get("with_callbacks", inp.get("cb", False))))
    okh, _ = common.cargo_build_harness(["c11"])
    okc, _ = common.cargo_build_cli()
    work = tempfile.mkdtemp(prefix="bgverif_c11r_")
    try:
        for case, seeds, cbk in cases:
            header = case["header"]
            if case.get("text") is not None:
                header = os.path.join(work, os.path.basename(case["header"]))
                open(header, "w").write(case["text"])
            e = common.env_clean()
            rc, out = sh([common.harness_bin("c11"), "--tier", "quick", "--seed", "1", "--out", work, "--replay-case", header,
                          "\x1f".join(case["pre"]), "\x1f".join(case["clang"]),
                          ",".join("null" if s is None else str(s) for s in seeds), "1" if cbk else "0"], env=e, timeout=600)
            print("case", case["name"], "flags", case["pre"])
            print(out[-3000:])
    finally:
        shutil.rmtree(work, ignore_errors=True)
    return 0
