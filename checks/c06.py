"""C06 — embedded layout assertions are complete and state the C compiler's numbers."""
import json, os, shutil, tempfile
import common


def run(res):
    work = tempfile.mkdtemp(prefix="bgverif_c06_")
    try:
        _run(res, work)
    finally:
        shutil.rmtree(work, ignore_errors=True)


def _run(res, work):
    lean = common.lean_obligations("C06", res.tier)
    for f in lean["failures"]:
        res.violation("proof-obligation", f, lean["log"][-3000:], found_input=False)
    ok, log = common.cargo_build_harness(["c06"])
    if not ok:
        res.violation("machinery-error", "harness does not build against /repo's working tree", log[-3000:], found_input=False)
        return
    rc, out, rep = common.run_harness("c06", res, work)
    if rep is None:
        res.violation("machinery-error", "c06 harness produced no report (rc=%s)" % rc, out[-3000:], found_input=False)
        return
    issues = rep.get("issues", [])
    oracle_keys = {(i["target"], i["config"], i["comp"]) for i in issues if i["class"] == "oracle"}
    n = 0
    for i in issues:
        cls = i["class"]
        inp = {"header": i.get("header", ""), "target": i.get("target"), "config": i.get("config"), "record": i.get("comp")}
        if cls == "bindgen-failed":
            continue
        if n >= 5:
            break
        n += 1
        if cls == "oracle":
            res.violation("oracle-failure", "layout assertion missing, extra or with a number the C compiler does not compute [%s, %s] %s" % (i["target"], i["config"], i["comp"]), i["detail"], inp)
        elif cls == "correspondence":
            res.violation("correspondence", "Model/LayoutTests.lean no longer matches the layout_tests block of codegen [%s, %s] %s; C06_complete / C06_sound no longer speak about this code" % (i["target"], i["config"], i["comp"]),
                          i["detail"], inp, found_input=(i["target"], i["config"], i["comp"]) in oracle_keys)
        else:
            res.violation("machinery-error", "harness: %s" % cls, i["detail"], inp, found_input=False)
    failed = rep.get("bindgen_errors", 0)
    if failed > max(3, rep.get("runs", 0) // 5):
        res.violation("machinery-error", "too many generated headers were rejected (%d of %d runs)" % (failed, rep.get("runs", 0)), "", found_input=False)
    res.coverage.update({
        "obligations": lean["obligations"], "discharged": lean["discharged"], "theorems": lean["theorems"],
        "checker_cmd": "lake build BindgenModel.Props.C06 bgmodel && lake env lean <#print axioms audit>" + (" && lake env leanchecker BindgenModel.Props.C06" if res.tier == "thorough" else ""),
        "evaluations": rep.get("comps", 0) + rep.get("inst_items", 0),
        "distinct_nontrivial": rep.get("distinct_requests", 0),
        "rule": "evaluations = records (per target x rust-target side x namespace setting) whose assertion item was compared with the model + instantiation assertion items; distinct_nontrivial = distinct model requests (option bits, template/forward/opaque flags, layout, per-field named/offset facts); every compared record has a size, an alignment and usually several offset assertions",
        "samples": rep.get("samples") or [{"note": "no sample recorded"}],
        "bindgen_runs": rep.get("runs", 0), "assertion_items_compared": rep.get("items_compared", 0), "assertions_compared": rep.get("asserts_compared", 0),
        "numbers_checked_against_clang": rep.get("oracle_values", 0), "no_layout_tests_runs": rep.get("nolayout_runs", 0),
        "instantiation_items": rep.get("inst_items", 0), "by_target": rep.get("by_target", {}), "by_form": rep.get("by_form", {}),
        "records_without_assertion": rep.get("none_reasons", {}), "issues_by_class": rep.get("issues_by_class", {}),
        "traces_validated_against_impl": rep.get("comps", 0), "disagreements_checked": rep.get("issues_by_class", {}).get("correspondence", 0),
    })
    res.assumptions += [
        "the numbers libclang reports for --target=T are compared with clang --target=T as a compiler (same LLVM 14 installation); no other C compiler is available in the sandbox",
        "assertions are compared as parsed items (message text, number, form, order); for targets other than the host they are not executed (no cross std / linker), the host ones are compiled by C02",
        "whether the asserted type really has the asserted layout in Rust is C02's subject",
    ]


def replay(path):
    d = json.load(open(path))
    print(json.dumps(d, indent=1)[:6000])
    return 0
