"""C04 — functions and globals bind the right symbol with a call-compatible signature (partial)."""
import json, os, shutil, tempfile
import common

REGION_IDS = ("link_name_omitted_after_rename", "long_double_by_value")


def run(res):
    work = tempfile.mkdtemp(prefix="bgverif_c04_")
    try:
        _run(res, work)
    finally:
        shutil.rmtree(work, ignore_errors=True)


def _run(res, work):
    ok, tlog = common.regen_tables("C04")
    lean = common.lean_obligations("C04", res.tier)
    broken = []
    if not ok:
        broken.append("translator: " + tlog)
    broken += lean["failures"]
    okb, blog = common.cargo_build_harness(["c04"])
    if not okb:
        res.violation("machinery-error", "harness does not build against /repo's working tree", blog[-3000:], found_input=False)
        return
    rc, out, rep = common.run_harness("c04", res, work, timeout=3300)
    if rep is None:
        res.violation("machinery-error", "c04 harness produced no report (rc=%d)" % rc, out[-3000:], found_input=False)
        return
    fails = rep.get("failures", [])
    oracle = [f for f in fails if f["kind"] == "oracle"]
    corr = [f for f in fails if f["kind"] == "correspondence"]
    # implementation-vs-oracle failures: concrete failing inputs
    seen = set()
    for f in oracle:
        if f["class"] in seen:
            continue
        seen.add(f["class"])
        res.violation("oracle-failure", "C04 oracle (%s): %s" % (f["class"], f["detail"][:300]), f["detail"],
                      {"case": f["case"], "seed": res.seed, "tier": res.tier, "class": f["class"]}, found_input=True)
    # model-vs-implementation disagreements and broken obligations: the search is the oracle run above
    if corr and not oracle:
        f = corr[0]
        res.violation("correspondence", "Model/{Link,Lower}.lean no longer match the implementation (class %s): the C04 theorems no longer speak about this code" % f["class"],
                      f["detail"], {"case": f["case"], "seed": res.seed, "request": f["case"]}, found_input=False)
    elif corr:
        res.coverage["correspondence_disagreements"] = [f["class"] + ": " + f["detail"][:200] for f in corr[:5]]
    for b in broken:
        if oracle:
            res.coverage.setdefault("broken_obligations", []).append(b[:300])
        else:
            res.violation("proof-obligation" if not b.startswith("translator") else "translator", b[:400], lean["log"][-3000:], found_input=False)
    ids = {f["id"] for f in common.known_findings("C04")}
    for k in rep.get("known", []):
        rid = k["what"].split(":")[0].split(" ")[0]
        if rid in ids:
            res.known(k["what"])
        else:
            res.violation("oracle-failure", "defect outside every listed region: " + k["what"][:200], k["what"], {"seed": res.seed}, found_input=True)
    c = rep.get("counters", {})
    evaluations = sum(c.get(k, 0) for k in ("ni_triples", "calls_checked", "globals_checked", "inventory_items_compared",
                                               "lowered_types_compared", "target_symbols_checked", "nm_symbols_checked",
                                               "noreturn_calls_checked", "inline_calls_checked", "probes", "cpp_calls_checked", "cpp_symbols_checked"))
    res.coverage.update({
        "obligations": lean["obligations"], "discharged": lean["discharged"],
        "checker_cmd": "python3 translator/translate.py /repo lean/BindgenModel/Generated && lake build BindgenModel.Props.C04 bgmodel && lake env lean <#print axioms audit>" + (" && lake env leanchecker BindgenModel.Props.C04" if res.tier == "thorough" else ""),
        "theorems": lean["theorems"],
        "evaluations": evaluations,
        "distinct_nontrivial": rep.get("distinct_nontrivial", 0),
        "rule": "distinct = distinct classes over: (calling convention x near-miss class x answer) of names_identical triples; lowered-type shape classes (constructor skeleton of the model's answer, per parameter / return position); link-attribute kinds seen at link time (none / raw); ABI decisions; (target family x extern ABI x attribute kind) of symbol-text checks; global (const x array) kinds. Every counted case is non-trivial: it is a generated declaration that went through the real bindgen and was compared with the model and/or executed.",
        "samples": rep.get("samples", [])[:8],
        "traces_validated_against_impl": c.get("ni_triples", 0) + c.get("inventory_items_compared", 0) + c.get("lowered_types_compared", 0),
        "disagreements_checked": len(corr),
        "input_distribution": c,
        "distinct_classes": rep.get("distinct_classes", [])[:120],
        "translator": tlog,
    })
    res.assumptions += [
        "host is x86_64 ELF (Linux): linked executables exercise the SysV ABI only; Mach-O / 32-bit Windows / Win64 are checked at symbol-text level (bindgen --target + model + `clang -S` symbols), nothing is linked there",
        "oracle toolchain: clang 14 (C side) and rustc 1.95 (Rust side); clang 14 (LLVM < 18) splits a 128-bit integer argument between the last free register and the stack, so by-value 128-bit integers are generated in the first parameter position only; 128-bit integers inside structs are not generated (bindgen's explicit padding before a 16-aligned member breaks its own layout assertion: recorded under C01/C02)",
        "rustc's / LLVM's ABI lowering and symbol mangler, libclang's mangler and the libclang-facing parser are outside the model; the link-and-run oracle and the `clang -S` symbol comparison are what ties them in",
        "the calling convention clang reported is not in the IR dump (hooks-needed/C04.diff); the harness supplies it from the generator's ground truth",
    ]


def replay(path):
    d = json.load(open(path))
    print(json.dumps(d, indent=1)[:6000])
    inp = d.get("input") or {}
    if isinstance(inp, dict) and str(inp.get("request", "")).startswith("c04 "):
        print("model now answers:", common.run_model([inp["request"]]))
    elif isinstance(inp, dict) and "seed" in inp:
        print("re-run with: VERIF_SEED=%s ./check C04 %s   (case %s; set C04_KEEP=<dir> to keep the failing library)" % (inp.get("seed"), inp.get("tier", "quick"), inp.get("case")))
    return 0
