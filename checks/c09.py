"""C09 — allow-listing yields a self-contained, minimal, consistent subset."""
import json, os, shutil, tempfile
import common

KNOWN_TEXT = {
    "vtable_types_without_methods": "vtable_types_without_methods: with --vtable-generation and a --generate list without `methods` the emitted `<Class>__bindgen_vtable` struct names the parameter / return types of the virtual methods, but the Method edges that lead to them are not followed (codegen_edges: Method => methods()), so the allow-listed output does not compile on its own",
    "synthetic_names_match": "synthetic_names_match: an allow-list type/item pattern also matches the synthetic name of an unnamed type item (ptr_struct_S, _bindgen_ty_id_N), making it a root, so declarations nothing allow-listed needs are emitted (e.g. --allowlist-type '[^n].*' emits struct nU); implementation sets equal the model's prediction",
    "blocklist_file_hides_namespace": "blocklist_file_hides_namespace: --blocklist-file blocklists the namespace item first opened in that file, so allow-listed declarations of the same namespace made in other files are not generated",
    "anon_type_renumbered": "anon_type_renumbered: an anonymous type is numbered _bindgen_ty_N by the order in which names are first requested, which the allow-list root filter changes; the allow-listed item differs from the full bindings only in that number",
}


def run(res):
    work = tempfile.mkdtemp(prefix="bgverif_c09_")
    try:
        _run(res, work)
    finally:
        shutil.rmtree(work, ignore_errors=True)


def search_hint(res, what):
    """The harness run below *is* the failing-input search (its oracles run on every case);
    used when the Lean side / translator is what broke."""
    return what


def _run(res, work):
    ok, tlog = common.regen_tables("C09")
    translator_broken = not ok
    lean = common.lean_obligations("C09", res.tier)
    ok_h, hlog = common.cargo_build_harness(["c09"])
    ok_c, clog = common.cargo_build_cli()
    rep = None
    if ok_h and ok_c and os.path.exists(common.bgmodel_path()):
        rc, out, rep = common.run_harness("c09", res, work, timeout=3400)
        if rep is None:
            res.violation("machinery-error", "harness c09 produced no report", out[-3000:], found_input=False)
            return
    elif not (ok_h and ok_c):
        res.violation("correspondence", "harness / bindgen no longer builds against /repo (hooks on)", (hlog + clog)[-3000:], found_input=False)
        return

    oracle_fail = [f for f in (rep or {}).get("failures", []) if f["kind"].startswith("oracle")]
    corr_fail = [f for f in (rep or {}).get("failures", []) if f["kind"] in ("correspondence", "regex")]

    # implementation-vs-oracle failures: always violations with the failing input
    for f in oracle_fail[:3]:
        res.violation("oracle-failure", f["kind"], f["detail"], f["input"], found_input=True)
    # model-vs-implementation disagreements
    for f in corr_fail[:3]:
        broken = ("Model/Reach.lean (compute_allowlisted_and_codegen_items) no longer matches the implementation: C09_dfs_eq_reach / C09_closure / C09_minimal no longer speak about this code"
                  if f["kind"] == "correspondence" else
                  "Model/Regex.lean disagrees with the regex crate: C09_anchored_whole_name no longer describes RegexSet::matches")
        res.violation("correspondence", broken, f["detail"], f["input"], found_input=bool(oracle_fail))
    # broken proof obligations / translator: the oracle run above was the search
    if translator_broken:
        first = oracle_fail[0]["input"] if oracle_fail else None
        res.violation("translator", "Generated/ReachTables.lean or AnalysisTables.lean could not be regenerated from ir/traversal.rs / ir/item.rs / lib.rs", tlog[-3000:], first, found_input=bool(oracle_fail))
    for f in lean["failures"]:
        first = oracle_fail[0]["input"] if oracle_fail else (corr_fail[0]["input"] if corr_fail else None)
        res.violation("proof-obligation", f, lean["log"][-3000:], first, found_input=bool(oracle_fail))

    if rep:
        for kid, k in rep.get("known", {}).items():
            if kid in KNOWN_TEXT and any(f["id"] == kid for f in common.known_findings("C09")):
                res.known(KNOWN_TEXT[kid] + " (%d cases this run)" % k["count"])
            else:
                res.violation("oracle-failure", "unlisted finding class " + kid, k["witness"], None, found_input=True)
        evaluations = rep["model_compared"] + rep["rx_pairs"]
        res.coverage.update({
            "obligations": lean["obligations"], "discharged": lean["discharged"],
            "checker_cmd": "translator/translate.py && lake build BindgenModel.Props.C09 bgmodel && lake env lean <#print axioms audit>" + (" && lake env leanchecker BindgenModel.Props.C09" if res.tier == "thorough" else ""),
            "theorems": lean["theorems"],
            "evaluations": evaluations,
            "distinct_nontrivial": rep["distinct_set_pairs"],
            "rule": "distinct = number of distinct (allowlisted set, codegen_items set) pairs on which model and implementation agreed exactly; evaluations = bindgen runs whose dumped allowlisted/codegen_items sets were compared with `bgmodel reach` (generated C/C++ declaration graphs x pattern sets of the five allow-list kinds, --no-recursive-allowlist, --generate subsets, simultaneous blocklists, plus repository headers) + (pattern, name) pairs compared with the regex crate; non-trivial runs = allow-list given and codegen_items a proper non-empty subset of the items",
            "samples": rep["samples"] or ["%d runs compared" % rep["model_compared"]],
            "traces_validated_against_impl": rep["model_compared"],
            "disagreements_checked": rep["corr_disagree"],
            "nontrivial_runs": rep["nontrivial_runs"],
            "graphs": rep["graphs"], "runs": rep["runs"], "generation_failed": rep["gen_failed"],
            "model_unsupported_patterns": rep["model_unsupported"],
            "regex_pairs": rep["rx_pairs"], "regex_pairs_matching": rep["rx_match_true"],
            "regex_pairs_where_anchoring_matters": rep["rx_anchor_differs_from_search"],
            "oracle_minimality_runs": rep["minimal_checked"], "oracle_roots_emitted_runs": rep["roots_checked"],
            "oracle_consistency_runs": rep["consistent_checked"], "oracle_consistency_items": rep["consistent_items"],
            "oracle_closure_rustc_compiled": rep["closure_compiled"], "oracle_closure_baseline_broken": rep["closure_baseline_broken"],
            "repo_headers_run": rep["repo_headers"], "repo_headers_compared": rep["repo_compared"], "repo_headers_skipped": rep["repo_skipped"],
            "input_distribution": rep["hist"],
            "known_finding_cases": {k: v["count"] for k, v in rep.get("known", {}).items()},
            "translator": tlog,
        })
    res.assumptions += [
        "IR dump (items, Trace edges, flags) is taken as the input of the model: the libclang-facing parser is not modelled",
        "`annotations().use_instead_of()` is not in the dump: assumed false; repository headers using `rustbindgen replaces` are skipped (hooks-needed/C09.diff)",
        "is_blocklisted is an input of the C09 model (dump flag); it is modelled from names and patterns in C10",
        "regex syntax accepted/rejected by the regex crate is taken from the crate (pattern validity flag); the model parses literals, classes, ., *, +, ?, {m,n}, |, groups, \\d \\w \\s",
        "consistency oracle (per-item token equality with the full run) is applied in recursive mode only; with --no-recursive-allowlist derives legitimately change",
    ]


def replay(path):
    d = json.load(open(path))
    print(json.dumps({k: v for k, v in d.items() if k != "input"}, indent=1))
    inp = d.get("input") or {}
    if "main_h" in inp:
        work = tempfile.mkdtemp(prefix="bgverif_c09r_")
        try:
            open(os.path.join(work, "main.h"), "w").write(inp["main_h"])
            open(os.path.join(work, "inc.h"), "w").write(inp["inc_h"])
            open(os.path.join(work, "flags.txt"), "w").write("\n".join(inp["flags"]) + "\n")
            open(os.path.join(work, "cxx"), "w").write("1" if inp.get("cxx") else "0")
            e = common.env_clean()
            rc, out = common.sh([common.harness_bin("c09"), "--case-dir", work], env=e, timeout=600)
            print(out[:20000])
        finally:
            shutil.rmtree(work, ignore_errors=True)
    elif "pattern" in inp:
        import binascii
        h = lambda s: binascii.hexlify(s.encode()).decode() or "%"
        print("model now answers:", common.run_model(["reach rx %s %s" % (h(inp["pattern"]), h(inp["name"]))]))
    else:
        print("input:", json.dumps(inp)[:2000])
    return 0
