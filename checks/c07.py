"""C07 — inferred type facts are the least fixed point; declaration order is irrelevant."""
import json, os, shutil, tempfile
import common


def run(res):
    work = tempfile.mkdtemp(prefix="bgverif_c07_")
    try:
        regen = common.regen_tables("C07")
        lean = common.lean_obligations("C07", res.tier)
        ok, log = common.cargo_build_harness(["c07"])
        if not ok:
            res.violation("machinery-error", "harness does not build against /repo", log[-3000:], found_input=False)
            return
        rc, out, rep = common.run_harness("c07", res, work)
        common.conclude(res, lean, regen, rep, out)
        common.proof_coverage(res, lean, "C07")
        if rep:
            res.coverage.update({
                "evaluations": rep["evaluations"], "distinct_nontrivial": rep["distinct_nontrivial"],
                "rule": "one evaluation = one real bindgen generation with the IR dump and the post-convergence sweep hook on; "
                        "pool A = repository headers with their own flag lines (quick: 150 sampled, thorough: all), pool B = generated C++ declaration graphs "
                        "(inheritance chains/diamonds, virtual methods, destructors, typedef chains, templates with used/unused parameters instantiated with "
                        "each other, arrays beyond 32, >12-argument function pointers, bit-fields, unions, opaque and blocklisted members, allowlist cuts) "
                        "each emitted in 2 (quick) / 4 (thorough) topological declaration orders; for every generation the Lean model recomputes all eleven "
                        "analyses from the dumped graph under three schedules and must equal the dumped answers; non-trivial = the real analyses produced "
                        "at least one non-bottom fact; distinct = distinct (types, edges, facts) dumps",
                "samples": rep["samples"],
                "traces_validated_against_impl": rep["analyses_recomputed_equal"],
                "disagreements_checked": len(rep["correspondence_failures"]),
                "facts_nonbottom": rep["facts_nonbot"],
                "reorder_pairs_compared": rep["reorder_pairs"],
                "unstable_nodes_logged_not_consulted": rep["unstable_nodes_logged"],
                "graphs_with_uncovered_reads": rep["uncovered_graphs"],
                "graphs_schedule_dependent_in_model": rep["schedule_dependent_graphs"],
                "generation_errors": rep["generation_errors"], "generation_panics": rep["generation_panics"],
            })
        res.assumptions += [
            "used_template_params is modelled as Horn clauses over the facts 'item n uses parameter p' (an Instance over item x parameter pairs, so instance_lawful applies to the model); the real analysis works on whole sets per item with its own dependency map: that it reaches the same least solution is shown by the recomputation correspondence, the hook and the re-ordering experiment, not by a theorem about its dependency map",
            "stability of a concrete graph needs the decidable condition readsCovered; graphs where it fails (typerefs named like stdint types, which Trace skips) are counted in graphs_with_uncovered_reads — their unstable facts are reported by the hook and are violations only when code generation consults them",
            "libclang supplies the graph; the IR dump is trusted to print it faithfully",
        ]
    finally:
        shutil.rmtree(work, ignore_errors=True)


def replay(path):
    d = json.load(open(path))
    print(json.dumps({k: v for k, v in d.items() if k != "input"}, indent=1))
    inp = d.get("input") or {}
    work = tempfile.mkdtemp(prefix="bgverif_c07r_")
    try:
        for key in ("header", "header_a", "header_b"):
            if inp.get(key):
                h = os.path.join(work, key + ".hpp")
                open(h, "w").write(inp[key])
                log = os.path.join(work, key + ".vlog")
                e = common.env_clean(); e["BINDGEN_VERIF_LOG"] = log
                common.cargo_build_cli()
                flags = inp.get("flags", "").split()
                rc, out = common.sh([common.bindgen_cli(), h] + flags, env=e)
                print("== %s: rc=%d" % (key, rc))
                if os.path.exists(log):
                    for l in open(log):
                        if l.startswith(("unstable", "FIXPOINT")):
                            print(l.rstrip())
    finally:
        shutil.rmtree(work, ignore_errors=True)
    return 0
