"""C08 — traits derived exactly when the rules allow; hand-written impls act like derives."""
import json, os, shutil, tempfile
import common


def run(res):
    work = tempfile.mkdtemp(prefix="bgverif_c08_")
    try:
        regen = common.regen_tables("C08")
        lean = common.lean_obligations("C08", res.tier)
        ok, log = common.cargo_build_harness(["c08"])
        if not ok:
            res.violation("machinery-error", "harness does not build against /repo", log[-3000:], found_input=False)
            return
        rc, out, rep = common.run_harness("c08", res, work)
        if rep:
            listed = {f["id"]: f for f in common.known_findings("C08")}
            for region, n in sorted(rep.get("known_region_hits", {}).items()):
                if region.startswith("("):
                    continue
                if region in listed:
                    res.known("%s: %s (%d rustc errors in this run, each inside the region)" % (region, listed[region]["what_fails"], n))
                else:
                    rep.setdefault("oracle_failures", []).append({"class": "unlisted-region", "region": region})
        if rep:
            # the model of derives_of_item *is* the rule set (theorems derive_requires_* / derive_complete):
            # a type whose real derive list or hand-written impls differ from it on a concrete header is a
            # concrete failing input for "exactly when the rules allow"
            for c in rep.get("correspondence_failures", []):
                c = dict(c); c["class"] = "derive-list-differs-from-rules"
                rep["oracle_failures"].append(c)
            rep["correspondence_failures_as_oracle"] = len(rep.get("correspondence_failures", []))
            rep["correspondence_failures"] = []
        common.conclude(res, lean, regen, rep, out)
        common.proof_coverage(res, lean, "C08")
        if rep:
            res.coverage.update({
                "evaluations": rep["evaluations"], "distinct_nontrivial": rep["distinct_nontrivial"],
                "rule": "one evaluation = one real generation (generated C++ type graph x random derive/impl/no-*/opaque/blocklist/allowlist options, packed and union variants); "
                        "for every emitted struct/union the derive list and the hand-written impls (syn) must equal derives_of_item/needs_*_impl of the Lean model fed by the "
                        "model's own ten analyses on the dumped IR; rustc must accept the bindings (every rejection must fall in a listed known-finding region); hand-written "
                        "Default/PartialEq/Debug impls are executed; distinct = distinct (derive set, impl set, packed, derive options) tuples, all non-trivial",
                "samples": rep["samples"],
                "types_compared": rep["types_compared"], "traces_validated_against_impl": rep["types_compared"],
                "disagreements_checked": rep.get("correspondence_failures_as_oracle", 0),
                "rustc_runs": rep["rustc_runs"], "behaviour_runs": rep["behaviour_runs"],
                "derive_histogram": rep["derive_histogram"], "manual_impl_histogram": rep["manual_impl_histogram"],
                "known_region_hits": rep.get("known_region_hits", {}),
                "generation_failures": rep["generation_failures"],
            })
        res.assumptions += [
            "rustc's trait solver is the soundness oracle for emitted derives and impls; what rustc provides for primitives is not modelled separately",
            "completeness ('never withheld') is relative to the derive rules as modelled (rule tables regenerated from derive.rs); bodies of gen_debug_impl/gen_partialeq_impl are exercised, not modelled",
            "padding bytes of Default::default() are not observed (a move does not preserve padding)",
        ]
    finally:
        shutil.rmtree(work, ignore_errors=True)


def replay(path):
    d = json.load(open(path))
    print(json.dumps({k: v for k, v in d.items() if k != "input"}, indent=1))
    inp = d.get("input") or {}
    if inp.get("header"):
        work = tempfile.mkdtemp(prefix="bgverif_c08r_")
        try:
            h = os.path.join(work, "replay.hpp"); open(h, "w").write(inp["header"])
            common.cargo_build_cli()
            rc, out = common.sh([common.bindgen_cli(), h] + inp.get("flags", "").split() + ["--", "-x", "c++", "-std=c++14"])
            rs = os.path.join(work, "replay.rs"); open(rs, "w").write("#![allow(warnings)]\n" + out)
            rc2, out2 = common.sh(["rustc", "--edition", "2021", "--crate-type", "lib", "--emit", "metadata", "-o", os.path.join(work, "r.rmeta"), rs])
            print("bindgen rc=%d, rustc rc=%d" % (rc, rc2)); print(out2[-3000:])
        finally:
            shutil.rmtree(work, ignore_errors=True)
    return 0
