"""C05 — constants carry the C compiler's value in a type that can hold it."""
import json, os, shutil, tempfile
import common

REGIONS = {
    # region id -> what the KNOWN-FINDING line says
    "macro_unsigned_wrap": "macro_unsigned_wrap: a macro whose body has a literal/intermediate of unsigned C type is evaluated by cexpr in wrapping i64 (e.g. 0xFFFFFFFFFFFFFFFF, (-1u), (~0u) -> i32 = -1; C: 18446744073709551615, 4294967295); every observed wrong value equals the model's prediction",
    "macro_char_sign": "macro_char_sign: a character-literal macro with code >= 128 ('\\xff') is emitted as u8 = 255 while C's (signed) char constant is -1; equals the model's prediction",
    "macro_redefinition": "macro_redefinition: macros are evaluated eagerly at their definition and only the first definition is emitted (#define X 1 / #define Y (X+10) / #undef X / #define X 2 -> X = 1, Y = 11; C at the end of the header: 2, 12); equals the model's prediction",
    "macro_float_suffix": "macro_float_suffix: the f/l suffix of a floating literal is ignored (1.1f -> f64 1.1; C: (float)1.1 = 1.10000002384185791015625); equals the model's prediction",
    "macro_wide_string": "macro_wide_string: L\"..\"/u\"..\"/U\"..\" string macros are emitted as narrow byte strings; equals the model's prediction",
    "macro_open_reference": "macro_open_reference: a macro referencing a macro whose body is an unparenthesised binary/?: expression gets the value-substituted result (#define A 1+2 / #define B (A*3) -> B = 9; C: 1+2*3 = 7); equals the model's prediction",
    "macro_fallback_unsigned_wrap": "macro_fallback_unsigned_wrap: with --clang-macro-fallback an unsigned value >= 2^63 is carried as i64 and emitted negative (((unsigned long long)-1) -> i32 = -1); equals the model's prediction",
    "enum_bool_translated": "enum_bool_translated: enum with underlying type bool under --translate-enum-integer-types and a non-Rust style gets repr u8 but bool literals (pub struct E(pub u8); E(false)) -> rustc rejects; equals the model's prediction",
    "wchar_treated_unsigned": "wchar_treated_unsigned: wchar_t (signed int on this target) is treated as unsigned: const wchar_t w = -1 -> `u32 = 18446744073709551615` (rustc rejects), enum E : wchar_t { A = -1 } -> u32 4294967295; equals the model's prediction",
    "template_nested_enum_zero": "template_nested_enum_zero: enumerators of an enum nested in a class template are all emitted as 0 (template<typename T> struct W5 { enum Inner { kW5a = 3, kW5b = 7, kW5c = -2 }; }; -> W5_Inner_kW5a = 0, ...); C++ computes 3, 7, -2",
    "function_like_macro_as_constant": "function_like_macro_as_constant: `#define kFL1 1` / `#define kFLK(kFL1) +2` is emitted as `pub const kFLK: u32 = 3` (the token list is read as an object-like definition); `kFLK` alone has no value in C",
    "constvar_long_double": "constvar_long_double: const long double x = 1.5L -> `pub const x: u128 = 1.5;` (rustc rejects); equals the model's prediction",
}


def run(res):
    work = tempfile.mkdtemp(prefix="bgverif_c05_")
    try:
        _run(res, work)
    finally:
        shutil.rmtree(work, ignore_errors=True)


def _run(res, work):
    pending = []   # (kind, broken, detail): reported after the search
    ok, tlog = common.regen_tables("C05")
    if not ok:
        pending.append(("translator", "translator/extract/macrokinds.py: default_macro_constant_type / enum repr ladder no longer has the extracted shape", tlog))
    lean = common.lean_obligations("C05", res.tier)
    for f in lean["failures"]:
        pending.append(("proof-obligation", f, lean["log"][-3000:]))
    model_ok, mlog = common.lake_build(["bgmodel"])
    okb, blog = common.cargo_build_harness(["c05"])
    if not okb:
        res.violation("machinery-error", "harness does not build against /repo", blog[-3000:], found_input=False)
        return
    extra = [] if model_ok else ["--oracle-only"]
    rc, out, rep = common.run_harness("c05", res, work, extra_args=extra, timeout=3000)
    if rep is None:
        res.violation("machinery-error", "harness produced no report (rc=%d)" % rc, out[-3000:], found_input=False)
        return
    known_ids = {f["id"] for f in common.known_findings("C05")}

    found = False
    for f in rep["oracle_failures"][:3]:
        found = True
        res.violation("oracle-failure", "emitted constant differs from the C compiler's value outside every known region (or rustc rejects the emitted constant)",
                      "implementation != C compiler", f)
    for rid, info in rep["known"].items():
        if rid in known_ids and rid in REGIONS:
            res.known(REGIONS[rid])
        else:
            found = True
            res.violation("oracle-failure", "mismatch in region %s which is not a listed known finding" % rid, "implementation != C compiler", info["sample"])
    classes = (("correspondence_failures", "Model/CExpr.lean + Model/ConstEmit.lean (cexprTop/processDefs/emitMacro/emitEnum/emitVarInt) no longer predict bindgen's output; theorems of Props/C05.lean no longer speak about this code"),
               ("cmodel_failures", "Model/CExpr.lean cEval (the C specification) disagrees with clang"),
               ("region_failures", "region predicates of Model/CRegions.lean and harness/src/c05gen.rs differ"))
    for key, broken in classes:
        if rep[key]:
            res.violation("correspondence", broken, "model != implementation", rep[key][0], found_input=False if not found else True)
    for m in rep["machinery"][:3]:
        res.violation("machinery-error", "probe failed", m[:3000], found_input=False)
    for kind, broken, detail in pending:
        # the search is the oracle run above (boundary literals under every option set, rustc as judge)
        first = rep["oracle_failures"][0] if rep["oracle_failures"] else None
        res.violation(kind, broken, detail, first, found_input=first is not None)

    c = rep["counts"]
    res.coverage.update({
        "obligations": lean["obligations"], "discharged": lean["discharged"],
        "checker_cmd": "python3 translator/translate.py /repo lean/BindgenModel/Generated && lake build BindgenModel.Props.C05 bgmodel && lake env lean <#print axioms audit>" + (" && lake env leanchecker BindgenModel.Props.C05" if res.tier == "thorough" else ""),
        "theorems": lean["theorems"],
        "evaluations": c.get("oracle_compared", 0) + c.get("correspondence_compared", 0) + c.get("c_model_vs_clang_compared", 0),
        "distinct_nontrivial": rep["distinct_nontrivial"],
        "rule": "macro headers: bodies drawn from the typed grammar (dec/hex/oct/bin literals with u/l/ll suffixes, char/string literals with escapes and prefixes, floats, unary + - ~ !, all binary operators, ?:, casts, sizeof, parentheses, references to earlier macros, redefinitions), filtered by the C model to those with a defined C value; each header is run under {signed,unsigned} x {fit,no fit} and with --clang-macro-fallback; enums: explicit/implicit/negative/duplicate/64-bit values, fixed underlying types (C++), anonymous and scoped, x 7 styles x translate x prepend; const variables of every scalar type with boundary/converted initializers. distinct_nontrivial = number of distinct macro bodies + distinct enum declarations + distinct variable declarations generated (every one defines at least one constant); evaluations = emitted-constant-vs-clang comparisons + emitted-vs-model comparisons + C-model-vs-clang comparisons",
        "samples": rep["samples"],
        "traces_validated_against_impl": c.get("correspondence_compared", 0),
        "disagreements_checked": len(rep["correspondence_failures"]) + len(rep["cmodel_failures"]) + len(rep["region_failures"]),
        "oracle_comparisons": c.get("oracle_compared", 0),
        "oracle_mismatches_in_known_regions": c.get("oracle_mismatch_in_known_region", 0),
        "known_region_hits": {k: v["hits"] for k, v in rep["known"].items()},
        "counts": c,
        "constructor_kinds": rep["constructor_kinds"],
        "model_available": model_ok,
    })
    res.assumptions += [
        "target x86_64-unknown-linux-gnu (LP64, plain char signed); clang 14 is the C compiler that judges values; rustc judges whether a type can hold a literal",
        "expressions with undefined behaviour in C (signed overflow, bad shifts, division by zero) have no C value and are not generated; integer division by zero makes cexpr panic inside a libclang callback (process abort) - that is property C12's subject",
        "macro bodies whose top-level operator is binary/?: are always parenthesised when they are referenced by other macros (textual re-association after expansion is outside the C model)",
        "long double arithmetic is not modelled; L-suffixed literals are compared after conversion to double",
    ]


def replay(path):
    d = json.load(open(path))
    print(json.dumps(d, indent=1))
    inp = d.get("input") or {}
    hdr = inp.get("header") or inp.get("enum") or inp.get("declaration")
    if not hdr:
        return 0
    work = tempfile.mkdtemp(prefix="bgverif_c05_replay_")
    try:
        cxx = "class " in hdr or " : " in hdr.split("{")[0]
        h = os.path.join(work, "r.hpp" if cxx else "r.h")
        open(h, "w").write(hdr)
        common.cargo_build_cli()
        flags = []
        opt = inp.get("options", "")
        if "sg1" in opt: flags += ["--default-macro-constant-type", "signed"]
        if "fit1" in opt: flags += ["--fit-macro-constant-types"]
        if "fb1" in opt: flags += ["--clang-macro-fallback"]
        for st in ("rust_non_exhaustive", "newtype_global", "moduleconsts", "consts", "newtype", "bitfield", "rust"):
            if opt.startswith(st + "_"):
                flags += ["--default-enum-style", st]
                tail = opt[len(st) + 1:]
                if tail.startswith("t"): flags.append("--translate-enum-integer-types")
                if tail.endswith("n"): flags.append("--no-prepend-enum-name")
                break
        rc, out = common.sh([common.bindgen_cli(), h, "--no-layout-tests"] + flags + (["--", "-x", "c++", "-std=c++14"] if cxx else []), cwd=work)
        print("--- header\n" + hdr)
        print("--- bindgen %s (rc=%d)\n%s" % (" ".join(flags), rc, out))
        print("--- recorded C value: %s" % inp.get("c_value"))
    finally:
        shutil.rmtree(work, ignore_errors=True)
    return 0
