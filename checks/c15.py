"""C15 — formatter choice changes only whitespace; formatter failure is not fatal."""
import json, os, shutil, tempfile
import common
from common import sh

FINDING_ID = "formatter_trailing_comma"
KNOWN_TEXT = ("formatter_trailing_comma: rustfmt and prettyplease add a trailing comma when they break a parameter list over "
              "several lines, so their output does not tokenise to the token sequence of the unformatted text; every difference "
              "observed disappears after deleting commas that directly precede a closing delimiter")


def name_obligations(prop_file, text):
    """Replace `Props/Cxx.lean:LINE:` references by the enclosing theorem names."""
    import re
    try:
        lines = open(os.path.join(common.LEAN, "BindgenModel", "Props", prop_file)).read().splitlines()
    except OSError:
        return text
    names = []
    for m in re.finditer(re.escape(prop_file) + r":(\d+):", text):
        n = int(m.group(1))
        for i in range(min(n, len(lines)) - 1, -1, -1):
            mm = re.match(r"(?:theorem|example|def)\s+(\w+)", lines[i])
            if mm:
                if mm.group(1) not in names:
                    names.append(mm.group(1))
                break
    return ("broken: " + ", ".join(names) + " -- " + text) if names else text


def run(res):
    work = tempfile.mkdtemp(prefix="bgverif_c15_")
    try:
        _run(res, work)
    finally:
        shutil.rmtree(work, ignore_errors=True)


def _run(res, work):
    pending = []
    ok, tlog = common.regen_tables("C15")
    if not ok:
        pending.append(("translator", "Generated/FormatTriage.lean can no longer be extracted from bindgen/lib.rs (format_tokens / write changed form)", tlog[-3000:]))
    lean = common.lean_obligations("C15", res.tier)
    for f in lean["failures"]:
        pending.append(("proof-obligation", name_obligations("C15.lean", f), lean["log"][-3000:]))
    ok, blog = common.cargo_build_harness(["c15"])
    if not ok:
        res.violation("correspondence", "harness no longer builds against /repo (Builder::formatter/with_rustfmt/rustfmt_configuration_file or Bindings::write API changed)",
                      blog[-3000:], found_input=False)
        for k, b, d in pending:
            res.violation(k, b, d, found_input=False)
        return
    rc, out, rep = common.run_harness("c15", res, work, timeout=3600)
    if rep is None:
        res.violation("machinery-error", "c15 harness produced no report (rc=%d)" % rc, out[-3000:], found_input=False)
        for k, b, d in pending:
            res.violation(k, b, d, found_input=False)
        return
    listed = any(f["id"] == FINDING_ID for f in common.known_findings("C15"))
    known = [f for f in rep["failures"] if f["kind"] == "tokens-trailing-comma" and listed]
    bad = [f for f in rep["failures"] if f not in known]
    if known:
        res.known(KNOWN_TEXT)
    # the harness compares every run with the model's prediction AND with the property's own
    # expectation (fallback = bytes of Formatter::None, no error/panic/hang): one list serves as the search
    witness = None
    for f in bad:
        if f["kind"] in ("class", "bytes", "tokens", "prefix"):
            witness = {"case": f["case"], "script": f["script"], "detail": f["detail"]}
            break
    for f in bad[:4]:
        inp = {"case": f["case"], "script": f["script"]}
        if f["kind"] in ("class", "bytes", "tokens", "prefix", "args"):
            res.violation("oracle-failure", "%s: %s" % (f["kind"], f["case"]), f["detail"], inp)
        elif f["kind"] == "model":
            res.violation("correspondence", "Model/Format.lean no longer matches Bindings::write/format_tokens (%s)" % f["case"], f["detail"],
                          witness or inp, found_input=witness is not None)
        else:
            res.violation("machinery-error", "%s: %s" % (f["kind"], f["case"]), f["detail"], inp, found_input=False)
    for k, b, d in pending:
        res.violation(k, b, d, witness, found_input=witness is not None)
    res.coverage.update({
        "obligations": lean["obligations"], "discharged": lean["discharged"],
        "checker_cmd": "python3 translator/translate.py /repo lean/BindgenModel/Generated && lake build BindgenModel.Props.C15 bgmodel && lake env lean <#print axioms audit>"
                       + (" && lake env leanchecker BindgenModel.Props.C15" if res.tier == "thorough" else ""),
        "theorems": lean["theorems"], "translator": tlog,
        "evaluations": rep["evaluations"], "distinct_nontrivial": rep["distinct_nontrivial"],
        "rule": "one evaluation = one Bindings::write (generate + write in a fresh thread with a timeout) for a (fault script | real rustfmt | prettyplease | none, "
                "input size, header-comment/raw-line/config-file variant) tuple; observed class (formatted/fallback/error/panic/hang) and all bytes compared with "
                "the Lean model's prediction for the scripted outcome; distinct = distinct tuples; every tuple with a formatter child or a formatter comparison is non-trivial. "
                "The fault list is enumerated exhaustively in both tiers",
        "samples": rep["samples"][:4],
        "traces_validated_against_impl": rep["evaluations"], "disagreements_checked": len([f for f in bad if f["kind"] == "model"]),
        "fault_modes": rep["faults"], "real_rustfmt_on_path": rep["real_rustfmt"],
        "max_write_seconds": rep["max_write_seconds"], "source_sizes": rep["source_sizes"],
        "known_region_cases": len(known), "region_predicate_cross_checked_with_lean": rep["tc_model_checked"],
        "distribution": rep["distribution"], "exhaustive": True,
    })
    res.assumptions += [
        "a formatter that neither reads its stdin nor exits is outside the claim (C15_parent_terminates needs a finite child program); such a child would make write() hang and the per-run timeout would report it",
        "a formatter that exits 0 (or 3) with well-formed but different or incomplete text is trusted by design (exit 3 after partial output is accepted by the code and counted as trusted)",
        "the pipe-protocol theorem is about the transition system of Model/Pipe.lean (finite-capacity pipes, EPIPE instead of SIGPIPE as in Rust binaries); OS process and pipe semantics are trusted",
        "io::copy / child.wait errors (Outcome.readFailed / waitFailed) are modelled and proved but cannot be provoked from a script; on the io::copy error path the code returns before wait()/join() (child left unreaped, writer thread detached) - not a hang",
        "host is not Windows (NL = \\n)",
    ]


def replay(path):
    d = json.load(open(path))
    print(json.dumps(d, indent=1))
    print("re-run: ./check C15 quick   (the fault list is enumerated exhaustively; the case name identifies the script)")
    return 0
