"""C03 — bit-field getters, setters and constructors agree bit-for-bit with C."""
import json, os, subprocess, tempfile, shutil
import common
from common import sh

STANDALONE = os.path.join(common.HARNESS, "standalone")


def build_sweeps(work):
    e = common.env_clean()
    src = os.path.join(common.REPO, "bindgen", "codegen", "bitfield_unit.rs")
    # big-endian branches executed on this little-endian host: the same file with the
    # `cfg!(target_endian = "big")` tests replaced by `true` (pure arithmetic, no host dependence)
    text = open(src).read()
    if 'cfg!(target_endian = "big")' not in text:
        return None, "bitfield_unit.rs no longer tests cfg!(target_endian = \"big\")"
    be_src = os.path.join(work, "bitfield_unit_be.rs")
    open(be_src, "w").write(text.replace('cfg!(target_endian = "big")', "true"))
    bins = {}
    for mode, flags in (("dbg", ["-C", "opt-level=1", "-C", "overflow-checks=on", "-C", "debug-assertions=on"]),
                        ("rel", ["-C", "opt-level=2", "-C", "overflow-checks=off", "-C", "debug-assertions=off"]),
                        ("be", ["-C", "opt-level=2", "-C", "overflow-checks=off", "-C", "debug-assertions=off"])):
        e["BINDGEN_BF_FILE"] = be_src if mode == "be" else src
        out = os.path.join(work, "bf_" + mode)
        rc, log = sh(["rustc", "--edition", "2021", "--cap-lints", "allow"] + flags +
                     [os.path.join(STANDALONE, "bf_sweep.rs"), "-o", out], env=e, timeout=900)
        if rc != 0:
            return None, log
        bins[mode] = out
    return bins, ""


def region_r1(off, w):
    return w > 0 and w + off % 8 > 64


def run_sweep(res, work, bins, mode):
    req = os.path.join(work, "req_%s.txt" % mode)
    ans = os.path.join(work, "ans_%s.txt" % mode)
    rc, out = sh([bins[mode], mode, res.tier, str(res.seed), req, ans], timeout=3600)
    if rc != 0:
        raise RuntimeError("sweep binary failed: " + out[-2000:])
    stats = dict(kv.split("=") for kv in out.split() if "=" in kv)
    model = os.path.join(work, "model_%s.txt" % mode)
    with open(req) as fi, open(model, "w") as fo:
        p = subprocess.run([common.bgmodel_path()], stdin=fi, stdout=fo, stderr=subprocess.PIPE, text=True, timeout=3600)
    if p.returncode != 0:
        raise RuntimeError("bgmodel failed: " + p.stderr[-2000:])
    n = corr = oracle_known = 0
    distinct = set()
    samples = []
    first_corr = first_oracle = None
    with open(req) as fr, open(ans) as fa, open(model) as fm:
        for r, a, m in zip(fr, fa, fm):
            n += 1
            a = a.strip(); parts = m.split()
            if len(parts) != 2:
                corr += 1
                first_corr = first_corr or dict(request=r.strip(), implementation=a, model=m.strip())
                continue
            mod, spec = parts
            t = r.split()
            off, w = int(t[3]), int(t[4])
            distinct.add((len(t[5]) // 2, off, w, t[1]))
            if len(samples) < 3 and n % 50021 == 1:
                samples.append(dict(request=r.strip(), implementation=a, model=mod, spec=spec))
            if a != mod:
                corr += 1
                first_corr = first_corr or dict(request=r.strip(), implementation=a, model=mod, spec=spec)
            if a != spec:
                if region_r1(off, w) and a == mod:
                    oracle_known += 1
                else:
                    first_oracle = first_oracle or dict(request=r.strip(), implementation=a, model=mod, spec=spec)
    return dict(ops=n, corr=corr, oracle_known=oracle_known, first_corr=first_corr, first_oracle=first_oracle,
                distinct=len(distinct), samples=samples, stats=stats)


def run(res):
    work = tempfile.mkdtemp(prefix="bgverif_c03_")
    try:
        _run(res, work)
    finally:
        shutil.rmtree(work, ignore_errors=True)


def _run(res, work):
    lean = common.lean_obligations("C03", res.tier)
    for f in lean["failures"]:
        res.violation("proof-obligation", f, lean["log"][-3000:], found_input=False)
    bins, log = build_sweeps(work)
    if bins is None:
        res.violation("correspondence", "bitfield_unit.rs no longer compiles inside the sweep harness", log[-3000:], found_input=False)
        return
    tot = dict(ops=0, distinct=0, corr=0, known=0)
    samples = []
    for mode in ("dbg", "rel", "be"):
        r = run_sweep(res, work, bins, mode)
        tot["ops"] += r["ops"]; tot["distinct"] += r["distinct"]; tot["corr"] += r["corr"]; tot["known"] += r["oracle_known"]
        samples += r["samples"]
        tot["stats_" + mode] = r["stats"]
        if r["first_oracle"]:
            res.violation("oracle-failure", "accessor result differs from the flat bit-vector specification outside known regions (%s build)" % mode,
                          "implementation != spec", r["first_oracle"])
        elif r["first_corr"]:
            # model and implementation disagree but the implementation still meets the spec here:
            # the correspondence is broken; search = the oracle comparison above found nothing
            res.violation("correspondence", "Model/BitfieldUnit.lean no longer matches bitfield_unit.rs (%s build); theorems C03_get_eq_spec/C03_set_eq_spec no longer speak about this code" % mode,
                          "model != implementation", r["first_corr"], found_input=False)
    # struct level: generated structs through the real bindgen, allocation units vs the Lean
    # allocation model, linked C + Rust executable as oracle
    ok, log = common.cargo_build_harness(["c03s"])
    rep = None
    if not ok:
        res.violation("machinery-error", "harness does not build against /repo", log[-3000:], found_input=False)
    else:
        swork = os.path.join(work, "structs"); os.makedirs(swork, exist_ok=True)
        rc, out, rep = common.run_harness("c03s", res, swork)
        if rep is None:
            res.violation("machinery-error", "c03s produced no report", out[-2000:], found_input=False)
        else:
            listed = {f["id"]: f for f in common.known_findings("C03")}
            for region, n in sorted(rep.get("known_region_hits", {}).items()):
                if region in listed:
                    if region != "bf_shift_gt_64":
                        res.known("%s: %s (%d accessor operations in this run, each inside the region)" % (region, listed[region]["what_fails"], n))
                    else:
                        tot["known"] += n
                else:
                    rep["oracle_failures"].append({"class": "unlisted-region", "region": region})
            for o in rep["oracle_failures"][:3]:
                res.violation("oracle-failure", "generated bit-field accessor disagrees with the C compiler outside known regions", "linked C+Rust executable", o)
            if not rep["oracle_failures"]:
                for c in rep["correspondence_failures"][:3]:
                    res.violation("correspondence", "Model/BitfieldAlloc.lean no longer matches bitfields_to_allocation_units; theorem C03_alloc_offsets_match_clang_partial no longer speaks about this code",
                                  "model != implementation", c, found_input=False)
            for m in rep.get("machinery", [])[:3]:
                res.violation("machinery-error", str(m)[:500], "", found_input=False)
    if tot["known"]:
        res.known("bf_shift_gt_64: accessor with bit_offset mod 8 + width > 64 (e.g. 9-byte unit, 64-bit field at bit 4) differs from C; every such sweep case equals the model's prediction")
        res.coverage["known_region_cases"] = tot["known"]
    res.coverage.update({
        "obligations": lean["obligations"], "discharged": lean["discharged"],
        "checker_cmd": "lake build BindgenModel.Props.C03 && lake env lean <#print axioms audit>" + (" && lake env leanchecker BindgenModel.Props.C03" if res.tier == "thorough" else ""),
        "theorems": lean["theorems"],
        "evaluations": tot["ops"], "distinct_nontrivial": tot["distinct"],
        "rule": "(b) struct level: generated structs/unions with runs of 1..12 bit-fields of every integer base type, _Bool and enum (full-width, :0, anonymous, interleaved plain members, packed / pragma pack / aligned) through the real bindgen; every allocation unit is compared with Model/BitfieldAlloc.lean; C setters/getters vs Rust accessors in one linked executable with memcmp of the whole object after every store; distinct = distinct (unit size, offset, width, signedness). (a) sweep: every (storage size 1..16, bit offset, width 1..64) triple that fits (thorough: all; quick: all region-R1 and boundary triples + 1/8 sample) x {zero, ones, alternating, single bit, random} values x 4 dynamic entry points, plus 934 const-generic instantiations x 4 entry points, each in a build with and without overflow checks; distinct = distinct (size, offset, width, entry point) tuples; every case is non-trivial (width >= 1)",
        "samples": samples,
        "traces_validated_against_impl": tot["ops"], "disagreements_checked": tot["corr"],
        "known_region_cases": tot["known"],
        "sweep_stats": {k: v for k, v in tot.items() if k.startswith("stats_")},
        "exhaustive": res.tier == "thorough",
    })
    if rep:
        res.coverage.update({
            "struct_level": {k: rep[k] for k in ("evaluations", "structs", "bitfields", "distinct_nontrivial", "allocation_units_compared", "constructor_tests", "template_batches", "known_region_hits", "storage_bits_histogram")},
            "evaluations": tot["ops"] + rep["evaluations"],
            "distinct_nontrivial": tot["distinct"] + rep["distinct_nontrivial"],
        })
        res.coverage["samples"] = samples + rep["samples"][:2]
    res.assumptions += [
        "host is little-endian with 64-bit usize; the big-endian branches are executed through a copy of bitfield_unit.rs with cfg!(target_endian = \"big\") replaced by true; the 32-bit usize fast path is modelled and proved (wb = 32) but not executed",
        "raw_* entry points are exercised on [u8; N] storage only",
    ]


def replay(path):
    d = json.load(open(path))
    print(json.dumps(d, indent=1))
    inp = d.get("input") or {}
    if "request" in inp:
        out = common.run_model([inp["request"]])
        print("model now answers:", out)
    return 0
