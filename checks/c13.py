"""C13 — builder configuration and command-line flags round-trip."""
import json, os, re, shutil, tempfile
import common
from common import sh

GENERATED = os.path.join(common.LEAN, "BindgenModel", "Generated")

# known_findings.json id -> harness region name
REGIONS = {
    "type_alias_flag": "type_alias_flag",
    "leading_dash_value": "leading_dash",
    "empty_codegen_config": "empty_codegen_config",
    "relative_rustfmt_path": "relative_rustfmt_path",
    "formatter_override": "formatter_override",
    "field_attr_codec": "field_attr_codec",
    "prefix_link_name_lost": "prefix_link_name_lost",
    "hash_map_flag_order": "hash_order",
    "not_expressible_fields": "not_expressible",
}
TEXT = {
    "type_alias_flag": "Builder::type_alias emits `--type-alias <regex>`, which the CLI rejects (its flag is `--normal-alias`)",
    "leading_dash": "a value beginning with `-` (raw line, regex, prefix, path ...) is emitted as `--flag -value`; clap rejects it on the way back (no argument allows hyphen values)",
    "empty_codegen_config": "with_codegen_config(CodegenConfig::empty()) emits `--generate \"\"`, rejected by parse_codegen_config",
    "relative_rustfmt_path": "rustfmt_configuration_file(Some(relative path)) emits a path that the CLI rejects (must be absolute)",
    "formatter_override": "rustfmt_configuration_file(Some(..)) followed by formatter(None/prettyplease): the CLI post-step forces Formatter::Rustfmt, flags' and bindings differ",
    "field_attr_codec": "field_attribute patterns containing `=` (type/field) or `::` (field) do not survive `{type}::{field}={attr}`",
    "prefix_link_name_lost": "`--prefix-link-name` creates a callback without cli_args: it disappears from command_line_flags, bindings of the second builder differ",
    "hash_order": "module_raw_line / override_abi are hash maps: the second flag list comes out in another order (bindings identical)",
    "not_expressible": "header_contents / with_rustfmt / library ParseCallbacks have `as_args: ignore` (no flag exists): the second builder lacks them",
}


def generated_theorems():
    p = os.path.join(GENERATED, "OptionsObl.lean")
    return re.findall(r"(?m)^theorem (\w+)", open(p).read()) if os.path.exists(p) else []


def broken_generated(log):
    out = []
    for m in re.finditer(r"error: (?:\S*/)?(BindgenModel/Generated/\w+\.lean):(\d+):", log):
        try:
            line = open(os.path.join(common.LEAN, m.group(1))).read().splitlines()[int(m.group(2)) - 1]
        except Exception:
            continue
        t = re.match(r"theorem (\w+)", line)
        out.append(t.group(1) if t else "%s:%s" % (m.group(1), m.group(2)))
    return sorted(set(out))


def run(res):
    work = tempfile.mkdtemp(prefix="bgverif_c13_")
    try:
        _run(res, work)
    finally:
        shutil.rmtree(work, ignore_errors=True)


def _run(res, work):
    broken, oracle_inputs = [], []
    ok, tlog = common.regen_tables("C13")
    for line in tlog.splitlines():
        if "EXTRACTION FAILED" in line and re.match(r"(Options|OptionsObl):", line):
            broken.append(("translator", line))

    lean = common.lean_obligations("C13", res.tier)
    gen = generated_theorems()
    n_gen_ok = len(gen) if not lean["failures"] else 0
    if lean["failures"]:
        names = broken_generated(lean["log"])
        for f in lean["failures"]:
            broken.append(("proof-obligation", (("generated obligation(s) %s: " % ", ".join(names)) if names else "") + f))
        ok2, out2 = common.lake_build(["bgmodel"])
        if not ok2:
            res.violation("proof-obligation", "model driver does not build: " + "; ".join(re.findall(r"error: ([^\n]*)", out2)[:4]), out2[-3000:], found_input=False)
            return

    ok, out = common.cargo_build_harness(["c13"])
    rep = None
    if not ok:
        # a Builder method changed signature or disappeared: the dispatcher no longer compiles
        broken.append(("correspondence", "harness/src/builder_ops.rs no longer compiles against /repo (regenerate with tools/gen_c13_builder_ops.py): " +
                       "; ".join(re.findall(r"error[^\n]*", out)[:3])))
    else:
        rc, hout, rep = common.run_harness("c13", res, os.path.join(work, "h"), timeout=3 * 3600)
        if rep is None:
            res.violation("machinery-error", "c13 harness produced no report", hout[-3000:], found_input=False)
    unsettable = []
    if rep:
        for o in rep["oracle_failures"]:
            oracle_inputs.append((o.get("class", "oracle"), o))
        for c in rep["correspondence_mismatches"][:3]:
            broken.append(("correspondence", "%s: %s" % (c.get("class"), json.dumps(c)[:1500])))
        # methods of the current source that the driver cannot call
        table_methods = set(re.findall(r"(?m)^def eff_(\w+) : MethodEffect := ⟨[^⟩]*, (?:true|false)⟩", open(os.path.join(GENERATED, "Options.lean")).read()))
        exp = set(re.findall(r"(?m)^def eff_(\w+) : MethodEffect := ⟨.*, true⟩$", open(os.path.join(GENERATED, "Options.lean")).read()))
        missing = sorted(table_methods - exp - set(rep["driver_methods"]))
        unsettable = list(rep.get("unsettable", [])) + ["%s: not in harness/src/builder_ops.rs (regenerate)" % m for m in missing]
        if missing:
            broken.append(("correspondence", "Builder methods not driven by the harness: " + ", ".join(missing)))

    # every field of the generated table, and whether some driven method writes it
    gen_text = open(os.path.join(GENERATED, "Options.lean")).read()
    all_fields = re.findall(r"(?m)^def spec_(\w+) : OptSpec", gen_text)
    driven = set((rep or {}).get("driver_methods", []))
    written = {}
    for m in re.finditer(r"(?m)^def eff_(\w+) : MethodEffect := ⟨\.\w+, \.\w+, \d+, \[(.*)\], (true|false)⟩$", gen_text):
        for f in re.findall(r"\(\.(\w+), ", m.group(2)):
            written.setdefault(f, []).append((m.group(1), m.group(3) == "true"))
    field_report = {}
    for f in all_fields:
        ms = written.get(f, [])
        ok_ms = [m for m, exp in ms if not exp and m in driven]
        if ok_ms:
            continue
        if not ms:
            field_report[f] = "no Builder method writes this field (derived or dead field)"
        elif all(exp for _, exp in ms):
            field_report[f] = "only written by a method that needs the `experimental` cargo feature"
        else:
            field_report[f] = "methods %s are not in the harness dispatcher" % ", ".join(m for m, _ in ms)

    for cls, inp in oracle_inputs[:4]:
        res.violation("oracle-failure", cls, json.dumps(inp)[:2500], replay_input=inp, found_input=True)
    if broken and not oracle_inputs:
        for kind, what in broken[:4]:
            res.violation(kind, what[:600], what, found_input=False)
    elif broken:
        for kind, what in broken[:2]:
            res.violation(kind, what[:600] + "  (failing input: see the oracle-failure replay of this run)", what, replay_input=oracle_inputs[0][1], found_input=True)

    listed = {REGIONS.get(f["id"], f["id"]) for f in common.known_findings("C13")}
    for k, n in sorted((rep or {}).get("known", {}).items()):
        if k in listed:
            res.known("%s: %s; %d configurations this run, each inside the region and with the outcome the model predicts" % (k, TEXT.get(k, k), n))
        else:
            sample = next((s for s in rep.get("known_samples", []) if s.get("finding") == k), None)
            res.violation("oracle-failure", "round trip fails in region %s, which is not listed in known_findings.json" % k, json.dumps(sample)[:2000], replay_input=sample, found_input=True)

    r = rep or {}
    res.coverage.update({
        "obligations": lean["obligations"] + len(gen), "discharged": lean["discharged"] + n_gen_ok,
        "generated_table_obligations": len(gen),
        "checker_cmd": "translator -> Generated/{Options,OptionsObl}.lean; lake build BindgenModel.Props.C13 bgmodel && lake env lean <#print axioms audit>" +
                       (" && lake env leanchecker BindgenModel.Props.C13" if res.tier == "thorough" else ""),
        "theorems": lean["theorems"],
        "evaluations": r.get("child_runs", 0),
        "distinct_nontrivial": r.get("distinct", 0),
        "rule": "cases: every Builder method of the options! table in isolation over its enumerated values (bool: both, unit, enum: every variant, strings: hostile set with spaces, quotes, `=`, `::`, leading dashes, empty) on a C and a C++ trigger header; "
                "ordered pairs of boolean/unit methods (quick: 200 seeded, thorough: 2800); random configurations of 1..25 options with hostile strings (quick 150, thorough 2500); hash-map options with many keys; CLI-origin flag lists. "
                "Every builder runs in a child process; evaluations = child processes; distinct = distinct (case class, set of flags emitted); a case is non-trivial when it sets at least one option beyond the header",
        "samples": (r.get("samples", [])[:2] + r.get("known_samples", [])[:3]) or [{"note": "no sample"}],
        "traces_validated_against_impl": r.get("cases", 0),
        "disagreements_checked": r.get("correspondence_mismatch_count", 0),
        "full_roundtrips": r.get("full_roundtrips", 0),
        "class_histogram": r.get("class_histogram"), "ops_per_case_histogram": r.get("ops_per_case_histogram"),
        "outcome_histogram": r.get("outcome_histogram"), "known": r.get("known"),
        "option_table": r.get("table"),
        "fields_in_table": len(all_fields),
        "fields_not_settable_by_driver": field_report,
        "methods_without_enumerated_values": unsettable,
        "translator_log": tlog,
        "exhaustive": False,
    })
    res.assumptions += [
        "clap is modelled for the argument forms that occur (switch, --flag value, --flag=value, two-value option, first positional, `--`, trailing var-arg, conflicts_with); the lexer itself is tied to the real clap only by the correspondence runs",
        "fields with `as_args: ignore` (rustfmt_path, input_header_contents, fallback_clang_args, rust_features) and library-side ParseCallbacks cannot be expressed as flags and are outside the round-trip domain (theorem Generated.ignored_fields_classified)",
        "field_attribute attributes and custom attributes must tokenise (proc_macro2); the model does not re-implement the Rust lexer",
        "the `experimental` cargo feature (emit_diagnostics, --experimental) is off",
    ]


def replay(path):
    d = json.load(open(path))
    print(json.dumps(d, indent=1)[:8000])
    return 0
