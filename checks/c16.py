"""C16 — static-function wrappers compile and behave like the wrapped functions."""
import json, os, shutil, tempfile
import common

FINDINGS = {
    "decl_ptr_to_array": "decl_ptr_to_array: an array type under a pointer or with a non-leaf element (e.g. `int (*p)[3]`, `int a[2][3]`) is printed with the suffix after the whole declarator (`int *p [3]`, `int a [3] [2]`); clang rejects the wrapper; every such case equals the model's text",
    "decl_fn_ret_declarator": "decl_fn_ret_declarator: a function (pointer) type returning a pointer to function/array is printed return-type-first (`int (*) (int) (*f) (char k)`); clang rejects the wrapper; text equals the model's",
    "decl_variadic_fnptr": "decl_variadic_fnptr: the `...` of a variadic function-pointer parameter is dropped (`int (*g) (const char *)`); incompatible function pointer types; text equals the model's",
    "decl_const_ptr_param": "decl_const_ptr_param: a top-level const pointer parameter `T *const q` is printed `const T *const q` (const moved to the pointee); discards-qualifiers error; text equals the model's",
    "decl_spelling_needs_header": "decl_spelling_needs_header: `_Bool` / `_Complex` are printed `bool` / `complex`, which need <stdbool.h> / <complex.h> that the input header does not include; text equals the model's",
    "static_binding_without_wrapper": "static_binding_without_wrapper: a static function whose symbol name differs from its Rust name (every static in C++ mode, Rust-keyword names in C) gets a binding linked to the internal symbol and no wrapper (should_wrap = false); equals the model's decision",
    "va_wrapper_name_clash": "va_wrapper_name_clash: a function wrapped as variadic (ParseCallbacks::wrap_as_variadic_fn) whose remaining parameter (or own name) is `ap`, or `ret` with a non-void return, gets a wrapper that redeclares that name (`int f__extern(int ret, ...) { int ret; va_list ap; …`); clang: redefinition; text equals the model's",
    "va_wrapper_needs_stdarg": "va_wrapper_needs_stdarg: the variadic wrapper uses `va_list` / `va_start` / `va_end`, which need <stdarg.h>; a header that spells the parameter `__builtin_va_list` without including it (as bindgen's own tests/headers/wrap-static-fns.h does) gets a wrapper file that does not compile; text equals the model's",
    "header_contents_not_in_wrapper": "header_contents_not_in_wrapper: headers given with Builder::header_contents are neither included nor inlined in the wrapper file (input_header_contents is moved out of the options before codegen); text equals the model's",
}


def run(res):
    work = tempfile.mkdtemp(prefix="bgverif_c16_")
    try:
        _run(res, work, [])
    finally:
        shutil.rmtree(work, ignore_errors=True)


def _name_theorems(failure, log):
    """`lake build failed: …/Props/C16.lean:358:2 …` -> add the names of the theorems that no longer check"""
    import re
    names = []
    for rel in ("BindgenModel/Props/C16.lean", "BindgenModel/Lemmas/CDecl.lean"):
        path = os.path.join(common.LEAN, rel)
        if not os.path.exists(path):
            continue
        lines = open(path).read().splitlines()
        for m in re.finditer(re.escape(rel) + r":(\d+):\d+: error", log + "\n" + failure.replace(": ", ": error ")):
            n = int(m.group(1))
            for i in range(min(n, len(lines)) - 1, -1, -1):
                t = re.match(r"\s*theorem (\w+)", lines[i])
                if t:
                    if t.group(1) not in names:
                        names.append(t.group(1))
                    break
    return ("theorem(s) " + ", ".join(names) + " no longer check: " if names else "") + failure


def _build_harness():
    """`cargo build --bin c16 --features va`: the harness feature `va` turns on bindgen's `experimental` feature
    (ParseCallbacks::wrap_as_variadic_fn) for this binary only; every other harness binary keeps linking the
    library exactly as before (common.cargo_build_harness, no features)."""
    common.ensure_repo_link()
    lock = os.path.join(common.HARNESS, "Cargo.lock")
    if not os.path.exists(lock):
        shutil.copy(os.path.join(common.REPO, "Cargo.lock"), lock)
    e = common.env_clean()
    e["RUSTFLAGS"] = common.HOOK_RUSTFLAGS
    rc, out = common.sh(["cargo", "build", "--offline", "--profile", "verif", "--features", "va", "--bin", "c16"],
                        cwd=common.HARNESS, env=e, timeout=3600)
    return rc == 0, out


def _harness(res, work, extra, env=None):
    rc, out, rep = common.run_harness("c16", res, work, extra_args=extra, extra_env=env, timeout=3300)
    if rep is None:
        raise RuntimeError("c16 harness produced no report (rc=%s): %s" % (rc, out[-3000:]))
    return rep, out


def _run(res, work, extra):
    broken = []          # (kind, what) — triggers the failing-input search below
    ok, tlog = common.regen_tables("C16")
    if not ok:
        broken.append(("translator", "translator: " + "; ".join(l for l in tlog.splitlines() if "FAILED" in l)))
    lean = common.lean_obligations("C16", res.tier)
    for f in lean["failures"]:
        broken.append(("proof-obligation", _name_theorems(f, lean["log"])))
    okh, hlog = _build_harness()
    if not okh:
        res.violation("correspondence", "bindgen no longer builds inside the C16 harness (API used by the correspondence changed)", hlog[-3000:], found_input=False)
        return
    okc, clog = common.cargo_build_cli()
    if not okc:
        res.violation("correspondence", "bindgen-cli no longer builds", clog[-3000:], found_input=False)
        return
    no_model = not os.path.exists(common.bgmodel_path())
    if no_model:
        # the model driver did not build: run the property's oracle alone as the failing-input search
        broken.append(("proof-obligation", "bgmodel (Model/CDecl.lean + Driver/C16.lean) does not build against the regenerated table"))
    rep, out = _harness(res, work, extra, {"C16_NO_MODEL": "1"} if no_model else None)

    mvi = rep["model_vs_impl"]
    orf = rep["oracle_failures"]
    mach = rep["machinery"]
    va = rep.get("va") or {}
    if not va.get("built_with_feature_va") or (not extra and not va.get("oracle", {}).get("variadic_bindings_called_from_rust_and_compared")):
        res.violation("machinery-error", "the wrap_as_variadic cases did not run (c16 built without feature `va`, or no variadic binding was called)",
                      json.dumps(va)[:2000], found_input=False)
    # implementation-vs-oracle failures outside every known region: concrete failing inputs
    for f in orf["first"][:3]:
        res.violation("oracle-failure", "%s (outside every known-finding region or not the text the model predicts)" % f.get("kind"),
                      "%d implementation-vs-oracle failures; first ones attached" % orf["count"],
                      dict(f, reproduce_case=f.get("case")), found_input=True)
    # broken obligation / translator / model-vs-implementation disagreement: the search for a failing
    # input is the oracle run above (clang compile, nm, linked run over all generated cases)
    if mvi["count"]:
        first = mvi["first"][0]
        broken.append(("correspondence", "Model/CDecl.lean no longer matches serialize.rs / Function::codegen: class %s" % first.get("class")))
    for kind, what in broken:
        if orf["count"]:
            f = orf["first"][0]
            res.violation(kind, what, (lean["log"][-1500:] if kind == "proof-obligation" else tlog if kind == "translator" else json.dumps(mvi["first"][:3])[:3000]),
                          dict(f, reproduce_case=f.get("case")), found_input=True)
        else:
            res.violation(kind, what, (lean["log"][-3000:] if kind == "proof-obligation" else tlog if kind == "translator" else json.dumps(mvi["first"][:3])[:3000]),
                          (mvi["first"][0] if mvi["count"] else None), found_input=False)
    if mach["count"]:
        res.violation("machinery-error", "C16 harness could not judge %d cases (its own callers / tools failed)" % mach["count"],
                      json.dumps(mach["first"][:2])[:3000], found_input=False)
    known = {}
    if not broken:
        for fid, v in rep["known"].items():
            known[fid] = v["count"]
            res.known(FINDINGS.get(fid, fid) + " — e.g. " + v["first"].get("function", ""))
    res.coverage.update({
        "obligations": lean["obligations"], "discharged": lean["discharged"],
        "checker_cmd": "python3 translator (SerializeArms) && lake build BindgenModel.Props.C16 bgmodel && lake env lean <#print axioms audit>" + (" && lake env leanchecker BindgenModel.Props.C16" if res.tier == "thorough" else ""),
        "theorems": lean["theorems"],
        "evaluations": rep["evaluations"], "distinct_nontrivial": rep["distinct_nontrivial"],
        "rule": "one evaluation = one wrapped static function whose emitted wrapper (one line, or the multi-line variadic form of the wrap_as_variadic path) was compared with the model's text and compiled by clang with the header's flags; distinct = distinct (return type, parameter types, named/unnamed) signatures among those with at least one parameter (parameterless functions are the trivial case); the wrap_as_variadic cases are counted separately under wrap_as_variadic_path",
        "samples": rep["samples"],
        "traces_validated_against_impl": rep["evaluations"],
        "disagreements_checked": mvi["count"],
        "cases": rep["cases"], "functions": rep["functions"],
        "array_arm_in_declarator": rep["array_arm_in_declarator"],
        "input_distribution": {
            "type_kinds": rep["kinds"], "function_shapes": rep["function_shapes"], "modes_and_options": rep["modes"],
            "static_functions_per_header_set": rep["statics_per_case"], "constructs_planted_outside_the_proved_region": rep["planted"],
            "defects_named_by_the_model": rep["defects_by_model"],
        },
        "oracle": rep["oracle_stats"],
        "oracle_failures_outside_known_regions": orf["count"],
        "ir_vs_header_mismatches_inside_defect_regions": rep["ir_vs_header"]["count"],
        "known_region_cases": known,
        "wrap_as_variadic_path": va,
    })
    res.assumptions += [
        "x86_64 Linux / ELF: C symbols are not decorated, so Function::mangled_name() == name() for C input",
        "wrap_as_variadic path: one callback is installed (ParseCallbacks::last_callback is not exercised with several); the Rust type of the remaining parameters in the variadic binding is rustc-checked by the linked caller, not modelled; va_start on a last named parameter that undergoes default promotion (short/char/float) is undefined behaviour by C11 7.16.1.4p4 and only counted (clang -Wvarargs), it works on x86-64",
        "the prelude of the wrapper file (#include lines, `// Static wrappers`) is modelled in the harness, not in Lean",
        "long double / _Complex parameters are compiled and symbol-checked but not called from Rust (no Rust type with the same ABI)",
    ]


def replay(path):
    d = json.load(open(path))
    print(json.dumps(d, indent=1)[:6000])
    inp = d.get("input") or {}
    case = inp.get("reproduce_case", inp.get("case"))
    if case is None:
        print("no generated case recorded in this replay file (%s)" % d.get("broken"))
        return 0
    res = common.Result("C16", d.get("tier", "quick"), d.get("seed", 1))
    common.regen_tables("C16")
    common.lean_obligations("C16", "quick")
    _build_harness()
    work = tempfile.mkdtemp(prefix="bgverif_c16_replay_")
    try:
        rc, out, rep = common.run_harness("c16", res, work, extra_args=["--case", str(case)], timeout=1200)
        print("\n".join(l for l in out.splitlines() if not l.startswith("clang diag:")))
    finally:
        shutil.rmtree(work, ignore_errors=True)
    return 0
