"""lib.rs `CodegenConfig`, ir/traversal.rs `all_edges` / `only_inner_type_edges`, ir/item.rs
`Item::is_enabled_for_codegen`  ->  Generated/ReachTables.lean

Complements Generated/AnalysisTables.lean (which owns `EdgeKind`, `EdgeGate`, `codegenEdgeGate`):
`CfgBit` (the CodegenConfig flags with their bit numbers), `EdgeGate.eval` (how a gate is decided
from `CodegenConfig::bits()` and the target's `is_enabled_for_codegen`), `onlyInnerTypeKind`,
`ItemClass` / `enabledFor`.  Fails loudly on any arm / variant / flag it does not recognise.
"""
import re
from translate import read, body_after, strip_comments, TranslateError

NAME = "ReachTables"

TRAV = "bindgen/ir/traversal.rs"
ITEM = "bindgen/ir/item.rs"
LIB = "bindgen/lib.rs"

# accessor method of CodegenConfig -> flag constant
ACCESSORS = ["functions", "types", "vars", "methods", "constructors", "destructors"]

# is_enabled_for_codegen patterns -> item class of the model
ITEM_CLASSES = [
    (r"ItemKind::Module\(\.\.\)", "module"),
    (r"ItemKind::Var\(_\)", "var"),
    (r"ItemKind::Type\(_\)", "type"),
]
FN_CLASSES = {
    "FunctionKind::Function": ["fnFunction"],
    "FunctionKind::Method(MethodKind::Constructor)": ["fnConstructor"],
    "FunctionKind::Method(MethodKind::Destructor|MethodKind::VirtualDestructor{..},)": ["fnDestructor"],
    "FunctionKind::Method(MethodKind::Static|MethodKind::Normal|MethodKind::Virtual{..},)": ["fnMethod"],
}


def cfg_bits(repo):
    src = strip_comments(read(repo, LIB))
    body = body_after(src, r"pub struct CodegenConfig: u32\s*\{", LIB)
    bits = re.findall(r"const\s+([A-Z_]+)\s*=\s*1\s*<<\s*(\d+)\s*;", body)
    if len(bits) != len(re.findall(r"\bconst\b", body)):
        raise TranslateError("%s: unrecognised CodegenConfig flag form" % LIB)
    names = [b[0] for b in bits]
    for a in ACCESSORS:
        if a.upper() not in names:
            raise TranslateError("%s: CodegenConfig flag %s missing" % (LIB, a.upper()))
        if not re.search(r"pub fn %s\(self\) -> bool \{\s*self\.contains\(CodegenConfig::%s\)" % (a, a.upper()), src):
            raise TranslateError("%s: accessor %s() is not `self.contains(CodegenConfig::%s)`" % (LIB, a, a.upper()))
    if sorted(names) != sorted(a.upper() for a in ACCESSORS):
        raise TranslateError("%s: new CodegenConfig flag(s): %s" % (LIB, sorted(set(names) - set(a.upper() for a in ACCESSORS))))
    return [(n.lower(), int(b)) for n, b in bits]


def simple_predicates(src):
    """all_edges must be `true`; only_inner_type_edges must be `edge.kind == EdgeKind::X`."""
    b = re.sub(r"\s+", "", strip_comments(body_after(src, r"pub\(crate\) fn all_edges\(_: &BindgenContext, _: Edge\) -> bool\s*\{", TRAV)))
    if b != "true":
        raise TranslateError("%s: all_edges is no longer `true`" % TRAV)
    b = re.sub(r"\s+", "", strip_comments(body_after(src, r"pub\(crate\) fn only_inner_type_edges\(_: &BindgenContext, edge: Edge\) -> bool\s*\{", TRAV)))
    m = re.fullmatch(r"edge\.kind==EdgeKind::(\w+)", b)
    if not m:
        raise TranslateError("%s: only_inner_type_edges has an unrecognised body %r" % (TRAV, b))
    return m.group(1)


def enabled_for(repo):
    src = strip_comments(read(repo, ITEM))
    body = body_after(src, r"pub\(crate\) fn is_enabled_for_codegen\(&self, ctx: &BindgenContext\) -> bool\s*\{", ITEM)
    if "let cc = &ctx.options().codegen_config;" not in body:
        raise TranslateError("%s: is_enabled_for_codegen no longer reads codegen_config" % ITEM)
    arms = body_after(body, r"match \*self\.kind\(\)\s*\{", ITEM)
    out = {}
    for pat, cls in ITEM_CLASSES:
        m = re.search(pat + r"\s*=>\s*([^,]+),", arms)
        if not m:
            raise TranslateError("%s: is_enabled_for_codegen: arm for %s not found" % (ITEM, cls))
        out[cls] = m.group(1).strip()
    m = re.search(r"ItemKind::Function\(ref f\)\s*=>\s*match f\.kind\(\)\s*\{", arms)
    if not m:
        raise TranslateError("%s: is_enabled_for_codegen: function arm not found" % ITEM)
    farms = body_after(arms, r"ItemKind::Function\(ref f\)\s*=>\s*match f\.kind\(\)\s*\{", ITEM)
    seen = 0
    rest = farms
    for m in re.finditer(r"(FunctionKind::[^=]*?)=>\s*(\{[^}]*\}|[^,{]+),?", farms):
        pat, expr = m.group(1), m.group(2)
        rest = rest.replace(m.group(0), "", 1)
        key = re.sub(r"\s+", "", pat)
        if key not in FN_CLASSES:
            raise TranslateError("%s: is_enabled_for_codegen: unrecognised function pattern %r" % (ITEM, pat.strip()))
        for c in FN_CLASSES[key]:
            out[c] = re.sub(r"[\s{}]", "", expr)
        seen += 1
    if rest.strip():
        raise TranslateError("%s: is_enabled_for_codegen: unrecognised function arm text %r" % (ITEM, rest.strip()[:80]))
    if seen != len(FN_CLASSES):
        raise TranslateError("%s: is_enabled_for_codegen: expected %d function arms, saw %d" % (ITEM, len(FN_CLASSES), seen))
    table = {}
    for cls, e in out.items():
        e = re.sub(r"\s+", "", e)
        m = re.fullmatch(r"cc\.(\w+)\(\)", e)
        if e == "true":
            table[cls] = ".always"
        elif m and m.group(1) in ACCESSORS:
            table[cls] = ".bit .%s" % m.group(1)
        else:
            raise TranslateError("%s: is_enabled_for_codegen: unrecognised value %r for %s" % (ITEM, e, cls))
    return table


def lc(k):
    return k[0].lower() + k[1:]


def generate(repo):
    from extract import analysis_tables as AT
    src = read(repo, TRAV)
    bits = cfg_bits(repo)
    kinds = AT.edge_kinds(repo)
    rows = AT.codegen_edges(repo, kinds)
    gates = sorted(set(v for v in rows.values() if v not in ("always", "never")))
    inner = simple_predicates(src)
    if inner not in kinds:
        raise TranslateError("%s: only_inner_type_edges names unknown kind %s" % (TRAV, inner))
    en = enabled_for(repo)
    classes = ["module", "type", "var", "fnFunction", "fnMethod", "fnConstructor", "fnDestructor"]
    bitnames = [n for n, _ in bits]
    o = []
    o.append("import BindgenModel.Generated.AnalysisTables")
    o.append("namespace BindgenModel.Generated\n")
    o.append("/-- flags of `CodegenConfig` (lib.rs) -/")
    o.append("inductive CfgBit where")
    for n, _ in bits:
        o.append("  | %s" % n)
    o.append("  deriving DecidableEq, Repr\n")
    o.append("def CfgBit.all : List CfgBit := [%s]\n" % ", ".join("." + n for n, _ in bits))
    o.append("/-- bit number of the flag inside `CodegenConfig::bits()` -/")
    o.append("def CfgBit.index : CfgBit → Nat")
    for n, b in bits:
        o.append("  | .%s => %d" % (n, b))
    o.append("")
    o.append("/-- `cc.<flag>()` on `CodegenConfig::bits() = cfg` -/")
    o.append("def CfgBit.on (cfg : Nat) (b : CfgBit) : Bool := cfg.testBit b.index\n")
    o.append("/-- how `codegen_edges` decides a gate, given `CodegenConfig::bits()` and\n    `is_enabled_for_codegen` of the edge's target -/")
    o.append("def EdgeGate.eval (cfg : Nat) (targetEnabled : Bool) : EdgeGate → Bool")
    o.append("  | .always => true")
    o.append("  | .never => false")
    for g in gates:
        if g == "targetEnabled":
            o.append("  | .targetEnabled => targetEnabled")
        elif g in bitnames:
            o.append("  | .%s => CfgBit.on cfg .%s" % (g, g))
        else:
            raise TranslateError("%s: codegen_edges uses unknown CodegenConfig accessor %s()" % (TRAV, g))
    o.append("")
    o.append("/-- the single kind admitted by `only_inner_type_edges` (`all_edges` is checked to be `true`) -/")
    o.append("def onlyInnerTypeKind : EdgeKind := .%s\n" % lc(inner))
    o.append("/-- classes of items distinguished by `Item::is_enabled_for_codegen` (ir/item.rs) -/")
    o.append("inductive ItemClass where")
    for c in classes:
        o.append("  | %s" % c)
    o.append("  deriving DecidableEq, Repr, Inhabited\n")
    o.append("def ItemClass.all : List ItemClass := [%s]\n" % ", ".join("." + c for c in classes))
    o.append("inductive ItemGate where")
    o.append("  | always | bit (b : CfgBit)")
    o.append("  deriving DecidableEq, Repr\n")
    o.append("/-- `Item::is_enabled_for_codegen` as a table -/")
    o.append("def enabledFor : ItemClass → ItemGate")
    for c in classes:
        o.append("  | .%s => %s" % (c, en[c]))
    o.append("")
    o.append("def ItemGate.eval (cfg : Nat) : ItemGate → Bool")
    o.append("  | .always => true")
    o.append("  | .bit b => CfgBit.on cfg b\n")
    o.append("end BindgenModel.Generated\n")
    return "\n".join(o)
