"""bindgen/**/*.rs -> Generated/FeatureSites.lean   (DESIGN.md §2.2 inventory (d))

Inventory of every code-generation site that emits a construct gated on the Rust target,
with the `rust_features` flags that are syntactically true / false at the site:

  * marker patterns (below) are searched in every .rs file under bindgen/ except features.rs,
    verif.rs and the options/ directory;
  * for each hit the enclosing `if COND {` / `} else {` chain inside the enclosing `fn` is
    collected; `COND` is searched for `rust_features[()].FLAG` reads, for local aliases
    (`let compile_time = ..rust_features().offset_of;`), and for option aliases
    (`let cstr = if COND { .. } else { None };  ...  if let Some(cstr) = cstr {`);
  * `#safety extern ..{` sites take their guard from the `let safety = ...FLAG.then(|| quote!(unsafe))`
    binding in the same function;
  * the arms of `FunctionSig::abi` (`ClangAbi::Known(Abi::X) if !..rust_features().FLAG => Err`)
    are the gate of ABI strings; every `extern #abi` emission must take `abi` from that function.

Also checks that the `Abi` enum still has exactly the ten variants classified by hand in
Model/FeaturesSpec.lean.  Fails loudly on any unrecognised form.
"""
import os, re
from translate import read, braces, lean_str, TranslateError

NAME = "FeatureSites"

KNOWN_ABIS = {"C", "Stdcall", "EfiApi", "Fastcall", "ThisCall", "Vectorcall", "Aapcs", "Win64", "CUnwind", "System"}
GATED_ABI = {"ThisCall": "abiThiscall", "Vectorcall": "abiVectorcall", "CUnwind": "abiCUnwind", "EfiApi": "abiEfiapi"}

# construct -> marker regexes (searched in comment-stripped source)
MARKERS = [
    ("offsetOf", r"offset_of!\s*\("),
    ("cstrLiteral", r"Literal::c_string\s*\("),
    ("constCStrUnchecked", r"from_bytes_with_nul_unchecked"),
    ("coreFfiCType", r"::core::ffi::#\w+|::core::ffi::c_(?!void\b)\w+"),
    ("coreFfiCStr", r"::(?:#prefix|core)::ffi::CStr\b"),
    ("ptrMetadata", r"ptr::from_raw_parts(?:_mut)?\b|\.to_raw_parts\s*\("),
    ("layoutForPtr", r"for_value_raw\b"),
]
EXTERN_BLOCK = r"(#\w+\s+|unsafe\s+)?extern\s+(?:#\w+|\"[^\"]*\")\s*\{"
FLAG_READ = r"rust_features(?:\(\))?\s*\.\s*(\w+)"


def blank_comments(src):
    """replace // comments by spaces (keeps offsets and line numbers); strings are kept"""
    out = list(src)
    i, n = 0, len(src)
    while i < n:
        c = src[i]
        if c == '"':
            i += 1
            while i < n and src[i] != '"':
                if src[i] == "\\":
                    i += 1
                i += 1
        elif src.startswith("//", i):
            while i < n and src[i] != "\n":
                out[i] = " "
                i += 1
            continue
        i += 1
    return "".join(out)


def quote_regions(src):
    """[start, end) of every quote!/parse_quote! macro body (generated Rust, not bindgen's own)"""
    out = []
    for m in re.finditer(r"\b(?:quote|parse_quote)!\s*[\({]", src):
        try:
            out.append((m.end() - 1, braces(src, m.end() - 1)))
        except TranslateError:
            pass
    return out


def fn_ranges(src):
    """(name, body_start, body_end, header_text) for every fn of bindgen itself with a body"""
    out = []
    quoted = quote_regions(src)
    for m in re.finditer(r"\bfn\s+(\w+)", src):
        if any(a <= m.start() < b for a, b in quoted):
            continue
        i = m.end()
        depth = 0
        n = len(src)
        while i < n:
            c = src[i]
            if c in "(<[":
                depth += 1 if c != "<" else 0
            elif c in ")]":
                depth -= 1
            elif c == ";" and depth == 0:
                i = -1
                break
            elif c == "{" and depth == 0:
                break
            i += 1
        if i < 0 or i >= n:
            continue
        try:
            j = braces(src, i)
        except TranslateError:
            continue
        out.append((m.group(1), i, j, src[m.start():i]))
    return out


def enclosing_fn(fns, pos):
    best = None
    for f in fns:
        if f[1] <= pos < f[2] and (best is None or f[1] > best[1]):
            best = f
    return best


def block_chain(src, lo, pos):
    """opening-brace offsets of the blocks enclosing pos, innermost last, not before lo"""
    stack = []
    i = lo
    while i < pos:
        c = src[i]
        if c == '"':
            i += 1
            while i < pos and src[i] != '"':
                if src[i] == "\\":
                    i += 1
                i += 1
        elif c == "'" and re.match(r"'(\\.|[^\\'])'", src[i:i + 4]):
            i += len(re.match(r"'(\\.|[^\\'])'", src[i:i + 4]).group(0)) - 1
        elif c in "{([":
            stack.append((c, i))
        elif c in "})]":
            if stack:
                stack.pop()
        i += 1
    return [p for c, p in stack if c == "{"]


def header_of(src, brace, lo):
    """text between the previous `;`, `{` or `}` (at the same nesting) and this `{`"""
    i = brace - 1
    depth = 0
    while i > lo:
        c = src[i]
        if c in ")]":
            depth += 1
        elif c in "([":
            depth -= 1
        elif depth == 0 and c in ";{}":
            break
        i -= 1
    return src[i + 1:brace], i


def flags_in(cond, aliases):
    pos = set(re.findall(FLAG_READ, cond))
    for name, fl in aliases.items():
        if re.search(r"(?<![\w.])%s\b(?!\s*[.(])" % re.escape(name), cond):
            pos |= fl
    return pos


def guards_at(src, fn, pos, aliases, opt_aliases):
    """(true flags, false flags) from the if/else chain around pos"""
    true, false = set(), set()
    for b in block_chain(src, fn[1], pos):
        head, stop = header_of(src, b, fn[1])
        h = re.sub(r"\s+", " ", head).strip()
        hm = re.match(r"^(?:let [^=]+= |else |return )?if (.+)$", h)
        if hm:
            cond = hm.group(1)
            m = re.match(r"let Some\(\w+\) = (\w+)$", cond)
            if m and m.group(1) in opt_aliases:
                true |= opt_aliases[m.group(1)]
            elif "||" not in cond and not re.search(r"!\s*[\w.()]*rust_features", cond):
                true |= flags_in(cond, aliases)
        elif h == "else":
            # condition of the matching `if`: the block that closes at `stop`
            if src[stop] != "}":
                continue
            # find its opening brace
            depth, k = 0, stop
            while k > fn[1]:
                if src[k] == "}":
                    depth += 1
                elif src[k] == "{":
                    depth -= 1
                    if depth == 0:
                        break
                k -= 1
            h2, _ = header_of(src, k, fn[1])
            h2 = re.sub(r"\s+", " ", h2).strip()
            hm2 = re.match(r"^(?:let [^=]+= |else |return )?if (.+)$", h2)
            if hm2 and "&&" not in h2:
                false |= flags_in(hm2.group(1), aliases)
    return true, false


def scan_file(rel, src_raw, sites, extern_sites, problems):
    src = blank_comments(src_raw)
    fns = fn_ranges(src)

    def line(p):
        return src.count("\n", 0, p) + 1

    def aliases_for(fn):
        body = src[fn[1]:fn[2]]
        al, opt = {}, {}
        for m in re.finditer(r"let\s+(\w+)\s*=\s*([^;{]*?)%s\s*;" % FLAG_READ, body):
            if ".then(" in m.group(0):
                continue
            al[m.group(1)] = {m.group(3)}
        for m in re.finditer(r"let\s+(\w+)\s*=\s*if\s+([^{]+)\{", body):
            # `let x = if COND { .. } else { None };`
            i = fn[1] + m.end() - 1
            j = braces(src, i)
            rest = src[j:j + 80]
            cond = re.sub(r"&&\s*\(\s*(?:!options\.use_core\s*\|\|\s*rust_features\.core_ffi_c|rust_features\.core_ffi_c\s*\|\|\s*!options\.use_core)\s*\)", "", m.group(2))
            if re.match(r"\s*else\s*\{\s*None\s*\}\s*;", rest) and "||" not in cond:
                opt[m.group(1)] = flags_in(cond, al)
        return al, opt

    for construct, rx in MARKERS:
        for m in re.finditer(rx, src):
            fn = enclosing_fn(fns, m.start())
            if fn is None:
                problems.append("%s:%d: marker for %s outside any fn" % (rel, line(m.start()), construct))
                continue
            al, opt = aliases_for(fn)
            t, f = guards_at(src, fn, m.start(), al, opt)
            sites.append(dict(file=rel, line=line(m.start()), construct=construct, fn=fn[0],
                              guards=sorted(t), neg=sorted(f)))

    for m in re.finditer(EXTERN_BLOCK, src):
        fn = enclosing_fn(fns, m.start())
        if fn is None:
            continue
        # only inside quote!/parse_quote! bodies of codegen: skip Rust items of bindgen itself
        pre = src[max(0, m.start() - 400):m.start()]
        if not re.search(r"quote!\s*[\({]\s*(?:[^;]*)$", pre, re.S):
            continue
        prefix = (m.group(1) or "").strip()
        guard = []
        kind = "plain"
        if prefix == "unsafe":
            kind = "literal-unsafe"
        elif prefix.startswith("#"):
            var = prefix[1:]
            body = src[fn[1]:fn[2]]
            b = re.search(r"let\s+%s\s*=\s*([^;]*?)%s\s*\.then\(\s*\|\|\s*quote!\s*\(\s*unsafe\s*\)\s*\)\s*;" % (re.escape(var), FLAG_READ), body)
            if b:
                kind = "gated"
                guard = [b.group(2)]
            elif var == "block_attributes" or var == "attributes":
                kind = "plain"
            else:
                kind = "unknown-prefix:" + var
        abi_tok = re.search(r"extern\s+(#\w+|\"[^\"]*\")", m.group(0)).group(1)
        extern_sites.append(dict(file=rel, line=line(m.start()), fn=fn[0], kind=kind, guard=guard, abi=abi_tok))


def abi_gate(repo):
    rel = "bindgen/ir/function.rs"
    src = blank_comments(read(repo, rel))
    m = re.search(r"pub enum Abi \{", src)
    if not m:
        raise TranslateError("%s: `pub enum Abi {` not found" % rel)
    body = src[m.end():braces(src, m.end() - 1) - 1]
    variants = set(re.findall(r"(?m)^\s*(\w+),", re.sub(r"///[^\n]*", "", body)))
    if variants != KNOWN_ABIS:
        raise TranslateError("%s: enum Abi variants changed: %s (Model/FeaturesSpec.lean classifies %s)" %
                             (rel, sorted(variants), sorted(KNOWN_ABIS)))
    m = re.search(r"pub\(crate\) fn abi\(\s*&self,\s*ctx: &BindgenContext,", src)
    if not m:
        raise TranslateError("%s: FunctionSig::abi not found" % rel)
    i = src.find("{", m.end())
    fbody = src[i:braces(src, i)]
    mm = re.search(r"match abi \{", fbody)
    if not mm:
        raise TranslateError("%s: `match abi {` in FunctionSig::abi not found" % rel)
    arms_txt = fbody[mm.end():braces(fbody, mm.end() - 1) - 1]
    arms = re.findall(r"ClangAbi::Known\(Abi::(\w+)\)\s*if\s*!\s*ctx\.options\(\)\.rust_features\(\)\.(\w+)\s*=>\s*\{\s*Err\(", arms_txt)
    base = src.count("\n", 0, i + mm.start()) + 1
    out = []
    for abi, flag in arms:
        if abi not in GATED_ABI:
            raise TranslateError("%s: arm for Abi::%s gated on %s is not classified" % (rel, abi, flag))
        k = arms_txt.find("Abi::%s)" % abi)
        out.append(dict(file=rel, line=base + arms_txt.count("\n", 0, k), construct=GATED_ABI[abi], fn="abi",
                        guards=[flag], neg=[]))
    got = {a for a, _ in arms}
    # every ABI that is gated by hand classification must have an arm; missing arm -> site with no guard
    for abi, c in GATED_ABI.items():
        if abi not in got:
            out.append(dict(file=rel, line=base, construct=c, fn="abi", guards=[], neg=[]))
    if not re.search(r"abi => Ok\(abi\),", arms_txt):
        raise TranslateError("%s: fall-through arm `abi => Ok(abi)` not found" % rel)
    return out


def abi_emit_sites(repo, files):
    """every `extern #abi` emission and whether `abi` comes from FunctionSig::abi"""
    out = []
    bodies = {}
    for rel in files:
        src = blank_comments(read(repo, rel))
        bodies[rel] = (src, fn_ranges(src))
    for rel, (src, fns) in bodies.items():
        for m in re.finditer(r"extern\s+#abi\b", src):
            fn = enclosing_fn(fns, m.start())
            if fn is None:
                continue
            before = src[fn[1]:m.start()]
            via = bool(re.search(r"\.abi\(\s*ctx\s*,", before))
            how = "direct"
            if not via and re.search(r"\babi\s*:\s*ClangAbi\b", fn[3]):
                how = "param"
                calls = []
                for rel2, (src2, fns2) in bodies.items():
                    for c in re.finditer(r"\.%s\s*\(" % re.escape(fn[0]), src2):
                        f2 = enclosing_fn(fns2, c.start())
                        calls.append(f2 is not None and bool(re.search(r"\.abi\(\s*ctx\s*,", src2[f2[1]:c.start()])))
                via = bool(calls) and all(calls)
            out.append(dict(file=rel, line=src.count("\n", 0, m.start()) + 1, fn=fn[0], via=via, how=how))
    return out


def generate(repo):
    root = os.path.join(repo, "bindgen")
    files = []
    for d, _, fs in os.walk(root):
        for f in sorted(fs):
            rel = os.path.relpath(os.path.join(d, f), repo)
            if not f.endswith(".rs"):
                continue
            if rel in ("bindgen/features.rs", "bindgen/verif.rs") or rel.startswith("bindgen/options/"):
                continue
            files.append(rel)
    files.sort()
    sites, extern_sites, problems = [], [], []
    for rel in files:
        scan_file(rel, read(repo, rel), sites, extern_sites, problems)
    if problems:
        raise TranslateError("; ".join(problems[:5]))
    sites += abi_gate(repo)
    abi_sites = abi_emit_sites(repo, files)
    for c, _ in MARKERS:
        if not any(s["construct"] == c for s in sites):
            raise TranslateError("no emission site found for construct %s (marker patterns out of date?)" % c)
    if not any(e["kind"] == "gated" for e in extern_sites):
        raise TranslateError("no `#safety extern .. {` site found")
    if not abi_sites:
        raise TranslateError("no `extern #abi` site found")
    for e in extern_sites:
        if e["kind"].startswith("unknown-prefix"):
            raise TranslateError("%s:%d: extern block with unrecognised prefix token (%s)" % (e["file"], e["line"], e["kind"]))

    def stem(rel):
        return re.sub(r"\W+", "_", rel[len("bindgen/"):-3])

    o = ["import BindgenModel.Model.FeaturesSpec",
         "namespace BindgenModel.Generated", "open BindgenModel.Features\n"]
    names = []
    count = {}
    o.append("/-! ## sites that emit a gated construct -/")
    for s in sites:
        key = (stem(s["file"]), s["construct"])
        count[key] = count.get(key, 0) + 1
        nm = "site_%s_%s_%d" % (key[0], s["construct"], count[key])
        s["name"] = nm
        o.append("/-- %s:%d in `fn %s` -/" % (s["file"], s["line"], s["fn"]))
        o.append("def %s : GateSite := ⟨%s, %d, .%s, [%s], [%s]⟩" % (
            nm, lean_str(s["file"]), s["line"], s["construct"],
            ", ".join("." + g for g in s["guards"]), ", ".join("." + g for g in s["neg"])))
        names.append(nm)
    o.append("\ndef gateSites : List GateSite := [%s]\n" % ", ".join(names))
    o.append("/-! ## extern-block emission sites: (file, line, prefix kind, guard) -/")
    o.append("structure ExternSite where\n  file : String\n  line : Nat\n  gated : Bool        -- `#safety extern` with `safety = <flag>.then(|| quote!(unsafe))`\n  literalUnsafe : Bool -- `unsafe extern \"..\" {` written out in a quote\n  guard : List Feature\n")
    en = []
    for i, e in enumerate(extern_sites, 1):
        nm = "extern_%s_%d" % (stem(e["file"]), i)
        e["name"] = nm
        o.append("/-- %s:%d in `fn %s`, abi token %s -/" % (e["file"], e["line"], e["fn"], e["abi"].replace('"', "'")))
        o.append("def %s : ExternSite := ⟨%s, %d, %s, %s, [%s]⟩" % (
            nm, lean_str(e["file"]), e["line"], "true" if e["kind"] == "gated" else "false",
            "true" if e["kind"] == "literal-unsafe" else "false", ", ".join("." + g for g in e["guard"])))
        en.append(nm)
    o.append("\ndef externSites : List ExternSite := [%s]\n" % ", ".join(en))
    o.append("/-- an extern block is written `#safety extern` with `safety` bound to the `unsafe_extern_blocks` flag -/")
    o.append("def externSiteOk (s : ExternSite) : Bool := s.gated && !s.literalUnsafe && s.guard == [.unsafe_extern_blocks]\n")
    o.append("/-! ## `extern #abi` emission sites: does `abi` come from the gated `FunctionSig::abi`? -/")
    an = []
    for i, a in enumerate(abi_sites, 1):
        nm = "abi_emit_%s_%d" % (stem(a["file"]), i)
        o.append("/-- %s:%d in `fn %s` (%s) -/" % (a["file"], a["line"], a["fn"], a["how"]))
        o.append("def %s : Bool := %s" % (nm, "true" if a["via"] else "false"))
        an.append(nm)
    o.append("\ndef abiEmitSites : List Bool := [%s]\n" % ", ".join(an))
    o.append("/-! ## named obligations (one per site; a site that loses its guard names itself) -/")
    for s in sites:
        if s["construct"] == "coreFfiCStr":
            o.append("-- %s (%s:%d): emitted with `#prefix`; needs `core_ffi_c` only when the prefix is `core`: see known finding core_cstr_before_1_64"
                     % (s["name"], s["file"], s["line"]))
            continue
        o.append("theorem gate_%s : siteOk theTable %s = true := by decide" % (s["name"][5:], s["name"]))
    for e in extern_sites:
        o.append("theorem gate_%s : externSiteOk %s = true := by decide" % (e["name"], e["name"]))
    for nm in an:
        o.append("theorem gate_%s : %s = true := by decide" % (nm, nm))
    o.append("")
    o.append("/-- all sites other than the prefix-dependent `CStr` path are gated -/")
    o.append("theorem gate_sites_all : ∀ s ∈ gateSites, s.construct ≠ .coreFfiCStr → siteOk theTable s = true := by decide")
    o.append("theorem extern_sites_all : ∀ s ∈ externSites, externSiteOk s = true := by decide")
    o.append("theorem abi_emit_sites_all : ∀ b ∈ abiEmitSites, b = true := by decide")
    o.append("\nend BindgenModel.Generated\n")
    return "\n".join(o)
