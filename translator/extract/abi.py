"""ir/function.rs: `enum Abi`, `Display`/`FromStr` strings, `get_abi` arms, feature gates of
`FunctionSig::abi`  ->  Generated/Abi.lean (C04)."""
import re
from translate import read, body_after, strip_comments, TranslateError

NAME = "Abi"
REL = "bindgen/ir/function.rs"


def chars(s):
    return "[" + ", ".join("'%s'" % c for c in s) + "]"


def generate(repo):
    src = read(repo, REL)
    # --- enum Abi
    body = strip_comments(body_after(src, r"pub enum Abi\s*\{", REL))
    variants = re.findall(r"^\s*([A-Z]\w*)\s*,", body, re.M)
    if len(variants) < 2:
        raise TranslateError("%s: enum Abi: no variants recognised" % REL)
    # --- Display
    disp = body_after(src, r"impl std::fmt::Display for Abi\s*\{", REL)
    dpairs = re.findall(r"(?:Self|Abi)::(\w+)\s*=>\s*\"([^\"]*)\"", disp)
    if sorted(v for v, _ in dpairs) != sorted(variants):
        raise TranslateError("%s: Display for Abi does not list every variant exactly once: %r vs %r" % (REL, dpairs, variants))
    # --- FromStr
    fs = body_after(src, r"impl FromStr for Abi\s*\{", REL)
    fpairs = re.findall(r"\"([^\"]*)\"\s*=>\s*Ok\(Self::(\w+)\)", fs)
    if not fpairs:
        raise TranslateError("%s: FromStr for Abi: no arms recognised" % REL)
    # --- get_abi
    ga = strip_comments(body_after(src, r"fn get_abi\(cc: CXCallingConv\) -> ClangAbi\s*\{", REL))
    m = re.search(r"match cc\s*\{", ga)
    if not m:
        raise TranslateError("%s: get_abi: `match cc` not found" % REL)
    arms_src = body_after(ga, r"match cc\s*\{", REL)
    arms = []
    # split arms on "=>" at top level: patterns are `A | B =>` then either expr, or { expr }
    for pm in re.finditer(r"((?:CXCallingConv_\w+\s*\|?\s*)+)=>\s*(\{[^}]*\}|[^,]*),", arms_src):
        pats = re.findall(r"CXCallingConv_(\w+)", pm.group(1))
        rhs = pm.group(2)
        km = re.search(r"ClangAbi::Known\(Abi::(\w+)\)", rhs)
        if not km:
            raise TranslateError("%s: get_abi: arm not recognised: %s" % (REL, pm.group(0)[:80]))
        for p in pats:
            arms.append((p, km.group(1)))
    if not re.search(r"other\s*=>\s*ClangAbi::Unknown\(other\)", arms_src):
        raise TranslateError("%s: get_abi: fallback arm `other => ClangAbi::Unknown(other)` not found" % REL)
    if not arms:
        raise TranslateError("%s: get_abi: no arms" % REL)
    for _, v in arms:
        if v not in variants:
            raise TranslateError("%s: get_abi maps to unknown variant %s" % (REL, v))
    # --- gates in FunctionSig::abi
    ab = body_after(src, r"pub\(crate\) fn abi\(\s*&self,\s*ctx: &BindgenContext,\s*name: Option<&str>,\s*\)[^{]*\{", REL)
    gates = re.findall(r"ClangAbi::Known\(Abi::(\w+)\)\s*if\s*!ctx\.options\(\)\.rust_features\(\)\.(\w+)\s*=>\s*\{\s*Err\(", ab)
    vgates = re.findall(r"ClangAbi::Known\(Abi::(\w+)\)\s*if\s*self\.is_variadic\(\)\s*=>\s*\{\s*Err\(", ab)
    n_err = len(re.findall(r"Err\(crate::codegen::error::Error::UnsupportedAbi", ab))
    # calling conventions Rust has no name for: rejected (Err) or passed through to the callers (which panic on them)
    unknown_rejected = len(re.findall(r"ClangAbi::Unknown\(\.\.\)\s*=>\s*\{\s*Err\(crate::codegen::error::Error::UnsupportedAbi", strip_comments(ab)))
    if unknown_rejected > 1:
        raise TranslateError("%s: FunctionSig::abi: several ClangAbi::Unknown arms" % REL)
    if n_err != len(gates) + len(vgates) + unknown_rejected:
        raise TranslateError("%s: FunctionSig::abi: %d UnsupportedAbi arms but %d recognised" % (REL, n_err, len(gates) + len(vgates)))
    if not re.search(r"abi\s*=>\s*Ok\(abi\)", ab):
        raise TranslateError("%s: FunctionSig::abi: pass-through arm not found" % REL)
    feats = []
    for _, f in gates:
        if f not in feats:
            feats.append(f)
    # --- the decision of names_will_be_identical_after_mangling (codegen/mod.rs)
    cg = read(repo, "bindgen/codegen/mod.rs")
    nb = body_after(cg, r"pub\(crate\) fn names_will_be_identical_after_mangling\(", "bindgen/codegen/mod.rs", opener="{")
    mm = re.search(r"let \(mangling_prefix, expect_suffix\) = match call_conv\s*\{", nb)
    if not mm:
        raise TranslateError("codegen/mod.rs: names_will_be_identical_after_mangling: match call_conv not found")
    marm = strip_comments(body_after(nb, r"let \(mangling_prefix, expect_suffix\) = match call_conv\s*\{", "bindgen/codegen/mod.rs"))
    shape = []
    for pm in re.finditer(r"((?:Some\(ClangAbi::Known\([^)]*\)\)|None)(?:\s*\|\s*(?:Some\(ClangAbi::Known\([^)]*\)\)|None))*)\s*=>\s*(?:\{\s*)?\(b'(.)',\s*(true|false)\)", marm):
        for a in re.findall(r"(?<![A-Za-z])Abi::(\w+)", pm.group(1)):
            shape.append((a, pm.group(2), pm.group(3)))
        if re.search(r"\bNone\b", pm.group(1)):
            shape.append((None, pm.group(2), pm.group(3)))
    if not shape or not re.search(r"Some\(_\)\s*=>\s*return false", marm):
        raise TranslateError("codegen/mod.rs: names_will_be_identical_after_mangling: arms not recognised")

    out = []
    out.append("namespace BindgenModel.Generated\n")
    out.append("/-- `pub enum Abi` (ir/function.rs) -/")
    out.append("inductive Abi where\n  | " + " | ".join(variants) + "\n  deriving DecidableEq, Repr, Inhabited\n")
    out.append("def Abi.all : List Abi := [" + ", ".join("." + v for v in variants) + "]\n")
    out.append("/-- `impl Display for Abi` -/")
    out.append("def Abi.display : Abi → List Char")
    for v, s in dpairs:
        out.append("  | .%s => %s" % (v, chars(s)))
    out.append("")
    out.append("/-- `impl FromStr for Abi` (arms in source order) -/")
    out.append("def Abi.fromStrArms : List (List Char × Abi) := [")
    out.append(",\n".join("  (%s, .%s)" % (chars(s), v) for s, v in fpairs))
    out.append("]\n")
    ccs = []
    for p, _ in arms:
        if p not in ccs:
            ccs.append(p)
    out.append("/-- the `CXCallingConv_*` constants `get_abi` names, plus `Other` for its fallback arm -/")
    out.append("inductive CXCC where\n  | " + " | ".join(ccs) + " | Other\n  deriving DecidableEq, Repr, Inhabited\n")
    out.append("/-- `get_abi`: `none` = `ClangAbi::Unknown` -/")
    out.append("def getAbi : CXCC → Option Abi")
    for p, v in arms:
        out.append("  | .%s => some .%s" % (p, v))
    out.append("  | .Other => none\n")
    out.append("/-- rust_features fields consulted by `FunctionSig::abi` -/")
    out.append("inductive AbiFeature where\n  | " + " | ".join(feats) + "\n  deriving DecidableEq, Repr, Inhabited\n")
    out.append("/-- `FunctionSig::abi`: the feature an ABI needs (`Err(UnsupportedAbi)` without it) -/")
    out.append("def abiGate : Abi → Option AbiFeature")
    for v, f in gates:
        out.append("  | .%s => some .%s" % (v, f))
    out.append("  | _ => none\n")
    out.append("/-- `FunctionSig::abi`: ABIs rejected for variadic signatures -/")
    out.append("def abiNoVariadic : Abi → Bool")
    for v in vgates:
        out.append("  | .%s => true" % v)
    out.append("  | _ => false\n")
    out.append("/-- `FunctionSig::abi`: is `ClangAbi::Unknown` answered with `Err(UnsupportedAbi)` (true) or handed")
    out.append("to the callers, which panic on it (false)? -/")
    out.append("def abiUnknownRejected : Bool := %s\n" % ("true" if unknown_rejected else "false"))
    out.append("/-- `names_will_be_identical_after_mangling`: `(mangling_prefix, expect_suffix)` per known ABI;")
    out.append("`none` = the `Some(_) => return false` arm -/")
    out.append("def manglingShapeKnown : Abi → Option (Char × Bool)")
    for a, c, b in shape:
        if a is not None:
            out.append("  | .%s => some ('%s', %s)" % (a, c, b))
    out.append("  | _ => none\n")
    none_rows = [(c, b) for a, c, b in shape if a is None]
    if len(none_rows) != 1:
        raise TranslateError("codegen/mod.rs: names_will_be_identical_after_mangling: `None` arm not found exactly once")
    out.append("/-- the `None` arm (global variables) -/")
    out.append("def manglingShapeVar : Char × Bool := ('%s', %s)\n" % none_rows[0])
    out.append("end BindgenModel.Generated\n")
    return "\n".join(out)
