"""Inventory of every place in bindgen/**/*.rs that consults the process environment at run time
(`env::var`, `env::var_os`, `env::vars`, `env::vars_os`, `env::temp_dir`) and of every call of
the announcing helper `env_var(parse_callbacks, key)` (lib.rs), which is the only function that
calls the `read_env_var` callback.  build.rs (bindgen's own build script) is listed too."""
import os, re
from translate import read, TranslateError
from extract.depfileescape import lean_chars

NAME = "EnvSites"

READ_RE = re.compile(r"\benv\s*::\s*(var_os|vars_os|vars|var|temp_dir)\s*\(")
HELPER_CALL_RE = re.compile(r"(?<![A-Za-z0-9_:.])env_var\s*\(")
FN_RE = re.compile(r"\bfn\s+([A-Za-z_][A-Za-z0-9_]*)")


def rs_files(repo):
    out = []
    base = os.path.join(repo, "bindgen")
    for root, _, files in os.walk(base):
        for f in files:
            if f.endswith(".rs"):
                out.append(os.path.relpath(os.path.join(root, f), repo))
    return sorted(out)


def blank_comments_and_strings(src):
    """Replace comments by spaces (keeping offsets); keep string literals."""
    out = list(src)
    i, n = 0, len(src)
    while i < n:
        c = src[i]
        if c == '"':
            i += 1
            while i < n and src[i] != '"':
                if src[i] == "\\":
                    i += 1
                i += 1
            i += 1
        elif src.startswith("//", i):
            while i < n and src[i] != "\n":
                out[i] = " "
                i += 1
        elif src.startswith("/*", i):
            j = src.find("*/", i + 2)
            j = n if j < 0 else j + 2
            for k in range(i, j):
                if out[k] != "\n":
                    out[k] = " "
            i = j
        elif c == "'" and i + 2 < n and (src[i + 2] == "'" or (src[i + 1] == "\\" and src.find("'", i + 2) - i <= 4)):
            j = src.find("'", i + 2) if src[i + 1] == "\\" else i + 2
            i = j + 1
        else:
            i += 1
    return "".join(out)


def enclosing_fn(src, pos):
    name = "<top>"
    for m in FN_RE.finditer(src, 0, pos):
        name = m.group(1)
    return name


def first_arg(src, open_paren):
    """text of the first argument of the call whose '(' is at open_paren"""
    depth = 0
    i = open_paren
    start = open_paren + 1
    n = len(src)
    while i < n:
        c = src[i]
        if c == '"':
            i += 1
            while i < n and src[i] != '"':
                if src[i] == "\\":
                    i += 1
                i += 1
        elif c in "([{":
            depth += 1
        elif c in ")]}":
            depth -= 1
            if depth == 0:
                return src[start:i], i
        elif c == "," and depth == 1:
            return src[start:i], i
        i += 1
    raise TranslateError("unbalanced call at offset %d" % open_paren)


def args_of(src, open_paren):
    args = []
    depth = 0
    i = open_paren
    start = open_paren + 1
    n = len(src)
    while i < n:
        c = src[i]
        if c == '"':
            i += 1
            while i < n and src[i] != '"':
                if src[i] == "\\":
                    i += 1
                i += 1
        elif c in "([{":
            depth += 1
        elif c in ")]}":
            depth -= 1
            if depth == 0:
                args.append(src[start:i])
                return args
        elif c == "," and depth == 1:
            args.append(src[start:i])
            start = i + 1
        i += 1
    raise TranslateError("unbalanced call at offset %d" % open_paren)


def key_text(arg):
    a = re.sub(r"\s+", " ", arg).strip()
    m = re.fullmatch(r'"([A-Za-z0-9_]*)"', a)
    if m:
        return m.group(1)
    return "<dyn:" + a + ">"


def generate(repo):
    files = rs_files(repo)
    if "bindgen/lib.rs" not in files:
        raise TranslateError("bindgen/lib.rs missing")
    rows = []  # (file, fn, key, api, via)
    helper_seen = False
    for rel in files:
        if rel == "bindgen/verif.rs":
            continue  # verification hooks (cfg(bindgen_verif)), not part of production bindgen
        src = blank_comments_and_strings(read(repo, rel))
        for m in READ_RE.finditer(src):
            api = m.group(1)
            fn = enclosing_fn(src, m.start())
            if api in ("vars", "vars_os"):
                key = "<all>"
            elif api == "temp_dir":
                key = "TMPDIR"
            else:
                key = key_text(args_of(src, m.end() - 1)[0])
            via = "direct"
            if rel == "bindgen/lib.rs" and fn == "env_var":
                via = "helperBody"
                helper_seen = True
            rows.append((rel, fn, key, api, via))
        for m in HELPER_CALL_RE.finditer(src):
            fn = enclosing_fn(src, m.start())
            # skip the definition `fn env_var<...>(`
            if re.search(r"fn\s+$", src[max(0, m.start() - 8):m.start()]):
                continue
            a = [x for x in args_of(src, m.end() - 1) if x.strip()]
            if len(a) != 2:
                raise TranslateError("%s: env_var call with %d arguments in %s" % (rel, len(a), fn))
            rows.append((rel, fn, key_text(a[1]), "env_var", "helper"))
    if not helper_seen:
        raise TranslateError("bindgen/lib.rs: `fn env_var` with an `env::var` read not found")
    lib = read(repo, "bindgen/lib.rs")
    m = re.search(r"fn\s+env_var\b", lib)
    if not m:
        raise TranslateError("bindgen/lib.rs: anchor `fn env_var<` not found")
    from translate import braces
    i = lib.find("{", m.end())
    body = re.sub(r"\s+", " ", lib[i:braces(lib, i)])
    if "callback.read_env_var(key.as_ref());" not in body or body.find("read_env_var") > body.find("env::var(key)"):
        raise TranslateError("bindgen/lib.rs: env_var no longer announces the key before reading it: %r" % body)
    # who else calls read_env_var?  (must be only the helper and the trait/impl definitions)
    callers = []
    for rel in files:
        if rel == "bindgen/verif.rs":
            continue
        src = blank_comments_and_strings(read(repo, rel))
        for mm in re.finditer(r"\.\s*read_env_var\s*\(", src):
            callers.append((rel, enclosing_fn(src, mm.start())))
    if callers != [("bindgen/lib.rs", "env_var")]:
        raise TranslateError("read_env_var is called from %r (expected only lib.rs env_var)" % (callers,))
    out = ["namespace BindgenModel.Generated.EnvSites", "",
           "inductive Via where", "  | helper | helperBody | direct", "  deriving DecidableEq, Repr", "",
           "structure Site where", "  file : List Char", "  fn : List Char", "  key : List Char",
           "  api : List Char", "  via : Via", "",
           "/-- every run-time environment read site of bindgen/**/*.rs (verif.rs excluded) -/",
           "def sites : List Site := ["]
    vmap = {"helper": ".helper", "helperBody": ".helperBody", "direct": ".direct"}
    out.append(",\n".join(
        "  -- %s  fn %s  %s(%s)\n  { file := %s, fn := %s, key := %s, api := %s, via := %s }" % (
            f, fn, api, key, lean_chars(f), lean_chars(fn), lean_chars(key), lean_chars(api), vmap[via])
        for f, fn, key, api, via in rows))
    out += ["]", "", "end BindgenModel.Generated.EnvSites", ""]
    return "\n".join(out)
