"""ir/var.rs `Var::parse`, `CXCursor_VarDecl` arm: how `is_const` of a global is computed  ->  Generated/GlobalConstRule.lean (C04)."""
import re
from translate import read, strip_comments, TranslateError

NAME = "GlobalConstRule"
REL = "bindgen/ir/var.rs"


def generate(repo):
    src = strip_comments(read(repo, REL))
    all_levels = re.search(r"let mut innermost = ty;\s*while \[CXType_ConstantArray, CXType_IncompleteArray\]\s*\.contains\(&innermost\.kind\(\)\)\s*\{\s*match innermost\.elem_type\(\) \{\s*Some\(element\) => innermost = element,\s*None => break,\s*\}\s*\}\s*let is_const = ty\.is_const\(\) \|\| innermost\.is_const\(\);", src) is not None
    one_level = re.search(r"let is_const = ty\.is_const\(\) \|\|\s*\(\[CXType_ConstantArray, CXType_IncompleteArray\]\s*\.contains\(&ty\.kind\(\)\) &&\s*ty\.elem_type\(\)\s*\.is_some_and\(\|element\| element\.is_const\(\)\)\);", src) is not None
    if not all_levels and not one_level:
        raise TranslateError("%s: Var::parse: `is_const` of a variable is computed in an unrecognised form" % REL)
    if len(re.findall(r"let is_const\s*=", src)) != 1:
        raise TranslateError("%s: expected exactly one `let is_const =`" % REL)
    if not re.search(r"Var::new\(name, mangling, link_name, ty, value, is_const\)", src):
        raise TranslateError("%s: Var::parse: `Var::new(name, mangling, link_name, ty, value, is_const)` not found" % REL)
    return "\n".join(["namespace BindgenModel.Generated\n",
                      "/-- `Var::parse`: constness is looked for on the innermost element type of an array of any number of dimensions",
                      "(true) or on one element level only (false) -/",
                      "def globalConstAllLevels : Bool := %s\n" % ("true" if all_levels else "false"),
                      "end BindgenModel.Generated\n"])
