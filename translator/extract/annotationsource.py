"""ir/annotations.rs `Annotations::new`: are annotations read only from declarations that carry a comment of their own?
(libclang's parsed comment of a declaration without one is the comment of what it derives from / overrides)
->  Generated/AnnotationSource.lean (C10)."""
import re
from translate import read, body_after, strip_comments, TranslateError

NAME = "AnnotationSource"
REL = "bindgen/ir/annotations.rs"


def generate(repo):
    src = read(repo, REL)
    body = strip_comments(body_after(src, r"pub\(crate\) fn new\(cursor: &clang::Cursor\) -> Option<Annotations>\s*", REL))
    if not re.search(r"anno\.parse\(&cursor\.comment\(\), &mut matched_one\);", body):
        raise TranslateError("%s: Annotations::new: `anno.parse(&cursor.comment(), &mut matched_one)` not found" % REL)
    own = re.search(r"^\s*cursor\.raw_comment\(\)\?;", body, re.M) is not None
    if own and body.find("cursor.raw_comment()?;") > body.find("anno.parse("):
        raise TranslateError("%s: Annotations::new: the own-comment test comes after the parse" % REL)
    return "\n".join(["namespace BindgenModel.Generated\n",
                      "/-- `Annotations::new` returns `None` for a declaration without a raw comment of its own before it looks at the parsed comment -/",
                      "def annotationsOwnCommentOnly : Bool := %s\n" % ("true" if own else "false"),
                      "end BindgenModel.Generated\n"])
