"""ir/context.rs `find_used_template_parameters` / `uses_any_template_parameters` and codegen/mod.rs
`impl CodeGenerator for TemplateInstantiation`: which parameters the map of the non-recursive path holds,
what the gate asks, and in which order the instantiation assertion is gated
->  Generated/TemplateGate.lean (C06, C07)."""
import re
from translate import read, body_after, strip_comments, TranslateError

NAME = "TemplateGate"
CTX = "bindgen/ir/context.rs"
CG = "bindgen/codegen/mod.rs"


def generate(repo):
    ctx = read(repo, CTX)
    body = strip_comments(body_after(ctx, r"fn find_used_template_parameters\(&mut self\)\s*", CTX))
    m = re.search(r"if self\.options\.allowlist_recursively\s*\{(.*?)\}\s*else\s*\{(.*)\}\s*$", body, re.S)
    if not m:
        raise TranslateError("%s: find_used_template_parameters: `if self.options.allowlist_recursively { … } else { … }` not found" % CTX)
    rec, non = m.group(1), m.group(2)
    if not re.search(r"analyze::<UsedTemplateParameters>\(self\)", rec):
        raise TranslateError("%s: find_used_template_parameters: the recursive branch does not run UsedTemplateParameters" % CTX)
    if not re.search(r"for &id in self\.allowlisted_items\(\)\s*\{", non):
        raise TranslateError("%s: find_used_template_parameters: the non-recursive branch does not loop over allowlisted_items()" % CTX)
    calls = re.findall(r"id\s*\.\s*(\w*template_params)\(self\)", non)
    if len(calls) != 1:
        raise TranslateError("%s: find_used_template_parameters: expected one `id.*template_params(self)` call, found %r" % (CTX, calls))
    which = {"self_template_params": "self", "all_template_params": "all"}.get(calls[0])
    if which is None:
        raise TranslateError("%s: find_used_template_parameters: unknown parameter source `%s`" % (CTX, calls[0]))
    gate = strip_comments(body_after(ctx, r"pub\(crate\) fn uses_any_template_parameters\(&self, item: ItemId\) -> bool\s*", CTX))
    gate_ok = re.search(r"\.get\(&item\)\s*\.is_some_and\(\|used\| !used\.is_empty\(\)\)", gate) is not None
    if not gate_ok:
        raise TranslateError("%s: uses_any_template_parameters is not `map.get(&item).is_some_and(|used| !used.is_empty())`" % CTX)
    cg = read(repo, CG)
    mm = re.search(r"impl CodeGenerator for TemplateInstantiation\s*\{", cg)
    if not mm:
        raise TranslateError("%s: `impl CodeGenerator for TemplateInstantiation` not found" % CG)
    ib = strip_comments(body_after(cg[mm.start():], r"impl CodeGenerator for TemplateInstantiation\s*", CG))
    anchors = [("layoutTestsOrOpaque", r"if !ctx\.options\(\)\.layout_tests \|\| self\.is_opaque\(ctx, item\)\s*\{\s*return;"),
               ("usesAny", r"if ctx\.uses_any_template_parameters\(item\.id\(\)\)\s*\{\s*return;"),
               ("layout", r"let layout = item\.kind\(\)\.expect_type\(\)\.layout\(ctx\);")]
    pos = []
    for nm, rx in anchors:
        a = re.search(rx, ib)
        if not a:
            raise TranslateError("%s: TemplateInstantiation::codegen: step `%s` not found in the modelled form" % (CG, nm))
        pos.append((a.start(), nm))
    order = [nm for _, nm in sorted(pos)]
    returns = len(re.findall(r"\breturn;", ib))
    out = ["namespace BindgenModel.Generated\n",
           "/-- `find_used_template_parameters`, branch `allowlist_recursively = false`: whose parameters does the map hold",
           "for an allowlisted item: its own (`self_template_params`) or all those in scope (`all_template_params`)? -/",
           "def nonRecursiveParamSource : String := \"%s\"\n" % which,
           "/-- `TemplateInstantiation::codegen`: the steps before the assertion is pushed, in source order -/",
           "def instAssertGates : List String := [" + ", ".join('"%s"' % g for g in order) + "]\n",
           "/-- number of early `return;` statements in `TemplateInstantiation::codegen` -/",
           "def instAssertReturns : Nat := %d\n" % returns,
           "end BindgenModel.Generated\n"]
    return "\n".join(out)
