"""Constants and shapes of the generation entry path  ->  Generated/Entry.lean  (C12)

* lib.rs `Bindings::generate`: the order of the input-path checks (metadata -> is_dir ->
  can_read -> push / NotExist) and the `can_read` mask;
* lib.rs `parse`: the diagnostics comparison `d.severity() >= CXDiagnostic_Error`;
* features.rs: edition rows of `define_rust_editions!`, the earliest stable minor of
  `define_rust_targets!`, and whether `from_str` adjusts a `-nightly` version with the unchecked
  `minor -= 1` or with `checked_sub`;
* ir/context.rs `ItemResolver::resolve`: the cycle bail-out and the two follow arms.
"""
import re
from translate import TranslateError, read, body_after, strip_comments

NAME = "Entry"

CX_DIAGNOSTIC = {"CXDiagnostic_Ignored": 0, "CXDiagnostic_Note": 1, "CXDiagnostic_Warning": 2,
                 "CXDiagnostic_Error": 3, "CXDiagnostic_Fatal": 4}


def need(cond, rel, what):
    if not cond:
        raise TranslateError("%s: form not recognised: %s" % (rel, what))


def generate(repo):
    lib = strip_comments(read(repo, "bindgen/lib.rs"))
    gen = body_after(lib, r"pub\(crate\) fn generate\s*\(", "bindgen/lib.rs", "{")
    flat = re.sub(r"\s+", " ", gen)
    # order of the path checks
    m = re.search(r"if let Some\(h\) = options\.input_headers\.last\(\) \{ let path = Path::new\(h\.as_ref\(\)\); "
                  r"if let Ok\(md\) = std::fs::metadata\(path\) \{ if md\.is_dir\(\) \{ return Err\(BindgenError::FolderAsHeader\(path\.into\(\)\)\); \} "
                  r"if !can_read\(&md\.permissions\(\)\) \{ return Err\(BindgenError::InsufficientPermissions\( path\.into\(\), \)\); \} "
                  r"options\.clang_args\.push\(h\.clone\(\)\); \} else \{ return Err\(BindgenError::NotExist\(path\.into\(\)\)\); \} \}", flat)
    need(m, "bindgen/lib.rs", "input path triage in Bindings::generate (metadata / is_dir / can_read / NotExist order)")
    m = re.search(r"fn can_read\(perms: &std::fs::Permissions\) -> bool \{ use std::os::unix::fs::PermissionsExt; perms\.mode\(\) & 0o([0-7]+) > 0 \}", flat)
    need(m, "bindgen/lib.rs", "can_read mask")
    mask = int(m.group(1), 8)

    parse = re.sub(r"\s+", " ", body_after(lib, r"\nfn parse\s*\(context", "bindgen/lib.rs", "{"))
    m = re.search(r"let mut error = None; for d in &context\.translation_unit\(\)\.diags\(\) \{ let msg = d\.format\(\); "
                  r"let is_err = d\.severity\(\) >= (CXDiagnostic_\w+); if is_err \{ let error = error\.get_or_insert_with\(String::new\); "
                  r"error\.push_str\(&msg\); error\.push\('\\n'\); \} else \{ eprintln!\(\"clang diag: \{msg\}\"\); \} \} "
                  r"if let Some\(message\) = error \{ return Err\(BindgenError::ClangDiagnostic\(message\)\); \}", parse)
    need(m, "bindgen/lib.rs", "diagnostics scan of parse()")
    thr = CX_DIAGNOSTIC.get(m.group(1))
    need(thr is not None, "bindgen/lib.rs", "severity constant " + m.group(1))

    bg = re.sub(r"\s+", " ", body_after(lib, r"pub fn generate\s*\(mut self\)", "bindgen/lib.rs", "{"))
    need(re.search(r"match self\.options\.rust_edition \{ Some\(edition\) => \{ if !edition\.is_available\(self\.options\.rust_target\) \{ "
                   r"return Err\(BindgenError::UnsupportedEdition\( edition, self\.options\.rust_target, \)\); \}", bg),
         "bindgen/lib.rs", "edition check of Builder::generate")

    feat = strip_comments(read(repo, "bindgen/features.rs"))
    eds = body_after(feat, r"\ndefine_rust_editions!\s*\{", "bindgen/features.rs", "{")
    rows = re.findall(r"Edition(\d+)\((\d+)\)\s*=>\s*(\d+)\s*,", eds)
    need(len(rows) >= 1 and all(a == b for a, b, _ in rows), "bindgen/features.rs", "define_rust_editions! rows")
    need(re.search(r"let Some\(minor\) = target\.minor\(\) else \{\s*return true;\s*\};\s*match self \{\s*\$\(Self::\$variant => \$minor <= minor,\)\*",
                   feat), "bindgen/features.rs", "RustEdition::is_available")
    tg = body_after(feat, r"\ndefine_rust_targets!\s*\{", "bindgen/features.rs", "{")
    minors = [int(x) for x in re.findall(r"Stable_1_\d+\((\d+)\)\s*=>", tg)]
    need(minors, "bindgen/features.rs", "define_rust_targets! rows")
    need(re.search(r"if target < EARLIEST_STABLE_RUST \{\s*return Err\(InvalidRustTarget::TooEarly\);", feat),
         "bindgen/features.rs", "RustTarget::stable")
    fs = re.sub(r"\s+", " ", body_after(feat, r"impl FromStr for RustTarget", "bindgen/features.rs", "{"))
    need('if input == "nightly" { return Ok(Self::Nightly); }' in fs and "input.split_once('-')" in fs
         and 'pre_release == "beta"' in fs and 'pre_release.starts_with("beta.")' in fs and 'pre_release == "nightly"' in fs
         and "version.split_once('.')" in fs and 'if major_str != "1"' in fs and "tail.split_once('.')" in fs
         and "minor_str.parse::<u64>()" in fs and "patch_str.parse::<u64>()" in fs and "tail.parse::<u64>()" in fs
         and "patch = u64::MAX;" in fs and "Self::stable(minor, patch)" in fs,
         "bindgen/features.rs", "RustTarget::from_str shape")
    if "minor -= 1;" in fs:
        checked = False
    elif re.search(r"minor\s*=\s*minor\s*\.checked_sub\(1\)|let Some\(\w+\) = minor\.checked_sub\(1\)|minor\.checked_sub\(1\)", fs) and "TooEarly" in fs:
        checked = True
    else:
        raise TranslateError("bindgen/features.rs: nightly adjustment of from_str is neither `minor -= 1` nor checked_sub(1) -> TooEarly")

    ctx = strip_comments(read(repo, "bindgen/ir/context.rs"))
    rs = re.sub(r"\s+", " ", body_after(ctx, r"pub\(crate\) fn resolve\(self, ctx: &BindgenContext\) -> &Item", "bindgen/ir/context.rs", "{"))
    need(re.search(r"let mut id = self\.id; let mut seen_ids = HashSet::default\(\); loop \{ let item = ctx\.resolve_item\(id\); "
                   r"if !seen_ids\.insert\(id\) \{ return item; \} let ty_kind = item\.as_type\(\)\.map\(\|t\| t\.kind\(\)\); match ty_kind \{ "
                   r"Some\(&TypeKind::ResolvedTypeRef\(next_id\)\) if self\.through_type_refs => \{ id = next_id\.into\(\); \} "
                   r"Some\(&TypeKind::Alias\(next_id\)\) if self\.through_type_aliases => \{ id = next_id\.into\(\); \} _ => return item, \} \}", rs),
         "bindgen/ir/context.rs", "ItemResolver::resolve loop")

    out = ["namespace BindgenModel.Generated.Entry", "",
           "/-- `can_read`: `perms.mode() & mask > 0` -/", "def canReadMask : Nat := %d" % mask, "",
           "/-- `d.severity() >= <threshold>` makes a diagnostic an error -/", "def diagErrorThreshold : Nat := %d" % thr, "",
           "/-- (edition year, first minor on which it is available) from `define_rust_editions!` -/",
           "def editions : List (Nat × Nat) := [%s]" % ", ".join("(%s, %s)" % (a, c) for a, _, c in rows), "",
           "/-- minor of `EARLIEST_STABLE_RUST` (minimum over `define_rust_targets!`) -/", "def earliestMinor : Nat := %d" % min(minors), "",
           "/-- minor of `LATEST_STABLE_RUST` -/", "def latestMinor : Nat := %d" % max(minors), "",
           "/-- does `RustTarget::from_str` use `checked_sub` for the `-nightly` adjustment (false = `minor -= 1`) -/",
           "def fromStrCheckedSub : Bool := %s" % ("true" if checked else "false"), "",
           "end BindgenModel.Generated.Entry", ""]
    return "\n".join(out)
