"""options/mod.rs + options/cli.rs -> Generated/Options.lean

From the `options! { .. }` invocation: one `OptSpec` per `BindgenOptions` field (Rust type, default,
the *shape* of its `as_args` item and the flag text(s) it pushes), and one `MethodEffect` per
`Builder` method declared in the `methods:` blocks (which fields it writes and how).
From cli.rs: one `CliArm` per field of the clap struct `BindgenCommand` (flag text, clap kind,
value parser, `conflicts_with`), joined with its `apply_args!` arm (position, builder method,
constant argument) or with the hand-recognised post-steps after the macro.

Only the syntactic forms present today are recognised; anything else raises TranslateError.
"""
import re
from translate import read, braces, lean_str, TranslateError

NAME = "Options"
MOD = "bindgen/options/mod.rs"
CLI = "bindgen/options/cli.rs"


def norm(s):
    return re.sub(r"\s+", " ", s).strip()


def strip_docs(s):
    return re.sub(r"(?m)^\s*///[^\n]*\n", "", s)


# ------------------------------------------------------------------ options! { .. }

def option_fields(src):
    m = re.search(r"(?m)^options!\s*\{", src)
    if not m:
        raise TranslateError("%s: `options! {` invocation not found" % MOD)
    i = m.end() - 1
    body = src[i + 1:braces(src, i) - 1]
    out, k, n = [], 0, len(body)
    head = re.compile(r"\s*(?:///[^\n]*\n\s*)*(\w+)\s*:\s*")
    while k < n:
        mm = head.match(body, k)
        if not mm:
            if body[k:].strip() in ("", ","):
                break
            raise TranslateError("%s: cannot parse options! near %r" % (MOD, body[k:k + 60]))
        name, p, depth = mm.group(1), mm.end(), 0
        q = p
        while True:
            c = body[q]
            if c in "<(":
                depth += 1
            elif c in ">)":
                depth -= 1
            elif c == "{" and depth == 0:
                break
            q += 1
        ty = norm(body[p:q])
        e = braces(body, q)
        fb = body[q + 1:e - 1]
        d = re.search(r"^\s*default:\s*(.*?),\s*methods:", fb, re.S)
        mi = fb.find("methods:")
        if mi < 0:
            raise TranslateError("%s: field %s has no methods: item" % (MOD, name))
        bi = fb.index("{", mi)
        be = braces(fb, bi)
        aa = re.search(r"as_args:\s*(.*?),?\s*$", fb[be:], re.S)
        if not aa:
            raise TranslateError("%s: field %s has no as_args: item" % (MOD, name))
        as_args = norm(re.sub(r"//[^\n]*", "", aa.group(1)))
        out.append(dict(name=name, ty=ty, default=norm(d.group(1)) if d else None,
                        methods=strip_docs(fb[bi + 1:be - 1]), as_args=as_args))
        k = e
        mm2 = re.compile(r"\s*,").match(body, k)
        if mm2:
            k = mm2.end()
    return out


TYPE_KIND = {
    "bool": "tBool", "RegexSet": "tRegexSet", "Option<String>": "tOptString", "Option<PathBuf>": "tOptPath",
    "String": "tString", "Vec<Box<str>>": "tVecStr", "Vec<String>": "tVecStr",
    "HashMap<Box<str>, Vec<Box<str>>>": "tMapVec", "HashMap<Abi, RegexSet>": "tMapAbi",
    "Vec<(Box<str>, Box<str>)>": "tVecPair", "Vec<(Box<str>, Box<str>, Box<str>)>": "tVecTriple",
    "Vec<Rc<dyn ParseCallbacks>>": "tCallbacks", "CodegenConfig": "tCodegenConfig",
    "EnumVariation": "tEnum", "MacroTypeVariation": "tEnum", "AliasVariation": "tEnum", "NonCopyUnionStyle": "tEnum",
    "FieldVisibilityKind": "tEnum", "Formatter": "tEnum", "RustTarget": "tRustTarget", "Option<RustEdition>": "tOptEnum",
    "RustFeatures": "tDerived", "Option<DepfileSpec>": "tOptDepfile",
}


def classify_as_args(f):
    """-> (kind, flag, flag2)"""
    a, ty, name = f["as_args"], f["ty"], f["name"]
    lit = re.fullmatch(r'"(--[^"]+)"', a)
    if a == "ignore":
        return "ignored", None, None
    if lit:
        k = {"bool": "bool", "RegexSet": "regexSet", "Option<String>": "optString", "Option<PathBuf>": "optPath"}.get(ty)
        if not k:
            raise TranslateError("%s: field %s: literal as_args on type %s has no AsArgs impl" % (MOD, name, ty))
        return k, lit.group(1), None
    m = re.fullmatch(r'\|value, args\| \(!value\)\.as_args\(args, "(--[^"]+)"\)', a)
    if m and ty == "bool":
        return "negBool", m.group(1), None
    m = re.fullmatch(r'\|value, args\| value\.as_args\(args, "(--[^"]+)"\)', a)
    if m and ty == "bool":
        return "bool", m.group(1), None
    m = re.fullmatch(r'\|&value, args\| \{ let arg = if value \{ "(--[^"]+)" \} else \{ "(--[^"]+)" \}; args\.push\(arg\.to_owned\(\)\); \}', a)
    if m and ty == "bool":
        return "boolBoth", m.group(1), m.group(2)
    m = re.fullmatch(r'\|(\w+), args\| \{ if \*\1 != Default::default\(\) \{ args\.push\("(--[^"]+)"\.to_owned\(\)\); args\.push\(\1\.to_string\(\)\); \} \}', a)
    if m:
        return "enumNonDefault", m.group(2), None
    m = re.fullmatch(r'\|prefix, args\| \{ if prefix != DEFAULT_ANON_FIELDS_PREFIX \{ args\.push\("(--[^"]+)"\.to_owned\(\)\); args\.push\(prefix\.clone\(\)\); \} \}', a)
    if m:
        return "strNonDefault", m.group(1), None
    m = re.fullmatch(r'\|(\w+), args\| \{ for (\w+) in \1 \{ args\.push\("(--[^"]+)"\.to_owned\(\)\); args\.push\(\2\.clone\(\)(?:\.into\(\))?\); \} \}', a)
    if m:
        return "vec", m.group(3), None
    m = re.fullmatch(r'\|module_lines, args\| \{ for \(module, lines\) in module_lines \{ for line in lines \{ args\.push\("(--[^"]+)"\.to_owned\(\)\); args\.push\(module\.clone\(\)\.into\(\)\); args\.push\(line\.clone\(\)\.into\(\)\); \} \} \}', a)
    if m:
        return "map2", m.group(1), None
    m = re.fullmatch(r'\|overrides, args\| \{ for \(abi, set\) in overrides \{ for item in set\.get_items\(\) \{ args\.push\("(--[^"]+)"\.to_owned\(\)\); args\.push\(format!\("\{item\}=\{abi\}"\)\); \} \} \}', a)
    if m:
        return "mapAbi", m.group(1), None
    m = re.fullmatch(r'\|patterns, args\| \{ for \(type_pat, field_pat, attr\) in patterns \{ args\.push\("(--[^"]+)"\.to_owned\(\)\); args\.push\(format!\("\{type_pat\}::\{field_pat\}=\{attr\}"\)\); \} \}', a)
    if m:
        return "fieldAttr", m.group(1), None
    m = re.fullmatch(r'\|rust_target, args\| \{ args\.push\("(--[^"]+)"\.to_owned\(\)\); args\.push\(rust_target\.to_string\(\)\); \}', a)
    if m:
        return "always", m.group(1), None
    m = re.fullmatch(r'\|edition, args\| \{ if let Some\(edition\) = edition \{ args\.push\("(--[^"]+)"\.to_owned\(\)\); args\.push\(edition\.to_string\(\)\); \} \}', a)
    if m:
        return "optEnum", m.group(1), None
    m = re.fullmatch(r'\|depfile, args\| \{ if let Some\(depfile\) = depfile \{ args\.push\("(--[^"]+)"\.into\(\)\); args\.push\(depfile\.depfile_path\.display\(\)\.to_string\(\)\); \} \}', a)
    if m:
        return "depfile", m.group(1), None
    if re.fullmatch(r'\|_callbacks, _args\| \{ #\[cfg\(feature = "__cli"\)\] for cb in _callbacks \{ _args\.extend\(cb\.cli_args\(\)\); \} \}', a):
        return "callbacks", None, None
    if name == "codegen_config":
        want = ('|codegen_config, args| { if !codegen_config.functions() { args.push("--ignore-functions".to_owned()); } '
                'args.push("--generate".to_owned()); let mut options: Vec<String> = Vec::new(); '
                + "".join('if codegen_config.%s() { options.push("%s".to_owned()); } ' % (w, w)
                          for w in ("functions", "types", "vars", "methods", "constructors", "destructors"))
                + 'args.push(options.join(",")); if !codegen_config.methods() { args.push("--ignore-methods".to_owned()); } }')
        if a == want:
            return "codegen", "--generate", None
    raise TranslateError("%s: field %s: unrecognised as_args form: %s" % (MOD, name, a[:160]))


def classify_default(f):
    d, ty = f["default"], f["ty"]
    if d is None:
        return "dDefault"
    if d == "true":
        return "dTrue"
    if d == "false":
        return "dDefault"
    if d == "CodegenConfig::all()":
        return "dAll"
    if d == "DEFAULT_ANON_FIELDS_PREFIX.into()":
        return "dAnonPrefix"
    raise TranslateError("%s: field %s: unrecognised default %r" % (MOD, f["name"], d))


def builder_methods(fields):
    """[(method, owner field, arity, [(field, write)], cfg_experimental)]"""
    out = []
    for f in fields:
        ms = f["methods"]
        for m in re.finditer(r"pub fn (\w+)", ms):
            k = m.end()
            if ms[k] == "<":
                d = 0
                while True:
                    if ms[k] == "<":
                        d += 1
                    elif ms[k] == ">":
                        d -= 1
                        if d == 0:
                            k += 1
                            break
                    k += 1
            while ms[k] != "(":
                k += 1
            e = braces(ms, k)
            params = [p.strip() for p in norm(ms[k + 1:e - 1]).split(",") if p.strip()]
            params = [p for p in params if not re.fullmatch(r"(mut )?self", p)]
            b0 = ms.index("{", e)
            body = norm(re.sub(r"//[^\n]*", "", ms[b0 + 1:braces(ms, b0) - 1]))
            exp = bool(re.search(r'#\[cfg\(feature = "experimental"\)\]\s*$', ms[:m.start()].rstrip()[-60:] + "")) or \
                  bool(re.search(r'#\[cfg\(feature = "experimental"\)\][^{}]*$', ms[:m.start()]))
            out.append((m.group(1), f["name"], len(params), method_writes(m.group(1), params, body), exp))
    names = [m[0] for m in out]
    if len(set(names)) != len(names):
        raise TranslateError("%s: duplicate Builder method name in options!" % MOD)
    return out


def method_writes(name, params, body):
    """recognise the body of a Builder method: list of (field, write)"""
    arg = params[0].split(":")[0].strip() if params else None
    w = []
    rest = body
    pats = [
        (r"self\.options\.(\w+) = (true|false);", lambda m: (m.group(1), ".const " + m.group(2))),
        (r"self\.options\.(\w+) = %s;" % re.escape(arg or "\0"), lambda m: (m.group(1), ".arg")),
        (r"self\.options\.(\w+)\.insert\(%s(?:\.into\(\))?\);" % re.escape(arg or "\0"), lambda m: (m.group(1), ".pushArg")),
        (r"self\.options\.(\w+)\.push\(%s\.into\(\)(?:\.into_boxed_str\(\))?\);" % re.escape(arg or "\0"), lambda m: (m.group(1), ".pushArg")),
        (r"self\.options\.(\w+) = Some\(%s(?:\.into\(\)|\.as_ref\(\)\.to_owned\(\))?\);" % re.escape(arg or "\0"), lambda m: (m.group(1), ".someArg")),
        (r"let path = path\.into\(\); self\.options\.(\w+) = Some\(path\);", lambda m: (m.group(1), ".someArg")),
        (r"self\.options\.(\w+) = %s\.into\(\);" % re.escape(arg or "\0"), lambda m: (m.group(1), ".arg")),
        (r"if !%s \{ self\.options\.(\w+) = false; \}" % re.escape(arg or "\0"), lambda m: (m.group(1), ".constWhenArg false false")),
        (r"if %s \{ self\.options\.(\w+) = %s; \}" % (re.escape(arg or "\0"), re.escape(arg or "\0")), lambda m: (m.group(1), ".constWhenArg true true")),
    ]
    special = {
        "depfile": [("depfile", ".custom")],
        "module_raw_line": [("module_lines", ".pushArg")],
        "headers": [("input_headers", ".pushArg")],
        "clang_arg": [("clang_args", ".pushArg")],
        "clang_args": [("clang_args", ".pushArg")],
        "header_contents": [("input_header_contents", ".custom")],
        "parse_callbacks": [("parse_callbacks", ".pushArg")],
        "ignore_functions": [("codegen_config", ".removeBit")],
        "ignore_methods": [("codegen_config", ".removeBit")],
        "rust_target": [("rust_target", ".arg")],
        "rust_edition": [("rust_edition", ".someArg")],
        "rustfmt_bindings": [("formatter", ".custom")],
        "override_abi": [("abi_overrides", ".pushArg")],
        "field_attribute": [("field_attr_patterns", ".pushArg")],
    }
    expect_body = {
        "rust_target": "self.options.set_rust_target(rust_target); self",
        "rustfmt_configuration_file": "self = self.formatter(Formatter::Rustfmt); self.options.rustfmt_configuration_file = path; self",
        "ignore_functions": "self.options.codegen_config.remove(CodegenConfig::FUNCTIONS); self",
        "ignore_methods": "self.options.codegen_config.remove(CodegenConfig::METHODS); self",
        "clang_arg": "self.clang_args([arg.into().into_boxed_str()])",
    }
    if name in expect_body and body != expect_body[name]:
        raise TranslateError("%s: Builder::%s body changed: %s" % (MOD, name, body[:200]))
    if name == "rustfmt_configuration_file":
        return [("formatter", ".setRustfmt"), ("rustfmt_configuration_file", ".arg")]
    if name == "wasm_import_module_name":
        if 'self.options.extern_fn_block_attrs.push(format!( "#[link(wasm_import_module = \\"{}\\")]", import_name.into() )); self' != body:
            raise TranslateError("%s: Builder::wasm_import_module_name body changed: %s" % (MOD, body[:200]))
        return [("extern_fn_block_attrs", ".pushFormatted")]
    if name in special:
        return special[name]
    while rest != "self":
        for rx, fn in pats:
            m = re.match(rx + r"\s*", rest)
            if m:
                w.append(fn(m))
                rest = rest[m.end():]
                break
        else:
            raise TranslateError("%s: Builder::%s: unrecognised statement: %s" % (MOD, name, rest[:120]))
    return w


# ------------------------------------------------------------------ cli.rs

def kebab(s):
    return "--" + s.replace("_", "-")


def clap_fields(src):
    m = re.search(r"struct BindgenCommand \{", src)
    if not m:
        raise TranslateError("%s: struct BindgenCommand not found" % CLI)
    i = m.end() - 1
    body = strip_docs(src[i + 1:braces(src, i) - 1])
    out = []
    k = 0
    rx = re.compile(r"\s*((?:#\[[^\]]*(?:\[[^\]]*\][^\]]*)*\]\s*)*)(\w+)\s*:\s*", re.S)
    while True:
        mm = rx.match(body, k)
        if not mm or not mm.group(2):
            if body[k:].strip():
                raise TranslateError("%s: cannot parse BindgenCommand near %r" % (CLI, body[k:k + 80]))
            break
        q, depth = mm.end(), 0
        while q < len(body):
            c = body[q]
            if c in "<(":
                depth += 1
            elif c in ">)":
                depth -= 1
            elif c == "," and depth == 0:
                break
            q += 1
        attrs, name, ty = norm(mm.group(1)), mm.group(2), norm(body[mm.end():q])
        k = q + 1
        arg = re.search(r"#\[arg\((.*)\)\]", attrs)
        a = arg.group(1) if arg else None
        flag = None
        if a is not None:
            lm = re.search(r'long = "([^"]+)"', a)
            flag = "--" + lm.group(1) if lm else kebab(name)
        if ty == "bool":
            clap = "switch"
        elif ty.startswith("Option<"):
            clap = "opt" if a is not None else "positional"
        elif ty.startswith("Vec<"):
            clap = "multi" if a is not None else "trailing"
            if a and "number_of_values = 2" in a:
                clap = "multi2"
        else:
            raise TranslateError("%s: BindgenCommand.%s has unsupported type %s" % (CLI, name, ty))
        vp = re.search(r"value_parser\s*=\s*(\w+)", a or "")
        inner = re.sub(r"^(?:Option|Vec)<(.*)>$", r"\1", ty)
        parser = {None: None, "parse_codegen_config": "codegenConfig", "parse_rustfmt_config_path": "rustfmtPath",
                  "parse_abi_override": "abiOverride", "parse_custom_derive": "customDerive",
                  "parse_custom_attribute": "customAttr", "parse_field_attr": "fieldAttr"}.get(vp.group(1) if vp else None, "?")
        if parser == "?":
            raise TranslateError("%s: BindgenCommand.%s: unknown value_parser %s" % (CLI, name, vp.group(1)))
        if parser is None:
            parser = {"bool": "none", "String": "plain", "PathBuf": "pathBuf"}.get(inner, "fromStr")
        conflicts = re.findall(r'conflicts_with = "(\w+)"', a or "")
        requires = re.findall(r'requires = "(\w+)"', a or "")
        exp = 'cfg(feature = "experimental")' in attrs
        if a is not None and re.search(r"allow_hyphen_values|allow_negative_numbers", a):
            raise TranslateError("%s: BindgenCommand.%s now allows hyphen values: the clap model must be extended" % (CLI, name))
        out.append(dict(name=name, ty=ty, flag=flag, clap=clap, parser=parser, conflicts=conflicts, requires=requires,
                        experimental=exp, short=bool(a and re.search(r"\bshort\b", a))))
    if not re.search(r"trailing_var_arg = true", src):
        raise TranslateError("%s: trailing_var_arg = true not found on BindgenCommand" % CLI)
    return out


def apply_arms(src):
    m = re.search(r"builder = apply_args!\(\s*builder \{", src)
    if not m:
        raise TranslateError("%s: `builder = apply_args!(builder {` not found" % CLI)
    i = m.end() - 1
    body = src[i + 1:braces(src, i) - 1]
    arms = []
    for pos, item in enumerate(split_arms(body)):
        item = norm(item)
        mm = re.fullmatch(r"(\w+)", item)
        if mm:
            arms.append((mm.group(1), mm.group(1), None, pos))
            continue
        mm = re.fullmatch(r"(\w+) => Builder::(\w+)", item)
        if mm:
            arms.append((mm.group(1), mm.group(2), None, pos))
            continue
        mm = re.fullmatch(r"(\w+) => \|b, _\| b\.(\w+)\((true|false|Formatter::None)?\)", item)
        if mm:
            arms.append((mm.group(1), mm.group(2), mm.group(3) or "unit", pos))
            continue
        mm = re.fullmatch(r"(\w+) => \|b, \((?:\w+, )*\w+\)\| b\.(\w+)\((?:\w+, )*\w+\)", item)
        if mm:
            arms.append((mm.group(1), mm.group(2), None, pos))
            continue
        mm = re.fullmatch(r"prefix_link_name => \|b, prefix\| b\.parse_callbacks\(Box::new\(PrefixLinkNameCallback \{ prefix \}\)\)", item)
        if mm:
            arms.append(("prefix_link_name", "parse_callbacks", "callback", pos))
            continue
        raise TranslateError("%s: unrecognised apply_args! arm: %s" % (CLI, item))
    return arms


def split_arms(body):
    """one arm per `,`-terminated line group (closure parameter lists contain commas)"""
    out, cur, depth = [], "", 0
    for line in body.split("\n"):
        line = re.sub(r"//.*", "", line).strip()
        if not line:
            continue
        cur += " " + line
        depth += sum(line.count(c) for c in "([{") - sum(line.count(c) for c in ")]}")
        if depth == 0 and line.endswith(","):
            out.append(cur.strip()[:-1])
            cur = ""
    if cur.strip():
        out.append(cur.strip())
    return out


def split_top(s):
    out, depth, cur = [], 0, ""
    for c in s:
        if c in "([{":
            depth += 1
        elif c in ")]}":
            depth -= 1
        if c == "," and depth == 0:
            out.append(cur)
            cur = ""
        else:
            cur += c
    out.append(cur)
    return [x for x in (y.strip() for y in out) if x]


def post_steps(src):
    """arms handled after the apply_args! block, in source order"""
    need = [
        ("module_raw_line", r"let mut values = module_raw_line\.into_iter\(\); while let Some\(module\) = values\.next\(\) \{ let line = values\.next\(\)\.unwrap\(\); builder = builder\.module_raw_line\(module, line\); \}", "module_raw_line"),
        ("depfile", r"if let Some\(depfile\) = depfile \{ builder = builder\.depfile\(path, depfile\); \}.*?if let Some\(depfile\) = depfile \{ builder = builder\.depfile\(\"-\", depfile\); \}", "depfile"),
        ("rustfmt_configuration_file", r"if let Some\(path\) = rustfmt_configuration_file \{ builder = builder\.rustfmt_configuration_file\(Some\(path\)\); \}", "rustfmt_configuration_file"),
        ("with_derive_custom", r"for \(custom_derives, kind, _name\) in \[ \(with_derive_custom, None, \"--with-derive-custom\"\)", "parse_callbacks"),
        ("with_attribute_custom", r"for \(custom_attributes, kind, _name\) in \[ \(with_attribute_custom, None, \"--with-attribute-custom\"\)", "parse_callbacks"),
        ("emit_diagnostics", r"#\[cfg\(feature = \"experimental\"\)\] if emit_diagnostics \{ builder = builder\.emit_diagnostics\(\); \}", "emit_diagnostics"),
    ]
    m = re.search(r"builder = apply_args!\(", src)
    tail = norm(re.sub(r"//[^\n]*", "", src[m.start():]))
    out, last = [], 0
    for name, rx, method in need:
        mm = re.search(rx, tail)
        if not mm:
            raise TranslateError("%s: post-step for %s not in the modelled form" % (CLI, name))
        if mm.start() < last:
            raise TranslateError("%s: post-steps reordered (%s)" % (CLI, name))
        last = mm.start()
        out.append((name, method))
    return out


def prefix_cli_args(src):
    m = re.search(r"impl ParseCallbacks for PrefixLinkNameCallback \{", src)
    if not m:
        raise TranslateError("%s: impl ParseCallbacks for PrefixLinkNameCallback not found" % CLI)
    body = norm(src[m.end():braces(src, m.end() - 1) - 1])
    if "fn cli_args" not in body:
        return False
    if 'fn cli_args(&self) -> Vec<String> { vec!["--prefix-link-name".to_owned(), self.prefix.clone()] }' not in body:
        raise TranslateError("%s: PrefixLinkNameCallback::cli_args not in the modelled form" % CLI)
    return True


# ------------------------------------------------------------------ output

def ident(flag):
    return "f_" + re.sub(r"\W", "_", flag.lstrip("-"))


def generate(repo):
    mod = read(repo, MOD)
    cli = read(repo, CLI)
    fields = option_fields(mod)
    for f in fields:
        if f["ty"] not in TYPE_KIND:
            raise TranslateError("%s: field %s has unclassified type %s" % (MOD, f["name"], f["ty"]))
        f["kind"], f["flag"], f["flag2"] = classify_as_args(f)
        f["dflt"] = classify_default(f)
    methods = builder_methods(fields)
    mnames = {m[0] for m in methods}
    cf = clap_fields(cli)
    arms = apply_arms(cli)
    posts = post_steps(cli)
    by_name = {c["name"]: c for c in cf}
    handled = {}
    for arg, method, const, pos in arms:
        if arg not in by_name:
            raise TranslateError("%s: apply_args! arm %s has no BindgenCommand field" % (CLI, arg))
        if method not in mnames:
            raise TranslateError("%s: apply_args! arm %s calls unknown Builder::%s" % (CLI, arg, method))
        handled[arg] = (method, const, pos)
    npos = len(arms)
    for k, (arg, method) in enumerate(posts):
        fam = [c["name"] for c in cf if c["name"] == arg or c["name"].startswith(arg + "_")] if arg.startswith("with_") else [arg]
        for a in fam:
            handled[a] = (method, "callback" if method == "parse_callbacks" else None, npos + k)
    meta = {"output", "verbose", "dump_preprocessed_input", "generate_shell_completions", "experimental", "version"}
    for c in cf:
        if c["name"] not in handled and c["name"] not in meta:
            raise TranslateError("%s: BindgenCommand.%s is never applied to the builder" % (CLI, c["name"]))

    flags = []
    for f in fields:
        for fl in (f["flag"], f["flag2"]):
            if fl and fl not in flags:
                flags.append(fl)
    extra = ["--ignore-functions", "--ignore-methods"]
    for c in cf:
        if c["flag"] and c["flag"] not in flags:
            flags.append(c["flag"])
    for fl in extra:
        if fl not in flags:
            flags.append(fl)

    o = ["namespace BindgenModel.Generated\n"]
    o.append("/-- fields of `BindgenOptions` (options! invocation, source order) -/")
    o.append("inductive OField where\n" + "\n".join("  | %s" % f["name"] for f in fields) + "\n  deriving DecidableEq, Repr\n")
    o.append("/-- every flag text pushed by an `as_args` item or accepted by the clap struct -/")
    o.append("inductive OFlag where\n" + "\n".join("  | %s" % ident(fl) for fl in flags) + "\n  deriving DecidableEq, Repr\n")
    o.append("/-- `Builder` methods declared in the `methods:` blocks -/")
    o.append("inductive OMethod where\n" + "\n".join("  | %s" % m[0] for m in methods) + "\n  deriving DecidableEq, Repr\n")
    o.append("def OField.all : List OField := [%s]\n" % ", ".join("." + f["name"] for f in fields))
    o.append("def OField.name : OField → String\n" + "\n".join("  | .%s => %s" % (f["name"], lean_str(f["name"])) for f in fields) + "\n")
    o.append("def OFlag.all : List OFlag := [%s]\n" % ", ".join("." + ident(fl) for fl in flags))
    o.append("def OFlag.text : OFlag → String\n" + "\n".join("  | .%s => %s" % (ident(fl), lean_str(fl)) for fl in flags) + "\n")
    o.append("def OMethod.all : List OMethod := [%s]\n" % ", ".join("." + m[0] for m in methods))
    o.append("def OMethod.name : OMethod → String\n" + "\n".join("  | .%s => %s" % (m[0], lean_str(m[0])) for m in methods) + "\n")
    o.append("""/-- Rust type of the field -/
inductive OType where
  | tBool | tRegexSet | tOptString | tOptPath | tString | tVecStr | tMapVec | tMapAbi | tVecPair | tVecTriple
  | tCallbacks | tCodegenConfig | tEnum | tRustTarget | tOptEnum | tDerived | tOptDepfile
  deriving DecidableEq, Repr

/-- shape of the `as_args` item -/
inductive OKind where
  | bool            -- push flag iff the value is true
  | negBool         -- push flag iff the value is false
  | boolBoth        -- push flag if true, flag2 if false
  | regexSet        -- flag item, once per item
  | optString | optPath   -- flag value, if Some
  | enumNonDefault  -- flag value.to_string(), if value != Default::default()
  | strNonDefault   -- flag value, if value != DEFAULT_ANON_FIELDS_PREFIX
  | vec             -- flag item, once per item
  | map2            -- flag key item, per key (hash order) per item
  | mapAbi          -- flag "{item}={abi}", per abi (hash order) per item
  | fieldAttr       -- flag "{type}::{field}={attr}", once per triple
  | codegen         -- [--ignore-functions] --generate a,b,c [--ignore-methods]
  | always          -- flag value.to_string(), always
  | optEnum         -- flag value.to_string(), if Some
  | depfile         -- flag depfile_path, if Some (the output module is not emitted)
  | callbacks       -- whatever each callback's cli_args() returns
  | ignored         -- nothing
  deriving DecidableEq, Repr

inductive ODefault where
  | dDefault      -- Default::default(): false / empty / None / the enum's default variant
  | dTrue
  | dAll          -- CodegenConfig::all()
  | dAnonPrefix   -- DEFAULT_ANON_FIELDS_PREFIX
  deriving DecidableEq, Repr

structure OptSpec where
  field : OField
  ty : OType
  kind : OKind
  flag : Option OFlag
  flag2 : Option OFlag
  default : ODefault
  deriving DecidableEq, Repr

/-- how a Builder method writes a field -/
inductive OWrite where
  | arg                         -- field = argument
  | const (b : Bool)            -- field = constant
  | pushArg                     -- insert / push the argument(s)
  | someArg                     -- field = Some(argument)
  | constWhenArg (argIs b : Bool)   -- if argument == argIs { field = b }
  | removeBit                   -- codegen_config.remove(..)
  | setRustfmt                  -- formatter = Formatter::Rustfmt
  | pushFormatted               -- push(format!(.., argument))
  | custom
  deriving DecidableEq, Repr

structure MethodEffect where
  method : OMethod
  owner : OField
  arity : Nat
  writes : List (OField × OWrite)
  experimental : Bool
  deriving DecidableEq, Repr

inductive ClapKind where
  | switch | opt | multi | multi2 | positional | trailing
  deriving DecidableEq, Repr

inductive OParser where
  | none | plain | pathBuf | fromStr | codegenConfig | rustfmtPath | abiOverride | customDerive | customAttr | fieldAttr
  deriving DecidableEq, Repr

/-- constant passed by the `apply_args!` closure -/
inductive OConst where
  | fromValue | unit | cTrue | cFalse | formatterNone | callback
  deriving DecidableEq, Repr

structure CliArm where
  flag : Option OFlag           -- none: positional header / trailing clang args
  clap : ClapKind
  parser : OParser
  order : Option Nat            -- position in apply_args!, post-steps continue the numbering; none = not applied to the builder
  method : Option OMethod
  const : OConst
  conflicts : List OFlag
  experimental : Bool
  deriving DecidableEq, Repr
""")
    for f in fields:
        o.append("def spec_%s : OptSpec := ⟨.%s, .%s, .%s, %s, %s, .%s⟩" % (
            f["name"], f["name"], TYPE_KIND[f["ty"]], f["kind"],
            "some ." + ident(f["flag"]) if f["flag"] else "none",
            "some ." + ident(f["flag2"]) if f["flag2"] else "none", f["dflt"]))
    o.append("\ndef optSpecs : List OptSpec := [%s]\n" % ", ".join("spec_" + f["name"] for f in fields))
    for m in methods:
        o.append("def eff_%s : MethodEffect := ⟨.%s, .%s, %d, [%s], %s⟩" % (
            m[0], m[0], m[1], m[2], ", ".join("(.%s, %s)" % (fld, w if w.startswith(".const") and " " in w and False else w) for fld, w in m[3]),
            "true" if m[4] else "false"))
    o.append("\ndef methodEffects : List MethodEffect := [%s]\n" % ", ".join("eff_" + m[0] for m in methods))
    cmap = {None: ".fromValue", "unit": ".unit", "true": ".cTrue", "false": ".cFalse", "Formatter::None": ".formatterNone", "callback": ".callback"}
    flag_of = {c["name"]: c["flag"] for c in cf}
    anames = []
    for c in cf:
        h = handled.get(c["name"])
        nm = "arm_" + c["name"]
        anames.append(nm)
        o.append("def %s : CliArm := ⟨%s, .%s, .%s, %s, %s, %s, [%s], %s⟩" % (
            nm, "some ." + ident(c["flag"]) if c["flag"] else "none", c["clap"], c["parser"],
            "some %d" % h[2] if h else "none", "some ." + h[0] if h else "none", cmap[h[1]] if h else ".fromValue",
            ", ".join("." + ident(flag_of[x]) for x in c["conflicts"]), "true" if c["experimental"] else "false"))
    o.append("\ndef cliArms : List CliArm := [%s]\n" % ", ".join(anames))
    o.append("/-- does `PrefixLinkNameCallback` implement `cli_args` (re-emitting `--prefix-link-name <prefix>`)? -/")
    o.append("def prefixLinkNameCliArgs : Bool := %s\n" % ("true" if prefix_cli_args(cli) else "false"))
    o.append("end BindgenModel.Generated\n")
    text = "\n".join(o)
    text = re.sub(r"\(\.(\w+), (\.const (?:true|false)|\.constWhenArg (?:true|false) (?:true|false))\)", r"(.\1, \2)", text)
    return text
