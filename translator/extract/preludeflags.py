"""codegen/mod.rs: the `saw_*: bool` fields of `CodegenResult` (they decide which helper types the root module's
prelude defines) and how `CodegenResult::inner` carries them from a nested module's result to its parent
->  Generated/PreludeFlags.lean (C01)."""
import re
from translate import read, body_after, strip_comments, TranslateError

NAME = "PreludeFlags"
REL = "bindgen/codegen/mod.rs"


def generate(repo):
    src = read(repo, REL)
    body = strip_comments(body_after(src, r"struct CodegenResult<'a>\s*", REL))
    fields = re.findall(r"^\s*(saw_\w+)\s*:\s*bool\s*,", body, re.M)
    if len(fields) < 2:
        raise TranslateError("%s: struct CodegenResult: no `saw_*: bool` fields recognised" % REL)
    inner = strip_comments(body_after(src, r"fn inner<F>\(&mut self, cb: F\) -> Vec<proc_macro2::TokenStream>\s*where\s*F: FnOnce\(&mut Self\),\s*", REL))
    if not re.search(r"let mut new = Self::new\(self\.codegen_id\);\s*cb\(&mut new\);", inner):
        raise TranslateError("%s: CodegenResult::inner: `let mut new = Self::new(..); cb(&mut new);` not found" % REL)
    merges = re.findall(r"self\.(saw_\w+)\s*(\|=|=|&=)\s*new\.(saw_\w+)\s*;", inner)
    for a, _, b in merges:
        if a != b:
            raise TranslateError("%s: CodegenResult::inner: `self.%s … new.%s` mixes two flags" % (REL, a, b))
    other = re.findall(r"self\.(saw_\w+)\s*=\s*(?!new\.)", inner)
    if other:
        raise TranslateError("%s: CodegenResult::inner assigns %r from something else than the nested result" % (REL, other))
    if not re.search(r"new\.items\s*$", inner.strip().rstrip("}").strip()):
        raise TranslateError("%s: CodegenResult::inner does not end in `new.items`" % REL)
    ops = {"|=": "or", "=": "overwrite", "&=": "and"}
    out = ["namespace BindgenModel.Generated\n",
           "/-- how `CodegenResult::inner` combines a flag of the parent with the nested module's -/",
           "inductive FlagMerge where\n  | or | overwrite | and | dropped\n  deriving DecidableEq, Repr\n",
           "/-- the `saw_*: bool` fields of `CodegenResult`, in declaration order -/",
           "def preludeFlags : List String := [" + ", ".join('"%s"' % f for f in fields) + "]\n",
           "/-- `CodegenResult::inner`: the merge written for each flag (`dropped` = no line for it) -/",
           "def preludeFlagMerge : String → FlagMerge"]
    seen = set()
    for a, op, _ in merges:
        if a in seen:
            raise TranslateError("%s: CodegenResult::inner merges %s twice" % (REL, a))
        seen.add(a)
        out.append('  | "%s" => .%s' % (a, ops[op]))
    out.append("  | _ => .dropped\n")
    out.append("end BindgenModel.Generated\n")
    return "\n".join(out)
