"""EdgeKind enum, every analysis' consider_edge predicate, DeriveTrait boolean tables,
codegen_edges  ->  Generated/AnalysisTables.lean"""
import re
from translate import read, body_after, strip_comments, TranslateError, braces

NAME = "AnalysisTables"


def edge_kinds(repo):
    src = read(repo, "bindgen/ir/traversal.rs")
    body = strip_comments(body_after(src, r"pub\(crate\) enum EdgeKind\s*\{", "traversal.rs"))
    kinds = [k.strip() for k in body.split(",") if k.strip()]
    for k in kinds:
        if not re.fullmatch(r"[A-Z][A-Za-z]*", k):
            raise TranslateError("traversal.rs: unexpected EdgeKind variant %r" % k)
    if len(kinds) < 10:
        raise TranslateError("traversal.rs: too few EdgeKind variants")
    return kinds


def predicate_true_set(body, kinds, where):
    """Evaluate a consider_edge-style predicate body to the set of EdgeKinds it admits.
    Recognised forms:  matches!(kind, A | B | ..)   |   match kind { A | B => true, C | D => false, [_ => b] }
                       kind == EdgeKind::X"""
    b = strip_comments(body)
    flat = re.sub(r"\s+", " ", b).strip()
    m = re.fullmatch(r"matches!\( ?kind, ?((?:EdgeKind::\w+ ?\|? ?)+),? ?\)", flat)
    if m:
        names = re.findall(r"EdgeKind::(\w+)", m.group(1))
        return check(names, kinds, where)
    m = re.fullmatch(r"kind == EdgeKind::(\w+)", flat)
    if m:
        return check([m.group(1)], kinds, where)
    m = re.fullmatch(r"match kind \{(.*)\}", flat)
    if m:
        arms = m.group(1)
        true_set, seen = [], []
        default = None
        for am in re.finditer(r"((?:EdgeKind::\w+ ?\|? ?)+|_) ?=> ?(true|false) ?,?", arms):
            pat, val = am.group(1).strip(), am.group(2)
            if pat == "_":
                default = (val == "true")
                continue
            names = re.findall(r"EdgeKind::(\w+)", pat)
            seen += names
            if val == "true":
                true_set += names
        rest = re.sub(r"((?:EdgeKind::\w+ ?\|? ?)+|_) ?=> ?(true|false) ?,?", "", arms).strip()
        if rest:
            raise TranslateError("%s: unrecognised match arms: %r" % (where, rest[:80]))
        missing = [k for k in kinds if k not in seen]
        if missing and default is None:
            raise TranslateError("%s: match does not cover %s" % (where, missing))
        if default:
            true_set += missing
        return check(true_set, kinds, where)
    raise TranslateError("%s: unrecognised predicate form: %r" % (where, flat[:120]))


def check(names, kinds, where):
    for n in names:
        if n not in kinds:
            raise TranslateError("%s: unknown EdgeKind %s" % (where, n))
    return [k for k in kinds if k in names]


ANALYSES = [
    ("hasVtable", "bindgen/ir/analysis/has_vtable.rs", r"fn consider_edge\(kind: EdgeKind\) -> bool\s*\{"),
    ("hasDestructor", "bindgen/ir/analysis/has_destructor.rs", r"fn consider_edge\(kind: EdgeKind\) -> bool\s*\{"),
    ("hasFloat", "bindgen/ir/analysis/has_float.rs", r"fn consider_edge\(kind: EdgeKind\) -> bool\s*\{"),
    ("hasTypeParamInArray", "bindgen/ir/analysis/has_type_param_in_array.rs", r"fn consider_edge\(kind: EdgeKind\) -> bool\s*\{"),
    ("sizedness", "bindgen/ir/analysis/sizedness.rs", r"fn consider_edge\(kind: EdgeKind\) -> bool\s*\{"),
    ("usedTemplateParams", "bindgen/ir/analysis/template_params.rs", r"fn consider_edge\(kind: EdgeKind\) -> bool\s*\{"),
    ("deriveDefault", "bindgen/ir/analysis/derive.rs", r"fn consider_edge_default\(kind: EdgeKind\) -> bool\s*\{"),
]

DERIVE_TRAITS = ["Debug", "Default", "Copy", "Hash", "PartialEqOrPartialOrd"]


def derive_edge_preds(repo, kinds, default_set):
    """consider_edge_comp / _typeref / _tmpl_inst : DeriveTrait -> EdgePredicate"""
    src = read(repo, "bindgen/ir/analysis/derive.rs")
    out = {}
    for fn in ("consider_edge_comp", "consider_edge_typeref", "consider_edge_tmpl_inst"):
        body = strip_comments(body_after(src, r"fn %s\(self\) -> EdgePredicate\s*\{" % fn, "derive.rs"))
        flat = re.sub(r"\s+", " ", body).strip()
        m = re.fullmatch(r"match self \{ DeriveTrait::PartialEqOrPartialOrd => consider_edge_default, _ => \|kind\| (.*?),? \}", flat)
        if not m:
            raise TranslateError("derive.rs: %s has an unrecognised shape: %r" % (fn, flat[:160]))
        closure = m.group(1).strip()
        if closure.startswith("{"):
            closure = closure[1:closure.rindex("}")].strip()
        other = predicate_true_set(closure, kinds, "derive.rs:" + fn)
        out[fn] = {t: (default_set if t == "PartialEqOrPartialOrd" else other) for t in DERIVE_TRAITS}
    return out


def derive_bool_tables(repo):
    """fn can_derive_X(self[, _]) -> bool { [!]matches!(self, A | B) }"""
    src = read(repo, "bindgen/ir/analysis/derive.rs")
    out = {}
    for fn in ("can_derive_large_array", "can_derive_union", "can_derive_compound_with_destructor",
               "can_derive_compound_with_vtable", "can_derive_compound_forward_decl",
               "can_derive_incomplete_array"):
        body = strip_comments(body_after(src, r"fn %s\(self(?:, _: &BindgenContext)?\) -> bool\s*\{" % fn, "derive.rs"))
        flat = re.sub(r"\s+", " ", body).strip()
        m = re.fullmatch(r"(!?)matches!\( ?self, ?((?:DeriveTrait::\w+ ?\|? ?)+),? ?\)", flat)
        if not m:
            raise TranslateError("derive.rs: %s has an unrecognised shape: %r" % (fn, flat[:160]))
        names = re.findall(r"DeriveTrait::(\w+)", m.group(2))
        for n in names:
            if n not in DERIVE_TRAITS:
                raise TranslateError("derive.rs: unknown DeriveTrait %s" % n)
        neg = m.group(1) == "!"
        out[fn] = {t: ((t in names) != neg) for t in DERIVE_TRAITS}
    return out


def limits(repo):
    ty = read(repo, "bindgen/ir/ty.rs")
    m = re.search(r"pub\(crate\) const RUST_DERIVE_IN_ARRAY_LIMIT: usize = (\d+);", ty)
    if not m:
        raise TranslateError("ty.rs: RUST_DERIVE_IN_ARRAY_LIMIT not found")
    fn = read(repo, "bindgen/ir/function.rs")
    m2 = re.search(r"const RUST_DERIVE_FUNPTR_LIMIT: usize = (\d+);", fn)
    if not m2:
        raise TranslateError("function.rs: RUST_DERIVE_FUNPTR_LIMIT not found")
    return int(m.group(1)), int(m2.group(1))


def codegen_edges(repo, kinds):
    """codegen_edges(ctx, edge): returns rows (EdgeKind, 'always' | 'never' | config-flag name)"""
    src = read(repo, "bindgen/ir/traversal.rs")
    body = strip_comments(body_after(src, r"pub\(crate\) fn codegen_edges\(ctx: &BindgenContext, edge: Edge\) -> bool\s*\{", "traversal.rs"))
    m = re.search(r"match edge\.kind\s*\{", body)
    if not m:
        raise TranslateError("traversal.rs: codegen_edges: no `match edge.kind`")
    i = body.index("{", m.start())
    arms = body[i + 1:braces(body, i) - 1]
    flat = re.sub(r"\s+", " ", arms)
    # the one arm that inspects the target item
    gen = "EdgeKind::Generic => { ctx.resolve_item(edge.to).is_enabled_for_codegen(ctx) }"
    if gen not in flat:
        raise TranslateError("traversal.rs: codegen_edges: Generic arm changed shape")
    flat = flat.replace(gen, "")
    rows = {"Generic": "targetEnabled"}
    for am in re.finditer(r"((?:EdgeKind::\w+ ?\|? ?)+) ?=> ?(true|false|cc\.(\w+)\(\)) ?,", flat):
        names = re.findall(r"EdgeKind::(\w+)", am.group(1))
        val = am.group(2)
        v = "always" if val == "true" else "never" if val == "false" else am.group(3)
        for n in names:
            rows[n] = v
    rest = re.sub(r"((?:EdgeKind::\w+ ?\|? ?)+) ?=> ?(true|false|cc\.(\w+)\(\)) ?,", "", flat).strip()
    if rest:
        raise TranslateError("traversal.rs: codegen_edges: unrecognised arms %r" % rest[:100])
    missing = [k for k in kinds if k not in rows]
    if missing:
        raise TranslateError("traversal.rs: codegen_edges does not cover %s" % missing)
    return rows


def lean_bool(b):
    return "true" if b else "false"


def generate(repo):
    kinds = edge_kinds(repo)
    o = []
    o.append("namespace BindgenModel.Generated\n")
    o.append("/-- `ir::traversal::EdgeKind` -/")
    o.append("inductive EdgeKind where")
    for k in kinds:
        o.append("  | %s" % (k[0].lower() + k[1:]))
    o.append("deriving DecidableEq, Repr, Inhabited\n")
    o.append("def EdgeKind.all : List EdgeKind := [%s]\n" % ", ".join("." + k[0].lower() + k[1:] for k in kinds))
    o.append("def EdgeKind.ofString? (s : String) : Option EdgeKind :=")
    o.append("  match s with")
    for k in kinds:
        o.append('  | "%s" => some .%s' % (k, k[0].lower() + k[1:]))
    o.append("  | _ => none\n")
    o.append("def EdgeKind.toString : EdgeKind → String")
    for k in kinds:
        o.append('  | .%s => "%s"' % (k[0].lower() + k[1:], k))
    o.append("")
    sets = {}
    for name, rel, anchor in ANALYSES:
        src = read(repo, rel)
        body = body_after(src, anchor, rel)
        sets[name] = predicate_true_set(body, kinds, rel)
    o.append("/-- the analyses whose dependency edges are filtered by a `consider_edge` predicate -/")
    o.append("inductive EdgeFilter where")
    for name, _, _ in ANALYSES:
        o.append("  | %s" % name)
    o.append("deriving DecidableEq, Repr\n")
    o.append("/-- `consider_edge` of each analysis, as extracted from the source -/")
    o.append("def considerEdge : EdgeFilter → EdgeKind → Bool")
    for name, _, _ in ANALYSES:
        for k in kinds:
            o.append("  | .%s, .%s => %s" % (name, k[0].lower() + k[1:], lean_bool(k in sets[name])))
    o.append("")
    o.append("inductive DeriveTrait where")
    for t in DERIVE_TRAITS:
        o.append("  | %s" % (t[0].lower() + t[1:]))
    o.append("deriving DecidableEq, Repr\n")
    o.append("def DeriveTrait.all : List DeriveTrait := [%s]\n" % ", ".join("." + t[0].lower() + t[1:] for t in DERIVE_TRAITS))
    preds = derive_edge_preds(repo, kinds, sets["deriveDefault"])
    for fn, table in preds.items():
        lname = {"consider_edge_comp": "deriveEdgeComp", "consider_edge_typeref": "deriveEdgeTyperef",
                 "consider_edge_tmpl_inst": "deriveEdgeTmplInst"}[fn]
        o.append("/-- `DeriveTrait::%s` -/" % fn)
        o.append("def %s : DeriveTrait → EdgeKind → Bool" % lname)
        for t in DERIVE_TRAITS:
            for k in kinds:
                o.append("  | .%s, .%s => %s" % (t[0].lower() + t[1:], k[0].lower() + k[1:], lean_bool(k in table[t])))
        o.append("")
    bools = derive_bool_tables(repo)
    for fn, table in bools.items():
        parts = fn.split("_")
        lname = parts[0] + "".join(p.capitalize() for p in parts[1:])
        o.append("/-- `DeriveTrait::%s` -/" % fn)
        o.append("def %s : DeriveTrait → Bool" % lname)
        for t in DERIVE_TRAITS:
            o.append("  | .%s => %s" % (t[0].lower() + t[1:], lean_bool(table[t])))
        o.append("")
    arr, fp = limits(repo)
    o.append("def rustDeriveInArrayLimit : Nat := %d" % arr)
    o.append("def rustDeriveFunptrLimit : Nat := %d\n" % fp)
    rows = codegen_edges(repo, kinds)
    flags = sorted(set(v for v in rows.values() if v not in ("always", "never")))
    o.append("/-- when `codegen_edges` admits an edge: always, never, or under a `CodegenConfig` flag -/")
    o.append("inductive EdgeGate where")
    o.append("  | always | never")
    for f in flags:
        o.append("  | %s" % f)
    o.append("deriving DecidableEq, Repr\n")
    o.append("def codegenEdgeGate : EdgeKind → EdgeGate")
    for k in kinds:
        o.append("  | .%s => .%s" % (k[0].lower() + k[1:], rows[k]))
    o.append("")
    o.append("end BindgenModel.Generated")
    return "\n".join(o) + "\n"
