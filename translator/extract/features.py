"""features.rs -> Generated/Features.lean

Extracts, from bindgen/features.rs,
  * the `define_rust_editions! { Edition2018(2018) => 31, ... }` invocation,
  * the `define_rust_targets! { Nightly => {..}, Stable_1_82(82) => {..}, ... }` invocation
    (feature names, optional `(edition)|(edition)` lists, release minors, in source order),
  * the form of the `-nightly` decrement in `RustTarget::from_str`
    (`minor -= 1;`  vs  `checked_sub(1)`),
and emits them as Lean data.  Nothing else of features.rs is table shaped; the functions are
modelled by hand in Model/Features.lean and tied by the correspondence sweep.
"""
import re
from translate import read, braces, strip_comments, lean_str, TranslateError

NAME = "Features"
REL = "bindgen/features.rs"


def invocation(src, macro):
    m = re.search(r"(?m)^%s!\s*\{" % re.escape(macro), src)
    if not m:
        raise TranslateError("%s: invocation `%s! {` not found at line start" % (REL, macro))
    i = m.end() - 1
    j = braces(src, i)
    return strip_comments(src[i + 1:j - 1])


def split_top(s, sep=","):
    """split at top-level separators (outside any bracket)"""
    out, depth, cur = [], 0, ""
    for c in s:
        if c in "([{":
            depth += 1
        elif c in ")]}":
            depth -= 1
        if c == sep and depth == 0:
            out.append(cur)
            cur = ""
        else:
            cur += c
    out.append(cur)
    return [x.strip() for x in out if x.strip()]


def parse_editions(src):
    body = invocation(src, "define_rust_editions")
    rows = []
    for item in split_top(body):
        m = re.fullmatch(r"(\w+)\((\d+)\)\s*=>\s*(\d+)", item)
        if not m:
            raise TranslateError("%s: unrecognised edition row %r" % (REL, item))
        rows.append((m.group(1), int(m.group(2)), int(m.group(3))))
    if not rows:
        raise TranslateError("%s: no editions" % REL)
    return rows


def parse_entries(body, where):
    out = []
    for item in split_top(body):
        m = re.fullmatch(r"(\w+)\s*((?:\(\d+\)\s*\|?\s*)*)(?::\s*#\d+)?", item)
        if not m:
            raise TranslateError("%s: unrecognised feature entry %r in %s" % (REL, item, where))
        eds = [int(x) for x in re.findall(r"\((\d+)\)", m.group(2))]
        out.append((m.group(1), eds))
    return out


def parse_targets(src):
    body = invocation(src, "define_rust_targets")
    nightly, rows = None, []
    for item in split_top(body):
        m = re.fullmatch(r"(\w+)\s*(?:\((\d+)\))?\s*=>\s*\{(.*)\}", item, re.S)
        if not m:
            raise TranslateError("%s: unrecognised target row %r" % (REL, item[:60]))
        entries = parse_entries(m.group(3), m.group(1))
        if m.group(2) is None:
            if m.group(1) != "Nightly" or nightly is not None or rows:
                raise TranslateError("%s: expected a single leading `Nightly => {..}` row, got %r" % (REL, m.group(1)))
            nightly = entries
        else:
            rows.append((m.group(1), int(m.group(2)), entries))
    if nightly is None or not rows:
        raise TranslateError("%s: define_rust_targets! has no Nightly row or no stable rows" % REL)
    return nightly, rows


def parse_decrement(src):
    m = re.search(r'if\s+pre_release\s*==\s*"nightly"\s*\{', src[src.find("impl FromStr for RustTarget"):])
    if "impl FromStr for RustTarget" not in src or not m:
        raise TranslateError('%s: anchor `if pre_release == "nightly" {` in RustTarget::from_str not found' % REL)
    base = src.find("impl FromStr for RustTarget")
    i = base + m.end() - 1
    body = strip_comments(src[i + 1:braces(src, i) - 1])
    norm = re.sub(r"\s+", " ", body).strip()
    if re.fullmatch(r"minor -= 1; patch = u64::MAX;", norm):
        return "unchecked"
    if "checked_sub(1)" in norm and "minor -=" not in norm and "return Err(" in norm and "patch = u64::MAX;" in norm:
        return "checked"
    raise TranslateError("%s: unrecognised -nightly decrement form: %r" % (REL, norm))


def check_shape(src):
    """the hand-written model relies on these exact forms; fail loudly if they change"""
    need = [
        (r"minor >= other_minor", "RustTarget::is_compatible compares minors with >="),
        (r"\(Version::Nightly, _\) => true", "nightly is compatible with everything"),
        (r"\(Version::Stable \{ \.\. \}, Version::Nightly\) => false", "stable is not compatible with nightly"),
        (r"\$\(Self::\$variant => \$minor <= minor,\)\*", "RustEdition::is_available is `first minor <= target minor`"),
        (r"if target < EARLIEST_STABLE_RUST \{\s*return Err\(InvalidRustTarget::TooEarly\);", "RustTarget::stable rejects targets below EARLIEST_STABLE_RUST"),
        (r"if editions\.is_empty\(\) \|\| editions\.contains\(&edition\)", "edition filter of RustFeatures::new"),
        (r"\.rev\(\)\s*\.find\(\|edition\| edition\.is_available\(self\)\)", "latest_edition = last available edition of ALL"),
        (r"if latest_minor < minor \{", "LATEST_STABLE_RUST loop"),
        (r"if earliest_minor > minor \{", "EARLIEST_STABLE_RUST loop"),
        (r"input\.split_once\('-'\)", "from_str splits the pre-release at the first '-'"),
        (r'pre_release\.starts_with\("beta\."\)', "from_str accepts beta.N"),
        (r'if major_str != "1" \{', "from_str major check"),
    ]
    for rx, what in need:
        if not re.search(rx, src):
            raise TranslateError("%s: expected form not found (%s): /%s/" % (REL, what, rx))


def check_generate(repo):
    src = read(repo, "bindgen/lib.rs")
    rx = (r"self\.options\.rust_features = match self\.options\.rust_edition \{\s*Some\(edition\) => \{\s*"
          r"if !edition\.is_available\(self\.options\.rust_target\) \{\s*return Err\(BindgenError::UnsupportedEdition\(")
    if not re.search(rx, src):
        raise TranslateError("bindgen/lib.rs: Builder::generate edition check / feature sync not in the modelled form")
    if not re.search(r"None => \{\s*RustFeatures::new_with_latest_edition\(self\.options\.rust_target\)", src):
        raise TranslateError("bindgen/lib.rs: Builder::generate default-edition arm not in the modelled form")


def parse_cstr_gate(repo):
    """condition under which string macros become `CStr` constants (codegen/mod.rs)"""
    rel = "bindgen/codegen/mod.rs"
    src = strip_comments(read(repo, rel))
    m = re.search(r"let cstr\s*=\s*if\s+([^{]+)\{\s*CStr::from_bytes_with_nul\(&cstr_bytes\)\.ok\(\)\s*\}\s*else\s*\{\s*None\s*\}\s*;", src)
    if not m:
        raise TranslateError("%s: `let cstr = if COND { CStr::from_bytes_with_nul(..).ok() } else { None };` not found" % rel)
    cond = re.sub(r"\s+", " ", m.group(1)).strip()
    if cond == "options.generate_cstr && rust_features.const_cstr":
        return False
    if cond in ("options.generate_cstr && rust_features.const_cstr && (!options.use_core || rust_features.core_ffi_c)",
                "options.generate_cstr && rust_features.const_cstr && (rust_features.core_ffi_c || !options.use_core)"):
        return True
    raise TranslateError("%s: unrecognised CStr condition %r" % (rel, cond))


def generate(repo):
    src = read(repo, REL)
    cstr_gate = parse_cstr_gate(repo)
    check_shape(src)
    check_generate(repo)
    editions = parse_editions(src)
    nightly, rows = parse_targets(src)
    decr = parse_decrement(src)
    years = {y for _, y, _ in editions}
    feats = []
    for _, _, es in rows:
        feats += [f for f, _ in es]
    feats += [f for f, _ in nightly]
    if len(set(feats)) != len(feats):
        raise TranslateError("%s: a feature is listed twice (the struct would not compile)" % REL)
    for f, eds in nightly + [e for _, _, es in rows for e in es]:
        for y in eds:
            if y not in years:
                raise TranslateError("%s: feature %s names unknown edition %d" % (REL, f, y))

    def ed(y):
        return ".e%d" % y

    def entry(f, eds):
        return "⟨.%s, [%s]⟩" % (f, ", ".join(ed(y) for y in eds))

    o = []
    o.append("namespace BindgenModel.Generated\n")
    o.append("/-- `define_rust_editions!` variants, in source order (= `RustEdition::ALL`) -/")
    o.append("inductive Edition where\n" + "\n".join("  | e%d" % y for _, y, _ in editions) + "\n  deriving DecidableEq, Repr\n")
    o.append("/-- fields of `RustFeatures`, stable rows first then nightly (struct order) -/")
    o.append("inductive Feature where\n" + "\n".join("  | %s" % f for f in feats) + "\n  deriving DecidableEq, Repr\n")
    o.append("/-- one feature entry of a `define_rust_targets!` row; `editions = []` means every edition -/")
    o.append("structure FeatEntry where\n  feature : Feature\n  editions : List Edition\n  deriving DecidableEq, Repr\n")
    o.append("def Edition.all : List Edition := [%s]\n" % ", ".join(ed(y) for _, y, _ in editions))
    o.append("def Edition.year : Edition → Nat\n" + "\n".join("  | %s => %d" % (ed(y), y) for _, y, _ in editions) + "\n")
    o.append("/-- `$variant($value) => $minor`: first stable minor that supports the edition -/")
    o.append("def Edition.firstMinor : Edition → Nat\n" + "\n".join("  | %s => %d" % (ed(y), m) for _, y, m in editions) + "\n")
    o.append("def Feature.all : List Feature := [%s]\n" % ", ".join("." + f for f in feats))
    o.append("def Feature.name : Feature → String\n" + "\n".join("  | .%s => %s" % (f, lean_str(f)) for f in feats) + "\n")
    o.append("/-- the `Nightly => { .. }` row -/")
    o.append("def nightlyEntries : List FeatEntry := [%s]\n" % ", ".join(entry(f, e) for f, e in nightly))
    o.append("/-- the `Stable_1_N(N) => { .. }` rows in source order: (minor, entries) -/")
    o.append("def releaseRows : List (Nat × List FeatEntry) := [\n" +
             ",\n".join("  (%d, [%s])" % (m, ", ".join(entry(f, e) for f, e in es)) for _, m, es in rows) + "]\n")
    o.append("/-- how `RustTarget::from_str` steps a `-nightly` version back to the previous release -/")
    o.append("inductive DecrKind where\n  | unchecked  -- `minor -= 1;`\n  | checked    -- `minor.checked_sub(1)` else the invalid-input error\n  deriving DecidableEq, Repr\n")
    o.append("def nightlyDecr : DecrKind := .%s\n" % decr)
    o.append("/-- does codegen require `core_ffi_c` before naming `::core::ffi::CStr` under `--use-core`?")
    o.append("    (`let cstr = if options.generate_cstr && rust_features.const_cstr [&& (!options.use_core || rust_features.core_ffi_c)]`) -/")
    o.append("def cstrCoreGate : Bool := %s\n" % ("true" if cstr_gate else "false"))
    o.append("end BindgenModel.Generated\n")
    return "\n".join(o)
