"""ir/function.rs `cursor_mangling`: the filters applied while the list of C++ manglings is popped from the back
->  Generated/ManglingFilters.lean (C04)."""
import re
from translate import read, body_after, strip_comments, TranslateError

NAME = "ManglingFilters"
REL = "bindgen/ir/function.rs"


def generate(repo):
    src = read(repo, REL)
    body = strip_comments(body_after(src, r"pub\(crate\) fn cursor_mangling\(\s*ctx: &BindgenContext,\s*cursor: &clang::Cursor,\s*\) -> Option<String>\s*", REL))
    m = re.search(r"if let Ok\(mut manglings\) = cursor\.cxx_manglings\(\) \{\s*while let Some\(m\) = manglings\.pop\(\) \{(.*?)return Some\(m\);\s*\}\s*\}", body, re.S)
    if not m:
        raise TranslateError("%s: cursor_mangling: the `while let Some(m) = manglings.pop()` loop is not in the modelled form" % REL)
    loop = m.group(1)
    d1 = re.search(r"if is_itanium_abi && is_destructor && !m\.ends_with\(\"D1Ev\"\) \{\s*continue;\s*\}", loop) is not None
    if not d1:
        raise TranslateError("%s: cursor_mangling: the destructor-group filter is not `is_itanium_abi && is_destructor && !m.ends_with(\"D1Ev\")`" % REL)
    th = re.search(r"if is_itanium_abi \{\s*let name = m\.trim_start_matches\('_'\);\s*if name\.starts_with\(\"ZTh\"\) \|\|\s*name\.starts_with\(\"ZTv\"\) \|\|\s*name\.starts_with\(\"ZTc\"\)\s*\{\s*continue;\s*\}\s*\}", loop) is not None
    rest = re.sub(r"if is_itanium_abi && is_destructor && !m\.ends_with\(\"D1Ev\"\) \{\s*continue;\s*\}", "", loop)
    rest = re.sub(r"if is_itanium_abi \{\s*let name = m\.trim_start_matches\('_'\);\s*if name\.starts_with\(\"ZTh\"\) \|\|\s*name\.starts_with\(\"ZTv\"\) \|\|\s*name\.starts_with\(\"ZTc\"\)\s*\{\s*continue;\s*\}\s*\}", "", rest)
    if rest.strip():
        raise TranslateError("%s: cursor_mangling: unrecognised statement in the loop: %r" % (REL, rest.strip()[:120]))
    out = ["namespace BindgenModel.Generated\n",
           "/-- `cursor_mangling`: thunk symbols (`_ZTh…`, `_ZTv…`, `_ZTc…`) are skipped while the manglings are popped -/",
           "def thunksSkipped : Bool := %s\n" % ("true" if th else "false"),
           "/-- `cursor_mangling`: of a destructor only the `D1Ev` (complete object) symbol is taken -/",
           "def destructorGroupFiltered : Bool := %s\n" % ("true" if d1 else "false"),
           "end BindgenModel.Generated\n"]
    return "\n".join(out)
