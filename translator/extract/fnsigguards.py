"""ir/function.rs `args_from_ty_and_cursor` / `FunctionSig::from_ty`: the guards that keep the parameters and the
calling convention of one level of a nested function declarator from being attributed to another level
->  Generated/FnSigGuards.lean (C04)."""
import re
from translate import read, body_after, strip_comments, TranslateError

NAME = "FnSigGuards"
REL = "bindgen/ir/function.rs"


def generate(repo):
    src = read(repo, REL)
    a = strip_comments(body_after(src, r"fn args_from_ty_and_cursor\(\s*ty: &clang::Type,\s*cursor: &clang::Cursor,\s*ctx: &mut BindgenContext,\s*\) -> Vec<\(Option<String>, TypeId\)>\s*", REL))
    if not re.search(r"let mut cursor_args = cursor\.args\(\)\.unwrap_or_default\(\);\s*let type_args = ty\.args\(\);", a):
        raise TranslateError("%s: args_from_ty_and_cursor: `cursor_args` / `type_args` bindings not in the modelled form" % REL)
    g1 = re.search(r"if type_args\s*\.as_ref\(\)\s*\.is_some_and\(\|type_args\| type_args\.len\(\) != cursor_args\.len\(\)\)\s*\{\s*cursor_args\.clear\(\);\s*\}", a) is not None
    if not re.search(r"\.zip\(type_args\.map\(Some\)\.chain\(std::iter::repeat\(None\)\)\)\s*\.take_while\(\|\(cur, ty\)\| cur\.is_some\(\) \|\| ty\.is_some\(\)\)", a):
        raise TranslateError("%s: args_from_ty_and_cursor: the zip / take_while of the two chained iterators is not in the modelled form" % REL)
    if not re.search(r"let ty = arg_ty\.unwrap_or_else\(\|\| cursor\.cur_type\(\)\);", a):
        raise TranslateError("%s: args_from_ty_and_cursor: `arg_ty.unwrap_or_else(|| cursor.cur_type())` not found" % REL)
    f = strip_comments(body_after(src, r"pub\(crate\) fn from_ty\(\s*ty: &clang::Type,\s*cursor: &clang::Cursor,\s*ctx: &mut BindgenContext,\s*\) -> Result<Self, ParseError>\s*", REL))
    m = re.search(r"let mut args = match kind \{(.*?)\n        \};", f, re.S)
    if not m:
        raise TranslateError("%s: from_ty: `let mut args = match kind { … };` not found" % REL)
    arms = m.group(1)
    if not re.search(r"CXCursor_FunctionDecl \|\s*CXCursor_Constructor \|\s*CXCursor_CXXMethod \|\s*CXCursor_ObjCInstanceMethodDecl \|\s*CXCursor_ObjCClassMethodDecl => \{\s*args_from_ty_and_cursor\(ty, &cursor, ctx\)\s*\}", arms):
        raise TranslateError("%s: from_ty: the declaration-like arm is not `args_from_ty_and_cursor(ty, &cursor, ctx)`" % REL)
    if not re.search(r"if c\.kind\(\) == CXCursor_ParmDecl \{\s*params\.push\(c\);", arms):
        raise TranslateError("%s: from_ty: the ParmDecl children are not collected in the modelled form" % REL)
    g2 = re.search(r"let params_declare_ty = ty\s*\.args\(\)\s*\.map_or\(true, \|type_args\| type_args\.len\(\) == params\.len\(\)\);\s*if params\.is_empty\(\) \|\| !params_declare_ty \{\s*args_from_ty_and_cursor\(ty, &cursor, ctx\)", arms) is not None
    if not g2 and not re.search(r"if (args|params)\.is_empty\(\) \{\s*args_from_ty_and_cursor\(ty, &cursor, ctx\)", arms):
        raise TranslateError("%s: from_ty: the children arm is in neither the guarded nor the unguarded form" % REL)
    cc = re.search(r"let mut call_conv = ty\.call_conv\(\);(.*?)let abi = get_abi\(call_conv\);", f, re.S)
    if not cc:
        raise TranslateError("%s: from_ty: the calling-convention block not found" % REL)
    blk = cc.group(1)
    if not re.search(r"cursor\.cur_type\(\)\.canonical_type\(\)\.pointee_type\(\)", blk):
        raise TranslateError("%s: from_ty: the declaration's pointee type is not consulted in the modelled form" % REL)
    g3 = re.search(r"let same_level = pointee\.ret_type\(\)\.map\(\|t\| t\.canonical_type\(\)\) ==\s*ty\.ret_type\(\)\.map\(\|t\| t\.canonical_type\(\)\);", blk) is not None \
        and re.search(r"if same_level && cursor_call_conv != CXCallingConv_Invalid \{\s*call_conv = cursor_call_conv;", blk) is not None
    if not g3 and not re.search(r"if cursor_call_conv != CXCallingConv_Invalid \{\s*call_conv = cursor_call_conv;", blk):
        raise TranslateError("%s: from_ty: the calling-convention override is in neither the guarded nor the unguarded form" % REL)
    b = lambda x: "true" if x else "false"
    out = ["namespace BindgenModel.Generated\n",
           "/-- `args_from_ty_and_cursor`: cursor arguments that differ in number from the prototype are dropped -/",
           "def fnSigCursorArgsGuard : Bool := %s\n" % b(g1),
           "/-- `from_ty`, other cursors: the `ParmDecl` children are used only when they agree in number with the prototype -/",
           "def fnSigChildrenGuard : Bool := %s\n" % b(g2),
           "/-- `from_ty`: the declaration's convention overrides only the level the declaration points to -/",
           "def fnSigSameLevelGuard : Bool := %s\n" % b(g3),
           "end BindgenModel.Generated\n"]
    return "\n".join(out)
