"""Site inventories of the whole bindgen/ tree  ->  Generated/Sites.lean

(a) process-wide state: `static`, `thread_local!`, `OnceLock`/`OnceCell`/`LazyLock`, `lazy_static`,
    environment / current-dir / temp-dir reads, and file-system writes (files at fixed paths are
    state shared by every generation in the same directory);
(b) every ITERATION over a hash container (crate::HashMap/HashSet, StdHashMap, std HashMap):
    found type-directedly: names (fields, locals, parameters, functions) whose declared type or
    initialiser mentions a hash container are tracked, then every order-observing use of such a
    name is a site (`.iter()`, `.into_iter()`, `.keys()`, `.values()`, `.drain()`, `.retain()`,
    `for .. in [&]name`, `.extend(name)`, pass-by-value into `collect`/`from_iter`...).
    Conservative: over-inclusion only costs a line in the classification table;
(c) every panic site: `unwrap()`, `expect(`, `panic!`, `unreachable!`, `assert!`/`assert_eq!`/
    `assert_ne!` (not debug_assert*), `unimplemented!`, `todo!`, plus slice/array indexing in a
    fixed list of decision-core files; `#[cfg(test)]` modules and test files are excluded.

Every entry = (file, enclosing fn or context, normalised snippet, occurrence index) with a
stable 60-bit hash of exactly these four (no line numbers: unrelated edits do not move a site).
The Lean side (Model/Determinism.lean, Model/PanicSites.lean) holds the committed hand-written
classification keyed by hash; `all_sites_classified` / `all_panic_sites_classified` are decided
over the sorted hash lists emitted here.
"""
import hashlib, os, re
from translate import TranslateError, lean_str

NAME = "Sites"

# files whose slice-index expressions are inventoried (decision cores modelled in Lean)
INDEX_FILES = ["features.rs", "lib.rs", "ir/analysis/mod.rs", "codegen/struct_layout.rs", "deps.rs"]

# files that are not part of the library that generates bindings
SKIP_FILES = set()

ANCHORS = [  # (file, regex) that must exist: the inventory is meaningless if these moved
    ("lib.rs", r"static\s+LIBCLANG\s*:\s*OnceLock"),
    ("features.rs", r"static\s+CURRENT_RUST\s*:\s*OnceLock"),
    ("ir/item.rs", r"static\s+ANON_TYPE_PARAM_RE\s*:\s*OnceLock"),
    ("lib.rs", r"type\s+HashMap<K,\s*V>\s*="),
    ("ir/context.rs", r"parsed_macros\s*:\s*StdHashMap"),
    ("ir/context.rs", r"includes\s*:\s*StdHashMap"),
]


# ------------------------------------------------------------------ lexical cleaning

def clean_source(src):
    """Blank out comments and the *contents* of string / char literals (same length, newlines
    kept) so that brace matching and regexes see code only."""
    out = list(src)
    i, n = 0, len(src)

    def blank(a, b):
        for k in range(a, b):
            if out[k] != "\n":
                out[k] = " "

    while i < n:
        c = src[i]
        if src.startswith("//", i):
            j = src.find("\n", i)
            j = n if j < 0 else j
            blank(i, j)
            i = j
        elif src.startswith("/*", i):
            depth, j = 1, i + 2
            while j < n and depth:
                if src.startswith("/*", j):
                    depth += 1; j += 2
                elif src.startswith("*/", j):
                    depth -= 1; j += 2
                else:
                    j += 1
            blank(i, j)
            i = j
        elif c == "r" and re.match(r'r#*"', src[i:i + 12]) and (i == 0 or not (src[i - 1].isalnum() or src[i - 1] == "_")):
            m = re.match(r'r(#*)"', src[i:])
            close = '"' + m.group(1)
            j = src.find(close, i + len(m.group(0)))
            j = n if j < 0 else j + len(close)
            blank(i + len(m.group(0)), j - len(close))
            i = j
        elif c == '"':
            j = i + 1
            while j < n and src[j] != '"':
                if src[j] == "\\":
                    j += 1
                j += 1
            blank(i + 1, j)
            i = j + 1
        elif c == "'":
            # char literal or lifetime
            m = re.match(r"'(\\.[^']*|[^'\\])'", src[i:i + 12])
            if m:
                blank(i + 1, i + len(m.group(0)) - 1)
                i += len(m.group(0))
            else:
                i += 1
        else:
            i += 1
    return "".join(out)


def match_close(clean, start):
    pairs = {"{": "}", "(": ")", "[": "]"}
    o = clean[start]; c = pairs[o]
    depth = 0
    for i in range(start, len(clean)):
        ch = clean[i]
        if ch == o:
            depth += 1
        elif ch == c:
            depth -= 1
            if depth == 0:
                return i + 1
    raise TranslateError("unbalanced %s at offset %d" % (o, start))


class SourceFile:
    def __init__(self, repo, rel):
        self.rel = rel
        self.src = open(os.path.join(repo, "bindgen", rel), encoding="utf-8", errors="replace").read()
        self.clean = clean_source(self.src)
        self.line_starts = [0]
        for m in re.finditer(r"\n", self.src):
            self.line_starts.append(m.end())
        self.fn_ranges = self._fn_ranges()
        self.excluded = self._test_ranges()
        self.test_child_files = self._test_child_files()

    def line_of(self, off):
        import bisect
        return bisect.bisect_right(self.line_starts, off)  # 1-based

    def _body_after(self, pos):
        """offset range of the `{...}` body following a `fn` header at pos, or None for `;`"""
        c = self.clean
        depth = 0
        i = pos
        while i < len(c):
            ch = c[i]
            if ch in "([":
                depth += 1
            elif ch in ")]":
                depth -= 1
            elif ch == "{" and depth == 0:
                return (i, match_close(c, i))
            elif ch == ";" and depth == 0:
                return None
            i += 1
        return None

    def _fn_ranges(self):
        out = []
        for m in re.finditer(r"\bfn\s+([A-Za-z_][A-Za-z0-9_]*)", self.clean):
            r = self._body_after(m.end())
            if r:
                out.append((r[0], r[1], m.group(1), m.start()))
        # macro_rules bodies are contexts too
        for m in re.finditer(r"\bmacro_rules!\s*([A-Za-z_][A-Za-z0-9_]*)", self.clean):
            r = self._body_after(m.end())
            if r:
                out.append((r[0], r[1], "macro:" + m.group(1), m.start()))
        return out

    def _test_ranges(self):
        out = []
        for m in re.finditer(r"#\[cfg\((?:test|all\(\s*test\b[^\]]*\))\)\]\s*(?:#\[[^\]]*\]\s*)*(?:pub(?:\([a-z]+\))?\s+)?mod\s+\w+\s*\{", self.clean):
            b = self.clean.rfind("{", m.start(), m.end())
            out.append((m.start(), match_close(self.clean, b)))
        for m in re.finditer(r"#\[test\]\s*(?:#\[[^\]]*\]\s*)*fn\s+\w+", self.clean):
            r = self._body_after(m.end())
            if r:
                out.append((m.start(), r[1]))
        return out

    def _test_child_files(self):
        kids = []
        for m in re.finditer(r"#\[cfg\((?:test|all\(\s*test\b[^\]]*\))\)\]\s*(?:#\[[^\]]*\]\s*)*(?:pub(?:\([a-z]+\))?\s+)?mod\s+(\w+)\s*;", self.clean):
            kids.append(m.group(1))
        return kids

    def is_excluded(self, off):
        return any(a <= off < b for a, b in self.excluded)

    def context(self, off):
        best = None
        for a, b, name, hdr in self.fn_ranges:
            if hdr <= off < b and (best is None or a > best[0]):
                best = (a, name)
        return best[1] if best else "<top>"

    def fn_range(self, off):
        best = None
        for a, b, name, hdr in self.fn_ranges:
            if hdr <= off < b and (best is None or a > best[0]):
                best = (a, b, hdr)
        return (best[2], best[1]) if best else (0, len(self.src))

    def snippet(self, off):
        """normalised text of the source line holding `off` (comments stripped, whitespace
        collapsed); a line that starts with `.` (method chain continuation) is prefixed with up
        to three preceding lines so that the receiver is part of the identity."""
        ln = self.line_of(off) - 1

        def line_text(k):
            a = self.line_starts[k]
            b = self.line_starts[k + 1] if k + 1 < len(self.line_starts) else len(self.src)
            # strip comments using the cleaned text to find where code ends
            code = self.src[a:b]
            cl = self.clean[a:b]
            # positions blanked by a // comment: find '//' in src where clean has spaces
            idx = 0
            while True:
                j = code.find("//", idx)
                if j < 0:
                    break
                if cl[j:j + 2] == "  ":
                    code = code[:j]
                    break
                idx = j + 2
            return re.sub(r"\s+", " ", code).strip()

        parts = [line_text(ln)]
        k = ln
        while parts[0].startswith((".", "?", ")")) and k > 0 and len(parts) < 4:
            k -= 1
            t = line_text(k)
            if t:
                parts.insert(0, t)
        return " ".join(p for p in parts if p)


def stmt_snippet(sf, off, cap=400):
    """like SourceFile.snippet but extended forward to the end of the statement (`;`, a block
    opening `{` at depth 0, or the closing of an enclosing group), so that the CONSUMER of an
    iteration is part of the site identity."""
    import re as _re
    head = sf.snippet(off)
    c = sf.clean
    eol = c.find("\n", off)
    eol = len(c) if eol < 0 else eol
    # depth bookkeeping starts at the match offset
    depth = 0
    i = off
    end = None
    while i < len(c) and i - off < 1500:
        ch = c[i]
        if ch in "([":
            depth += 1
        elif ch in ")]":
            depth -= 1
            if depth < 0:
                end = i
                break
        elif ch == "{" and depth == 0:
            end = i + 1
            break
        elif ch == "}" and depth == 0:
            end = i
            break
        elif ch == ";" and depth <= 0:
            end = i + 1
            break
        i += 1
    if end is None or end <= eol:
        return head
    tail = sf.src[eol:end]
    # strip // comments in the tail using the cleaned text
    tl = []
    for a, b in zip(sf.src[eol:end].split("\n"), c[eol:end].split("\n")):
        j = a.find("//")
        while j >= 0 and b[j:j + 2] != "  ":
            j = a.find("//", j + 2)
        tl.append(a[:j] if j >= 0 else a)
    tail = _re.sub(r"\s+", " ", " ".join(tl)).strip()
    return (head + " " + tail).strip()[:cap]


def list_files(repo):
    root = os.path.join(repo, "bindgen")
    if not os.path.isdir(root):
        raise TranslateError("missing directory bindgen/")
    rels = []
    for d, _, fs in os.walk(root):
        for f in fs:
            if f.endswith(".rs"):
                rels.append(os.path.relpath(os.path.join(d, f), root))
    return sorted(rels)


def load(repo):
    files = {}
    for rel in list_files(repo):
        files[rel] = SourceFile(repo, rel)
    # drop files that are only compiled under cfg(test)
    drop = set()
    for rel, sf in files.items():
        base = os.path.dirname(rel)
        stem = os.path.splitext(os.path.basename(rel))[0]
        here = base if stem in ("mod", "lib", "main") else os.path.join(base, stem)
        for kid in sf.test_child_files:
            for cand in (os.path.join(here, kid + ".rs"), os.path.join(here, kid, "mod.rs")):
                cand = os.path.normpath(cand)
                if cand in files:
                    drop.add(cand)
    for d in drop:
        del files[d]
    for rel, pat in ANCHORS:
        if rel not in files or not re.search(pat, files[rel].clean):
            raise TranslateError("bindgen/%s: anchor not found: %s" % (rel, pat))
    return files, sorted(drop)


# ------------------------------------------------------------------ (a) process-wide state

STATE_PATTERNS = [
    ("static", r"^[ \t]*(?:pub(?:\([a-z]+\))?[ \t]+)?static[ \t]+(?:mut[ \t]+)?[A-Z_][A-Za-z0-9_]*[ \t]*:"),
    ("thread_local", r"\bthread_local!"),
    ("lazy", r"\blazy_static!|\bLazyLock\b|\bLazyCell\b|\bonce_cell::"),
    ("env", r"\benv::(?:var|var_os|vars|vars_os|args|args_os|current_dir|current_exe|temp_dir|set_var|remove_var|set_current_dir)\b"),
    # file-system writes: a file at a path that is not unique to the generation is process-
    # (and directory-) wide mutable state
    ("fswrite", r"\bFile::create\b|\bOpenOptions::new\b|\bfs::write\s*\(|\bfs::remove_file\b|\bfs::create_dir(?:_all)?\b|\bfs::remove_dir(?:_all)?\b|\bfs::rename\b|\bfs::copy\b|\.\s*save\s*\("),
]


def state_sites(files):
    sites = []
    for rel, sf in files.items():
        for kind, pat in STATE_PATTERNS:
            for m in re.finditer(pat, sf.clean, re.M):
                if sf.is_excluded(m.start()):
                    continue
                # `static` inside quote!{} token streams (`pub static #maybe_mut ...`) does not
                # match: the pattern demands an identifier followed by ':'
                off = m.start() + (len(m.group(0)) - len(m.group(0).lstrip()))
                sites.append((kind, sf, off))
        # OnceLock / OnceCell *declarations* are caught as statics (OnceLock) or struct fields;
        # record every field/local declared with these types too (per-item write-once cells)
        for m in re.finditer(r"\b[a-z_][a-z0-9_]*\s*:\s*(?:std::(?:cell|sync)::)?Once(?:Cell|Lock)\s*<", sf.clean):
            if not sf.is_excluded(m.start()):
                sites.append(("oncecell_field", sf, m.start()))
    return sites


# ------------------------------------------------------------------ (b) hash iteration

HASH_TY = r"(?:Std)?Hash(?:Map|Set)\b"


def hash_names(files):
    """identifiers bound to hash containers. fields + fn names: global; locals/params: per file"""
    fields, funcs = set(), set()
    per_file = {}
    for rel, sf in files.items():
        c = sf.clean
        loc = set()
        # struct fields / params / typed lets / closure params:  name : <type mentioning Hash..>
        for m in re.finditer(r"\b([a-z_][a-z0-9_]*)\s*:(?!:)\s*([^;{}=]*?)(?=[,;=){}\n])", c):
            ty = m.group(2)
            if re.search(HASH_TY, ty):
                name = m.group(1)
                # is it a struct field? (line ends with ',' and we are not inside a fn header) —
                # we do not care: treat every such name as both
                loc.add(name)
                hdr, end = sf.fn_range(m.start())
                if hdr == 0 and end == len(sf.src):
                    fields.add(name)
        # multi-line field declarations:  name:\n   RefCell<HashMap<..>>,
        for m in re.finditer(r"\b([a-z_][a-z0-9_]*)\s*:\s*\n\s*([^;{}=\n]*)", c):
            if re.search(HASH_TY, m.group(2)):
                loc.add(m.group(1)); fields.add(m.group(1))
        # let name = HashMap::default() / HashSet::default() / ...::<HashSet<_>>() / collect into
        for m in re.finditer(r"\blet\s+(?:mut\s+)?([a-z_][a-z0-9_]*)\s*(?::[^=;]*)?=\s*([^;]*);", c):
            if re.search(HASH_TY, m.group(0)):
                loc.add(m.group(1))
        # functions returning hash containers
        for m in re.finditer(r"\bfn\s+([a-z_][a-z0-9_]*)\s*(?:<[^>]*>)?\s*\(", c):
            p = match_close(c, c.find("(", m.start()))
            tail = c[p:p + 200]
            rt = re.match(r"\s*->\s*([^{;]*)", tail)
            if rt and re.search(HASH_TY, rt.group(1).split("where")[0]):
                funcs.add(m.group(1))
        per_file[rel] = loc
    # aliases:  let x = [mem::take(] [&[mut]] [self.|ctx.]<hash name> [.borrow()|.clone()|...] [)] ;
    for rel, sf in files.items():
        loc = per_file[rel]
        for _ in range(3):
            names = loc | fields
            alt = "|".join(sorted(re.escape(n) for n in names)) or "(?!x)x"
            pat = (r"\b(?:let|Some\s*\()\s*(?:mut\s+)?([a-z_][a-z0-9_]*)\s*\)?\s*(?::[^=;]*)?=\s*"
                   r"(?:(?:std::)?mem::(?:take|replace)\s*\(\s*)?&?\s*(?:mut\s+)?(?:[a-z_][a-z0-9_]*\s*\.\s*)*"
                   r"(?:[a-z_][a-z0-9_]*\s*\(\s*\)\s*\.\s*)*\b(?:" + alt + r")\b"
                   r"(?:\s*\.\s*(?:borrow|borrow_mut|as_ref|as_mut|unwrap|clone|take|to_owned)\s*\(\s*\)|\s*\?)*\s*(?:,[^;{]*)?\)?\s*[;{]")
            new = set(m.group(1) for m in re.finditer(pat, sf.clean)) - loc
            if not new:
                break
            loc |= new
    # struct fields of context-like structs are reachable from other files through `self.`/`ctx.`
    return fields, funcs, per_file


ITER_METHODS = r"(?:iter|iter_mut|into_iter|keys|values|values_mut|into_keys|into_values|drain|retain|extract_if)"
ADAPT = r"(?:\s*\.\s*(?:borrow|borrow_mut|as_ref|as_mut|unwrap|clone|take|as_deref|get_mut|into_inner)\s*\(\s*\)|\s*\?)*"


def hash_iter_sites(files):
    fields, funcs, per_file = hash_names(files)
    sites = []
    for rel, sf in files.items():
        names = set(per_file[rel]) | fields
        if not names and not funcs:
            continue
        c = sf.clean
        seen = set()

        def add(off, how):
            if sf.is_excluded(off):
                return
            key = sf.line_of(off)
            if (key, how) in seen:
                return
            seen.add((key, how))
            sites.append(("hashiter:" + how, sf, off))

        alt = "|".join(sorted(re.escape(n) for n in names)) or "(?!x)x"
        falt = "|".join(sorted(re.escape(n) for n in funcs)) or "(?!x)x"
        recv = r"(?:\b(?:%s)\b(?!\s*\()|\b(?:%s)\s*\(\s*\))" % (alt, falt)
        # method-style iteration
        for m in re.finditer(recv + ADAPT + r"\s*\.\s*(" + ITER_METHODS + r")\s*\(", c):
            add(m.start(), m.group(1))
        # for .. in [&[mut]] [self.|ctx.]name
        for m in re.finditer(r"\bfor\b[^{;]*?\bin\s+&?\s*(?:mut\s+)?(?:[a-z_][a-z0-9_]*\s*\.\s*)*" + recv + ADAPT + r"\s*\{", c):
            add(m.start(), "for")
        # extend / from_iter / collect with a hash container passed by value or reference
        for m in re.finditer(r"\.\s*extend\s*\(\s*&?\s*(?:[a-z_][a-z0-9_]*\s*\.\s*)*" + recv + r"[^)]*\)", c):
            add(m.start(), "extend-from")
        for m in re.finditer(r"\bfrom_iter\s*\(\s*&?\s*(?:[a-z_][a-z0-9_]*\s*\.\s*)*" + recv, c):
            add(m.start(), "from_iter")
        # conversions of an analysis result (a hash container) by `.into()` are moves, not
        # iterations; `From<..> for HashMap` impl bodies are scanned like any other function.
    return sites


# ------------------------------------------------------------------ (c) panic sites

PANIC_PATTERNS = [
    ("unwrap", r"\.\s*unwrap\s*\(\s*\)"),
    ("expect", r"\.\s*expect\s*\("),
    ("unwrap_err", r"\.\s*(?:unwrap_err|expect_err|unwrap_unchecked)\s*\("),
    ("panic", r"\bpanic!"),
    ("unreachable", r"\bunreachable!"),
    ("assert", r"(?<![A-Za-z0-9_])assert(?:_eq|_ne)?!"),
    ("unimplemented", r"\bunimplemented!"),
    ("todo", r"\btodo!"),
]
# slice / array / map indexing `expr[...]` (not attributes `#[`, not array types/literals)
INDEX_RE = r"(?<=[A-Za-z0-9_\)\]])\[(?!\s*\])"


def panic_sites(files):
    sites = []
    for rel, sf in files.items():
        if rel == "build.rs":
            continue  # build script: runs at compile time, not during generation
        c = sf.clean
        for kind, pat in PANIC_PATTERNS:
            for m in re.finditer(pat, c):
                if sf.is_excluded(m.start()):
                    continue
                # extra_assertions.rs defines a macro that expands to assert! only under a
                # non-default feature; it is listed like any other site
                sites.append(("panic:" + kind, sf, m.start()))
        if rel in INDEX_FILES:
            for m in re.finditer(INDEX_RE, c):
                if sf.is_excluded(m.start()):
                    continue
                # skip attribute-like and macro-pattern contexts
                ls = c.rfind("\n", 0, m.start()) + 1
                line = c[ls:c.find("\n", m.start())]
                if re.match(r"\s*#!?\[", line) or "$" in line:
                    continue
                sites.append(("panic:index", sf, m.start()))
    return sites


# ------------------------------------------------------------------ emission

def finalize(raw):
    """raw: list of (kind, SourceFile, offset) -> sorted list of dict rows with stable hashes"""
    rows = []
    occ = {}
    for kind, sf, off in sorted(raw, key=lambda t: (t[1].rel, t[2], t[0])):
        ctx = sf.context(off)
        snip = sf.snippet(off) if kind.startswith("panic") or kind == "oncecell_field" else stmt_snippet(sf, off)
        key = (kind.split(":")[0] if kind.startswith("hashiter") else kind, sf.rel, ctx, snip)
        k = occ.get(key, 0)
        occ[key] = k + 1
        h = hashlib.sha256(("\0".join([key[0], sf.rel, ctx, snip, str(k)])).encode()).digest()
        hv = int.from_bytes(h[:8], "big") >> 4
        rows.append(dict(kind=kind, file=sf.rel, ctx=ctx, snippet=snip, occ=k, hash=hv, line=sf.line_of(off)))
    # one row per (kind-class, line): the same line may match several iteration patterns
    hs = [r["hash"] for r in rows]
    if len(set(hs)) != len(hs):
        raise TranslateError("hash collision in site inventory")
    return rows


def inventory(repo):
    files, dropped = load(repo)
    a = finalize(state_sites(files))
    b = finalize(hash_iter_sites(files))
    c = finalize(panic_sites(files))
    return dict(state=a, hashiter=b, panic=c, test_only_files=dropped, files=sorted(files))


def emit_list(name, rows):
    out = ["def %s : List Site := [" % name]
    for r in rows:
        out.append("  { hash := %d, kind := %s, file := %s, ctx := %s, snippet := %s }," % (
            r["hash"], lean_str(r["kind"]), lean_str(r["file"]), lean_str(r["ctx"]), lean_str(r["snippet"][:200])))
    if rows:
        out[-1] = out[-1].rstrip(",")
    out.append("]")
    hashes = sorted(r["hash"] for r in rows)
    out.append("/-- the hashes of `%s`, ascending (the decidable obligations range over these) -/" % name)
    out.append("def %sHashes : List Nat := [" % name)
    for i in range(0, len(hashes), 6):
        out.append("  " + ", ".join(str(h) for h in hashes[i:i + 6]) + ("," if i + 6 < len(hashes) else ""))
    out.append("]")
    return "\n".join(out)


def generate(repo):
    inv = inventory(repo)
    if len(inv["state"]) < 3 or len(inv["hashiter"]) < 5 or len(inv["panic"]) < 50:
        raise TranslateError("site inventory implausibly small: %d/%d/%d" % (
            len(inv["state"]), len(inv["hashiter"]), len(inv["panic"])))
    parts = [
        "namespace BindgenModel.Generated",
        "",
        "/-- one inventoried source site; `hash` identifies (kind, file, enclosing fn, normalised snippet, occurrence) -/",
        "structure Site where",
        "  hash : Nat",
        "  kind : String",
        "  file : String",
        "  ctx : String",
        "  snippet : String",
        "",
        "/-- (a) process-wide state and environment reads -/",
        emit_list("stateSites", inv["state"]),
        "",
        "/-- (b) iterations over hash containers -/",
        emit_list("hashIterSites", inv["hashiter"]),
        "",
        "/-- (c) panic sites (unwrap/expect/panic!/unreachable!/assert!/unimplemented!/todo!, indexing in decision-core files) -/",
        emit_list("panicSites", inv["panic"]),
        "",
        "def sitesFilesScanned : Nat := %d" % len(inv["files"]),
        "",
        "end BindgenModel.Generated",
        "",
    ]
    return "\n".join(parts)


if __name__ == "__main__":
    import json, sys
    inv = inventory(sys.argv[1] if len(sys.argv) > 1 else "/repo")
    which = sys.argv[2] if len(sys.argv) > 2 else "summary"
    if which == "summary":
        print({k: len(v) for k, v in inv.items()})
    else:
        for r in inv[which]:
            print("%d\t%s\t%s:%d\t%s\t%s" % (r["hash"], r["kind"], r["file"], r["line"], r["ctx"], r["snippet"][:150]))
