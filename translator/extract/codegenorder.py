"""Source facts about the order / unconditionality of steps that models of C04 and C17 take for granted
->  Generated/CodegenOrder.lean.
 * codegen/mod.rs `impl CodeGenerator for Function`: the overload suffix is appended to `canonical_name`
   BEFORE `link_name_attr` is decided from it (the model of Link.lean decides on the suffixed name);
 * ir/context.rs `BindgenContext::new`: the translation unit is parsed with
   `CXTranslationUnit_DetailedPreprocessingRecord` unconditionally (inclusion directives — the only source of
   the reported include files — exist whatever is generated)."""
import re
from translate import read, body_after, strip_comments, TranslateError

NAME = "CodegenOrder"


def generate(repo):
    cg = read(repo, "bindgen/codegen/mod.rs")
    m = re.search(r"impl CodeGenerator for Function\s*\{", cg)
    if not m:
        raise TranslateError("bindgen/codegen/mod.rs: `impl CodeGenerator for Function` not found")
    body = strip_comments(body_after(cg[m.start():], r"impl CodeGenerator for Function\s*", "bindgen/codegen/mod.rs"))
    a = re.search(r"let times_seen = result\.overload_number\(&canonical_name\);", body)
    b = re.search(r"write!\(&mut canonical_name, \"\{times_seen\}\"\)", body)
    c = re.search(r"let link_name_attr = self\.link_name\(\)\.or_else\(", body)
    d = re.search(r"names_will_be_identical_after_mangling\(\s*&canonical_name,", body)
    if not (a and b and c and d):
        raise TranslateError("bindgen/codegen/mod.rs: Function::codegen: overload suffix / link_name_attr anchors not found (%s)" % [bool(x) for x in (a, b, c, d)])
    suffix_first = a.start() < b.start() < c.start() < d.start()
    ctx = read(repo, "bindgen/ir/context.rs")
    nb = strip_comments(body_after(ctx, r"pub\(crate\) fn new\(\s*options: BindgenOptions,\s*input_unsaved_files: &\[clang::UnsavedFile\],\s*\) -> Self\s*", "bindgen/ir/context.rs"))
    po = re.search(r"let parse_options\s*=\s*([^;]*);", nb)
    if not po:
        raise TranslateError("bindgen/ir/context.rs: BindgenContext::new: `let parse_options = …;` not found")
    rhs = " ".join(po.group(1).split())
    uncond = rhs == "clang_sys::CXTranslationUnit_DetailedPreprocessingRecord" and len(re.findall(r"parse_options", nb)) == 2 \
        and re.search(r"clang::TranslationUnit::parse\((?:[^;]*?)parse_options,?\s*\)", nb, re.S) is not None
    # ir/analysis/derive.rs CannotDerive::constrain_type: order of the early answers
    dv = read(repo, "bindgen/ir/analysis/derive.rs")
    ct = strip_comments(body_after(dv, r"fn constrain_type\(&mut self, item: &Item, ty: &Type\) -> CanDerive\s*", "bindgen/ir/analysis/derive.rs"))
    anchors = [("notAllowlisted", r"if !self\.ctx\.allowlisted_items\(\)\.contains\(&item\.id\(\)\)"),
               ("byName", r"if self\.derive_trait\.not_by_name\(self\.ctx, item\)"),
               ("opaque", r"if item\.is_opaque\(self\.ctx, &\(\)\)"),
               ("kindMatch", r"match \*ty\.kind\(\)")]
    pos = []
    for nm, rx in anchors:
        mm = re.search(rx, ct)
        if not mm:
            raise TranslateError("bindgen/ir/analysis/derive.rs: constrain_type: guard `%s` not found" % nm)
        pos.append((mm.start(), nm))
    guard_order = [nm for _, nm in sorted(pos)]
    out = ["namespace BindgenModel.Generated\n",
           "/-- `Function::codegen`: is the overload suffix appended to `canonical_name` before `link_name_attr` is",
           "decided by `names_will_be_identical_after_mangling(&canonical_name, …)`? -/",
           "def linkDecisionAfterOverloadSuffix : Bool := %s\n" % ("true" if suffix_first else "false"),
           "/-- `BindgenContext::new`: `parse_options` is exactly `CXTranslationUnit_DetailedPreprocessingRecord`, bound once",
           "and passed to `TranslationUnit::parse` -/",
           "def preprocessingRecordUnconditional : Bool := %s\n" % ("true" if uncond else "false"),
           "/-- `CannotDerive::constrain_type`: the early answers in the order they are written -/",
           "def deriveGuardOrder : List String := [" + ", ".join('"%s"' % g for g in guard_order) + "]\n",
           "end BindgenModel.Generated\n"]
    return "\n".join(out)
