"""bindgen/codegen/serialize.rs (`impl CSerialize for Type`, `impl CSerialize for Function`,
`serialize_args`) + the IntKind / FloatKind enums  ->  Generated/SerializeArms.lean

Every arm of `match self.kind()` is compared, after comment stripping and whitespace
normalisation, with the syntactic form it has today; the string literals it writes are the
holes (`§`) of the form and become the table.  The `Array` arm is recognised in two forms
(suffix written after the element type / suffix joined to the declarator, parenthesised when
it starts with `*`); the table records which one is present.  A new arm, a missing arm or
any other shape raises TranslateError.

The `wrap_as_variadic` path of `impl CSerialize for Function` is matched as one template from the
`} else {` of `if wrap_as_variadic.is_none()` to the collection of the forwarded names (holes: the
fragments `, ...) {`, ` ret;`, `va_list ap;\n`, `va_start(ap, `, `);`, `ret = `, `(`), followed by
the statement that puts `ap` back among the forwarded names — recognised in two forms
(`args.insert(*idx_of_va_list_arg, "ap")` / `args.push("ap")`), recorded as `vaApPlacement` — and
by the `va_end(ap);` / `return ret;` tail; the pruning of the parameter list (`Some(idx) ==
idx_to_prune`) and the decision of `utils::wrap_as_variadic_fn` / `Function::codegen`
(bindgen/codegen/mod.rs: at most N arguments -> no wrapping, the name compared with `ty.name()`,
the Alias / ResolvedTypeRef walk, exactly one hit, callback last) are anchors as well."""
import re
from translate import read, body_after, strip_comments, braces, TranslateError

NAME = "SerializeArms"
REL = "bindgen/codegen/serialize.rs"


def norm(s):
    return re.sub(r"\s+", " ", strip_comments(s)).strip()


def tmpl(t):
    """literal template with § holes (string-literal contents) -> compiled regex"""
    parts = [re.escape(norm(p)) if p else "" for p in t.split("§")]
    # norm() strips the blanks next to a hole; holes always sit inside quotes so nothing is lost
    return re.compile("(?s)" + '([^"]*)'.join(parts))


def lean_chars(s):
    def one(c):
        if c == "'":
            return "'\\''"
        if c == "\\":
            return "'\\\\'"
        if c == "\n":
            return "'\\n'"
        if ord(c) < 32 or ord(c) > 126:
            raise TranslateError("%s: non-printable character %r in a written fragment" % (REL, c))
        return "'%s'" % c
    return "[" + ", ".join(one(c) for c in s) + "]"


def unrust(s):
    """contents of a Rust format-string literal without placeholders -> the text it writes"""
    if "{" in s.replace("{{", "") or "}" in s.replace("}}", ""):
        raise TranslateError("%s: unexpected format placeholder in %r" % (REL, s))
    return s.replace("{{", "{").replace("}}", "}").replace("\\n", "\n")


def enum_variants(repo, rel, anchor):
    body = strip_comments(body_after(read(repo, rel), anchor, rel))
    out = []
    i = 0
    flat = re.sub(r"\s+", " ", body).strip()
    for m in re.finditer(r"([A-Z]\w*)\s*(\{[^}]*\})?\s*,", flat + ","):
        out.append(m.group(1))
    rest = re.sub(r"([A-Z]\w*)\s*(\{[^}]*\})?\s*,", "", flat + ",").strip(" ,")
    if rest or len(out) < 3:
        raise TranslateError("%s: unrecognised enum body after %s: %r" % (rel, anchor, rest[:60]))
    return out


CONST = 'if self.is_const() { write!(writer, "§")?; } '

FORMS = {
    "Void": CONST + 'write!(writer, "§")?;',
    "NullPtr": CONST + 'write!(writer, "§")?;',
    "Alias": 'if let Some(name) = self.name() { if self.is_const() { write!(writer, "§{name}")?; } else { '
             'write!(writer, "{name}")?; } } else { type_id.serialize(ctx, (), stack, writer)?; }',
    "Function": 'if self.is_const() { stack.push("§".to_string()); } signature.return_type().serialize( ctx, (), &mut vec![], '
                'writer, )?; write!(writer, "§")?; while let Some(item) = stack.pop() { write!(writer, "{item}")?; } '
                'write!(writer, "§")?; let args = signature.argument_types(); if args.is_empty() { write!(writer, "§")?; } '
                'else { write!(writer, "§")?; serialize_sep( "§", args.iter(), ctx, writer, |(name, type_id), ctx, buf| { '
                'let mut stack = vec![]; if let Some(name) = name { stack.push(name.clone()); } '
                'type_id.serialize(ctx, (), &mut stack, buf) }, )?; write!(writer, "§")?; }',
    "ResolvedTypeRef": CONST + 'type_id.serialize(ctx, (), stack, writer)?;',
    "Pointer": 'if self.is_const() { stack.push("§".to_owned()); } else { stack.push("§".to_owned()); } '
               'type_id.serialize(ctx, (), stack, writer)?;',
    "Comp": CONST + 'let name = item.canonical_name(ctx); match comp_info.kind() { '
            'CompKind::Struct => write!(writer, "§{name}")?, CompKind::Union => write!(writer, "§{name}")?, }',
    "Enum": CONST + 'let name = item.canonical_name(ctx); write!(writer, "§{name}")?;',
}
ARRAY_AFTER = 'type_id.serialize(ctx, (), stack, writer)?; write!(writer, "§{length}§")?;'
ARRAY_DECL = ('let mut declarator = String::new(); while let Some(item) = stack.pop() { declarator.push_str(&item); } '
              "if declarator.starts_with('*') { declarator = format!(\"§{declarator}§\"); } "
              'if declarator.is_empty() { stack.push(format!("§{length}§")); } else { '
              'stack.push(format!("{declarator}§{length}§")); } type_id.serialize(ctx, (), stack, writer)?;')
ERR_ARM = 'return Err(CodegenError::Serialize { msg: format!("Cannot serialize type kind {ty:?}"), loc: get_loc(item), })'
TRAILER = ('if !stack.is_empty() { write!(writer, "§")?; while let Some(item) = stack.pop() { write!(writer, "{item}")?; } } Ok(())')

ORDER = ["Void", "NullPtr", "Int", "Float", "Complex", "Alias", "Array", "Function", "ResolvedTypeRef",
         "Pointer", "Comp", "Enum"]


def full(form, text, what):
    m = tmpl(form).fullmatch(norm(text))
    if not m:
        raise TranslateError("%s: the %s no longer has the recognised form; got: %s" % (REL, what, norm(text)[:160]))
    return [unrust(g) for g in m.groups()]


def kind_arms(text, what, enum, variants):
    """`if const {..} match x_kind { Enum::V => write!(writer, "..")?, ... [fallback => return Err] }`"""
    n = norm(text)
    m = re.fullmatch(re.escape("if self.is_const() { write!(writer, \"") + '([^"]*)' +
                     re.escape("\")?; } match ") + r"(\w+) \{ (.*) \}", n)
    if not m:
        raise TranslateError("%s: the %s no longer has the recognised form" % (REL, what))
    const, var, arms = unrust(m.group(1)), m.group(2), m.group(3)
    arm_re = re.compile(re.escape(enum) + r'::(\w+)(?: \{ \.\. \})? => (?:write!\(writer, "([^"]*)"\)\?,|\{ write!\(writer, "([^"]*)"\)\?; \},?) ?')
    table, pos = [], 0
    while True:
        a = arm_re.match(arms, pos)
        if not a:
            break
        table.append((a.group(1), unrust(a.group(2) if a.group(2) is not None else a.group(3))))
        pos = a.end()
    rest = arms[pos:].strip()
    fallback = False
    if rest:
        if not re.fullmatch(re.escape(var) + r" => \{ return Err\(CodegenError::Serialize \{ .* \}\) \},?", rest):
            raise TranslateError("%s: unrecognised arm in the %s: %r" % (REL, what, rest[:100]))
        fallback = True
    names = [k for k, _ in table]
    for k in names:
        if k not in variants:
            raise TranslateError("%s: %s::%s is not a variant of the enum" % (REL, enum, k))
    if len(set(names)) != len(names):
        raise TranslateError("%s: duplicate arm in the %s" % (REL, what))
    if not fallback and set(names) != set(variants):
        raise TranslateError("%s: the %s neither covers the enum nor has an error arm" % (REL, what))
    return const, table, fallback


def type_impl(repo):
    src = read(repo, REL)
    impl = body_after(src, r"impl<'a> CSerialize<'a> for Type\s*\{", REL)
    fn = body_after(impl, r"fn serialize<W: Write>\(\s*&self,\s*ctx: &BindgenContext,\s*item: Self::Extra,\s*stack: &mut Vec<String>,\s*writer: &mut W,\s*\) -> Result<\(\), CodegenError>\s*\{", REL)
    m = re.search(r"match self\.kind\(\)\s*\{", fn)
    if not m or norm(fn[:m.start()]) != "":
        raise TranslateError("%s: `match self.kind()` is no longer the first statement of Type::serialize" % REL)
    end = braces(fn, m.end() - 1)
    body = fn[m.end():end - 1]
    trailer = fn[end:]
    arms, pos = [], 0
    head = re.compile(r"\s*(?:TypeKind::(\w+)(?:\(([^)]*)\))?|(ty))\s*=>\s*\{")
    while True:
        h = head.match(body, pos)
        if not h:
            break
        b0 = h.end() - 1
        b1 = braces(body, b0)
        arms.append((h.group(1) or "<fallback>", h.group(2), body[b0 + 1:b1 - 1]))
        pos = b1
        while pos < len(body) and body[pos] in ", \n\t":
            pos += 1
    if norm(body[pos:]) != "":
        raise TranslateError("%s: unrecognised text among the arms of Type::serialize: %r" % (REL, norm(body[pos:])[:100]))
    return arms, trailer


def fn_impl(repo):
    """fragments of the non-variadic path of `impl CSerialize for Function` and of serialize_args"""
    src = read(repo, REL)
    impl = norm(body_after(src, r"impl<'a> CSerialize<'a> for Function\s*\{", REL))
    need = {
        "argPrefix": r'let name = format!\("([^"{]*)\{count\}"\); count \+= 1; name',
        "wrapName": r'let wrap_name = format!\("\{name\}\{\}", ctx\.wrap_static_fns_suffix\(\)\);',
        "retFirst": r'ret_ty\.serialize\(ctx, ret_item, stack, writer\)\?; \(ret_item, ret_ty\) \};',
        "open": r'write!\(writer, "([^"{]*)\{wrap_name\}([^"{]*)"\)\?; serialize_args\(&args, ctx, writer\)\?;',
        "body": r'if wrap_as_variadic\.is_none\(\) \{ if ret_ty\.is_void\(\) \{ write!\(writer, "([^"]*)\{name\}([^"]*)"\)\?; \} else \{ write!\(writer, "([^"]*)\{name\}([^"]*)"\)\?; \} \} else \{',
        "names": r'serialize_sep\("([^"]*)", args\.iter\(\), ctx, writer, \|name, _, buf\| \{ write!\(buf, "\{name\}"\)\.map_err\(From::from\) \}\)\?;',
        "close": r'write!\(writer, "([^"{]*)\{\}", if wrap_as_variadic\.is_none\(\) \{ "([^"]*)" \} else \{ "\\n" \}\)\?;',
        "end": r'writeln!\(writer, "([^"]*)"\)\?; Ok\(\(\)\) \}$',
        "variadicAssert": r'assert!\(!signature\.is_variadic\(\)\);',
        "nameIsFnName": r'let name = self\.name\(\);',
    }
    got, last = {}, -1
    for key in ["variadicAssert", "nameIsFnName", "argPrefix", "wrapName", "retFirst", "open", "body", "names", "close", "end"]:
        m = re.search(need[key], impl)
        if not m:
            raise TranslateError("%s: Function::serialize: anchor `%s` not found" % (REL, key))
        if m.start() < last:
            raise TranslateError("%s: Function::serialize: anchor `%s` out of order" % (REL, key))
        last = m.start()
        got[key] = [unrust(g) for g in m.groups()]
    got.update(va_impl(src, impl))
    i = src.index("fn serialize_args<W: Write>(")
    j = src.index("{", src.index("-> Result<(), CodegenError>", i))
    sa = norm(src[j + 1:braces(src, j) - 1])
    m = tmpl('if args.is_empty() { write!(writer, "§")?; } else { serialize_sep( "§", args.iter(), ctx, writer, '
             '|(name, type_id), ctx, buf| { type_id.serialize(ctx, (), &mut vec![name.clone()], buf) }, )?; } Ok(())').fullmatch(sa)
    if not m:
        raise TranslateError("%s: serialize_args no longer has the recognised form" % REL)
    got["args"] = [unrust(g) for g in m.groups()]
    return got


VA_PRUNE = [
    r'let idx_to_prune = wrap_as_variadic\.as_ref\(\)\.map\( \|WrapAsVariadic \{ idx_of_va_list_arg, \.\. \}\| \*idx_of_va_list_arg, \);',
    r'\.argument_types\(\) \.iter\(\) \.cloned\(\) \.enumerate\(\) \.filter_map\(\|\(idx, \(opt_name, type_id\)\)\| \{ '
    r'if Some\(idx\) == idx_to_prune \{ None \} else \{ Some\(\( opt_name\.unwrap_or_else\(\|\| \{',
    r'\}\), type_id, \)\) \} \}\) \.collect::<Vec<_>>\(\) \};',
]
VA_BRANCH = ('} else { writeln!(writer, "§")?; if !ret_ty.is_void() { write!(writer, "{INDENT}")?; '
             'ret_ty.serialize(ctx, ret_item, stack, writer)?; writeln!(writer, "§")?; } '
             'writeln!(writer, "{INDENT}§")?; writeln!( writer, "{INDENT}§{}§", args.last().unwrap().0 )?; '
             'write!(writer, "{INDENT}")?; if !ret_ty.is_void() { write!(writer, "§")?; } write!(writer, "{name}§")?; } '
             'let mut args: Vec<_> = args.into_iter().map(|(name, _)| name).collect(); ')
VA_AP_FORMS = [
    ("insertAtVaListIdx", 'if let Some(WrapAsVariadic { idx_of_va_list_arg, .. }) = wrap_as_variadic { '
                          'args.insert(*idx_of_va_list_arg, "§".to_owned()); } serialize_sep('),
    ("pushLast", 'if let Some(WrapAsVariadic { idx_of_va_list_arg, .. }) = wrap_as_variadic { args.push("§".to_owned()); } serialize_sep('),
    ("pushLast", 'if wrap_as_variadic.is_some() { args.push("§".to_owned()); } serialize_sep('),
]
VA_TAIL = ('if wrap_as_variadic.is_some() { writeln!(writer, "{INDENT}§")?; if !ret_ty.is_void() { '
           'writeln!(writer, "{INDENT}§")?; } } writeln!(writer, "')


def va_impl(src, impl):
    """fragments and structure of the `wrap_as_variadic` path of Function::serialize (impl = normalised body)"""
    got = {}
    last = -1
    for k, rx in enumerate(VA_PRUNE):
        m = re.search(rx, impl)
        if not m or m.start() < last:
            raise TranslateError("%s: Function::serialize: the pruning of the va_list parameter (`Some(idx) == idx_to_prune` "
                                 "inside enumerate().filter_map) no longer has the recognised form (part %d)" % (REL, k))
        last = m.start()
    m = re.search(r'const INDENT: &str = "( *)";', src)
    if not m:
        raise TranslateError("%s: Function::serialize: anchor `const INDENT` not found" % REL)
    got["indent"] = [m.group(1)]
    m = tmpl(VA_BRANCH).search(impl)
    if not m:
        raise TranslateError("%s: Function::serialize: the `wrap_as_variadic` branch (`, ...) {{`, `ret;`, `va_list ap;`, "
                             "`va_start(ap, last named)`, `ret = `, call) no longer has the recognised form" % REL)
    got["vaBranch"] = [unrust(g) for g in m.groups()]
    rest = impl[m.end():].lstrip()
    for form, t in VA_AP_FORMS:
        a = tmpl(t).match(rest)
        if a:
            got["apPlacement"] = [form, unrust(a.group(1))]
            break
    else:
        raise TranslateError("%s: Function::serialize: the statement that re-inserts `ap` among the forwarded argument names "
                             "has neither recognised form (insert at idx_of_va_list_arg / push); got: %s" % (REL, rest[:160]))
    m = tmpl(VA_TAIL).search(impl)
    if not m:
        raise TranslateError("%s: Function::serialize: the `va_end(ap);` / `return ret;` tail no longer has the recognised form" % REL)
    got["vaTail"] = [unrust(g) for g in m.groups()]
    return got


MOD = "bindgen/codegen/mod.rs"
VA_DECISION = [
    ("minArgs", r'if signature\.argument_types\(\)\.len\(\) <= (\d+) \{ return None; \}'),
    ("walk", r'let mut it = signature\.argument_types\(\)\.iter\(\)\.enumerate\(\)\.filter_map\( \|\(idx, \(_name, mut type_id\)\)\| \{ '
             r'loop \{ let ty = ctx\.resolve_type\(type_id\); if Some\("([^"]*)"\) == ty\.name\(\) \{ return Some\(idx\); \} '
             r'match ty\.kind\(\) \{ TypeKind::Alias\(type_id_alias\) => \{ type_id = \*type_id_alias; \} '
             r'TypeKind::ResolvedTypeRef\(type_id_typedef\) => \{ type_id = \*type_id_typedef; \} _ => break, \} \} None \}, \);'),
    ("unique", r'it\.next\(\)\.filter\(\|_\| it\.next\(\)\.is_none\(\)\)\.and_then\(\|idx\| \{'),
    ("callback", r'\.last_callback\(\|c\| c\.wrap_as_variadic_fn\(name\)\) \.map\(\|new_name\| super::WrapAsVariadic \{ new_name, idx_of_va_list_arg: idx, \}\)'),
]
VA_CODEGEN = [
    ("guard", r'let wrap_as_variadic = if should_wrap && !signature\.is_variadic\(\) \{ utils::wrap_as_variadic_fn\(ctx, signature, name\) \} else \{ None \};'),
    ("binding", r'let \(ident, args\) = if let Some\(WrapAsVariadic \{ idx_of_va_list_arg, new_name, \}\) = &wrap_as_variadic \{ \( new_name, '
                r'utils::fnsig_arguments_iter\( ctx, signature\.argument_types\(\)\.iter\(\)\.enumerate\(\)\.filter_map\( \|\(idx, t\)\| \{ '
                r'if idx == \*idx_of_va_list_arg \{ None \} else \{ Some\(t\) \} \}, \), true, \), \) \} else \{ '
                r'\(&canonical_name, utils::fnsig_arguments\(ctx, signature\)\) \};'),
    ("queue", r'if should_wrap \{ result \.items_to_serialize \.push\(\(item\.id\(\), wrap_as_variadic\)\); \}'),
]


def va_decision(repo):
    """`utils::wrap_as_variadic_fn` and its use in `Function::codegen` (bindgen/codegen/mod.rs)"""
    src = read(repo, MOD)
    fn = norm(body_after(src, r"pub\(super\) fn wrap_as_variadic_fn\(\s*ctx: &BindgenContext,\s*signature: &FunctionSig,\s*name: &str,\s*\) -> Option<super::WrapAsVariadic>\s*\{", MOD))
    got, last = {}, -1
    for key, rx in VA_DECISION:
        m = re.search(rx, fn)
        if not m or m.start() < last:
            raise TranslateError("%s: utils::wrap_as_variadic_fn: anchor `%s` not found (or out of order)" % (MOD, key))
        last = m.start()
        got[key] = list(m.groups())
    whole = norm(src)
    last = -1
    for key, rx in VA_CODEGEN:
        m = re.search(rx, whole)
        if not m or m.start() < last:
            raise TranslateError("%s: Function::codegen: anchor `%s` of the wrap_as_variadic decision not found (or out of order)" % (MOD, key))
        last = m.start()
    return got


def generate(repo):
    ints = enum_variants(repo, "bindgen/ir/int.rs", r"pub enum IntKind\s*\{")
    floats = enum_variants(repo, "bindgen/ir/ty.rs", r"pub\(crate\) enum FloatKind\s*\{")
    arms, trailer = type_impl(repo)
    names = [a[0] for a in arms]
    if names != ORDER + ["<fallback>"]:
        raise TranslateError("%s: arms of Type::serialize changed: expected %s + fallback, found %s (new or removed "
                             "TypeKind arm: extend the model first)" % (REL, ORDER, names))
    by = {a[0]: a[2] for a in arms}
    frag = {}
    consts = {}
    for k in ("Void", "NullPtr"):
        consts[k], frag[k] = full(FORMS[k], by[k], "%s arm" % k)
    consts["Int"], int_tab, int_fb = kind_arms(by["Int"], "Int arm", "IntKind", ints)
    consts["Float"], float_tab, float_fb = kind_arms(by["Float"], "Float arm", "FloatKind", floats)
    consts["Complex"], cplx_tab, cplx_fb = kind_arms(by["Complex"], "Complex arm", "FloatKind", floats)
    (consts["Alias"],) = full(FORMS["Alias"], by["Alias"], "Alias arm")
    fnc = full(FORMS["Function"], by["Function"], "Function arm")
    (consts["ResolvedTypeRef"],) = full(FORMS["ResolvedTypeRef"], by["ResolvedTypeRef"], "ResolvedTypeRef arm")
    ptr_const, ptr = full(FORMS["Pointer"], by["Pointer"], "Pointer arm")
    consts["Comp"], kw_struct, kw_union = full(FORMS["Comp"], by["Comp"], "Comp arm")
    consts["Enum"], kw_enum = full(FORMS["Enum"], by["Enum"], "Enum arm")
    if norm(by["<fallback>"]) != norm(ERR_ARM):
        raise TranslateError("%s: the fallback arm of Type::serialize is no longer the `Cannot serialize type kind` error" % REL)
    (stack_sep,) = full(TRAILER, trailer, "trailer of Type::serialize (stack flush)")
    arr = norm(by["Array"])
    if tmpl(ARRAY_AFTER).fullmatch(arr):
        in_decl = False
        arr_open, arr_close = full(ARRAY_AFTER, by["Array"], "Array arm")
        par_open, par_close, arr_open_t, arr_close_t = "(", ")", arr_open.lstrip(" "), arr_close
    elif tmpl(ARRAY_DECL).fullmatch(arr):
        in_decl = True
        par_open, par_close, arr_open_t, arr_close_t, arr_open, arr_close2 = full(ARRAY_DECL, by["Array"], "Array arm")
        arr_close = arr_close_t
        if arr_close2 != arr_close_t:
            raise TranslateError("%s: Array arm closes its two suffix forms differently" % REL)
    else:
        raise TranslateError("%s: the Array arm has neither of the two recognised forms; got: %s" % (REL, arr[:200]))
    cset = set(consts.values())
    if len(cset) != 1:
        raise TranslateError("%s: arms write different const prefixes: %s" % (REL, sorted(cset)))
    fn = fn_impl(repo)

    o = []
    w = o.append
    w("/-! Fragments written by `impl CSerialize for Type` / `for Function` (bindgen/codegen/serialize.rs). -/")
    w("namespace BindgenModel.Generated.SerializeArms\n")
    w("/-- `enum IntKind` (bindgen/ir/int.rs), payloads dropped -/")
    w("inductive IntK where\n" + "\n".join("  | %s" % k for k in ints) + "\n  deriving DecidableEq, Repr\n")
    w("/-- `enum FloatKind` (bindgen/ir/ty.rs) -/")
    w("inductive FloatK where\n" + "\n".join("  | %s" % k for k in floats) + "\n  deriving DecidableEq, Repr\n")

    for nm, ty, vs in (("IntK", "IntK", ints), ("FloatK", "FloatK", floats)):
        w("def all%s : List %s := [%s]" % (nm, ty, ", ".join("." + k for k in vs)))
        w("def %s.name : %s → String" % (ty, ty))
        for k in vs:
            w('  | .%s => "%s"' % (k, k))
        w("")

    def table(name, ty, rows, variants, doc):
        w("/-- %s; `none` = the error arm -/" % doc)
        w("def %s : %s → Option (List Char)" % (name, ty))
        for k, t in rows:
            w("  | .%s => some %s" % (k, lean_chars(t)))
        if len(rows) < len(variants):
            w("  | _ => none")
        w("")
    table("intText", "IntK", int_tab, ints, "text written by the `TypeKind::Int` arm")
    table("floatText", "FloatK", float_tab, floats, "text written by the `TypeKind::Float` arm")
    table("complexText", "FloatK", cplx_tab, floats, "text written by the `TypeKind::Complex` arm")
    w("/-- arms of `match self.kind()` in source order (anything else is the `Cannot serialize type kind` error) -/")
    w("inductive Arm where\n" + "\n".join("  | %s" % k for k in ORDER) + "\n  deriving DecidableEq, Repr\n")
    w("def arms : List Arm := [%s]\n" % ", ".join("." + k for k in ORDER))
    w("/-- arms that write `fragConst` in front of their own text when the type is const -/")
    w("def constPrefixArms : List Arm := [%s]\n" % ", ".join("." + k for k in ORDER if k in consts))

    def d(name, s, doc=None):
        if doc:
            w("/-- %s -/" % doc)
        w("def %s : List Char := %s" % (name, lean_chars(s)))
    d("fragConst", cset.pop(), "prefix written when `is_const()`")
    d("fragVoid", frag["Void"])
    d("fragNullPtr", frag["NullPtr"])
    d("fragStruct", kw_struct)
    d("fragUnion", kw_union)
    d("fragEnum", kw_enum)
    d("fragPtr", ptr, "pushed on the declarator stack by a pointer")
    d("fragPtrConst", ptr_const, "pushed by a const pointer")
    d("fragFnConst", fnc[0], "pushed by a const function type")
    d("fragFnOpen", fnc[1], "between the return type and the popped stack")
    d("fragFnClose", fnc[2])
    d("fragFnVoid", fnc[3], "empty parameter list")
    d("fragFnArgsOpen", fnc[4])
    d("fragSep", fnc[5])
    d("fragFnArgsClose", fnc[6])
    d("fragStackSep", stack_sep, "written before the popped stack when it is not empty")
    w("/-- `false`: the Array arm serialises the element type (which pops the whole stack) and writes the suffix after it;")
    w("    `true`: the suffix joins the declarator popped so far, parenthesised when that starts with `*` -/")
    w("def arrayInDeclarator : Bool := %s" % ("true" if in_decl else "false"))
    d("fragArrOpen", arr_open)
    d("fragArrClose", arr_close)
    d("fragArrOpenTight", arr_open_t, "suffix opener when the declarator so far is empty (in-declarator form)")
    d("fragParOpen", par_open, "parenthesis put around a declarator starting with `*` (in-declarator form)")
    d("fragParClose", par_close)
    w("\n/-! `impl CSerialize for Function`, path without `wrap_as_variadic`; `serialize_args` -/")
    d("fragArgPrefix", fn["argPrefix"][0], "`arg_{count}` for unnamed parameters (count counts unnamed ones only)")
    d("fragWrapPre", fn["open"][0], "between return type and wrapper name")
    d("fragWrapOpen", fn["open"][1])
    d("fragArgsVoid", fn["args"][0])
    d("fragArgsSep", fn["args"][1])
    d("fragBodyVoidPre", fn["body"][0])
    d("fragBodyVoidPost", fn["body"][1])
    d("fragBodyRetPre", fn["body"][2])
    d("fragBodyRetPost", fn["body"][3])
    d("fragCallSep", fn["names"][0])
    d("fragCallClose", fn["close"][0] + fn["close"][1])
    d("fragEnd", fn["end"][0] + "\n")
    va = va_decision(repo)
    w("\n/-! `impl CSerialize for Function`, path with `wrap_as_variadic`; `utils::wrap_as_variadic_fn` (codegen/mod.rs) -/")
    w("/-- where the forwarded `ap` is put among the argument names of the call -/")
    w("inductive ApPlacement where\n  | insertAtVaListIdx   -- `args.insert(*idx_of_va_list_arg, ..)`\n  | pushLast            -- `args.push(..)`\n  deriving DecidableEq, Repr\n")
    w("def vaApPlacement : ApPlacement := .%s" % fn["apPlacement"][0])
    d("fragIndent", fn["indent"][0], "`const INDENT`")
    d("fragVaOpen", fn["vaBranch"][0] + "\n", "closes the parameter list of a variadic wrapper")
    d("fragVaRetDecl", fn["vaBranch"][1] + "\n", "after the return type: declaration of the result variable")
    d("fragVaListDecl", fn["vaBranch"][2] + "\n")
    d("fragVaStartPre", fn["vaBranch"][3])
    d("fragVaStartPost", fn["vaBranch"][4] + "\n")
    d("fragVaAssign", fn["vaBranch"][5])
    d("fragVaCallOpen", fn["vaBranch"][6])
    d("fragVaAp", fn["apPlacement"][1], "the name forwarded in place of the va_list parameter")
    d("fragVaCallClose", fn["close"][0] + "\n")
    d("fragVaEnd", fn["vaTail"][0] + "\n")
    d("fragVaReturn", fn["vaTail"][1] + "\n")
    w("/-- `wrap_as_variadic_fn`: signatures with at most this many arguments are never wrapped as variadic -/")
    w("def vaMaxArgsNeverWrapped : Nat := %d" % int(va["minArgs"][0]))
    d("vaBuiltinName", va["walk"][0], "the type name the Alias / ResolvedTypeRef walk looks for")
    w("\nend BindgenModel.Generated.SerializeArms")
    return "\n".join(o) + "\n"
