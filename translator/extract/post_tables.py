"""C18: rank table of sort_semantically.rs, fields compared in merge_extern_blocks.rs,
PASSES order of postprocessing/mod.rs  ->  Generated/PostTables.lean"""
import re
from translate import read, body_after, strip_comments, TranslateError

NAME = "PostTables"

SORT = "bindgen/codegen/postprocessing/sort_semantically.rs"
MERGE = "bindgen/codegen/postprocessing/merge_extern_blocks.rs"
MOD = "bindgen/codegen/postprocessing/mod.rs"

# syn::Item variants (syn 2) -> Lean constructor names
LEAN_KIND = {
    "Const": "const", "Enum": "enum", "ExternCrate": "externCrate", "Fn": "fn", "ForeignMod": "foreignMod",
    "Impl": "impl", "Macro": "macro", "Mod": "mod", "Static": "static", "Struct": "struct",
    "Trait": "trait", "TraitAlias": "traitAlias", "Type": "type", "Union": "union", "Use": "use",
    "Verbatim": "verbatim",
}
ALL_KINDS = sorted(LEAN_KIND)   # every variant of syn::Item; `other` stands for future variants


def extract_ranks(repo):
    src = strip_comments(read(repo, SORT))
    # the visitor must apply visit_items at file level and at every inline module, then recurse
    check_visitor(src, SORT)
    m = re.search(r"fn\s+visit_items\s*\(\s*items\s*:\s*&mut\s*\[Item\]\s*\)", src)
    if not m:
        raise TranslateError("%s: fn visit_items(items: &mut [Item]) not found" % SORT)
    body = body_after(src, r"fn\s+visit_items\s*\(\s*items\s*:\s*&mut\s*\[Item\]\s*\)\s*\{", SORT)
    body_ns = re.sub(r"\s+", " ", body).strip()
    mm = re.fullmatch(r"items\.sort_by_key\(\|item\| match item \{(.*)\}\);", body_ns)
    if not mm:
        raise TranslateError("%s: visit_items body is no longer `items.sort_by_key(|item| match item {..});` "
                             "(stable sort by key is what the model assumes)" % SORT)
    arms = [a.strip() for a in mm.group(1).split(",") if a.strip()]
    ranks = {}
    default = None
    for a in arms:
        m1 = re.fullmatch(r"Item::(\w+)\(_\) => (\d+)", a)
        m2 = re.fullmatch(r"_ => (\d+)", a)
        if m1:
            v = m1.group(1)
            if v not in LEAN_KIND:
                raise TranslateError("%s: unknown syn::Item variant %s" % (SORT, v))
            if v in ranks or default is not None:
                raise TranslateError("%s: duplicate / unreachable arm %s" % (SORT, a))
            ranks[v] = int(m1.group(2))
        elif m2:
            if default is not None:
                raise TranslateError("%s: two default arms" % SORT)
            default = int(m2.group(1))
        else:
            raise TranslateError("%s: unrecognised match arm `%s`" % (SORT, a))
    if default is None:
        raise TranslateError("%s: no default arm (syn::Item is non_exhaustive)" % SORT)
    return ranks, default


def check_visitor(src, rel):
    flat = re.sub(r"\s+", " ", src)
    want = [
        r"fn visit_file_mut\(&mut self, file: &mut File\) \{ visit_items\(&mut file\.items\); visit_file_mut\(self, file\); \}",
        r"fn visit_item_mod_mut\(&mut self, item_mod: &mut ItemMod\) \{ if let Some\(\(_, ref mut items\)\) = item_mod\.content \{ visit_items\(items\); \} visit_item_mod_mut\(self, item_mod\); \}",
    ]
    for w in want:
        if not re.search(w, flat):
            raise TranslateError("%s: visitor no longer has the form (level first, then recurse into inline modules): %s" % (rel, w[:60]))


def extract_merge_fields(repo):
    src = strip_comments(read(repo, MERGE))
    check_visitor(src, MERGE)
    flat = re.sub(r"\s+", " ", src)
    # destructuring of the block
    if not re.search(r"if let Item::ForeignMod\(ItemForeignMod \{ attrs, abi, brace_token, unsafety, items: extern_block_items, \}\) = item", flat):
        raise TranslateError("%s: destructuring of ItemForeignMod changed" % MERGE)
    m = re.search(r"for extern_block in &mut extern_blocks \{ if (.*?) \{ extern_block\.items\.extend_from_slice\(&extern_block_items\); exists = true; break; \} \}", flat)
    if not m:
        raise TranslateError("%s: merge loop (first block with equal key absorbs, break) not found" % MERGE)
    cond = m.group(1)
    fields = []
    for c in cond.split("&&"):
        c = c.strip()
        mm = re.fullmatch(r"extern_block\.(\w+) == (\w+)", c)
        if not mm or mm.group(1) != mm.group(2) or mm.group(1) not in ("attrs", "abi", "unsafety"):
            raise TranslateError("%s: unrecognised comparison `%s` in the merge condition" % (MERGE, c))
        fields.append(mm.group(1))
    # the rest of the loop: push new block when none matched; non-foreign items pushed back in order; blocks appended
    for w in [r"if !exists \{ extern_blocks\.push\(ItemForeignMod \{ attrs, abi, brace_token, unsafety, items: extern_block_items, \}\); \}",
              r"\} else \{ items\.push\(item\); \}",
              r"for item in std::mem::take\(items\) \{",
              r"for extern_block in extern_blocks \{ items\.push\(Item::ForeignMod\(extern_block\)\); \}"]:
        if not re.search(w, flat):
            raise TranslateError("%s: expected form not found: %s" % (MERGE, w[:70]))
    return fields


def extract_passes(repo):
    src = strip_comments(read(repo, MOD))
    flat = re.sub(r"\s+", " ", src)
    m = re.search(r"const PASSES: &\[PostProcessingPass\] = &\[(.*?)\];", flat)
    if not m:
        raise TranslateError("%s: const PASSES not found" % MOD)
    passes = []
    for p in m.group(1).split(","):
        p = p.strip()
        if not p:
            continue
        mm = re.fullmatch(r"pass!\((\w+)\)", p)
        if not mm or mm.group(1) not in ("merge_extern_blocks", "sort_semantically"):
            raise TranslateError("%s: unrecognised PASSES entry `%s`" % (MOD, p))
        passes.append(mm.group(1))
    if not re.search(r"should_run: \|options\| options\.\$pass, run: \|file\| \$pass\(file\),", flat):
        raise TranslateError("%s: pass! macro changed (option name = pass name)" % MOD)
    if not re.search(r"for pass in PASSES \{ if \(pass\.should_run\)\(options\) \{ \(pass\.run\)\(&mut file\); \} \}", flat):
        raise TranslateError("%s: pass loop changed" % MOD)
    if not re.search(r"if !require_syn \{ return items; \}", flat):
        raise TranslateError("%s: early return when no pass is selected changed" % MOD)
    return passes


def generate(repo):
    ranks, default = extract_ranks(repo)
    fields = extract_merge_fields(repo)
    passes = extract_passes(repo)
    o = []
    o.append("namespace BindgenModel.Generated\n")
    o.append("/-- variants of `syn::Item`; `other` = the `_` arm (future variants) -/")
    o.append("inductive ItemKind where")
    for v in ALL_KINDS:
        o.append("  | %s" % LEAN_KIND[v])
    o.append("  | other")
    o.append("deriving DecidableEq, Repr\n")
    o.append("/-- %s `visit_items`: the key of `sort_by_key` -/" % SORT)
    o.append("def sortRank : ItemKind → Nat")
    for v in ALL_KINDS:
        o.append("  | .%s => %d" % (LEAN_KIND[v], ranks.get(v, default)))
    o.append("  | .other => %d\n" % default)
    o.append("/-- variants with an explicit arm in the match -/")
    o.append("def sortExplicit : List ItemKind := [%s]\n" % ", ".join("." + LEAN_KIND[v] for v in ranks))
    o.append("def ItemKind.ofName (s : String) : ItemKind :=")
    for v in ALL_KINDS:
        o.append("  if s == \"%s\" then .%s else" % (v, LEAN_KIND[v]))
    o.append("  .other\n")
    o.append("def ItemKind.name : ItemKind → String")
    for v in ALL_KINDS:
        o.append("  | .%s => \"%s\"" % (LEAN_KIND[v], v))
    o.append("  | .other => \"Other\"\n")
    o.append("inductive MergeField where\n  | attrs\n  | abi\n  | unsafety\nderiving DecidableEq, Repr\n")
    o.append("/-- %s: the fields of `ItemForeignMod` compared before merging -/" % MERGE)
    o.append("def mergeKeyFields : List MergeField := [%s]\n" % ", ".join("." + f for f in fields))
    o.append("inductive Pass where\n  | mergeExternBlocks\n  | sortSemantically\nderiving DecidableEq, Repr\n")
    lean_pass = {"merge_extern_blocks": ".mergeExternBlocks", "sort_semantically": ".sortSemantically"}
    o.append("/-- %s `PASSES`, in order -/" % MOD)
    o.append("def passes : List Pass := [%s]\n" % ", ".join(lean_pass[p] for p in passes))
    o.append("end BindgenModel.Generated")
    return "\n".join(o) + "\n"
