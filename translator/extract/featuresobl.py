"""features.rs -> Generated/FeaturesObl.lean

One NAMED decidable obligation per `RustFeatures` flag and per edition, stated against the
hand-written ground truth of Model/FeaturesSpec.lean (`stabilised`, `editionStabilised`):
a flag moved to an earlier release, or given a wider edition list, breaks `sound_<flag>`;
an edition moved breaks `edition_<year>`.  The statements are generated, the proofs are `decide`.
"""
from translate import read
from extract import features as F

NAME = "FeaturesObl"


def generate(repo):
    src = read(repo, F.REL)
    editions = F.parse_editions(src)
    nightly, rows = F.parse_targets(src)
    feats = [f for _, _, es in rows for f, _ in es] + [f for f, _ in nightly]
    o = ["import BindgenModel.Model.FeaturesSpec", "namespace BindgenModel.Generated", "open BindgenModel.Features\n"]
    for f in feats:
        o.append("theorem sound_%s : featureSound theTable .%s = true := by decide" % (f, f))
    o.append("")
    o.append("theorem features_sound_all : ∀ f : Feature, featureSound theTable f = true")
    for f in feats:
        o.append("  | .%s => sound_%s" % (f, f))
    o.append("")
    for _, y, _ in editions:
        o.append("theorem edition_%d : editionSound .e%d = true := by decide" % (y, y))
    o.append("")
    o.append("theorem editions_sound_all : ∀ e : Edition, editionSound e = true")
    for _, y, _ in editions:
        o.append("  | .e%d => edition_%d" % (y, y))
    o.append("")
    o.append("/-- `RustEdition::ALL` lists every variant, in strictly increasing year and first-minor order -/")
    o.append("theorem editions_complete : ∀ e : Edition, e ∈ Edition.all := by intro e; cases e <;> decide")
    o.append("theorem editions_sorted : Edition.all.Pairwise (fun a b => a.year < b.year ∧ a.firstMinor ≤ b.firstMinor) := by decide")
    o.append("theorem features_complete : ∀ f : Feature, f ∈ Feature.all := by intro f; cases f <;> decide")
    o.append("/-- the two `const` loops do not hit `unreachable!()` and every edition list is non-empty for the earliest target -/")
    o.append("theorem latest_earliest_defined : (latestStable theTable).isSome = true ∧ (earliestStable theTable).isSome = true := by decide")
    o.append("\nend BindgenModel.Generated\n")
    return "\n".join(o)
