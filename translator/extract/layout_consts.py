"""Constants the layout models depend on (C02): MAX_GUARANTEED_ALIGN, RUST_DERIVE_IN_ARRAY_LIMIT,
the sizes `Layout::known_type_for_size` knows, the `align <= N` threshold of `helpers::blob`."""
import re
from translate import read, body_after, strip_comments, TranslateError

NAME = "LayoutConsts"


def generate(repo):
    sl = read(repo, "bindgen/codegen/struct_layout.rs")
    m = re.search(r"const\s+MAX_GUARANTEED_ALIGN\s*:\s*usize\s*=\s*(\d+)\s*;", sl)
    if not m:
        raise TranslateError("struct_layout.rs: MAX_GUARANTEED_ALIGN not found")
    max_align = int(m.group(1))
    ty = read(repo, "bindgen/ir/ty.rs")
    m = re.search(r"const\s+RUST_DERIVE_IN_ARRAY_LIMIT\s*:\s*usize\s*=\s*(\d+)\s*;", ty)
    if not m:
        raise TranslateError("ir/ty.rs: RUST_DERIVE_IN_ARRAY_LIMIT not found")
    limit = int(m.group(1))
    lay = read(repo, "bindgen/ir/layout.rs")
    body = strip_comments(body_after(lay, r"fn\s+known_type_for_size\s*\(", "bindgen/ir/layout.rs"))
    arms = re.findall(r"(\d+)\s*=>\s*syn::parse_quote!\s*\{\s*u(\d+)\s*\}", body)
    if not arms:
        raise TranslateError("ir/layout.rs: no arms recognised in known_type_for_size")
    for size, bits in arms:
        if int(bits) != 8 * int(size):
            raise TranslateError("known_type_for_size: arm %s => u%s is not the integer of that size" % (size, bits))
    sizes = sorted(int(a[0]) for a in arms)
    hl = read(repo, "bindgen/codegen/helpers.rs")
    blob = strip_comments(body_after(hl, r"pub\(crate\)\s+fn\s+blob\s*\(", "bindgen/codegen/helpers.rs", opener="{"))
    m = re.search(r"if\s+align\s*<=\s*(\d+)\s*\{", blob)
    if not m:
        raise TranslateError("helpers.rs: `if align <= N` not found in blob")
    thr = int(m.group(1))
    if not re.search(r"let\s+align\s*=\s*layout\.align\.max\(1\)\s*;", blob):
        raise TranslateError("helpers.rs: `let align = layout.align.max(1);` not found in blob")
    if not re.search(r"let\s+len\s*=\s*layout\.size\s*/\s*align\s*;", blob):
        raise TranslateError("helpers.rs: `let len = layout.size / align;` not found in blob")
    # align_to: the three-branch form
    at = strip_comments(body_after(sl, r"pub\(crate\)\s+fn\s+align_to\s*\(", "bindgen/codegen/struct_layout.rs", opener="{"))
    norm = re.sub(r"\s+", "", at)
    want = "ifalign==0{returnsize;}letrem=size%align;ifrem==0{returnsize;}size+align-rem"
    if norm != want:
        raise TranslateError("struct_layout.rs: align_to body changed: %s" % norm[:120])
    # add_tail_padding: the early return compares with `>=` (no underflow of size - latest_offset)
    atp = strip_comments(body_after(sl, r"pub\(crate\)\s+fn\s+add_tail_padding\s*\(", "bindgen/codegen/struct_layout.rs", opener="{"))
    natp = re.sub(r"\s+", "", atp)
    if "ifself.latest_offset>=comp_layout.size{" in natp:
        guard_ge = True
    elif "ifself.latest_offset==comp_layout.size{" in natp:
        guard_ge = False
    else:
        raise TranslateError("struct_layout.rs: add_tail_padding: size guard not recognised")
    if "letsize=comp_layout.size-self.latest_offset;" not in natp:
        raise TranslateError("struct_layout.rs: add_tail_padding: `let size = comp_layout.size - self.latest_offset;` not found")
    return ("namespace BindgenModel.Generated.LayoutConsts\n\n"
            "def maxGuaranteedAlign : Nat := %d\n"
            "def arrayLimit : Nat := %d\n"
            "def knownSizes : List Nat := [%s]\n"
            "def blobSmallAlignThreshold : Nat := %d\n"
            "def tailPaddingGuardIsGe : Bool := %s\n\n"
            "end BindgenModel.Generated.LayoutConsts\n" % (max_align, limit, ", ".join(map(str, sizes)), thr, "true" if guard_ge else "false"))
