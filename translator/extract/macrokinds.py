"""ir/var.rs `default_macro_constant_type` and codegen/mod.rs enum repr translation -> Generated/MacroKinds.lean

The nested if / else-if chain is flattened into an ORDERED decision list (first matching row
wins).  A row is (condition, kind); a condition is a conjunction of clauses, a clause is a
disjunction of atoms; atoms are `value < B`, `value > B`, "default_macro_constant_type == Signed",
"!fit_macro_constants".  The bounds are the integers `i64::from(<ty>::MIN|MAX)`.

Fails loudly on any syntactic form it does not know (new comparison operator, `&&`, a
negated option, a `match`, a bound that is not `i64::from(T::MIN/MAX)` or the literal 0, ...).
"""
import re
from translate import read, body_after, strip_comments, TranslateError

NAME = "MacroKinds"
REL = "bindgen/ir/var.rs"

RANGE = {
    "i8": (-2**7, 2**7 - 1), "i16": (-2**15, 2**15 - 1), "i32": (-2**31, 2**31 - 1), "i64": (-2**63, 2**63 - 1),
    "u8": (0, 2**8 - 1), "u16": (0, 2**16 - 1), "u32": (0, 2**32 - 1), "u64": (0, 2**64 - 1),
}
KINDS = ["I8", "I16", "I32", "I64", "U8", "U16", "U32", "U64"]


def bound(txt):
    txt = txt.strip()
    if re.fullmatch(r"-?\d+", txt):
        return int(txt)
    m = re.fullmatch(r"i64::from\(\s*([iu](?:8|16|32|64))::(MIN|MAX)\s*\)", txt)
    if not m:
        raise TranslateError("%s: default_macro_constant_type: unknown bound %r" % (REL, txt))
    lo, hi = RANGE[m.group(1)]
    return lo if m.group(2) == "MIN" else hi


def atom(txt):
    t = " ".join(txt.split())
    m = re.fullmatch(r"value (<|>) (.+)", t)
    if m:
        return ("valLt" if m.group(1) == "<" else "valGt", bound(m.group(2)))
    if re.fullmatch(r"ctx\.options\(\)\.default_macro_constant_type == MacroTypeVariation::Signed", t):
        return ("optSigned", None)
    if re.fullmatch(r"!ctx\.options\(\)\.fit_macro_constants", t):
        return ("optNotFit", None)
    raise TranslateError("%s: default_macro_constant_type: unknown condition atom %r" % (REL, t))


def clause(txt):
    if "&&" in txt:
        raise TranslateError("%s: default_macro_constant_type: `&&` in a condition is not a known form: %r" % (REL, txt))
    return [atom(a) for a in txt.split("||")]


def parse_chain(s, pos, path, rows):
    """Parse `if C { … } else if … else { … }` starting at s[pos:]; append flattened rows."""
    s_ = s
    while True:
        m = re.compile(r"\s*if\b").match(s_, pos)
        if not m:
            raise TranslateError("%s: default_macro_constant_type: expected `if` at %r" % (REL, s_[pos:pos + 40]))
        b = s_.find("{", m.end())
        if b < 0:
            raise TranslateError("%s: default_macro_constant_type: no block after if" % REL)
        cond = clause(s_[m.end():b])
        e = match_brace(s_, b)
        parse_block(s_[b + 1:e], path + [cond], rows)
        pos = e + 1
        m2 = re.compile(r"\s*else\b").match(s_, pos)
        if not m2:
            raise TranslateError("%s: default_macro_constant_type: an `if` chain without final `else`" % REL)
        pos = m2.end()
        if re.compile(r"\s*if\b").match(s_, pos):
            continue
        b = s_.find("{", pos)
        if b < 0 or s_[pos:b].strip():
            raise TranslateError("%s: default_macro_constant_type: malformed else" % REL)
        e = match_brace(s_, b)
        parse_block(s_[b + 1:e], path, rows)
        return e + 1


def match_brace(s, i):
    d = 0
    for j in range(i, len(s)):
        if s[j] == "{":
            d += 1
        elif s[j] == "}":
            d -= 1
            if d == 0:
                return j
    raise TranslateError("%s: default_macro_constant_type: unbalanced braces" % REL)


def parse_block(txt, path, rows):
    t = txt.strip()
    m = re.fullmatch(r"IntKind::(\w+)", t)
    if m:
        if m.group(1) not in KINDS:
            raise TranslateError("%s: default_macro_constant_type: unknown kind IntKind::%s" % (REL, m.group(1)))
        rows.append((path, m.group(1)))
        return
    end = parse_chain(t, 0, path, rows)
    if t[end:].strip():
        raise TranslateError("%s: default_macro_constant_type: trailing code after if chain: %r" % (REL, t[end:][:40]))


REL2 = "bindgen/codegen/mod.rs"


def enum_rows(repo):
    src = strip_comments(read(repo, REL2))
    m = re.search(r"let translated = match \(signed, size\) \{", src)
    if not m:
        raise TranslateError("%s: anchor `let translated = match (signed, size) {` not found" % REL2)
    i = src.index("{", m.start())
    d = 0
    for j in range(i, len(src)):
        if src[j] == "{":
            d += 1
        elif src[j] == "}":
            d -= 1
            if d == 0:
                break
    body = src[i + 1:j]
    rows = re.findall(r"\(\s*(true|false)\s*,\s*(\d+)\s*\)\s*=>\s*IntKind::(\w+)\s*,", body)
    rest = re.sub(r"\(\s*(true|false)\s*,\s*(\d+)\s*\)\s*=>\s*IntKind::(\w+)\s*,", "", body)
    mdef = re.fullmatch(r"\s*_\s*=>\s*\{\s*warn!\((?:.|\n)*?\);\s*IntKind::(\w+)\s*\}\s*,?\s*", rest)
    if not rows or not mdef:
        raise TranslateError("%s: enum repr ladder has an unknown shape: %r" % (REL2, rest[:120]))
    for _, _, k in rows:
        if k not in ("I8", "I16", "I32", "I64", "U8", "U16", "U32", "U64"):
            raise TranslateError("%s: enum repr ladder: unknown kind %s" % (REL2, k))
    # the guard that decides whether the ladder is used at all
    g = re.search(r"Some\(repr\)\s*if\s*!ctx\.options\(\)\.translate_enum_integer_types\s*&&\s*!variation\.is_rust\(\)\s*=>", src)
    if not g:
        raise TranslateError("%s: anchor `Some(repr) if !translate_enum_integer_types && !variation.is_rust()` not found" % REL2)
    out = ["/-- `Enum::codegen` (bindgen/codegen/mod.rs): (signed, size in bytes) → translated kind; first match wins -/",
           "def enumReprRows : List (Bool × Nat × MKind) := ["]
    out.append(",\n".join("  (%s, %s, .%s)" % (s, n, k) for s, n, k in rows))
    out.append("]\n")
    out.append("/-- the `_ =>` arm (\"invalid enum decl\") -/")
    out.append("def enumReprDefault : MKind := .%s\n" % mdef.group(1))
    return out


def lean_int(n):
    return "(%d)" % n if n < 0 else "%d" % n


def lean_atom(a):
    if a[0] in ("valLt", "valGt"):
        return ".%s %s" % (a[0], lean_int(a[1]))
    return "." + a[0]


def generate(repo):
    src = read(repo, REL)
    m = re.search(r"fn default_macro_constant_type\(\s*ctx: &BindgenContext,\s*value: i64\s*\)\s*->\s*IntKind\s*\{", src)
    if not m:
        raise TranslateError("%s: anchor `fn default_macro_constant_type(ctx: &BindgenContext, value: i64) -> IntKind` not found" % REL)
    body = strip_comments(body_after(src, r"fn default_macro_constant_type\(", REL))
    rows = []
    parse_block(body, [], rows)
    if not rows or rows[-1][0] != []:
        raise TranslateError("%s: default_macro_constant_type: last row is not unconditional" % REL)
    out = []
    out.append("namespace BindgenModel.Generated\n")
    out.append("/-- the integer kinds `default_macro_constant_type` can return -/")
    out.append("inductive MKind | I8 | I16 | I32 | I64 | U8 | U16 | U32 | U64\n  deriving DecidableEq, Repr\n")
    out.append("/-- atomic conditions of the ladder -/")
    out.append("inductive MAtom\n  | valLt (b : Int)   -- value < b\n  | valGt (b : Int)   -- value > b\n  | optSigned         -- default_macro_constant_type == Signed\n  | optNotFit         -- !fit_macro_constants\n  deriving DecidableEq, Repr\n")
    out.append("/-- one row: conjunction of disjunctions of atoms, and the kind returned when it is the first row that holds -/")
    out.append("structure MRow where\n  cond : List (List MAtom)\n  kind : MKind\n  deriving DecidableEq, Repr\n")
    out.append("/-- `default_macro_constant_type` (bindgen/ir/var.rs) flattened to an ordered decision list -/")
    out.append("def macroKindRows : List MRow := [")
    lines = []
    for path, kind in rows:
        cond = "[" + ", ".join("[" + ", ".join(lean_atom(a) for a in cl) + "]" for cl in path) + "]"
        lines.append("  ⟨%s, .%s⟩" % (cond, kind))
    out.append(",\n".join(lines))
    out.append("]\n")
    out += enum_rows(repo)
    out.append("end BindgenModel.Generated")
    return "\n".join(out) + "\n"
