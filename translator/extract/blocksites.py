"""Inventory of the places in bindgen/codegen/ that consult the blocklist  ->  Generated/BlockSites.lean

Every occurrence of `is_blocklisted(`, `blocklisted_{types,functions,vars,items,files}` or
`annotations().hide()` under bindgen/codegen/ is listed with the function that contains it.  The Props
file proves that the list is the expected one (the item gate `process_before_codegen` and two helper
gates), i.e. no type-rendering code looks at the blocklist: a use of a blocklisted type is spelled
exactly like a use of any other type.  A new site changes the generated enumeration / list and breaks
the named obligation `C10_still_named`.
"""
import os, re
from translate import read, TranslateError

NAME = "BlockSites"

PAT = re.compile(r"is_blocklisted\(|blocklisted_(?:types|functions|vars|items|files)\b|\.hide\(\)")


def generate(repo):
    base = os.path.join(repo, "bindgen", "codegen")
    if not os.path.isdir(base):
        raise TranslateError("bindgen/codegen not found")
    sites = []
    for root, _, files in os.walk(base):
        for f in sorted(files):
            if not f.endswith(".rs"):
                continue
            rel = os.path.relpath(os.path.join(root, f), repo)
            src = read(repo, rel)
            # drop line comments, keep offsets roughly (replace by spaces)
            src_nc = re.sub(r"//[^\n]*", lambda m: " " * len(m.group(0)), src)
            for m in PAT.finditer(src_nc):
                fns = list(re.finditer(r"\bfn\s+([A-Za-z_][A-Za-z0-9_]*)", src_nc[:m.start()]))
                if not fns:
                    raise TranslateError("%s: blocklist use outside any fn at offset %d" % (rel, m.start()))
                sites.append(fns[-1].group(1))
    if not sites:
        raise TranslateError("no blocklist site found under bindgen/codegen (anchor lost)")
    names = sorted(set(sites))
    o = ["namespace BindgenModel.Generated\n"]
    o.append("/-- functions under bindgen/codegen/ that consult the blocklist -/")
    o.append("inductive BlockSite where")
    for n in names:
        o.append("  | %s" % n)
    o.append("  deriving DecidableEq, Repr\n")
    o.append("/-- one entry per textual occurrence, in file order -/")
    o.append("def blocklistSitesInCodegen : List BlockSite := [%s]\n" % ", ".join("." + s for s in sites))
    o.append("end BindgenModel.Generated\n")
    return "\n".join(o)
