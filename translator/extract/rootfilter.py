"""ir/context.rs `compute_allowlisted_and_codegen_items`: the steps of the root-filter closure in source order,
and whether the item's name (`path_for_allowlisting`, which draws the lazily assigned `local_id` of anonymous
items) is computed unconditionally once the early answers are past  ->  Generated/RootFilter.lean (C09)."""
import re
from translate import read, body_after, strip_comments, TranslateError

NAME = "RootFilter"
REL = "bindgen/ir/context.rs"


def depth_at(text, pos):
    d = 0
    for ch in text[:pos]:
        if ch == "{":
            d += 1
        elif ch == "}":
            d -= 1
    return d


def generate(repo):
    src = read(repo, REL)
    fn = strip_comments(body_after(src, r"fn compute_allowlisted_and_codegen_items\(&mut self\)\s*", REL))
    m = re.search(r"\.filter\(\|&\(_, item\)\| item\.is_enabled_for_codegen\(self\)\)\s*\.filter\(\|&\(_, item\)\|\s*\{", fn)
    if not m:
        raise TranslateError("%s: compute_allowlisted_and_codegen_items: the two `.filter` closures over items() not found" % REL)
    start = m.end() - 1
    # closure body: up to the matching brace
    d = 0
    end = None
    for i in range(start, len(fn)):
        if fn[i] == "{":
            d += 1
        elif fn[i] == "}":
            d -= 1
            if d == 0:
                end = i
                break
    if end is None:
        raise TranslateError("%s: root filter closure: unbalanced braces" % REL)
    body = fn[start + 1:end]
    anchors = [("nothingAllowlisted", r"if self\.options\(\)\.allowlisted_types\.is_empty\(\)\s*&&"),
               ("useInsteadOf", r"if item\.annotations\(\)\.use_instead_of\(\)\.is_some\(\)"),
               ("files", r"if !self\.options\(\)\.allowlisted_files\.is_empty\(\)"),
               ("name", r"let name = item\.path_for_allowlisting\(self\)\[1\.\.\]\.join\(\"::\"\);"),
               ("items", r"if self\.options\(\)\.allowlisted_items\.matches\(&name\)"),
               ("kindMatch", r"match \*item\.kind\(\)")]
    pos = []
    for nm, rx in anchors:
        mm = re.search(rx, body)
        if not mm:
            raise TranslateError("%s: root filter closure: step `%s` not found in the modelled form" % (REL, nm))
        pos.append((mm.start(), nm, depth_at(body, mm.start())))
    order = [nm for _, nm, _ in sorted(pos)]
    name_depth = [dp for _, nm, dp in pos if nm == "name"][0]
    n_name_stmts = len(re.findall(r"item\s*\.\s*path_for_allowlisting\(self\)", body))
    # unconditional: a statement of the closure body itself (depth 0), computed once
    unconditional = name_depth == 0 and n_name_stmts == 1
    rev = re.search(r"roots\.reverse\(\);", fn[end:]) is not None
    out = ["namespace BindgenModel.Generated\n",
           "/-- the early answers and tests of the root-filter closure, in source order -/",
           "def rootFilterSteps : List String := [" + ", ".join('"%s"' % s for s in order) + "]\n",
           "/-- `let name = item.path_for_allowlisting(self)[1..].join(\"::\");` is a statement of the closure body",
           "itself (not nested in a condition or an inner closure) and the only place the closure names the item -/",
           "def rootFilterNameUnconditional : Bool := %s\n" % ("true" if unconditional else "false"),
           "/-- `roots.reverse()` follows -/",
           "def rootsReversed : Bool := %s\n" % ("true" if rev else "false"),
           "end BindgenModel.Generated\n"]
    return "\n".join(out)
