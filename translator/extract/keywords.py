"""ir/context.rs `BindgenContext::rust_mangle`: the keyword list, the characters that trigger
mangling, the replacements and the appended suffix  ->  Generated/Keywords.lean (C01, C04)."""
import re
from translate import read, body_after, strip_comments, TranslateError

NAME = "Keywords"
REL = "bindgen/ir/context.rs"


def chars(s):
    return "[" + ", ".join("'%s'" % c for c in s) + "]"


def generate(repo):
    src = read(repo, REL)
    body = body_after(src, r"pub\(crate\) fn rust_mangle<'a>\(&self, name: &'a str\) -> Cow<'a, str>\s*\{", REL)
    body = strip_comments(body)
    m = re.search(r"^\s*if\s+((?:name\.contains\('.'\)\s*\|\|\s*)+)matches!\(\s*name,\s*((?:\"[^\"]*\"\s*\|?\s*)+)\)\s*\{", body, re.S)
    if not m:
        raise TranslateError("%s: rust_mangle: condition `name.contains(..) || … || matches!(name, …)` not recognised" % REL)
    trig = re.findall(r"name\.contains\('(.)'\)", m.group(1))
    kws = re.findall(r"\"([^\"]*)\"", m.group(2))
    rest = body[m.end():]
    rest_block_end = rest.find("return Cow::Owned(s);")
    if rest_block_end < 0:
        raise TranslateError("%s: rust_mangle: `return Cow::Owned(s);` not found" % REL)
    blk = rest[:rest_block_end]
    if not re.search(r"let mut s = name\.to_owned\(\);", blk):
        raise TranslateError("%s: rust_mangle: `let mut s = name.to_owned();` not found" % REL)
    repl = re.findall(r"s = s\.replace\('(.)', \"([^\"]*)\"\);", blk)
    push = re.findall(r"s\.push\('(.)'\);", blk)
    stmts = [x.strip() for x in blk.split(";") if x.strip()]
    if len(stmts) != 1 + len(repl) + len(push) or len(push) != 1:
        raise TranslateError("%s: rust_mangle: unrecognised statements in the mangling block: %r" % (REL, stmts))
    # the push must come last
    if not stmts[-1].startswith("s.push("):
        raise TranslateError("%s: rust_mangle: the suffix push is not the last statement" % REL)
    if not re.search(r"Cow::Borrowed\(name\)\s*$", body.strip().rstrip("}").strip()):
        raise TranslateError("%s: rust_mangle: fall-through `Cow::Borrowed(name)` not found" % REL)
    for k in kws:
        if not re.fullmatch(r"[A-Za-z0-9_]+", k):
            raise TranslateError("%s: rust_mangle: unexpected keyword text %r" % (REL, k))
    for a, b in repl:
        if len(b) != 1:
            raise TranslateError("%s: rust_mangle: replacement %r -> %r is not a single character" % (REL, a, b))
    out = ["namespace BindgenModel.Generated\n"]
    out.append("/-- the strings `matches!(name, …)` lists in `rust_mangle`, in source order -/")
    out.append("def keywords : List (List Char) := [")
    out.append(",\n".join("  " + chars(k) for k in kws))
    out.append("]\n")
    out.append("/-- the characters whose presence triggers mangling (`name.contains(c)`) -/")
    out.append("def triggerChars : List Char := %s\n" % chars(trig))
    out.append("/-- `s = s.replace(a, b)` statements, in order -/")
    out.append("def replacements : List (Char × Char) := [" + ", ".join("('%s', '%s')" % (a, b) for a, b in repl) + "]\n")
    out.append("/-- `s.push(c)` -/")
    out.append("def mangleSuffix : Char := '%s'\n" % push[0])
    out.append("end BindgenModel.Generated\n")
    return "\n".join(out)
