"""ir/ty.rs, `CXType_Typedef` arm of `Type::from_clang_ty`: is the chain walk over the aliases built
so far there, which kinds does it follow, how many items does it look at, and what does the arm
emit when the walk returns to the typedef under construction  ->  Generated/AliasGuard.lean (C12).
Also pins the recursion of `Type::safe_canonical_type` (the consumer that needs acyclic chains)."""
import re
from translate import read, body_after, strip_comments, TranslateError

NAME = "AliasGuard"
REL = "bindgen/ir/ty.rs"


def generate(repo):
    src = read(repo, REL)
    m = re.search(r"CXType_Typedef\s*=>\s*\{", src)
    if not m:
        raise TranslateError("%s: anchor `CXType_Typedef => {` not found" % REL)
    arm = strip_comments(body_after(src, r"CXType_Typedef\s*=>\s*", REL))
    if not re.search(r"let inner_id\s*=\s*Item::from_ty_or_ref\(inner, location, None, ctx\);", arm):
        raise TranslateError("%s: Typedef arm: `let inner_id = Item::from_ty_or_ref(..)` not found" % REL)
    if not re.search(r"TypeKind::Alias\(inner_id\)", arm):
        raise TranslateError("%s: Typedef arm: `TypeKind::Alias(inner_id)` not found" % REL)
    loop = re.search(r"let mut is_cyclic = false;\s*let mut next = Some\(ItemId::from\(inner_id\)\);\s*for _ in 0\.\.(\d+)\s*\{(.*?)\n\s*\}\s*if is_cyclic\s*\{(.*?)TypeKind::Opaque", arm, re.S)
    direct = re.search(r"if inner_id == potential_id\s*\{(.*?)TypeKind::Opaque", arm, re.S)
    if loop:
        bound = int(loop.group(1))
        body = loop.group(2)
        if not re.search(r"let Some\(id\) = next else \{ break \};\s*if id == potential_id \{\s*is_cyclic = true;\s*break;\s*\}", body):
            raise TranslateError("%s: Typedef arm: chain walk: the `id == potential_id` test is not in the modelled form" % REL)
        if not re.search(r"next = ctx\s*\.resolve_item_fallible\(id\)\s*\.and_then\(\|item\| item\.as_type\(\)\)", body):
            raise TranslateError("%s: Typedef arm: chain walk: `resolve_item_fallible(id).and_then(as_type)` not found" % REL)
        kinds = re.findall(r"TypeKind::(\w+)\(next\)", body)
        if sorted(kinds) != ["Alias", "ResolvedTypeRef"]:
            raise TranslateError("%s: Typedef arm: chain walk follows %r, the model follows Alias and ResolvedTypeRef" % (REL, kinds))
        present = True
    elif direct:
        present, bound = False, 0
    else:
        raise TranslateError("%s: Typedef arm: neither the chain walk nor the direct self-reference test is in a recognised form" % REL)
    # the consumer: plain recursion through Alias / TemplateAlias / ResolvedTypeRef / TemplateInstantiation
    sc = body_after(src, r"pub\(crate\) fn safe_canonical_type<'tr>\(", REL, opener="{")
    if not re.search(r"TypeKind::ResolvedTypeRef\(inner\)\s*\|\s*TypeKind::Alias\(inner\)\s*\|\s*TypeKind::TemplateAlias\(inner, _\)\s*=>\s*\{\s*ctx\.resolve_type\(inner\)\.safe_canonical_type\(ctx\)", strip_comments(sc)):
        raise TranslateError("%s: safe_canonical_type: the recursive alias arm is not in the modelled form" % REL)
    out = ["namespace BindgenModel.Generated\n",
           "/-- `CXType_Typedef` arm (ir/ty.rs): does it walk the chain of aliases built so far before it",
           "emits `TypeKind::Alias(inner_id)` (true), or only test `inner_id == potential_id` (false)? -/",
           "def aliasGuardPresent : Bool := %s\n" % ("true" if present else "false"),
           "/-- `for _ in 0..N`: how many items the walk looks at -/",
           "def aliasGuardBound : Nat := %d\n" % bound,
           "end BindgenModel.Generated\n"]
    return "\n".join(out)
