"""deps.rs `DepfileSpec::to_string`: the chain of `.replace(c, "...")` calls of the `escape`
closure, in source order, and the two format strings that assemble the line."""
import re
from translate import read, strip_comments, TranslateError

NAME = "DepfileEscape"
REL = "bindgen/deps.rs"


def rust_unescape(lit, rel):
    out = []
    i = 0
    while i < len(lit):
        c = lit[i]
        if c == "\\":
            i += 1
            if i >= len(lit):
                raise TranslateError("%s: dangling backslash in literal %r" % (rel, lit))
            e = lit[i]
            m = {"\\": "\\", "n": "\n", "t": "\t", "r": "\r", "0": "\0", "'": "'", '"': '"'}
            if e not in m:
                raise TranslateError("%s: unsupported escape \\%s in literal %r" % (rel, e, lit))
            out.append(m[e])
        else:
            out.append(c)
        i += 1
    return "".join(out)


def lean_char(c):
    if c == "\\":
        return "'\\\\'"
    if c == "'":
        return "'\\''"
    if c == "\n":
        return "'\\n'"
    if c == "\t":
        return "'\\t'"
    if c == "\r":
        return "'\\r'"
    if ord(c) < 32 or ord(c) > 126:
        return "(Char.ofNat %d)" % ord(c)
    return "'%s'" % c


def lean_chars(s):
    return "[" + ", ".join(lean_char(c) for c in s) + "]"


def generate(repo):
    src = read(repo, REL)
    m = re.search(r"fn\s+to_string\s*\(\s*&self\s*,\s*deps\s*:\s*&BTreeSet<Box<str>>\s*\)\s*->\s*String\s*\{", src)
    if not m:
        raise TranslateError("%s: anchor `fn to_string(&self, deps: &BTreeSet<Box<str>>) -> String` not found" % REL)
    from translate import braces
    end = braces(src, m.end() - 1)
    body = strip_comments(src[m.end():end - 1])
    # closure body either bare (`|s: &str| s.replace(..)…;`) or in a block (`|s: &str| { s.replace(..)… };`)
    m2 = re.search(r"let\s+escape\s*=\s*\|\s*s\s*:\s*&str\s*\|\s*(\{\s*)?s((?:\s*\.\s*replace\s*\(\s*'(?:\\.|[^'\\])'\s*,\s*\"(?:\\.|[^\"\\])*\"\s*\))+)\s*(\}\s*)?;", body)
    if not m2:
        raise TranslateError("%s: `let escape = |s: &str| s.replace('c', \"..\")...;` not recognised" % REL)
    if bool(m2.group(1)) != bool(m2.group(3)):
        raise TranslateError("%s: unbalanced closure block in `escape`" % REL)
    chain = re.findall(r"\.\s*replace\s*\(\s*'((?:\\.|[^'\\]))'\s*,\s*\"((?:\\.|[^\"\\])*)\"\s*\)", m2.group(2))
    if not chain:
        raise TranslateError("%s: empty replace chain" % REL)
    rows = []
    for c, r in chain:
        cc = rust_unescape(c, REL)
        if len(cc) != 1:
            raise TranslateError("%s: pattern %r is not one character" % (REL, c))
        rows.append((cc, rust_unescape(r, REL)))
    rest = body[m2.end():]
    # the assembly must be exactly:  format!("{}:", escape(&self.output_module))  and
    # for file in deps { buf = format!("{buf} {}", escape(file)); }
    norm = re.sub(r"\s+", " ", rest).strip()
    expect = 'let mut buf = format!("{}:", escape(&self.output_module)); for file in deps { buf = format!("{buf} {}", escape(file)); } buf'
    if norm != expect:
        raise TranslateError("%s: line assembly changed: %r" % (REL, norm))
    out = ["namespace BindgenModel.Generated.DepfileEscape", "",
           "/-- the `.replace(c, r)` calls of deps.rs `escape`, in order -/",
           "def escapeTable : List (Char × List Char) := ["]
    out.append(",\n".join("  (%s, %s)" % (lean_char(c), lean_chars(r)) for c, r in rows))
    out += ["]", "", "end BindgenModel.Generated.DepfileEscape", ""]
    return "\n".join(out)
