"""options/mod.rs + options/cli.rs -> Generated/OptionsObl.lean

One NAMED decidable obligation per `BindgenOptions` field (statements generated, proofs `decide`):
  wf_<field>    the row's emit/absorb pair is inverse (`wfRow`), unless the field is a listed known defect
  sole_<field>  no other CLI arm writes the field, unless it is a listed multi-writer field
plus `flags_distinct`, `ignored_fields` and the aggregates used by Props/C13.lean.
"""
from translate import read
from extract import options as O

NAME = "OptionsObl"


def generate(repo):
    fields = O.option_fields(read(repo, O.MOD))
    for f in fields:
        f["kind"], f["flag"], f["flag2"] = O.classify_as_args(f)
    o = ["import BindgenModel.Model.OptsSpec", "namespace BindgenModel.Generated", "open BindgenModel.Opts\n"]
    for f in fields:
        n = f["name"]
        o.append("theorem wf_%s : wfRow spec_%s = true ∨ OField.%s ∈ knownDefectFields := by decide +kernel" % (n, n, n))
    o.append("")
    for f in fields:
        n = f["name"]
        o.append("theorem sole_%s : (otherWriters spec_%s).isEmpty = true ∨ OField.%s ∈ multiWriterFields ∨ OField.%s ∈ knownDefectFields := by decide +kernel" % (n, n, n, n))
    o.append("")
    o.append("theorem flags_distinct : flagsDistinct = true := by decide +kernel")
    ign = [f["name"] for f in fields if f["kind"] == "ignored"]
    o.append("/-- the fields with `as_args: ignore`: positional / trailing ones are carried by the header and `--`, the rest cannot be expressed -/")
    o.append("theorem ignored_fields : (optSpecs.filter (·.kind == .ignored)).map (·.field) = [%s] := by decide +kernel" % ", ".join("." + n for n in ign))
    o.append("theorem ignored_fields_classified : ∀ s ∈ optSpecs, s.kind == .ignored → s.field ∈ [OField.input_headers, .clang_args] ∨ s.field ∈ notExpressibleFields := by decide +kernel")
    o.append("")
    o.append("theorem wf_all : ∀ s ∈ optSpecs, wfRow s = true ∨ s.field ∈ knownDefectFields := by decide +kernel")
    o.append("theorem sole_all : ∀ s ∈ optSpecs, (otherWriters s).isEmpty = true ∨ s.field ∈ multiWriterFields ∨ s.field ∈ knownDefectFields := by decide +kernel")
    o.append("theorem specs_cover_fields : ∀ f : OField, (specOf f).isSome = true := by intro f; cases f <;> decide")
    o.append("\nend BindgenModel.Generated\n")
    return "\n".join(o)
