//@ record struct S1 S1 packed=0 : a b
//@ record struct S2 S2 packed=0 : c x
//@ record struct S3 S3 packed=0 : c x d
//@ record struct In In packed=0 : q
//@ record struct S4 S4 packed=0 : a i
struct S1 { int a; __int128 b; };
struct S2 { char c; long x __attribute__((aligned(16))); };
struct S3 { char c; long x __attribute__((aligned(16))); char d; };
struct In { int q __attribute__((aligned(16))); };
struct S4 { int a; struct In i; };
