//@ record union UF UF packed=0 : z a
union UF { int z[0]; long a; char b : 3; };
