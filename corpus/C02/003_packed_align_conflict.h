//@ record struct PA PA packed=1 : a b
struct __attribute__((packed, aligned(8))) PA { char a; int b; };
