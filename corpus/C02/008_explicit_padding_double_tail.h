//@ record struct DT DT packed=0 : b
struct DT { int a : 3; long b; char c : 2; };
