//@ record struct PN PN packed=1 : a b
struct __attribute__((packed, aligned(4))) PN { char a; long b; };
