//@ record struct UM UM packed=0 : a b
#pragma pack(push, 2)
struct __attribute__((aligned(8))) UM { char a; long b; };
#pragma pack(pop)
