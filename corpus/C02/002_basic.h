//@ record struct A A packed=0 : c z
//@ record T T packed=0 : d
//@ record struct B B packed=0 : t e pa fp ld arr fl
//@ record struct P P packed=1 : a b
//@ record struct Q Q packed=0 : a b
//@ record union U U packed=0 : c d
//@ record struct UsesFwd UsesFwd packed=0 : p
struct A { char c; union { int x; struct { short p; char q; }; } ; int z[0]; };
typedef struct { int a:3; unsigned b:5; long :0; char d; } T;
typedef T T2;
enum E { E1 = -1, E2 = 5 };
struct B { T2 t; enum E e; struct A *pa; int (*fp)(int); long double ld; int arr[2][3]; char fl[]; };
struct __attribute__((packed)) P { char a; int b; };
#pragma pack(push, 2)
struct Q { char a; int b; };
#pragma pack(pop)
union U { char c; double d; };
struct Fwd;
struct UsesFwd { struct Fwd *p; };
