//@ record union UW UW packed=0 : z c a
union UW { int z[0]; char c[5]; int a; };
