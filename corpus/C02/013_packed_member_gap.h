//@ record struct PG PG packed=0 : a b c
#pragma pack(push, 4)
struct PG { signed char a; signed char b __attribute__((aligned(16))); long c; };
#pragma pack(pop)
