//@ record struct T7 T7 packed=0 : a
//@ record struct T8 T8 packed=0 : a c
struct T7 { char a; int b : 30; };
struct T8 { char a; int b : 30; char c; };
