//@ record union UB UB packed=1 :
union __attribute__((packed)) UB { long a : 42; int b : 3; };
