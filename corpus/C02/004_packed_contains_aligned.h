//@ record struct AL AL packed=0 : x
//@ record struct PC PC packed=1 : c a
struct __attribute__((aligned(16))) AL { int x; };
struct __attribute__((packed)) PC { char c; struct AL a; };
