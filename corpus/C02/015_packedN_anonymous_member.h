//@ record struct R19 R19 packed=0 : m1 m8
struct R19 {
  long m1;
  struct __attribute__((packed)) {
    struct __attribute__((packed)) { char m3; };
    union { int (*m4)(int, char); long long m5; };
    _Bool m6;
  } __attribute__((aligned(4)));
  unsigned long long m8;
};
