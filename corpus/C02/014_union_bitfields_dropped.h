//@ record union R25 R25 packed=0 :
//@ record union R40 R40 packed=1 : m5 m9
union R25 { int : 22; unsigned int : 0; };
union __attribute__((packed)) R40 { _Bool bf1 : 1; unsigned long bf2 : 43; char bf3 : 2; _Bool : 0; unsigned char m5; int bf6 : 20; char bf7 : 3; unsigned int bf8 : 21; float m9; };
