//@ record union PD PD packed=0 : x
//@ record struct PD2 PD2 packed=1 : x
#pragma pack(push, 4)
union PD { long double x; };
#pragma pack(pop)
struct __attribute__((packed, aligned(2))) PD2 { long double x; };
