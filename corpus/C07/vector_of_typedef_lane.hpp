// bindgen-flags: --with-derive-hash --with-derive-partialeq
// bindgen-flags: --with-derive-hash --with-derive-partialeq --with-derive-eq --with-derive-ord --with-derive-partialord
// bindgen-flags: --with-derive-default --impl-debug --no-derive-copy
// a vector whose lane type is a typedef declared before it: the vector's facts depend on an item with a lower id
typedef float lane_t;
typedef lane_t quad_t __attribute__((vector_size(16)));
typedef double dlane_t;
typedef dlane_t dpair_t __attribute__((vector_size(16)));
typedef int ilane_t;
typedef ilane_t ivec_t __attribute__((vector_size(16)));
struct Pixel { quad_t rgba; int tag; };
struct Pair { dpair_t v; Pixel p; };
struct Grid { Pixel cells[2]; ivec_t idx; };
struct Plain { ivec_t only; };
