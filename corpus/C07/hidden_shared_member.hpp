// bindgen-flags: --with-derive-hash
// bindgen-flags: --allowlist-type "User.*" --no-recursive-allowlist
// bindgen-flags: --with-derive-default --with-derive-partialeq
// an item outside the allow-listed set (hidden by annotation / cut off by --no-recursive-allowlist) used by several records
/** <div rustbindgen hide></div> */
struct Hidden { int h; };
struct Cut { long c; };
struct UserA { Hidden a; Cut c; int x; };
struct UserB { Hidden b; Cut c; long y; };
struct UserC { UserA ua; UserB ub; };
