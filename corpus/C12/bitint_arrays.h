typedef _BitInt(7) b7;
struct S { _BitInt(12) a[4]; int z; };
extern _BitInt(9) arr[3];
