template <typename A> using MaybeWrapped =  __attribute__((btf_type_tag("t"))) A;

template<class T>
class Rooted {
  MaybeWrapped<T> ptr;
};
