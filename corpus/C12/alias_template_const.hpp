// an integer constant whose declared type is an instantiation of an alias template
template<class T> using AliasToInt = int;
template<class T> using AliasToUnsigned = unsigned long;
const AliasToInt<char> alias_const = 3;
const AliasToUnsigned<void> alias_uconst = 40000000000UL;
