// Shape derived from rust-bindgen issue #2085 (qualified dependent types), extended
// so that the alias graph bindgen builds is "rho"-shaped:
//
//     Third --> Outer --> Inner --> Outer --> ...
//
// The partial specialization body is never parsed by bindgen (it is made opaque), so
// the aliases are first met through the parameter of the out-of-line method
// definitions, where `typename Foo<T>::Dependent` cannot be resolved and bindgen
// falls back to the TypeRef child of the parameter -- which points back at the
// alias currently being parsed.
template<typename T>
struct Foo;

template<typename T, typename U>
struct Bar {};

template<typename T>
struct Bar<T, void> {
    using Inner = typename Foo<T>::Dependent;
    using Outer = Inner;
    using Third = Outer;
    void method(const Outer &);
    void other(const Third &);
};

template<typename T>
void Bar<T, void>::method(const Outer &) {}

template<typename T>
void Bar<T, void>::other(const Third &) {}
