/* Fixed-point DSP kernels: lanes are exact-width integers so that the
 * saturating arithmetic in the C implementation does not need masking. */
typedef _BitInt(32) sample4_t __attribute__((ext_vector_type(4)));

struct frame {
    unsigned   channel;
    sample4_t  lanes;
    float      gain;
};

int frame_peak(const struct frame *f);
void frame_mix(struct frame *dst, const struct frame *a, const struct frame *b);
