// named enums that are not at file scope, with an enumerator forced to be a constant by an annotation
struct Outer {
  enum Inner { IN_A, /** <div rustbindgen constant></div> */ IN_B, IN_C };
  Inner field;
};
namespace ns {
enum Spaced { SP_X, /** <div rustbindgen constant></div> */ SP_Y };
struct Holder { enum Deep { D_1 = 1, /** <div rustbindgen constant></div> */ D_2 } d; };
}
enum TopLevel { TL_A, /** <div rustbindgen constant></div> */ TL_B };
