// Control input: same construction, but every resolution that meets the cycle
// starts *on* the cycle (Outer --> Inner --> Outer).
template<typename T>
struct Foo;

template<typename T, typename U>
struct Bar {};

template<typename T>
struct Bar<T, void> {
    using Inner = typename Foo<T>::Dependent;
    using Outer = Inner;
    void method(const Outer &);
};

template<typename T>
void Bar<T, void>::method(const Outer &) {}
