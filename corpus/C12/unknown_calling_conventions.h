void f1(void) __attribute__((preserve_most));
void f4(int) __attribute__((preserve_all));
int f5(int) __attribute__((regcall));
typedef int (__attribute__((regcall)) *cb)(int);
struct S { cb c; };
