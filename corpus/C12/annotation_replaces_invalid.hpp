// `replaces` annotations whose value is not a C++ name
struct Target { int x; };
/** <div rustbindgen replaces=""></div> */
struct EmptyName { int y; };
/** <div rustbindgen replaces="a b"></div> */
struct SpaceInName { int z; };
/** <div rustbindgen replaces="::"></div> */
struct OnlyColons { int w; };
