// a bit-field whose width is (or leads to) a template parameter: libclang must not be asked to evaluate it
template<int N> struct WidthParam { int x : N; int y : 3; };
template<class T> struct WidthSizeof { enum { W = sizeof(T) }; int x : W; int y : 3; };
WidthParam<3> wp3;
WidthSizeof<char> wsc;
struct Plain { int a : 5; int b : sizeof(int); };
