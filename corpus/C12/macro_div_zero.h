#define DZ (1/0)
#define DM (7 % (0))
#define OK 3
