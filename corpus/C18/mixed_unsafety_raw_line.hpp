// bindgen-flags: --enable-cxx-namespaces --module-raw-line root::n 'extern "C" { pub fn raw(); }' -- -x c++
// DESIGN.md section 7 row 10 / known finding merge_mixed_unsafety: with --merge-extern-blocks the
// items of bindgen's `unsafe extern "C"` blocks end up in the raw line's non-unsafe block.
namespace n { int f(int); extern int v; }
int g(void);
