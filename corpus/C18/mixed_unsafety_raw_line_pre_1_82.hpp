// bindgen-flags: --enable-cxx-namespaces --rust-target 1.77 --module-raw-line root::n 'unsafe extern "C" { pub fn raw(); }' -- -x c++
// the other direction: bindgen's plain `extern "C"` items are absorbed by an `unsafe extern` raw line
namespace n { int f(int); extern int v; }
int g(void);
