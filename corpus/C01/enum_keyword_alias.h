// bindgen-flags: --rustified-enum ".*"
// bindgen-flags: --rustified-non-exhaustive-enum ".*" --no-prepend-enum-name
// bindgen-flags: --rustified-enum ".*" --no-prepend-enum-name --rust-edition 2018
// bindgen-flags: --newtype-enum ".*"
// bindgen-flags: --constified-enum-module ".*"
// bindgen-flags: --bitfield-enum ".*" --rust-edition 2024 --rust-target 1.85
/* enumerators that are Rust keywords, the later ones aliases (same value) of earlier ones */
enum access { reading = 0, writing = 1, both = 2, in = 0, out = 1, type = 2, match = 7, self = 7 };
enum { loop = 1, move = 1, ref = 2 };
struct port { enum access mode; int fd; };
int port_open(struct port *p, enum access mode);
