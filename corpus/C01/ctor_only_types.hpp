// bindgen-flags: --allowlist-type Engine --ignore-methods -- -x c++ -std=c++14
// bindgen-flags: --allowlist-type Engine --generate types,constructors,destructors -- -x c++ -std=c++14
// bindgen-flags: --allowlist-type Engine --generate types,methods -- -x c++ -std=c++14
// bindgen-flags: --allowlist-type Engine --generate types,functions,vars -- -x c++ -std=c++14
// bindgen-flags: --allowlist-type Engine -- -x c++ -std=c++14
/* types reachable only through a constructor / a destructor-bearing member / a method of an allow-listed class */
struct Config { int threads; const char *name; };
struct Tuning { double gain; };
struct Stats { long samples; };
class Engine {
public:
  explicit Engine(const Config &cfg);
  Engine(Tuning t, int level);
  ~Engine();
  Stats stats() const;
  int level;
};
