// bindgen-flags: --allowlist-type "codec.*" --allowlist-function "codec_.*" --blocklist-type codec_private --blocklist-function codec_dump
// expect: codec codec_open bitreader dump_opts
// expect-absent: codec_private codec_dump stray
// bindgen-flags: --allowlist-type "codec.*" --blocklist-type codec_private
// expect: codec bitreader
// expect-absent: codec_private stray
/* an item matched by an allow-list and a blocklist is not emitted; what it needs still is */
struct bitreader { const unsigned char *p; int left; };
struct dump_opts { int verbose; };
struct stray { int s; };
struct codec_private { struct bitreader br; };
struct codec { struct codec_private *priv_; int rate; };
int codec_open(struct codec *c);
void codec_dump(const struct codec *c, struct dump_opts o);
void stray_fn(struct stray *s);
