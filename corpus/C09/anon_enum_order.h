// bindgen-flags: --allowlist-function poll_channel --allowlist-var "LIMIT_.*"
// expect: poll_channel channel LIMIT_SOFT LIMIT_HARD
// bindgen-flags: --allowlist-var "SECOND_.*"
// expect: SECOND_A
// bindgen-flags: --allowlist-type channel
// expect: channel
/* several unnamed enums under one parent: the numbers in `_bindgen_ty_N` must not depend on which patterns are given */
enum { FIRST_A = 1, FIRST_B };
enum { SECOND_A = 10, SECOND_B };
enum { LIMIT_SOFT = 100, LIMIT_HARD = 200 };
struct channel {
  enum { CH_IDLE, CH_BUSY } state;
  enum { PRIO_LOW, PRIO_HIGH } prio;
  int fd;
};
int poll_channel(struct channel *c);
