// bindgen-flags: --allowlist-var "proto::wire::HEADER_LEN" -- -x c++ -std=c++17
// expect: HEADER_LEN PAYLOAD_MAX
// expect-absent: OTHER_A Unrelated
// bindgen-flags: --allowlist-var "proto::wire::.*" --enable-cxx-namespaces -- -x c++ -std=c++17
// expect: wire_HEADER_LEN wire_PAYLOAD_MAX
// expect-absent: OTHER_A
// bindgen-flags: --allowlist-item "proto::OTHER_A" -- -x c++ -std=c++17
// expect: OTHER_A OTHER_B
// expect-absent: HEADER_LEN
// bindgen-flags: --allowlist-var "wire::HEADER_LEN" -- -x c++ -std=c++17
// expect-absent: HEADER_LEN PAYLOAD_MAX OTHER_A
/* unnamed enums are allow-listed through the full C++ path of their enumerators */
namespace proto {
namespace wire {
enum { HEADER_LEN = 8, PAYLOAD_MAX = 512 };
}
enum { OTHER_A = 1, OTHER_B };
struct Unrelated { int x; };
}
