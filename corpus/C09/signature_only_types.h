// bindgen-flags: --allowlist-type handlers --generate types
// expect: handlers request reply cookie
// bindgen-flags: --allowlist-type handlers --ignore-functions --ignore-methods
// expect: handlers request reply cookie
// bindgen-flags: --allowlist-type handlers --generate types,vars
// expect: handlers request reply cookie
// bindgen-flags: --allowlist-var table --generate types,vars
// expect: table handlers request
// bindgen-flags: --allowlist-type on_done_t --generate types
// expect: on_done_t cookie
// expect-absent: handlers unrelated
/* types mentioned only in the signature of a function-pointer member / typedef / variable */
struct request { int id; };
struct reply { long code; };
struct cookie { void *p; };
struct unrelated { int z; };
struct handlers {
  struct reply (*serve)(const struct request *rq, struct cookie c);
  int plain;
};
typedef void (*on_done_t)(struct cookie *c);
extern struct handlers table;
void unrelated_fn(struct unrelated *u);
