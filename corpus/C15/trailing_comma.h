// known finding formatter_trailing_comma: Formatter::Prettyplease / Rustfmt wrap the parameter list
// and add a trailing comma; Formatter::None has none.  (The c15 harness generates this input itself
// as `wide.h`.)
int function_with_a_long_name_0(int argument_number_one, unsigned long argument_number_two, const char *argument_number_three);
