//! Generator of C++ declaration graphs for the IR-level properties (C07, C08, …): inheritance
//! chains and diamonds, classes pointing at each other, typedef chains, templates with used and
//! unused parameters instantiated with each other, opaque and blocklisted members.
//!
//! A program is a list of declaration *units* with by-value dependencies, so that it can be
//! emitted in any topological order (forward declarations of every class are hoisted).
use crate::rng::Rng;

#[derive(Clone, Debug)]
pub struct Unit {
    pub name: String,
    /// full text of the declaration (ends with `;`)
    pub text: String,
    /// units that must be complete before this one (by-value members, bases, typedef targets)
    pub needs: Vec<usize>,
    pub is_template: bool,
    pub opaque: bool,
    pub kind: &'static str,
}

#[derive(Clone, Debug)]
pub struct Program {
    pub units: Vec<Unit>,
}

const SCALARS: &[&str] = &["int", "unsigned", "char", "bool", "float", "double", "long long", "short", "unsigned char"];

impl Program {
    pub fn generate(rng: &mut Rng, n_units: usize) -> Program {
        let mut units: Vec<Unit> = vec![];
        for k in 0..n_units {
            let name = format!("T{k}");
            let choice = rng.below(100);
            // complete class-like units defined so far (non-template)
            let classes: Vec<usize> = (0..units.len()).filter(|&i| units[i].kind == "class" && !units[i].is_template).collect();
            let templates: Vec<usize> = (0..units.len()).filter(|&i| units[i].is_template && units[i].kind == "class").collect();
            let inst_templates: Vec<usize> = (0..units.len()).filter(|&i| units[i].is_template).collect();
            let anyty: Vec<usize> = (0..units.len()).filter(|&i| !units[i].is_template).collect();
            if choice < 10 && !anyty.is_empty() {
                // typedef chain
                let t = *rng.pick(&anyty);
                let tn = units[t].name.clone();
                units.push(Unit { name: name.clone(), text: format!("typedef {tn} {name};"), needs: vec![t], is_template: false, opaque: false, kind: "typedef" });
                continue;
            }
            if (14..17).contains(&choice) {
                // a vector typedef (by-value member candidates): the longer ones are over-aligned (> 32), which is
                // where the derive analyses get conservative about Default / Debug / PartialEq / Hash
                let (elem, bytes) = *rng.pick(&[("char", 8usize), ("int", 16), ("float", 32), ("char", 64), ("short", 128), ("double", 64)]);
                units.push(Unit { name: name.clone(), text: format!("typedef {elem} {name} __attribute__((vector_size({bytes})));"), needs: vec![], is_template: false, opaque: false, kind: "typedef" });
                continue;
            }
            if choice < 14 && !templates.is_empty() {
                // alias template over an earlier class template, and a class template deriving from one
                let t = *rng.pick(&templates);
                let tn = units[t].name.clone();
                let two = units[t].text.contains("typename U");
                if rng.chance(1, 2) {
                    let args = if two { "T, int" } else { "T" };
                    units.push(Unit { name: name.clone(), text: format!("template<typename T> using {name} = {tn}<{args}>;"), needs: vec![t], is_template: true, opaque: false, kind: "alias_template" });
                } else {
                    let args = if two { "T, T" } else { "T" };
                    let extra = match rng.below(3) { 0 => "int own;", 1 => "T* own;", _ => "" };
                    units.push(Unit { name: name.clone(), text: format!("template<typename T> struct {name} : public {tn}<{args}> {{ {extra} }};"), needs: vec![t], is_template: true, opaque: false, kind: "class" });
                }
                continue;
            }
            if choice < 22 {
                // template with used / unused parameters
                let shape = if !inst_templates.is_empty() && rng.chance(1, 3) { 6 } else { rng.below(6) };
                let mut tneeds = vec![];
                let body = match shape {
                    6 => {
                        // an earlier (alias) template used in a dependent context
                        let t = *rng.pick(&inst_templates);
                        tneeds.push(t);
                        let two = units[t].text.contains("typename U") && units[t].kind == "class" && !units[t].text.contains(" : public ");
                        if two { format!("{}<T, int> dep; float w;", units[t].name) } else { format!("{}<T> dep; int k;", units[t].name) }
                    }
                    0 => "T v; int k;".to_owned(),
                    1 => "T* p; int k;".to_owned(),
                    2 => "T arr[4];".to_owned(),
                    3 => "int unused_only;".to_owned(),
                    4 => "T v; U* q;".to_owned(),
                    _ => "float f; T t;".to_owned(),
                };
                let params = if shape == 4 { "typename T, typename U" } else { "typename T" };
                let opaque = rng.chance(1, 8);
                let ann = if opaque { "/** <div rustbindgen opaque></div> */\n" } else { "" };
                units.push(Unit { name: name.clone(), text: format!("{ann}template<{params}> struct {name} {{ {body} }};"), needs: tneeds, is_template: true, opaque, kind: "class" });
                continue;
            }
            if choice < 28 {
                // an enum (usable by value as a member type)
                let neg = if rng.chance(1, 3) { " = -3" } else { "" };
                units.push(Unit { name: name.clone(), text: format!("enum {name} {{ {name}_A{neg}, {name}_B = 7, {name}_C }};"), needs: vec![], is_template: false, opaque: false, kind: "enum" });
                continue;
            }
            if choice < 33 && !anyty.is_empty() {
                // a function or a variable using earlier types
                let t = *rng.pick(&anyty);
                let u = *rng.pick(&anyty);
                let tn = units[t].name.clone();
                let un = units[u].name.clone();
                let text = if rng.chance(1, 2) { format!("{tn}* fn_{name}({un}* a, int b, double c);") } else { format!("extern {tn} var_{name};") };
                units.push(Unit { name: name.clone(), text, needs: vec![t, u], is_template: false, opaque: false, kind: "decl" });
                continue;
            }
            // a class / struct / union
            let is_union = rng.chance(1, 8);
            let mut needs = vec![];
            let mut bases = vec![];
            if !is_union && !classes.is_empty() && rng.chance(2, 5) {
                let nb = 1 + rng.below(2) as usize;
                for _ in 0..nb {
                    let b = *rng.pick(&classes);
                    if !bases.contains(&b) && !units[b].text.contains("union ") {
                        bases.push(b);
                        needs.push(b);
                    }
                }
            }
            let mut body = String::new();
            if !is_union && rng.chance(1, 5) { body.push_str(&format!("virtual void vm{k}(); ")); }
            if !is_union && rng.chance(1, 7) { body.push_str(&format!("~{name}(); ")); }
            else if !is_union && rng.chance(1, 12) { body.push_str(&format!("virtual ~{name}(); ")); }
            let nf = rng.below(5) as usize + if bases.is_empty() { 1 } else { 0 };
            for f in 0..nf {
                let c = rng.below(100);
                let fname = format!("f{f}");
                if c < 35 {
                    body.push_str(&format!("{} {fname}; ", rng.pick(SCALARS)));
                } else if c < 45 {
                    let len = *rng.pick(&[0usize, 1, 3, 32, 33, 40]);
                    if len == 0 && f + 1 != nf { body.push_str(&format!("int {fname}; ")); } else {
                        body.push_str(&format!("{} {fname}[{len}]; ", rng.pick(SCALARS)));
                    }
                } else if c < 60 && !anyty.is_empty() {
                    let t = *rng.pick(&anyty);
                    needs.push(t);
                    body.push_str(&format!("{} {fname}; ", units[t].name));
                } else if c < 70 && !anyty.is_empty() {
                    let t = *rng.pick(&anyty);
                    needs.push(t);
                    body.push_str(&format!("{} {fname}[{}]; ", units[t].name, 1 + rng.below(40)));
                } else if c < 80 {
                    // pointer to any class, possibly a later one (forward declared)
                    let t = rng.below(n_units as u64);
                    body.push_str(&format!("struct P{t}* {fname}; "));
                } else if c < 88 && !inst_templates.is_empty() {
                    let t = *rng.pick(&inst_templates);
                    needs.push(t);
                    let arg = if !anyty.is_empty() && rng.chance(1, 2) { let a = *rng.pick(&anyty); needs.push(a); units[a].name.clone() } else { rng.pick(SCALARS).to_string() };
                    let two = units[t].text.contains("typename U") && units[t].kind == "class" && !units[t].text.contains(" : public ");
                    if two { body.push_str(&format!("{}<{arg}, int> {fname}; ", units[t].name)); } else { body.push_str(&format!("{}<{arg}> {fname}; ", units[t].name)); }
                } else if c < 94 {
                    let nargs = *rng.pick(&[0usize, 2, 12, 13]);
                    let args: Vec<String> = (0..nargs).map(|_| "int".to_owned()).collect();
                    body.push_str(&format!("void (*{fname})({}); ", args.join(", ")));
                } else if c < 97 {
                    body.push_str(&format!("unsigned {fname} : {}; ", 1 + rng.below(31)));
                } else if rng.chance(1, 2) {
                    body.push_str(&format!("struct {{ int a{f}; {} b{f}; }} {fname}; ", rng.pick(SCALARS)));
                } else {
                    body.push_str(&format!("union {{ int x{f}; {} y{f}; }}; ", rng.pick(SCALARS)));
                }
            }
            let opaque = rng.chance(1, 8);
            let ann = if opaque { "/** <div rustbindgen opaque></div> */\n" } else { "" };
            let kw = if is_union { "union" } else if bases.is_empty() && !body.contains("virtual") && rng.chance(1, 9) { "struct __attribute__((packed))" }
                else if rng.chance(1, 14) { "struct __attribute__((aligned(64)))" } else { "struct" };
            let bl = if bases.is_empty() { String::new() } else { format!(" : {}", bases.iter().map(|b| format!("public {}", units[*b].name)).collect::<Vec<_>>().join(", ")) };
            needs.sort();
            needs.dedup();
            units.push(Unit { name: name.clone(), text: format!("{ann}{kw} {name}{bl} {{ {body}}};"), needs, is_template: false, opaque, kind: "class" });
        }
        Program { units }
    }

    /// Emit the program in the given unit order (must respect `needs`).
    pub fn emit(&self, order: &[usize]) -> String {
        let mut s = String::new();
        // pointer targets are separate forward-declared classes P<k>, defined at the end
        for k in 0..self.units.len() {
            s.push_str(&format!("struct P{k};\n"));
        }
        for &i in order {
            s.push_str(&self.units[i].text);
            s.push('\n');
        }
        for k in 0..self.units.len() {
            s.push_str(&format!("struct P{k} {{ int tag; }};\n"));
        }
        s
    }

    pub fn natural_order(&self) -> Vec<usize> {
        (0..self.units.len()).collect()
    }

    /// A random topological order w.r.t. `needs`.
    pub fn random_order(&self, rng: &mut Rng) -> Vec<usize> {
        let n = self.units.len();
        let mut placed = vec![false; n];
        let mut order = vec![];
        while order.len() < n {
            let ready: Vec<usize> = (0..n).filter(|&i| !placed[i] && self.units[i].needs.iter().all(|&d| placed[d])).collect();
            let pick = ready[rng.below(ready.len() as u64) as usize];
            placed[pick] = true;
            order.push(pick);
        }
        order
    }

    pub fn class_names(&self) -> Vec<String> {
        self.units.iter().filter(|u| u.kind == "class").map(|u| u.name.clone()).collect()
    }
}

/// Random derive / selection flags for an IR-level run.
pub fn random_flags(rng: &mut Rng, prog: &Program) -> Vec<String> {
    let mut f: Vec<String> = vec![];
    for flag in ["--with-derive-default", "--with-derive-hash", "--with-derive-partialeq", "--with-derive-partialord", "--with-derive-eq", "--with-derive-ord", "--impl-debug", "--impl-partialeq", "--no-layout-tests"] {
        if rng.chance(1, 2) { f.push(flag.into()); }
    }
    if rng.chance(1, 8) { f.push("--no-derive-copy".into()); }
    if rng.chance(1, 8) { f.push("--no-derive-debug".into()); }
    if rng.chance(1, 6) { f.push("--disable-untagged-union".into()); }
    let names = prog.class_names();
    if !names.is_empty() {
        if rng.chance(1, 4) { f.push("--blocklist-type".into()); f.push(rng.pick(&names).clone()); }
        if rng.chance(1, 4) { f.push("--opaque-type".into()); f.push(rng.pick(&names).clone()); }
        if rng.chance(1, 4) {
            f.push("--allowlist-type".into());
            f.push(format!("{}|{}|{}", rng.pick(&names), rng.pick(&names), rng.pick(&names)));
            if rng.chance(1, 2) { f.push("--no-recursive-allowlist".into()); }
        }
        if rng.chance(1, 6) { f.push("--no-copy".into()); f.push(rng.pick(&names).clone()); }
        if rng.chance(1, 6) { f.push("--no-default".into()); f.push(rng.pick(&names).clone()); }
        if rng.chance(1, 8) { f.push("--no-hash".into()); f.push(rng.pick(&names).clone()); }
        if rng.chance(1, 8) { f.push("--no-partialeq".into()); f.push(rng.pick(&names).clone()); }
        if rng.chance(1, 8) { f.push("--no-debug".into()); f.push(rng.pick(&names).clone()); }
    }
    f
}
