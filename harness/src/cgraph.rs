//! Generator of C type graphs (C02 / C06): depth-bounded nesting of structs and unions
//! (including anonymous members), every integer / float / pointer kind, multi-dimensional,
//! zero-length and flexible arrays, bit-field runs mixed with plain members,
//! `__attribute__((packed))`, `aligned(N)` on types and members, `#pragma pack(N)`, typedef
//! chains, enums with explicit / negative / large values.  Freestanding: no `#include`.
use crate::rng::Rng;

/// (C spelling, round-trip class: i = integer, b = bool, f = float, n = no value round trip)
pub const SCALARS: &[(&str, char)] = &[
    ("char", 'i'), ("signed char", 'i'), ("unsigned char", 'i'), ("short", 'i'), ("unsigned short", 'i'),
    ("int", 'i'), ("unsigned int", 'i'), ("long", 'i'), ("unsigned long", 'i'), ("long long", 'i'),
    ("unsigned long long", 'i'), ("_Bool", 'b'), ("float", 'f'), ("double", 'f'), ("long double", 'n'),
    ("__int128", 'i'), ("unsigned __int128", 'i'), ("__float128", 'n'),
];
pub const BIT_BASES: &[(&str, u32)] = &[
    ("char", 8), ("unsigned char", 8), ("short", 16), ("unsigned short", 16), ("int", 32), ("unsigned int", 32),
    ("long", 64), ("unsigned long", 64), ("long long", 64), ("unsigned long long", 64), ("_Bool", 1),
];

#[derive(Clone, Debug)]
pub enum Ty {
    Scalar(usize),
    /// pointer; the text of the pointee (`void`, `int`, `struct R3`, …)
    Ptr(String),
    /// `int (*)(int, char)`
    FnPtr,
    /// a previously declared record / enum / typedef: C text of the type and index of the declaration
    Named(String, usize),
    Array(Box<Ty>, Vec<u64>),
}

#[derive(Clone, Debug)]
pub enum MemberKind {
    Plain(Ty),
    /// bit-field: base type index into BIT_BASES, width (0 = unnamed `:0`)
    Bits(usize, u32),
    Anon(Box<Record>),
    /// flexible array member `T name[];` (last member only)
    Flex(Ty),
}

#[derive(Clone, Debug)]
pub struct Member {
    /// empty for anonymous record members and unnamed bit-fields
    pub name: String,
    pub kind: MemberKind,
    pub aligned: Option<u32>,
}

#[derive(Clone, Debug)]
pub struct Record {
    pub is_union: bool,
    /// tag (`struct TAG`); empty for anonymous records and for `typedef struct {…} NAME;`
    pub tag: String,
    /// `typedef struct { … } NAME;`
    pub typedef_name: String,
    pub members: Vec<Member>,
    pub packed: bool,
    pub aligned: Option<u32>,
    pub pragma_pack: Option<u32>,
    /// an attribute without layout effect that libclang does not expose (`deprecated`, `unused`, `may_alias`)
    pub extra_attr: Option<&'static str>,
}

#[derive(Clone, Debug)]
pub struct EnumD {
    pub name: String,
    pub variants: Vec<(String, i128)>,
}

#[derive(Clone, Debug)]
pub enum Decl {
    Record(Record),
    Enum(EnumD),
    Typedef(String, Ty),
    /// `struct TAG;` never defined
    Forward(String),
}

#[derive(Clone, Debug, Default)]
pub struct Program {
    pub decls: Vec<Decl>,
}

#[derive(Clone, Debug)]
pub struct GenCfg {
    pub n_decls: usize,
    pub max_members: usize,
    pub max_depth: usize,
    pub bitfields: bool,
    pub packed: bool,
    pub aligned: bool,
    pub pragma_pack: bool,
    pub unions: bool,
    pub int128: bool,
    pub long_double: bool,
    /// `__float128` (x86 only)
    pub float128: bool,
    /// `long` bit-fields are at most 32 bits wide (portable to ILP32 / LLP64 targets)
    pub portable: bool,
    pub prefix: String,
}

impl Default for GenCfg {
    fn default() -> Self {
        GenCfg { n_decls: 20, max_members: 6, max_depth: 2, bitfields: true, packed: true, aligned: true, pragma_pack: true,
                 unions: true, int128: true, long_double: true, float128: true, portable: false, prefix: String::new() }
    }
}

impl Record {
    /// the C spelling of the type
    pub fn c_type(&self) -> String {
        if !self.typedef_name.is_empty() {
            self.typedef_name.clone()
        } else {
            format!("{} {}", if self.is_union { "union" } else { "struct" }, self.tag)
        }
    }
    /// name bindgen gives the Rust type
    pub fn rust_name(&self) -> String {
        if !self.typedef_name.is_empty() { self.typedef_name.clone() } else { self.tag.clone() }
    }
}

fn ty_base_and_suffix(t: &Ty) -> (String, String) {
    match t {
        Ty::Scalar(i) => (SCALARS[*i].0.to_string(), String::new()),
        Ty::Ptr(p) => (format!("{p} *"), String::new()),
        Ty::FnPtr => ("int (*".to_string(), ")(int, char)".to_string()),
        Ty::Named(s, _) => (s.clone(), String::new()),
        Ty::Array(e, dims) => {
            let (b, s) = ty_base_and_suffix(e);
            let d: String = dims.iter().map(|n| format!("[{n}]")).collect();
            (b, format!("{d}{s}"))
        }
    }
}

/// `T name` declarator text
pub fn declarator(t: &Ty, name: &str) -> String {
    let (b, s) = ty_base_and_suffix(t);
    if b.ends_with('*') || b.ends_with("(*") { format!("{b}{name}{s}") } else { format!("{b} {name}{s}") }
}

fn emit_record_body(r: &Record, indent: usize, out: &mut String) {
    let pad = "  ".repeat(indent);
    for m in &r.members {
        let al = m.aligned.map_or(String::new(), |n| format!(" __attribute__((aligned({n})))"));
        match &m.kind {
            MemberKind::Plain(t) => out.push_str(&format!("{pad}{}{al};\n", declarator(t, &m.name))),
            MemberKind::Bits(b, w) => out.push_str(&format!("{pad}{} {} : {w};\n", BIT_BASES[*b].0, m.name)),
            MemberKind::Flex(t) => { let (b, sfx) = ty_base_and_suffix(t); out.push_str(&format!("{pad}{b} {}[]{sfx};\n", m.name)) }
            MemberKind::Anon(inner) => {
                out.push_str(&format!("{pad}{}{} {{\n", if inner.is_union { "union" } else { "struct" }, attrs(inner)));
                emit_record_body(inner, indent + 1, out);
                out.push_str(&format!("{pad}}}{al};\n"));
            }
        }
    }
}

fn attrs(r: &Record) -> String {
    let mut v = vec![];
    if r.packed { v.push("packed".to_string()); }
    if let Some(n) = r.aligned { v.push(format!("aligned({n})")); }
    if let Some(a) = r.extra_attr { v.push(a.to_string()); }
    if v.is_empty() { String::new() } else { format!(" __attribute__(({}))", v.join(", ")) }
}

impl Program {
    pub fn c_text(&self) -> String {
        let mut out = String::new();
        for d in &self.decls {
            match d {
                Decl::Forward(t) => out.push_str(&format!("struct {t};\n")),
                Decl::Typedef(n, t) => out.push_str(&format!("typedef {};\n", declarator(t, n))),
                Decl::Enum(e) => {
                    let vs: Vec<String> = e.variants.iter().map(|(n, v)| {
                        if *v > i64::MAX as i128 { format!("{n} = {v}ULL") } else if *v > i32::MAX as i128 || *v < i32::MIN as i128 { format!("{n} = {v}LL") } else { format!("{n} = {v}") }
                    }).collect();
                    out.push_str(&format!("enum {} {{ {} }};\n", e.name, vs.join(", ")));
                }
                Decl::Record(r) => {
                    if let Some(n) = r.pragma_pack { out.push_str(&format!("#pragma pack(push, {n})\n")); }
                    let kw = if r.is_union { "union" } else { "struct" };
                    if r.typedef_name.is_empty() {
                        out.push_str(&format!("{kw}{} {} {{\n", attrs(r), r.tag));
                    } else {
                        out.push_str(&format!("typedef {kw}{} {{\n", attrs(r)));
                    }
                    emit_record_body(r, 1, &mut out);
                    if r.typedef_name.is_empty() { out.push_str("};\n"); } else { out.push_str(&format!("}} {};\n", r.typedef_name)); }
                    if r.pragma_pack.is_some() { out.push_str("#pragma pack(pop)\n"); }
                }
            }
        }
        out
    }

    /// top-level records, in order
    pub fn records(&self) -> Vec<&Record> {
        self.decls.iter().filter_map(|d| if let Decl::Record(r) = d { Some(r) } else { None }).collect()
    }
}

struct Gen<'a> {
    rng: &'a mut Rng,
    cfg: &'a GenCfg,
    decls: Vec<Decl>,
    counter: usize,
}

impl Gen<'_> {
    fn fresh(&mut self, p: &str) -> String {
        self.counter += 1;
        format!("{}{p}{}", self.cfg.prefix, self.counter)
    }

    fn scalar(&mut self) -> Ty {
        loop {
            let i = self.rng.below(SCALARS.len() as u64) as usize;
            let n = SCALARS[i].0;
            if n.contains("__int128") && !(self.cfg.int128 && self.rng.chance(1, 2)) { continue; }
            if n == "long double" && !(self.cfg.long_double && self.rng.chance(1, 2)) { continue; }
            if n == "__float128" && !(self.cfg.float128 && self.rng.chance(1, 2)) { continue; }
            return Ty::Scalar(i);
        }
    }

    /// a complete object type usable as a member
    fn ty(&mut self, depth: usize) -> Ty {
        let named: Vec<usize> = (0..self.decls.len()).filter(|&i| !matches!(self.decls[i], Decl::Forward(_))).collect();
        let k = self.rng.below(100);
        if k < 45 || (named.is_empty() && k < 70) {
            self.scalar()
        } else if k < 55 {
            // pointer
            let targets = ["void", "char", "int", "const char", "double"];
            if !self.decls.is_empty() && self.rng.chance(1, 2) {
                let i = self.rng.below(self.decls.len() as u64) as usize;
                Ty::Ptr(match &self.decls[i] {
                    Decl::Record(r) => r.c_type(),
                    Decl::Enum(e) => format!("enum {}", e.name),
                    Decl::Typedef(n, _) => n.clone(),
                    Decl::Forward(t) => format!("struct {t}"),
                })
            } else {
                Ty::Ptr(self.rng.pick(&targets).to_string())
            }
        } else if k < 58 {
            Ty::FnPtr
        } else if k < 75 && depth < 2 {
            // array (1–3 dimensions, occasionally zero-length)
            let elem = self.ty(2);
            let elem = if let Ty::Array(..) = elem { self.scalar() } else { elem };
            let nd = 1 + self.rng.below(3) as usize;
            let mut dims = vec![];
            for j in 0..nd {
                dims.push(if j == 0 && self.rng.chance(1, 12) { 0 } else { 1 + self.rng.below(if nd == 1 { 40 } else { 4 }) });
            }
            Ty::Array(Box::new(elem), dims)
        } else if !named.is_empty() {
            let i = *self.rng.pick(&named);
            let text = match &self.decls[i] {
                Decl::Record(r) => r.c_type(),
                Decl::Enum(e) => format!("enum {}", e.name),
                Decl::Typedef(n, _) => n.clone(),
                Decl::Forward(_) => unreachable!(),
            };
            Ty::Named(text, i)
        } else {
            self.scalar()
        }
    }

    fn record(&mut self, depth: usize, anonymous: bool, fcount: &mut usize) -> Record {
        let is_union = self.cfg.unions && self.rng.chance(1, if anonymous { 2 } else { 4 });
        let n = 1 + self.rng.below(self.cfg.max_members as u64) as usize;
        let mut members: Vec<Member> = vec![];
        let mut i = 0;
        while i < n {
            let k = self.rng.below(100);
            if self.cfg.bitfields && k < 18 {
                // a run of bit-fields
                let run = 1 + self.rng.below(4);
                for _ in 0..run {
                    let b = self.rng.below(BIT_BASES.len() as u64) as usize;
                    let maxw = if self.cfg.portable && BIT_BASES[b].0.ends_with("long") && !BIT_BASES[b].0.ends_with("long long") { 32 } else { BIT_BASES[b].1 };
                    let unnamed = self.rng.chance(1, 8);
                    let w = if unnamed && self.rng.chance(1, 2) { 0 } else { 1 + self.rng.below(maxw as u64) as u32 };
                    *fcount += 1;
                    members.push(Member { name: if unnamed { String::new() } else { format!("bf{fcount}") }, kind: MemberKind::Bits(b, w), aligned: None });
                }
            } else if k < 28 && depth < self.cfg.max_depth {
                let inner = self.record(depth + 1, true, fcount);
                let aligned = if self.cfg.aligned && self.rng.chance(1, 10) { Some(*self.rng.pick(&[4u32, 8, 16])) } else { None };
                members.push(Member { name: String::new(), kind: MemberKind::Anon(Box::new(inner)), aligned });
            } else {
                *fcount += 1;
                let t = self.ty(0);
                let aligned = if self.cfg.aligned && self.rng.chance(1, 9) { Some(*self.rng.pick(&[2u32, 4, 8, 16, 32])) } else { None };
                members.push(Member { name: format!("m{fcount}"), kind: MemberKind::Plain(t), aligned });
            }
            i += 1;
        }
        // flexible array member at the end of a top-level struct
        if !is_union && !anonymous && self.rng.chance(1, 10) {
            *fcount += 1;
            let e = self.scalar();
            members.push(Member { name: format!("m{fcount}"), kind: MemberKind::Flex(e), aligned: None });
        }
        let packed = self.cfg.packed && self.rng.chance(1, 7);
        let aligned = if self.cfg.aligned && self.rng.chance(1, 8) { Some(*self.rng.pick(&[2u32, 4, 8, 16, 32, 64])) } else { None };
        let pragma_pack = if !anonymous && self.cfg.pragma_pack && self.rng.chance(1, 7) { Some(*self.rng.pick(&[1u32, 2, 4, 8])) } else { None };
        let (tag, typedef_name) = if anonymous {
            (String::new(), String::new())
        } else if self.rng.chance(1, 6) {
            (String::new(), self.fresh("T"))
        } else {
            (self.fresh("R"), String::new())
        };
        let extra_attr = if !anonymous && self.rng.chance(1, 8) { Some(*self.rng.pick(&["deprecated", "unused", "may_alias", "deprecated(\"old\")"])) } else { None };
        Record { is_union, tag, typedef_name, members, packed, aligned, pragma_pack, extra_attr }
    }

    /// a struct under `#pragma pack(N)` in which every sized member already fits N: the only
    /// member whose natural alignment exceeds N is a trailing flexible / zero-length array (or
    /// there is none at all) — the boundary of bindgen's packing inference
    fn pack_witness(&mut self) -> Record {
        let idx = |n: &str| SCALARS.iter().position(|s| s.0 == n).unwrap();
        let n = *self.rng.pick(&[1u32, 2, 4]);
        let small: &[&str] = match n { 1 => &["char", "signed char", "unsigned char", "_Bool"], 2 => &["char", "short", "unsigned short", "unsigned char"], _ => &["char", "short", "int", "unsigned int", "float"] };
        let big: &[&str] = match n { 1 => &["short", "int", "long", "double"], 2 => &["int", "long", "double", "long long"], _ => &["long", "long long", "double", "unsigned long"] };
        let mut members = vec![];
        let cnt = 1 + self.rng.below(3);
        for j in 0..cnt {
            let nm: &str = *self.rng.pick(small); let t = Ty::Scalar(idx(nm));
            let t = if self.rng.chance(1, 4) { Ty::Array(Box::new(t), vec![1 + self.rng.below(5)]) } else { t };
            members.push(Member { name: format!("w{j}"), kind: MemberKind::Plain(t), aligned: None });
        }
        let nm: &str = *self.rng.pick(big); let e = Ty::Scalar(idx(nm));
        match self.rng.below(3) {
            0 => members.push(Member { name: "tail".into(), kind: MemberKind::Flex(e), aligned: None }),
            1 => members.push(Member { name: "tail".into(), kind: MemberKind::Plain(Ty::Array(Box::new(e), vec![0])), aligned: None }),
            _ => {}
        }
        let (tag, typedef_name) = if self.rng.chance(1, 5) { (String::new(), self.fresh("T")) } else { (self.fresh("R"), String::new()) };
        Record { is_union: false, tag, typedef_name, members, packed: false, aligned: None, pragma_pack: Some(n), extra_attr: None }
    }

    fn enum_decl(&mut self) -> EnumD {
        let name = self.fresh("E");
        let n = 1 + self.rng.below(4) as usize;
        let class = self.rng.below(5);
        let mut variants = vec![];
        for i in 0..n {
            let v: i128 = match class {
                0 => i as i128,
                1 => -(self.rng.below(1000) as i128) - 1 + (i as i128) * 2000,
                2 => 0x7fff_fff0 + i as i128,
                3 => 0xffff_fff0 + i as i128,
                _ => 0x1_0000_0000 + (self.rng.below(1 << 20) as i128) * (i as i128 + 1),
            };
            variants.push((format!("{name}_V{i}"), v));
        }
        EnumD { name, variants }
    }
}

pub fn generate(rng: &mut Rng, cfg: &GenCfg) -> Program {
    let mut g = Gen { rng, cfg, decls: vec![], counter: 0 };
    while g.decls.len() < cfg.n_decls {
        let k = g.rng.below(100);
        if k < 10 {
            let e = g.enum_decl();
            g.decls.push(Decl::Enum(e));
        } else if k < 22 && !g.decls.is_empty() {
            let t = g.ty(0);
            let n = g.fresh("A");
            g.decls.push(Decl::Typedef(n, t));
        } else if k < 25 {
            let t = g.fresh("F");
            g.decls.push(Decl::Forward(t));
        } else if k < 29 && cfg.pragma_pack {
            let r = g.pack_witness();
            g.decls.push(Decl::Record(r));
        } else {
            let mut fc = 0; let r = g.record(0, false, &mut fc);
            g.decls.push(Decl::Record(r));
        }
    }
    Program { decls: g.decls }
}

/// A scalar leaf reachable from a record: C access path, Rust access path (with `__bindgen_anon_N`
/// for anonymous members), value class, and the C spelling of its type.
#[derive(Clone, Debug)]
pub struct Leaf {
    pub c_path: String,
    pub rust_path: String,
    pub class: char,
    pub c_type: String,
    /// for enums: the variant values to choose from
    pub enum_values: Vec<i128>,
}

impl Program {
    fn leaves_of_ty(&self, t: &Ty, c: &str, r: &str, budget: &mut usize, out: &mut Vec<Leaf>) {
        if *budget == 0 { return; }
        match t {
            Ty::Scalar(i) => {
                *budget -= 1;
                out.push(Leaf { c_path: c.into(), rust_path: r.into(), class: SCALARS[*i].1, c_type: SCALARS[*i].0.into(), enum_values: vec![] });
            }
            Ty::Ptr(_) => {
                *budget -= 1;
                out.push(Leaf { c_path: c.into(), rust_path: r.into(), class: 'p', c_type: "void *".into(), enum_values: vec![] });
            }
            Ty::FnPtr => {}
            Ty::Named(_, d) => match &self.decls[*d] {
                Decl::Record(rec) => self.leaves_of_record(rec, c, r, budget, out),
                Decl::Enum(e) => {
                    *budget -= 1;
                    out.push(Leaf { c_path: c.into(), rust_path: r.into(), class: 'e', c_type: format!("enum {}", e.name), enum_values: e.variants.iter().map(|v| v.1).collect() });
                }
                Decl::Typedef(_, inner) => self.leaves_of_ty(inner, c, r, budget, out),
                Decl::Forward(_) => {}
            },
            Ty::Array(e, dims) => {
                if dims.iter().any(|d| *d == 0) { return; }
                // first and last element
                let first: String = dims.iter().map(|_| "[0]".to_string()).collect();
                let last: String = dims.iter().map(|d| format!("[{}]", d - 1)).collect();
                self.leaves_of_ty(e, &format!("{c}{first}"), &format!("{r}{first}"), budget, out);
                if last != first {
                    self.leaves_of_ty(e, &format!("{c}{last}"), &format!("{r}{last}"), budget, out);
                }
            }
        }
    }

    /// leaves of a record; inside a union only the first member is followed
    pub fn leaves_of_record(&self, rec: &Record, c: &str, r: &str, budget: &mut usize, out: &mut Vec<Leaf>) {
        let mut anon = 0;
        let mut first = true;
        for m in &rec.members {
            let usable = !rec.is_union || first;
            match &m.kind {
                MemberKind::Plain(t) => {
                    if usable { self.leaves_of_ty(t, &format!("{c}.{}", m.name), &format!("{r}.{}", m.name), budget, out); }
                }
                MemberKind::Anon(inner) => {
                    anon += 1;
                    if usable { self.leaves_of_record(inner, c, &format!("{r}.__bindgen_anon_{anon}"), budget, out); }
                }
                MemberKind::Bits(..) | MemberKind::Flex(_) => {}
            }
            // a union whose first member is a bit-field or has no leaves simply contributes nothing
            first = false;
        }
    }
}
