//! In-process and CLI drivers for the real bindgen, plus rustc / clang helpers.
use std::path::{Path, PathBuf};
use std::process::Command;
use std::sync::atomic::{AtomicU64, Ordering};

use crate::util::run;

static COUNTER: AtomicU64 = AtomicU64::new(0);

/// A scratch directory under $TMPDIR, removed on drop.
pub struct Scratch(pub PathBuf);
impl Scratch {
    pub fn new(tag: &str) -> Scratch {
        let base = std::env::var("TMPDIR").unwrap_or_else(|_| "/tmp".into());
        let n = COUNTER.fetch_add(1, Ordering::SeqCst);
        let p = PathBuf::from(base).join(format!("bgverif_{tag}_{}_{n}", std::process::id()));
        std::fs::create_dir_all(&p).unwrap();
        Scratch(p)
    }
    pub fn path(&self, name: &str) -> PathBuf {
        self.0.join(name)
    }
}
impl Drop for Scratch {
    fn drop(&mut self) {
        let _ = std::fs::remove_dir_all(&self.0);
    }
}

#[derive(Debug, Clone)]
pub struct GenOut {
    /// bindings text (formatter none unless flags say otherwise)
    pub bindings: Option<String>,
    /// `BindgenError` rendered with Debug
    pub error: Option<String>,
    /// panic message if generation panicked
    pub panic: Option<String>,
    /// contents of the verification log, if requested
    pub log: Option<String>,
}

impl GenOut {
    pub fn ok(&self) -> bool {
        self.bindings.is_some()
    }
}

fn panic_message(e: Box<dyn std::any::Any + Send>) -> String {
    if let Some(s) = e.downcast_ref::<&str>() {
        (*s).to_owned()
    } else if let Some(s) = e.downcast_ref::<String>() {
        s.clone()
    } else {
        "<non-string panic>".to_owned()
    }
}

/// Install a silent panic hook once (messages are captured by catch_unwind callers).
pub fn quiet_panics() {
    std::panic::set_hook(Box::new(|_| {}));
}

/// Run bindgen in-process: `flags` are CLI flags *without* the program name, containing the
/// header path.  The caller must pass flags clap accepts (a clap error exits the process).
pub fn generate_with_flags(flags: &[String], log_to: Option<&Path>) -> GenOut {
    if let Some(p) = log_to {
        let _ = std::fs::remove_file(p);
        std::env::set_var("BINDGEN_VERIF_LOG", p);
    } else {
        std::env::remove_var("BINDGEN_VERIF_LOG");
    }
    let args: Vec<String> = std::iter::once("bindgen".to_owned()).chain(flags.iter().cloned()).collect();
    let r = std::panic::catch_unwind(std::panic::AssertUnwindSafe(|| {
        let (builder, _out, _verbose) = bindgen::builder_from_flags(args.into_iter()).map_err(|e| format!("io: {e}"))?;
        let b = builder.generate().map_err(|e| format!("{e:?}"))?;
        Ok::<String, String>(b.to_string())
    }));
    std::env::remove_var("BINDGEN_VERIF_LOG");
    let log = log_to.and_then(|p| std::fs::read_to_string(p).ok());
    match r {
        Ok(Ok(s)) => GenOut { bindings: Some(s), error: None, panic: None, log },
        Ok(Err(e)) => GenOut { bindings: None, error: Some(e), panic: None, log },
        Err(p) => GenOut { bindings: None, error: None, panic: Some(panic_message(p)), log },
    }
}

/// Convenience: header text written to a scratch file, then `generate_with_flags`.
/// `pre` = bindgen flags, `clang` = arguments after `--`.
pub fn generate_text(scratch: &Scratch, name: &str, text: &str, pre: &[&str], clang: &[&str], want_log: bool) -> GenOut {
    let h = scratch.path(name);
    std::fs::write(&h, text).unwrap();
    let mut flags: Vec<String> = vec![h.to_string_lossy().into_owned(), "--formatter".into(), "none".into()];
    flags.extend(pre.iter().map(|s| s.to_string()));
    flags.push("--".into());
    flags.extend(clang.iter().map(|s| s.to_string()));
    let log = scratch.path(&format!("{name}.vlog"));
    generate_with_flags(&flags, if want_log { Some(&log) } else { None })
}

/// Path of the bindgen CLI built from /repo with hooks on (by the check script).
pub fn cli_path() -> PathBuf {
    PathBuf::from(std::env::var("BINDGEN_CLI").unwrap_or_else(|_| "/verif/.cache/target/debug/bindgen".into()))
}

/// Run the CLI; returns (exit code, stdout, stderr).
pub fn cli(args: &[String], envs: &[(&str, &str)], cwd: Option<&Path>) -> (i32, String, String) {
    let mut c = Command::new(cli_path());
    c.args(args);
    for (k, v) in envs {
        c.env(k, v);
    }
    if let Some(d) = cwd {
        c.current_dir(d);
    }
    run(&mut c)
}

/// Compile Rust source as a library crate (metadata only, fast).  Returns Ok(()) or rustc's stderr.
pub fn rustc_check_lib(scratch: &Scratch, name: &str, src: &str, edition: &str) -> Result<(), String> {
    let f = scratch.path(&format!("{name}.rs"));
    std::fs::write(&f, src).unwrap();
    let (rc, _o, e) = run(Command::new("rustc")
        .arg("--edition").arg(edition)
        .arg("--crate-type").arg("lib")
        .arg("--emit").arg("metadata")
        .arg("--cap-lints").arg("allow")
        .arg("-o").arg(scratch.path(&format!("lib{name}.rmeta")))
        .arg(&f));
    if rc == 0 { Ok(()) } else { Err(e) }
}

/// Compile a Rust program, linking extra object files; returns the executable path.
pub fn rustc_bin(scratch: &Scratch, name: &str, src: &str, objs: &[PathBuf], extra: &[&str]) -> Result<PathBuf, String> {
    let f = scratch.path(&format!("{name}.rs"));
    std::fs::write(&f, src).unwrap();
    let exe = scratch.path(name);
    let mut c = Command::new("rustc");
    c.arg("--edition").arg("2021").arg("--cap-lints").arg("allow").arg("-o").arg(&exe).arg(&f);
    for o in objs {
        c.arg("-C").arg(format!("link-arg={}", o.display()));
    }
    c.args(extra);
    let (rc, _o, e) = run(&mut c);
    if rc == 0 { Ok(exe) } else { Err(e) }
}

/// Compile C (or C++) source to an object file with clang.
pub fn clang_obj(scratch: &Scratch, name: &str, src: &str, args: &[&str]) -> Result<PathBuf, String> {
    let ext = if args.iter().any(|a| *a == "c++") { "cpp" } else { "c" };
    let f = scratch.path(&format!("{name}.{ext}"));
    std::fs::write(&f, src).unwrap();
    let o = scratch.path(&format!("{name}.o"));
    let (rc, _o, e) = run(Command::new("clang").args(args).arg("-c").arg(&f).arg("-o").arg(&o));
    if rc == 0 { Ok(o) } else { Err(e) }
}

/// Compile and link a C program with clang; returns the executable.
pub fn clang_exe(scratch: &Scratch, name: &str, src: &str, args: &[&str]) -> Result<PathBuf, String> {
    let f = scratch.path(&format!("{name}.c"));
    std::fs::write(&f, src).unwrap();
    let o = scratch.path(&format!("{name}_c"));
    let (rc, _o, e) = run(Command::new("clang").args(args).arg(&f).arg("-o").arg(&o));
    if rc == 0 { Ok(o) } else { Err(e) }
}

pub fn run_exe(exe: &Path) -> (i32, String, String) {
    run(&mut Command::new(exe))
}
