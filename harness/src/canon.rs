//! syn-based canonical inventories of emitted bindings.
use std::collections::BTreeMap;
use quote::ToTokens;

/// name -> canonical text (attributes, generics, fields) of every struct / union / enum / type
/// alias, per module path.  Token text is whitespace-normalised by proc_macro2.
pub fn type_inventory(src: &str) -> Result<BTreeMap<String, String>, String> {
    let file: syn::File = syn::parse_str(src).map_err(|e| format!("syn: {e}"))?;
    let mut out = BTreeMap::new();
    walk(&file.items, "", &mut out);
    Ok(out)
}

fn walk(items: &[syn::Item], path: &str, out: &mut BTreeMap<String, String>) {
    for it in items {
        match it {
            syn::Item::Struct(s) => {
                out.insert(format!("{path}{}", s.ident), s.to_token_stream().to_string());
            }
            syn::Item::Union(s) => {
                out.insert(format!("{path}{}", s.ident), s.to_token_stream().to_string());
            }
            syn::Item::Enum(s) => {
                out.insert(format!("{path}{}", s.ident), s.to_token_stream().to_string());
            }
            syn::Item::Type(s) => {
                out.insert(format!("{path}type {}", s.ident), s.to_token_stream().to_string());
            }
            syn::Item::Mod(m) => {
                if let Some((_, items)) = &m.content {
                    walk(items, &format!("{path}{}::", m.ident), out);
                }
            }
            _ => {}
        }
    }
}

/// derive list of a struct/union item text produced by `type_inventory`
pub fn derives_of(item_text: &str) -> Vec<String> {
    let mut v = vec![];
    let mut rest = item_text;
    while let Some(i) = rest.find("derive (") {
        let r = &rest[i + 8..];
        if let Some(j) = r.find(')') {
            for d in r[..j].split(',') {
                let d = d.trim();
                if !d.is_empty() {
                    v.push(d.to_owned());
                }
            }
            rest = &r[j..];
        } else {
            break;
        }
    }
    v.sort();
    v
}
