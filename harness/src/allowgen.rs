//! Generator of C / C++ declaration graphs with a known dependency relation.
//!
//! Every declaration has a globally unique base token without underscores (`S3`, `T7`, `E5`, `C4`,
//! `B6`, `F12`, `V4`; enum variants `EA5`/`EB5`, unnamed-enum variants `KA9`/`KB9`), so a Rust
//! identifier of the bindings can be mapped back to the declaration it belongs to by splitting it at
//! `_` and looking the pieces up (`ns1_S3`, `E5_EA5`, `C4_m1` ...).  Base tokens are chosen so that
//! some are proper prefixes of others (`S1`, `S10`, `S12`).
use crate::rng::Rng;
use std::collections::{BTreeMap, BTreeSet};

#[derive(Debug, Clone, Copy, PartialEq, Eq, PartialOrd, Ord)]
pub enum DKind {
    Struct,
    Union,
    Typedef,
    Enum,
    UnnamedEnum,
    Class,
    Template,
    Function,
    Var,
}

impl DKind {
    pub fn is_type(self) -> bool {
        !matches!(self, DKind::Function | DKind::Var | DKind::UnnamedEnum)
    }
    pub fn name(self) -> &'static str {
        match self {
            DKind::Struct => "struct",
            DKind::Union => "union",
            DKind::Typedef => "typedef",
            DKind::Enum => "enum",
            DKind::UnnamedEnum => "unnamed-enum",
            DKind::Class => "class",
            DKind::Template => "template",
            DKind::Function => "function",
            DKind::Var => "var",
        }
    }
}

#[derive(Debug, Clone)]
pub struct Decl {
    pub base: String,
    pub kind: DKind,
    /// index of the namespace (C++ only), None = global
    pub ns: Option<usize>,
    /// 0 = main header, 1 = included header
    pub file: usize,
    pub deps: BTreeSet<usize>,
    pub text: String,
    /// enum / unnamed-enum variant tokens
    pub variants: Vec<String>,
    /// C size expression usable in a probe (`sizeof(struct S3)`), for types
    pub c_ref: String,
}

#[derive(Debug, Clone)]
pub struct Program {
    pub cxx: bool,
    pub decls: Vec<Decl>,
    pub namespaces: Vec<String>,
    /// number of leading decls placed in the included header
    pub inc_count: usize,
}

pub struct Shape {
    pub n_decls: usize,
    pub cxx: bool,
}

const BUILTINS: &[&str] = &["int", "char", "unsigned long", "double", "short", "unsigned char", "float", "long long"];

impl Program {
    /// C/C++ path used for allow-listing (`ns1::S3`)
    pub fn path(&self, i: usize) -> String {
        let d = &self.decls[i];
        match d.ns {
            Some(n) => format!("{}::{}", self.namespaces[n], d.base),
            None => d.base.clone(),
        }
    }

    /// paths under which an unnamed enum is allow-listed (its variants)
    pub fn variant_paths(&self, i: usize) -> Vec<String> {
        let d = &self.decls[i];
        d.variants
            .iter()
            .map(|v| match d.ns {
                Some(n) => format!("{}::{}", self.namespaces[n], v),
                None => v.clone(),
            })
            .collect()
    }

    pub fn type_ref(&self, i: usize) -> String {
        let d = &self.decls[i];
        let q = if self.cxx { self.path(i) } else { d.base.clone() };
        if self.cxx {
            return q;
        }
        match d.kind {
            DKind::Struct => format!("struct {q}"),
            DKind::Union => format!("union {q}"),
            DKind::Enum => format!("enum {q}"),
            _ => q,
        }
    }

    /// token -> declaration index (base tokens and variant tokens)
    pub fn token_map(&self) -> BTreeMap<String, usize> {
        let mut m = BTreeMap::new();
        for (i, d) in self.decls.iter().enumerate() {
            m.insert(d.base.clone(), i);
            for v in &d.variants {
                m.insert(v.clone(), i);
            }
        }
        m
    }

    /// declaration a Rust identifier belongs to (first `_`-separated piece that is a known token)
    pub fn resolve_ident(&self, map: &BTreeMap<String, usize>, ident: &str) -> Option<usize> {
        ident.split('_').find_map(|p| map.get(p).copied())
    }

    /// reflexive-transitive closure of `deps` from the given declarations
    pub fn closure(&self, roots: &BTreeSet<usize>) -> BTreeSet<usize> {
        let mut seen = roots.clone();
        let mut stack: Vec<usize> = roots.iter().copied().collect();
        while let Some(x) = stack.pop() {
            for &d in &self.decls[x].deps {
                if seen.insert(d) {
                    stack.push(d);
                }
            }
        }
        seen
    }

    pub fn header_texts(&self) -> (String, String) {
        let mut files = [String::new(), String::new()];
        let mut open: [Option<usize>; 2] = [None, None];
        for d in &self.decls {
            let f = d.file;
            if open[f] != d.ns {
                if open[f].is_some() {
                    files[f].push_str("}\n");
                }
                if let Some(n) = d.ns {
                    // nested namespace names are written `a::b` (C++17)
                    files[f].push_str(&format!("namespace {} {{\n", self.namespaces[n]));
                }
                open[f] = d.ns;
            }
            files[f].push_str(&d.text);
            files[f].push('\n');
        }
        for f in 0..2 {
            if open[f].is_some() {
                files[f].push_str("}\n");
            }
        }
        let [main, inc] = files;
        (main, inc)
    }
}

fn pick_type(p: &Program, rng: &mut Rng, deps: &mut BTreeSet<usize>, allow_void_ptr: bool) -> String {
    let types: Vec<usize> = p.decls.iter().enumerate().filter(|(_, d)| d.kind.is_type() && d.kind != DKind::Template).map(|(i, _)| i).collect();
    let templates: Vec<usize> = p.decls.iter().enumerate().filter(|(_, d)| d.kind == DKind::Template).map(|(i, _)| i).collect();
    let r = rng.below(100);
    if types.is_empty() || r < 25 {
        return (*rng.pick(BUILTINS)).to_owned();
    }
    if r < 32 && allow_void_ptr {
        return "void *".to_owned();
    }
    if r < 42 && !templates.is_empty() && p.cxx {
        let t = *rng.pick(&templates);
        let a = *rng.pick(&types);
        deps.insert(t);
        deps.insert(a);
        return format!("{}<{}>", p.type_ref(t), p.type_ref(a));
    }
    let t = *rng.pick(&types);
    deps.insert(t);
    let base = p.type_ref(t);
    match rng.below(10) {
        0..=5 => base,
        6 | 7 => format!("{base} *"),
        8 => format!("const {base} *"),
        _ => format!("{base} **"),
    }
}

/// a declared type the declaration under construction does not depend on yet (so that the use
/// being generated is the only path to it); falls back to `pick_type`
fn pick_fresh_type(p: &Program, rng: &mut Rng, deps: &mut BTreeSet<usize>) -> String {
    let fresh: Vec<usize> = p.decls.iter().enumerate().filter(|(i, d)| d.kind.is_type() && d.kind != DKind::Template && !deps.contains(i)).map(|(i, _)| i).collect();
    if fresh.is_empty() {
        return pick_type(p, rng, deps, true);
    }
    let t = *rng.pick(&fresh);
    deps.insert(t);
    let base = p.type_ref(t);
    match rng.below(4) {
        0 | 1 => base,
        2 => format!("{base} *"),
        _ => format!("const {base} *"),
    }
}

fn field(p: &Program, rng: &mut Rng, deps: &mut BTreeSet<usize>, idx: usize) -> String {
    let t = pick_type(p, rng, deps, true);
    match rng.below(12) {
        0 => format!("  {t} m{idx}[{}];", rng.range(1, 5)),
        1 if !t.contains('<') => {
            // function pointer member
            let a = pick_type(p, rng, deps, true);
            format!("  {t} (*m{idx})({a});")
        }
        _ => format!("  {t} m{idx};"),
    }
}

pub fn generate(rng: &mut Rng, shape: &Shape) -> Program {
    let cxx = shape.cxx;
    let mut p = Program { cxx, decls: vec![], namespaces: vec![], inc_count: 0 };
    if cxx {
        let n_ns = rng.below(3) as usize;
        for i in 0..n_ns {
            p.namespaces.push(format!("ns{i}"));
        }
        if n_ns > 0 && rng.chance(1, 2) {
            p.namespaces.push("ns0::in0".to_owned());
        }
    }
    let inc_count = if rng.chance(1, 2) { rng.below(shape.n_decls as u64 / 2 + 1) as usize } else { 0 };
    p.inc_count = inc_count;
    // numbering that creates proper-prefix names: 1, 10, 12, 2, 3, ...
    let numbers: Vec<u32> = {
        let mut v: Vec<u32> = vec![1, 10, 12, 2, 21, 3];
        let mut n = 4;
        while v.len() < shape.n_decls + 2 {
            if !v.contains(&n) {
                v.push(n);
            }
            n += 1;
        }
        // shuffle deterministically
        for i in (1..v.len()).rev() {
            let j = rng.below(i as u64 + 1) as usize;
            v.swap(i, j);
        }
        v
    };
    for k in 0..shape.n_decls {
        let num = numbers[k];
        let ns = if p.namespaces.is_empty() || rng.chance(1, 2) { None } else { Some(rng.below(p.namespaces.len() as u64) as usize) };
        let file = if k < inc_count { 1 } else { 0 };
        let mut deps = BTreeSet::new();
        let roll = rng.below(100);
        let (kind, letter) = if roll < 22 {
            (DKind::Struct, "S")
        } else if roll < 28 {
            (DKind::Union, "U")
        } else if roll < 40 {
            (DKind::Typedef, "T")
        } else if roll < 48 {
            (DKind::Enum, "E")
        } else if roll < 56 {
            (DKind::UnnamedEnum, "K")
        } else if roll < 66 && cxx {
            (DKind::Class, "C")
        } else if roll < 72 && cxx {
            (DKind::Template, "B")
        } else if roll < 88 {
            (DKind::Function, "F")
        } else {
            (DKind::Var, "V")
        };
        let base = format!("{letter}{num}");
        let mut variants = vec![];
        let text;
        let mut c_ref = String::new();
        match kind {
            DKind::Struct | DKind::Union => {
                let kw = if kind == DKind::Struct { "struct" } else { "union" };
                let nf = rng.range(1, 4);
                let mut body = String::new();
                for i in 0..nf {
                    body.push_str(&field(&p, rng, &mut deps, i as usize));
                    body.push('\n');
                }
                if rng.chance(1, 5) {
                    body.push_str(&format!("  {kw} {base} *self_;\n"));
                }
                if rng.chance(1, 6) {
                    // named nested record (C: visible at file scope; C++: a member type): an item of its own, a child of the
                    // enclosing record but generated from the module
                    body.push_str(&format!("  struct {base}_In {{ int na; char nb; }} named_in_;\n"));
                }
                if rng.chance(1, 6) && kind == DKind::Struct {
                    // anonymous inner struct member
                    body.push_str("  struct { int ia; char ib; } anon_;\n");
                }
                text = format!("{kw} {base} {{\n{body}}};");
                c_ref = format!("{kw} {base}");
            }
            DKind::Typedef => {
                let t = pick_type(&p, rng, &mut deps, true);
                if t.contains('<') || rng.chance(4, 5) {
                    text = format!("typedef {t} {base};");
                } else {
                    let a = pick_type(&p, rng, &mut deps, true);
                    text = format!("typedef {t} (*{base})({a});");
                }
                c_ref = base.clone();
            }
            DKind::Enum => {
                variants = vec![format!("EA{num}"), format!("EB{num}")];
                text = format!("enum {base} {{ EA{num} = {}, EB{num} }};", rng.below(5));
                c_ref = format!("enum {base}");
            }
            DKind::UnnamedEnum => {
                variants = vec![format!("KA{num}"), format!("KB{num}")];
                text = format!("enum {{ KA{num} = {}, KB{num} }};", rng.below(5));
            }
            DKind::Class => {
                let nf = rng.range(1, 3);
                let mut body = String::new();
                for i in 0..nf {
                    body.push_str(&field(&p, rng, &mut deps, i as usize));
                    body.push('\n');
                }
                let bases: Vec<usize> = p.decls.iter().enumerate().filter(|(_, d)| matches!(d.kind, DKind::Struct | DKind::Class)).map(|(i, _)| i).collect();
                let mut base_clause = String::new();
                // a class with virtual methods, no bases and no destructor gets a full `__bindgen_vtable` struct
                let virt = rng.chance(1, 3);
                let plain_vtable = virt && rng.chance(2, 3);
                if !bases.is_empty() && rng.chance(1, 3) && !plain_vtable {
                    let b = *rng.pick(&bases);
                    deps.insert(b);
                    base_clause = format!(" : public {}", p.type_ref(b));
                }
                if rng.chance(2, 3) {
                    let a = pick_type(&p, rng, &mut deps, true);
                    let r = pick_type(&p, rng, &mut deps, true);
                    body.push_str(&format!("  {r} f1({a} a);\n"));
                }
                if rng.chance(1, 3) {
                    body.push_str("  static int f2();\n");
                }
                if virt {
                    // virtual methods: their signature types are needed by the vtable struct
                    let a = pick_fresh_type(&p, rng, &mut deps);
                    let r = pick_fresh_type(&p, rng, &mut deps);
                    body.push_str(&format!("  virtual {r} fv1({a} a);\n"));
                    if rng.chance(1, 2) {
                        let a2 = pick_fresh_type(&p, rng, &mut deps);
                        body.push_str(&format!("  virtual void fv2({a2} a, int b) const;\n"));
                    }
                }
                if rng.chance(1, 3) {
                    let a = pick_type(&p, rng, &mut deps, true);
                    body.push_str(&format!("  {base}({a} a);\n"));
                }
                if rng.chance(1, 4) && !plain_vtable {
                    body.push_str(&format!("  ~{base}();\n"));
                }
                if rng.chance(1, 4) {
                    body.push_str("  struct I { int ia; };\n  I inner_;\n");
                }
                if rng.chance(1, 5) {
                    body.push_str("  static int sv_;\n");
                }
                text = format!("struct {base}{base_clause} {{\n{body}}};");
                c_ref = base.clone();
            }
            DKind::Template => {
                let mut body = String::from("  T v;\n  T *p;\n");
                if rng.chance(1, 2) {
                    body.push_str(&field(&p, rng, &mut deps, 3));
                    body.push('\n');
                }
                text = format!("template <typename T> struct {base} {{\n{body}}};");
            }
            DKind::Function => {
                let r = if rng.chance(1, 4) { "void".to_owned() } else { pick_type(&p, rng, &mut deps, true) };
                let na = rng.below(4);
                let mut args = vec![];
                for i in 0..na {
                    args.push(format!("{} a{i}", pick_type(&p, rng, &mut deps, true)));
                }
                let args = if args.is_empty() { if cxx { String::new() } else { "void".to_owned() } } else { args.join(", ") };
                text = format!("{r} {base}({args});");
            }
            DKind::Var => {
                // an initialised constant whose declared type is a typedef of an integer type: the binding is a
                // `pub const V: T = k;`, and the only path to `T` is the variable's type
                let int_typedefs: Vec<usize> = p.decls.iter().enumerate().filter(|(_, d)| d.kind == DKind::Typedef
                    && BUILTINS.iter().any(|b| *b != "double" && *b != "float" && d.text == format!("typedef {b} {};", d.base))).map(|(i, _)| i).collect();
                if !int_typedefs.is_empty() && rng.chance(1, 3) {
                    let t = *rng.pick(&int_typedefs);
                    deps.insert(t);
                    text = format!("static const {} {base} = {};", p.type_ref(t), rng.below(100));
                    deps.remove(&k);
                    p.decls.push(Decl { base, kind, ns, file, deps, text, variants, c_ref });
                    continue;
                }
                let t = pick_type(&p, rng, &mut deps, true);
                if rng.chance(1, 3) && !t.contains('*') && !t.contains('<') && BUILTINS.contains(&t.as_str()) && t != "double" && t != "float" {
                    text = format!("static const {t} {base} = {};", rng.below(100));
                } else {
                    text = format!("extern {t} {base};");
                }
            }
        }
        deps.remove(&k);
        p.decls.push(Decl { base, kind, ns, file, deps, text, variants, c_ref });
    }
    p
}
