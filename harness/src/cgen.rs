//! Generator of C / C++ header programs from bindgen's own domain (records, bit-fields, unions,
//! enums, typedefs, function pointers, arrays, macros, static inline functions, globals; C++:
//! namespaces, classes with methods, templates, inheritance, references, overloads).
//! Every random choice comes from the `Rng` passed in.  A program is a list of top-level
//! declarations (one string each) so that callers can mutate / splice at declaration, line or
//! token level.
use crate::rng::Rng;

#[derive(Clone, Debug)]
pub struct Program {
    pub cpp: bool,
    pub decls: Vec<String>,
    /// names of static inline functions (wrap-static-fns candidates)
    pub static_fns: Vec<String>,
    /// names of plain functions
    pub fns: Vec<String>,
    /// histogram of declaration kinds
    pub kinds: Vec<(&'static str, usize)>,
}

impl Program {
    pub fn text(&self) -> String {
        let mut s = String::new();
        for d in &self.decls {
            s.push_str(d);
            s.push('\n');
        }
        s
    }
    pub fn ext(&self) -> &'static str {
        if self.cpp { "hpp" } else { "h" }
    }
    pub fn clang_args(&self) -> Vec<String> {
        if self.cpp { vec!["-x".into(), "c++".into(), "-std=c++14".into()] } else { vec![] }
    }
}

const PRIMS: &[&str] = &[
    "char", "signed char", "unsigned char", "short", "unsigned short", "int", "unsigned int", "long",
    "unsigned long", "long long", "unsigned long long", "float", "double", "_Bool", "long double",
];

struct G<'a> {
    r: &'a mut Rng,
    cpp: bool,
    structs: Vec<String>,
    unions: Vec<String>,
    enums: Vec<String>,
    typedefs: Vec<String>,
    templates: Vec<String>,
    macros: Vec<String>,
    n: usize,
    kinds: std::collections::BTreeMap<&'static str, usize>,
}

impl<'a> G<'a> {
    fn fresh(&mut self, p: &str) -> String {
        self.n += 1;
        format!("{p}{}", self.n)
    }
    fn hit(&mut self, k: &'static str) {
        *self.kinds.entry(k).or_insert(0) += 1;
    }
    fn prim(&mut self) -> String {
        let p = *self.r.pick(PRIMS);
        if self.cpp && p == "_Bool" { "bool".into() } else { p.into() }
    }
    /// a complete object type usable as a field / by-value parameter
    fn ty(&mut self, depth: u32) -> String {
        let k = self.r.below(10);
        let tag = |s: &str, cpp: bool, kw: &str| if cpp { s.to_owned() } else { format!("{kw} {s}") };
        match k {
            0 | 1 if !self.structs.is_empty() => { let s = self.r.pick(&self.structs).clone(); tag(&s, self.cpp, "struct") }
            2 if !self.unions.is_empty() => { let s = self.r.pick(&self.unions).clone(); tag(&s, self.cpp, "union") }
            3 if !self.enums.is_empty() => { let s = self.r.pick(&self.enums).clone(); tag(&s, self.cpp, "enum") }
            4 if !self.typedefs.is_empty() => self.r.pick(&self.typedefs).clone(),
            5 if depth < 3 => format!("{} *", self.ty(depth + 1)),
            6 if self.cpp && !self.templates.is_empty() => {
                let t = self.r.pick(&self.templates).clone();
                let a = self.prim();
                format!("{t}<{a}>")
            }
            _ => self.prim(),
        }
    }
    fn field(&mut self, name: &str) -> String {
        match self.r.below(12) {
            0 => format!("  {} {name}[{}];", self.ty(1), self.r.range(1, 40)),
            1 => format!("  {} {name}[{}][{}];", self.prim(), self.r.range(1, 5), self.r.range(1, 5)),
            2 | 3 => {
                let t = *self.r.pick(&["int", "unsigned int", "unsigned char", "unsigned short", "unsigned long long", "long"]);
                let max = match t { "unsigned char" => 8, "unsigned short" => 16, "int" | "unsigned int" => 32, _ => 64 };
                format!("  {t} {name} : {};", self.r.range(1, max))
            }
            4 => format!("  {} (*{name})({}, {});", self.prim(), self.ty(1), self.prim()),
            5 => format!("  struct {{ {} a; {} b; }} {name};", self.prim(), self.prim()),
            6 => format!("  union {{ {} {name}_a; {} {name}_b; }};", self.prim(), self.ty(1)),
            _ => format!("  {} {name};", self.ty(0)),
        }
    }
    fn record(&mut self) -> String {
        let is_union = self.r.chance(1, 6);
        let name = if is_union { self.fresh("U") } else { self.fresh("S") };
        let nf = self.r.range(1, 9);
        let mut body = String::new();
        for i in 0..nf {
            body.push_str(&self.field(&format!("f{i}")));
            body.push('\n');
        }
        let attr = match self.r.below(10) {
            0 => " __attribute__((packed))",
            1 => " __attribute__((aligned(16)))",
            2 => " __attribute__((aligned(64)))",
            _ => "",
        };
        let kw = if is_union { "union" } else { "struct" };
        self.hit(if is_union { "union" } else { "struct" });
        let d = format!("{kw}{attr} {name} {{\n{body}}};");
        if is_union { self.unions.push(name) } else { self.structs.push(name) }
        d
    }
    fn enumeration(&mut self) -> String {
        let name = self.fresh("E");
        let n = self.r.range(1, 8);
        let mut vs = vec![];
        for i in 0..n {
            let v = match self.r.below(4) {
                0 => format!("{name}_v{i}"),
                1 => format!("{name}_v{i} = {}", self.r.below(1000)),
                2 => format!("{name}_v{i} = -{}", self.r.below(100)),
                _ => format!("{name}_v{i} = 1 << {}", self.r.below(20)),
            };
            vs.push(v);
        }
        self.hit("enum");
        let class = if self.cpp && self.r.chance(1, 4) { "class " } else { "" };
        let d = format!("enum {class}{name} {{ {} }};", vs.join(", "));
        self.enums.push(name);
        d
    }
    fn typedef(&mut self) -> String {
        let name = self.fresh("T");
        self.hit("typedef");
        let d = match self.r.below(4) {
            0 => format!("typedef {} (*{name})({});", self.prim(), self.ty(1)),
            1 => {
                // array typedefs are declared but not reused (they cannot be returned by value)
                return format!("typedef {} {name}[{}];", self.prim(), self.r.range(1, 70));
            }
            _ => format!("typedef {} {name};", self.ty(0)),
        };
        self.typedefs.push(name);
        d
    }
    fn params(&mut self) -> String {
        let n = self.r.below(5);
        if n == 0 {
            return if self.cpp { String::new() } else { "void".into() };
        }
        (0..n).map(|i| format!("{} a{i}", self.ty(1))).collect::<Vec<_>>().join(", ")
    }
    fn function(&mut self, fns: &mut Vec<String>) -> String {
        let name = self.fresh("fn");
        self.hit("function");
        let ret = if self.r.chance(1, 4) { "void".to_owned() } else { self.ty(1) };
        let mut p = self.params();
        if self.r.chance(1, 8) && p != "void" && !p.is_empty() {
            p.push_str(", ...");
        }
        fns.push(name.clone());
        format!("{ret} {name}({p});")
    }
    fn static_fn(&mut self, sfns: &mut Vec<String>) -> String {
        let name = self.fresh("sfn");
        self.hit("static_inline");
        let t = *self.r.pick(&["int", "unsigned int", "long", "unsigned char", "double"]);
        let n = self.r.range(1, 3);
        let ps: Vec<String> = (0..n).map(|i| format!("{t} a{i}")).collect();
        let expr: Vec<String> = (0..n).map(|i| format!("a{i}")).collect();
        sfns.push(name.clone());
        format!("static inline {t} {name}({}) {{ return {} + {}; }}", ps.join(", "), expr.join(" * "), self.r.below(100))
    }
    fn global(&mut self) -> String {
        let name = self.fresh("g");
        self.hit("var");
        match self.r.below(4) {
            0 => format!("extern {} {name};", self.ty(1)),
            1 => format!("static const int {name} = {};", self.r.below(100000)),
            2 => format!("extern const {} {name}[{}];", self.prim(), self.r.range(1, 9)),
            _ => format!("static const unsigned long long {name} = {}ULL;", self.r.next() >> self.r.below(60)),
        }
    }
    fn macro_(&mut self) -> String {
        let name = self.fresh("M");
        self.hit("macro");
        let d = match self.r.below(7) {
            0 => format!("#define {name} {}", self.r.below(1 << 20)),
            1 => format!("#define {name} 0x{:x}", self.r.next() >> self.r.below(60)),
            2 => format!("#define {name} \"s{}\"", self.r.below(1000)),
            3 if !self.macros.is_empty() => { let m = self.r.pick(&self.macros).clone(); format!("#define {name} ({m} + {})", self.r.below(50)) }
            4 => format!("#define {name}(x) ((x) * {})", self.r.range(1, 9)),
            5 => format!("#define {name} {}.{}", self.r.below(100), self.r.below(100)),
            _ => format!("#define {name} (-{})", self.r.below(1 << 16)),
        };
        self.macros.push(name);
        d
    }
    fn class(&mut self) -> String {
        let name = self.fresh("C");
        self.hit("class");
        let mut body = String::new();
        let base = if !self.structs.is_empty() && self.r.chance(1, 3) {
            format!(" : public {}", self.r.pick(&self.structs).clone())
        } else { String::new() };
        body.push_str("public:\n");
        for i in 0..self.r.range(1, 4) {
            body.push_str(&self.field(&format!("m{i}")));
            body.push('\n');
        }
        if self.r.chance(1, 2) { body.push_str(&format!("  {name}();\n")); }
        if self.r.chance(1, 3) { body.push_str(&format!("  {name}(int a, {} b);\n", self.prim())); }
        if self.r.chance(1, 3) { body.push_str(&format!("  virtual ~{name}();\n")); }
        for i in 0..self.r.below(4) {
            let q = *self.r.pick(&["", "virtual ", "static "]);
            let c = if q != "static " && self.r.chance(1, 3) { " const" } else { "" };
            body.push_str(&format!("  {q}{} meth{i}({}){c};\n", self.prim(), self.params()));
        }
        if self.r.chance(1, 4) { body.push_str(&format!("  {} operator+(const {name}& o) const;\n", name)); }
        let d = format!("class {name}{base} {{\n{body}}};");
        self.structs.push(name);
        d
    }
    fn template(&mut self) -> String {
        let name = self.fresh("Tp");
        self.hit("template");
        let d = match self.r.below(3) {
            0 => format!("template <typename T> struct {name} {{ T v; T *p; int n; }};"),
            1 => format!("template <typename T, typename U> struct {name} {{ T a; U b[{}]; {name}<U, T> *o; }};", self.r.range(1, 5)),
            _ => format!("template <typename T> struct {name} {{ T items[{}]; struct Inner {{ T x; }} in; }};", self.r.range(1, 9)),
        };
        if !d.contains("typename T, typename U") {
            self.templates.push(name);
        }
        d
    }
}

/// Generate a program of about `size` top-level declarations.
pub fn program(r: &mut Rng, cpp: bool, size: usize) -> Program {
    let mut fns = vec![];
    let mut sfns = vec![];
    let mut decls = vec![];
    let kinds;
    {
        let mut g = G { r, cpp, structs: vec![], unions: vec![], enums: vec![], typedefs: vec![], templates: vec![],
                        macros: vec![], n: 0, kinds: Default::default() };
        let mut open_ns = 0usize;
        let mut ns_marks: Vec<[usize; 5]> = vec![];
        for _ in 0..size {
            let k = g.r.below(if cpp { 16 } else { 11 });
            let d = match k {
                0..=2 => g.record(),
                3 => g.enumeration(),
                4 => g.typedef(),
                5 | 6 => g.function(&mut fns),
                7 => g.static_fn(&mut sfns),
                8 => g.global(),
                9 | 10 => g.macro_(),
                11 | 12 => g.class(),
                13 => g.template(),
                14 => {
                    if open_ns < 2 && g.r.chance(1, 2) {
                        open_ns += 1;
                        ns_marks.push([g.structs.len(), g.unions.len(), g.enums.len(), g.typedefs.len(), g.templates.len()]);
                        g.hit("namespace");
                        let n = g.fresh("ns");
                        format!("namespace {n} {{")
                    } else if open_ns > 0 {
                        open_ns -= 1;
                        // names declared inside the namespace are not visible unqualified outside
                        if let Some(m) = ns_marks.pop() {
                            g.structs.truncate(m[0]); g.unions.truncate(m[1]); g.enums.truncate(m[2]);
                            g.typedefs.truncate(m[3]); g.templates.truncate(m[4]);
                        }
                        "}".to_owned()
                    } else {
                        g.function(&mut fns)
                    }
                }
                _ => {
                    // overload of an existing function
                    if let Some(f) = fns.last().cloned() {
                        g.hit("overload");
                        format!("int {f}({} x, {} y, char z);", g.prim(), g.prim())
                    } else {
                        g.function(&mut fns)
                    }
                }
            };
            decls.push(d);
        }
        for _ in 0..open_ns {
            decls.push("}".to_owned());
        }
        kinds = g.kinds.iter().map(|(k, v)| (*k, *v)).collect();
    }
    Program { cpp, decls, static_fns: sfns, fns, kinds }
}

/// A deeply nested declaration of the requested shape (C12: nesting to depth 200).
pub fn nested(shape: &str, depth: usize) -> (String, bool) {
    match shape {
        "struct" => {
            let mut s = String::new();
            for i in 0..depth { s.push_str(&format!("struct N{i} {{ int a{i}; ")); }
            s.push_str("int leaf;");
            for i in (0..depth).rev() { s.push_str(&format!(" }} m{i};")); }
            // the outermost `} m0;` declares a variable; fine
            (s, false)
        }
        "anonstruct" => {
            let mut s = String::from("struct Top { ");
            for i in 0..depth { s.push_str(&format!("struct {{ int a{i}; ")); }
            s.push_str("int leaf;");
            for i in (0..depth).rev() { s.push_str(&format!(" }} m{i};")); }
            s.push_str(" };");
            (s, false)
        }
        "structdef" => {
            let mut s = String::new();
            for i in 0..depth { s.push_str(&format!("struct D{i} {{ int a{i}; ")); }
            s.push_str("int leaf;");
            for _ in 0..depth { s.push_str(" };"); }
            (s, false)
        }
        "pointer" => (format!("typedef int {} deep_ptr;\ndeep_ptr get(void);", "*".repeat(depth)), false),
        "array" => {
            let dims: String = (0..depth).map(|_| "[1]").collect();
            (format!("struct A {{ char a{dims}; }};\nextern int arr{dims};"), false)
        }
        "fnptr" => {
            // function returning pointer to function returning pointer to function ...
            let mut t = "int".to_owned();
            for i in 0..depth { t = format!("typedef {} (*F{i})({});", if i == 0 { "int".to_owned() } else { format!("F{}", i - 1) }, if i == 0 { "void".to_owned() } else { format!("F{}", i - 1) }) + "\n" + &t; }
            // reorder: typedef lines must be in increasing order
            let mut lines: Vec<&str> = t.lines().collect();
            lines.pop();
            lines.reverse();
            (lines.join("\n") + &format!("\nF{} top;", depth.saturating_sub(1)), false)
        }
        "template" => {
            let mut t = "int".to_owned();
            for _ in 0..depth { t = format!("W<{t} >"); }
            (format!("template <typename T> struct W {{ T v; }};\n{t} deep;\nstruct Holder {{ {t} h; }};"), true)
        }
        "namespace" => {
            let mut s = String::new();
            for i in 0..depth { s.push_str(&format!("namespace n{i} {{ ")); }
            s.push_str("struct Leaf { int x; }; int f(Leaf);");
            for _ in 0..depth { s.push_str(" }"); }
            (s, true)
        }
        "inherit" => {
            let mut s = "struct B0 { int x0; virtual void f(); };\n".to_owned();
            for i in 1..depth { s.push_str(&format!("struct B{i} : B{} {{ int x{i}; }};\n", i - 1)); }
            (s, true)
        }
        "paren" => (format!("int x = {}1{};", "(".repeat(depth), ")".repeat(depth)), false),
        _ => (format!("typedef struct L L; struct L {{ L {}next; }};", "*".repeat(depth.max(1))), false),
    }
}
