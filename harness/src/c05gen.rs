//! C05: macro-body AST of the typed grammar, printers (C text / model protocol), static
//! typing and the known-finding region predicates (mirror of lean Model/CExpr.lean `typeOf`,
//! `hasUnsigned`, Model/CRegions.lean), and the random generator.
use crate::rng::Rng;
use std::collections::HashMap;

#[derive(Clone, Copy, Debug, PartialEq, Eq, Hash)]
pub enum CTy { Bool, Char, SChar, UChar, Short, UShort, Int, UInt, Long, ULong, LLong, ULLong, Float, Double, LDouble }
use CTy::*;

pub const INT_TYPES: [CTy; 12] = [Bool, Char, SChar, UChar, Short, UShort, Int, UInt, Long, ULong, LLong, ULLong];

impl CTy {
    pub fn c_name(self) -> &'static str {
        match self {
            Bool => "_Bool", Char => "char", SChar => "signed char", UChar => "unsigned char", Short => "short",
            UShort => "unsigned short", Int => "int", UInt => "unsigned int", Long => "long", ULong => "unsigned long",
            LLong => "long long", ULLong => "unsigned long long", Float => "float", Double => "double", LDouble => "long double",
        }
    }
    pub fn proto(self) -> &'static str {
        match self {
            Bool => "bool", Char => "char", SChar => "schar", UChar => "uchar", Short => "short", UShort => "ushort",
            Int => "int", UInt => "uint", Long => "long", ULong => "ulong", LLong => "llong", ULLong => "ullong",
            Float => "float", Double => "double", LDouble => "ldouble",
        }
    }
    pub fn from_proto(s: &str) -> Option<CTy> {
        INT_TYPES.iter().chain([Float, Double, LDouble].iter()).copied().find(|t| t.proto() == s)
    }
    pub fn is_float(self) -> bool { matches!(self, Float | Double | LDouble) }
    pub fn bits(self) -> u32 {
        match self { Bool | Char | SChar | UChar => 8, Short | UShort => 16, Int | UInt | Float => 32, LDouble => 128, _ => 64 }
    }
    pub fn signed(self) -> bool { matches!(self, Char | SChar | Short | Int | Long | LLong) }
    pub fn is_unsigned_int(self) -> bool { !self.is_float() && !self.signed() }
    pub fn rank(self) -> u32 {
        match self { Bool => 0, Char | SChar | UChar => 1, Short | UShort => 2, Int | UInt => 3, Long | ULong => 4, LLong | ULLong => 5, _ => 6 }
    }
    pub fn lo(self) -> i128 { if self.signed() { -(1i128 << (self.bits() - 1)) } else { 0 } }
    pub fn hi(self) -> i128 {
        if self == Bool { 1 } else if self.signed() { (1i128 << (self.bits() - 1)) - 1 } else { (1i128 << self.bits()) - 1 }
    }
    pub fn holds(self, v: i128) -> bool { self.lo() <= v && v <= self.hi() }
    pub fn to_unsigned(self) -> CTy { match self { Int => UInt, Long => ULong, LLong => ULLong, t => t } }
    /// the Rust spelling bindgen prints (`int_kind_rust_type`, raw types without the path)
    pub fn rust_name(self) -> &'static str {
        match self {
            Bool => "bool", Char => "c_char", SChar => "c_schar", UChar => "c_uchar", Short => "c_short", UShort => "c_ushort",
            Int => "c_int", UInt => "c_uint", Long => "c_long", ULong => "c_ulong", LLong => "c_longlong", ULLong => "c_ulonglong",
            Float => "f32", Double => "f64", LDouble => "u128",
        }
    }
}

pub fn promote(t: CTy) -> CTy { if t.is_float() { t } else if t.rank() < 3 { Int } else { t } }

pub fn uac_int(a: CTy, b: CTy) -> CTy {
    if a == b { return a; }
    if a.signed() == b.signed() { return if a.rank() < b.rank() { b } else { a }; }
    let (s, u) = if a.signed() { (a, b) } else { (b, a) };
    if s.rank() <= u.rank() { u } else if u.bits() < s.bits() { s } else { s.to_unsigned() }
}

pub fn uac(a: CTy, b: CTy) -> CTy {
    if a == LDouble || b == LDouble { LDouble }
    else if a == Double || b == Double { Double }
    else if a == Float || b == Float { Float }
    else { uac_int(promote(a), promote(b)) }
}

#[derive(Clone, Copy, Debug, PartialEq, Eq)]
pub enum Suf { None, U, L, UL, LL, ULL }

pub fn lit_type(dec: bool, n: u128, suf: Suf) -> Option<CTy> {
    let cands: &[CTy] = match (suf, dec) {
        (Suf::None, true) => &[Int, Long, LLong, ULLong],
        (Suf::None, false) => &[Int, UInt, Long, ULong, LLong, ULLong],
        (Suf::U, _) => &[UInt, ULong, ULLong],
        (Suf::L, true) => &[Long, LLong, ULLong],
        (Suf::L, false) => &[Long, ULong, LLong, ULLong],
        (Suf::UL, _) => &[ULong, ULLong],
        (Suf::LL, _) => &[LLong, ULLong],
        (Suf::ULL, _) => &[ULLong],
    };
    cands.iter().copied().find(|t| n <= i128::MAX as u128 && t.holds(n as i128))
}

#[derive(Clone, Copy, Debug, PartialEq, Eq)]
pub enum Pre { None, L, U8, U16, U32 }
impl Pre {
    pub fn c(self) -> &'static str { match self { Pre::None => "", Pre::L => "L", Pre::U8 => "u8", Pre::U16 => "u", Pre::U32 => "U" } }
    pub fn proto(self) -> &'static str { match self { Pre::None => "n", Pre::L => "L", Pre::U8 => "u8", Pre::U16 => "u", Pre::U32 => "U" } }
}

#[derive(Clone, Debug)]
pub enum E {
    /// text as written, decimal?, value, suffix class
    Int { text: String, dec: bool, n: u128, suf: Suf },
    /// text as written, suffix ('n','f','l'), f64 / f32 nearest to the digits
    Flt { text: String, suf: char, b64: u64, b32: u32 },
    Chr { text: String, pre: Pre, code: u32 },
    Str { text: String, pre: Pre, bytes: Vec<u8> },
    Cat(Box<E>, Box<E>),
    Ident(String),
    Paren(Box<E>),
    Un(&'static str, Box<E>),
    Bin(&'static str, Box<E>, Box<E>),
    Cond(Box<E>, Box<E>, Box<E>),
    Cast(CTy, Box<E>),
    SizeofTy(CTy),
}

fn hex(bytes: &[u8]) -> String {
    if bytes.is_empty() { return "-".into(); }
    bytes.iter().map(|b| format!("{b:02x}")).collect()
}

impl E {
    pub fn to_c(&self) -> String {
        match self {
            E::Int { text, .. } | E::Flt { text, .. } | E::Chr { text, .. } | E::Str { text, .. } => text.clone(),
            E::Cat(a, b) => format!("{} {}", a.to_c(), b.to_c()),
            E::Ident(n) => n.clone(),
            E::Paren(e) => format!("({})", e.to_c()),
            E::Un(op, e) => format!("{}{}", op, e.to_c()),
            E::Bin(op, a, b) => format!("{} {} {}", a.to_c(), op, b.to_c()),
            E::Cond(c, a, b) => format!("{} ? {} : {}", c.to_c(), a.to_c(), b.to_c()),
            E::Cast(t, e) => format!("({}){}", t.c_name(), e.to_c()),
            E::SizeofTy(t) => format!("sizeof({})", t.c_name()),
        }
    }
    pub fn to_proto(&self) -> String {
        match self {
            E::Int { text, .. } => format!("i:{text}"),
            E::Flt { text, suf, b64, b32 } => format!("f:{suf}:{b64:016x}:{b32:08x}:{}", (text.contains('.') && (text.contains('e') || text.contains('E'))) as u8),
            E::Chr { pre, code, .. } => format!("c:{}:{}", pre.proto(), code),
            E::Str { pre, bytes, .. } => format!("s:{}:{}", pre.proto(), hex(bytes)),
            E::Cat(a, b) => format!("j,{},{}", a.to_proto(), b.to_proto()),
            E::Ident(n) => format!("n:{n}"),
            E::Paren(e) => format!("p,{}", e.to_proto()),
            E::Un(op, e) => format!("u{},{}", op, e.to_proto()),
            E::Bin(op, a, b) => format!("b{},{},{}", op, a.to_proto(), b.to_proto()),
            E::Cond(c, a, b) => format!("?,{},{},{}", c.to_proto(), a.to_proto(), b.to_proto()),
            E::Cast(t, e) => format!("k:{},{}", t.proto(), e.to_proto()),
            E::SizeofTy(t) => format!("z:{}", t.proto()),
        }
    }
    pub fn refs(&self, out: &mut Vec<String>) {
        match self {
            E::Ident(n) => out.push(n.clone()),
            E::Paren(e) | E::Un(_, e) | E::Cast(_, e) => e.refs(out),
            E::Bin(_, a, b) | E::Cat(a, b) => { a.refs(out); b.refs(out); }
            E::Cond(c, a, b) => { c.refs(out); a.refs(out); b.refs(out); }
            _ => {}
        }
    }
    pub fn size(&self) -> usize {
        match self {
            E::Paren(e) | E::Un(_, e) | E::Cast(_, e) => 1 + e.size(),
            E::Bin(_, a, b) | E::Cat(a, b) => 1 + a.size() + b.size(),
            E::Cond(c, a, b) => 1 + c.size() + a.size() + b.size(),
            _ => 1,
        }
    }
    /// constructor names occurring (coverage histogram)
    pub fn kinds(&self, h: &mut HashMap<String, u64>) {
        let k = match self {
            E::Int { .. } => "int-literal".to_string(), E::Flt { .. } => "float-literal".into(), E::Chr { .. } => "char-literal".into(),
            E::Str { .. } => "string-literal".into(), E::Cat(..) => "string-concat".into(), E::Ident(_) => "macro-reference".into(),
            E::Paren(_) => "parens".into(), E::Un(op, _) => format!("unary{op}"), E::Bin(op, ..) => format!("binary{op}"),
            E::Cond(..) => "conditional".into(), E::Cast(..) => "cast".into(), E::SizeofTy(_) => "sizeof".into(),
        };
        *h.entry(k).or_insert(0) += 1;
        match self {
            E::Paren(e) | E::Un(_, e) | E::Cast(_, e) => e.kinds(h),
            E::Bin(_, a, b) | E::Cat(a, b) => { a.kinds(h); b.kinds(h); }
            E::Cond(c, a, b) => { c.kinds(h); a.kinds(h); b.kinds(h); }
            _ => {}
        }
    }
}

// ---------------------------------------------------------------- static typing + regions (mirror of the Lean model)

pub fn type_of(tenv: &HashMap<String, CTy>, e: &E) -> Option<CTy> {
    match e {
        E::Int { dec, n, suf, .. } => lit_type(*dec, *n, *suf),
        E::Flt { suf, .. } => Some(match suf { 'f' => Float, 'l' => LDouble, _ => Double }),
        E::Chr { pre, .. } => Some(match pre { Pre::U16 => UShort, Pre::U32 => UInt, _ => Int }),
        E::Str { .. } | E::Cat(..) => None,
        E::Ident(n) => tenv.get(n).copied(),
        E::Paren(e) => type_of(tenv, e),
        E::Un(op, e) => type_of(tenv, e).map(|t| if *op == "!" { Int } else { promote(t) }),
        E::Bin(op, a, b) => {
            let (ta, tb) = (type_of(tenv, a)?, type_of(tenv, b)?);
            Some(match *op {
                "<<" | ">>" => promote(ta),
                "<" | ">" | "<=" | ">=" | "==" | "!=" | "&&" | "||" => Int,
                _ => uac(ta, tb),
            })
        }
        E::Cond(_, a, b) => Some(uac(type_of(tenv, a)?, type_of(tenv, b)?)),
        E::Cast(t, _) => Some(*t),
        E::SizeofTy(_) => Some(ULong),
    }
}

fn uns(t: Option<CTy>) -> bool { t.map_or(false, |t| t.is_unsigned_int()) }

pub fn has_unsigned(tenv: &HashMap<String, CTy>, e: &E) -> bool {
    match e {
        E::Paren(x) => has_unsigned(tenv, x),
        E::Un(_, x) => has_unsigned(tenv, x) || uns(type_of(tenv, e)),
        E::Bin(_, a, b) => has_unsigned(tenv, a) || has_unsigned(tenv, b) || uns(type_of(tenv, e)),
        E::Cond(c, a, b) => has_unsigned(tenv, c) || has_unsigned(tenv, a) || has_unsigned(tenv, b) || uns(type_of(tenv, e)),
        E::Cast(t, x) => has_unsigned(tenv, x) || t.is_unsigned_int(),
        E::Cat(a, b) => has_unsigned(tenv, a) || has_unsigned(tenv, b),
        _ => uns(type_of(tenv, e)),
    }
}

pub fn has_float_suffix(e: &E) -> bool {
    match e {
        E::Flt { suf, .. } => *suf != 'n',
        E::Paren(x) | E::Un(_, x) | E::Cast(_, x) => has_float_suffix(x),
        E::Bin(_, a, b) | E::Cat(a, b) => has_float_suffix(a) || has_float_suffix(b),
        E::Cond(c, a, b) => has_float_suffix(c) || has_float_suffix(a) || has_float_suffix(b),
        _ => false,
    }
}

pub fn has_wide_string(e: &E) -> bool {
    match e {
        E::Str { pre, .. } => matches!(pre, Pre::L | Pre::U16 | Pre::U32),
        E::Paren(x) => has_wide_string(x),
        E::Cat(a, b) => has_wide_string(a) || has_wide_string(b),
        _ => false,
    }
}

pub fn char_high_local(e: &E) -> bool {
    match e {
        E::Paren(x) => char_high_local(x),
        E::Chr { code, .. } => *code >= 128,
        _ => false,
    }
}

#[derive(Clone, Copy, Default, Debug, PartialEq, Eq)]
pub struct Flags { pub u: bool, pub c: bool, pub r: bool, pub f: bool, pub w: bool, pub p: bool, pub o: bool }
impl Flags {
    pub fn or(self, o: Flags) -> Flags { Flags { u: self.u || o.u, c: self.c || o.c, r: self.r || o.r, f: self.f || o.f, w: self.w || o.w, p: self.p || o.p, o: self.o || o.o } }
    pub fn any(self) -> bool { self.u || self.c || self.r || self.f || self.w || self.p }
    pub fn text(self) -> String {
        let mut s = String::new();
        if self.u { s.push('u') } if self.c { s.push('c') } if self.r { s.push('r') } if self.f { s.push('f') } if self.w { s.push('w') } if self.p { s.push('p') }
        if s.is_empty() { "-".into() } else { s }
    }
}

pub fn local_flags(tenv: &HashMap<String, CTy>, e: &E) -> Flags {
    Flags { u: has_unsigned(tenv, e), c: char_high_local(e), r: false, f: has_float_suffix(e), w: has_wide_string(e), p: false, o: false }
}

/// flags of every definition, in header order (mirror of `nameFlags` / `defFlags`)
pub fn def_flags(tenv: &HashMap<String, CTy>, defs: &[(String, E)]) -> Vec<Flags> {
    let mut count: HashMap<&str, usize> = HashMap::new();
    for (n, _) in defs { *count.entry(n.as_str()).or_insert(0) += 1; }
    let mut first: Vec<&str> = vec![];
    for (n, _) in defs { if !first.contains(&n.as_str()) { first.push(n.as_str()); } }
    let body_flags = |nf: &HashMap<String, Flags>, e: &E| -> Flags {
        let mut r = vec![];
        e.refs(&mut r);
        let mut f = r.iter().fold(local_flags(tenv, e), |acc, n| {
            let g = nf.get(n).copied().unwrap_or_default();
            acc.or(Flags { o: false, p: g.p || g.o, ..g })
        });
        // top-level operator binary / ?: , or an alias of an open name
        f.o = match e { E::Bin(..) | E::Cond(..) => true, E::Ident(n) => nf.get(n).map_or(false, |g| g.o), _ => false };
        f
    };
    let mut nf: HashMap<String, Flags> = HashMap::new();
    for n in first {
        let mut f = Flags { r: count[n] >= 2, ..Default::default() };
        for (m, b) in defs { if m == n { f = f.or(body_flags(&nf, b)); } }
        nf.insert(n.to_string(), f);
    }
    defs.iter().map(|(n, b)| body_flags(&nf, b).or(Flags { r: count[n.as_str()] >= 2, ..Default::default() })).collect()
}

// ---------------------------------------------------------------- generator

pub const INTERESTING: [u128; 30] = [
    0, 1, 2, 3, 7, 10, 63, 64, 100, 127, 128, 255, 256, 1000, 32767, 32768, 65535, 65536, 0x7fff_ffff, 0x8000_0000,
    0xffff_ffff, 0x1_0000_0000, 0x7fff_ffff_ffff_ffff, 0x8000_0000_0000_0000, 0xffff_ffff_ffff_ffff, 0xffff_ffff_ffff_fffe,
    0x1234_5678, 0xdead_beef, 0x0123_4567_89ab_cdef, 12345678901234,
];

pub fn gen_int_value(r: &mut Rng, small_bias: bool) -> u128 {
    match r.below(if small_bias { 14 } else { 10 }) {
        0..=3 => *r.pick(&INTERESTING),
        4 | 5 => { let w = r.range(1, 64); (r.next() as u128) & ((1u128 << w) - 1) }
        6 => { let v = *r.pick(&INTERESTING); if r.chance(1, 2) { v.saturating_sub(1) } else { (v + 1).min(u64::MAX as u128) } }
        _ => r.below(300) as u128,
    }
}

pub fn int_lit(r: &mut Rng, n: u128, allow_unsigned_suffix: bool) -> E {
    let radix = r.below(10);
    let (body, dec) = match radix {
        0..=4 => (format!("{n}"), true),
        5..=7 => (if r.chance(1, 2) { format!("0x{n:x}") } else { format!("0X{n:X}") }, false),
        8 => (if n == 0 { "0".to_string() } else { format!("0{n:o}") }, n == 0),
        _ => (if r.chance(1, 2) { format!("0b{n:b}") } else { format!("0B{n:b}") }, false),
    };
    let sufs: &[(&str, Suf)] = if allow_unsigned_suffix {
        &[("", Suf::None), ("", Suf::None), ("", Suf::None), ("u", Suf::U), ("U", Suf::U), ("l", Suf::L), ("L", Suf::L), ("ul", Suf::UL), ("UL", Suf::UL),
          ("lu", Suf::UL), ("Lu", Suf::UL), ("ll", Suf::LL), ("LL", Suf::LL), ("ull", Suf::ULL), ("ULL", Suf::ULL), ("llu", Suf::ULL), ("LLU", Suf::ULL), ("uLL", Suf::ULL)]
    } else {
        &[("", Suf::None), ("", Suf::None), ("", Suf::None), ("l", Suf::L), ("L", Suf::L), ("ll", Suf::LL), ("LL", Suf::LL)]
    };
    let (st, suf) = *r.pick(sufs);
    E::Int { text: format!("{body}{st}"), dec, n, suf }
}

pub fn float_lit(r: &mut Rng) -> E {
    let digits = match r.below(8) {
        0 => "1.1".to_string(), 1 => "0.5".into(), 2 => "3.14159".into(), 3 => format!("{}.{}", r.below(1000), r.below(1000)),
        4 => format!("{}e{}", r.range(1, 9), r.below(40)), 5 => format!("{}.{}e-{}", r.below(10), r.below(100), r.below(30)),
        6 => format!(".{}", r.range(1, 999)), _ => format!("{}.", r.below(100000)),
    };
    let suf = match r.below(8) { 0 | 1 => 'f', 2 => 'l', _ => 'n' };
    let st = match suf { 'f' => if r.chance(1, 2) { "f" } else { "F" }, 'l' => if r.chance(1, 2) { "l" } else { "L" }, _ => "" };
    let b64 = digits.parse::<f64>().unwrap().to_bits();
    let b32 = digits.parse::<f32>().unwrap().to_bits();
    E::Flt { text: format!("{digits}{st}"), suf, b64, b32 }
}

/// one character of a char / string literal: (source text, code)
fn c_char(r: &mut Rng, in_string: bool, allow_high: bool) -> (String, u32) {
    match r.below(12) {
        0 => { let (t, c) = *r.pick(&[("\\n", 10u32), ("\\t", 9), ("\\r", 13), ("\\a", 7), ("\\b", 8), ("\\f", 12), ("\\v", 11), ("\\\\", 92), ("\\'", 39), ("\\\"", 34), ("\\?", 63), ("\\0", 0)]); (t.to_string(), c) }
        1 => { let c = r.below(if allow_high { 256 } else { 128 }) as u32; (if in_string { format!("\\{c:03o}") } else { format!("\\{c:o}") }, c) }
        2 => { let c = r.below(if allow_high { 256 } else { 128 }) as u32;
               // a hex escape swallows following hex digits: in strings only at the end (caller ensures) — use 3-digit octal there
               if in_string { (format!("\\{c:03o}"), c) } else { (format!("\\x{c:x}"), c) } }
        3 if allow_high => { let c = r.range(128, 255) as u32; (if in_string { format!("\\{c:03o}") } else { format!("\\x{c:X}") }, c) }
        _ => {
            let pool: &[u8] = b"abcdefghijklmnopqrstuvwxyzABCDEFGHIJKLMNOPQRSTUVWXYZ0123456789 !#$%&()*+,-./:;<=>@[]^_`{|}~";
            let c = *r.pick(pool);
            ((c as char).to_string(), c as u32)
        }
    }
}

pub fn char_lit(r: &mut Rng) -> E {
    let pre = match r.below(10) { 0 => Pre::L, _ => Pre::None };
    let (t, code) = c_char(r, false, true);
    E::Chr { text: format!("{}'{}'", pre.c(), t), pre, code }
}

pub fn str_lit(r: &mut Rng, allow_wide: bool) -> E {
    let pre = match r.below(16) { 0 if allow_wide => Pre::L, 1 => Pre::U8, 2 if allow_wide => Pre::U16, 3 if allow_wide => Pre::U32, _ => Pre::None };
    let n = r.below(9);
    let mut text = String::new();
    let mut bytes = vec![];
    for _ in 0..n {
        let (t, c) = c_char(r, true, pre == Pre::None);
        // never produce an embedded NUL: the Rust side would still be right, but `\0` followed by a digit re-lexes
        if c == 0 { if r.chance(1, 3) { text.push_str("\\000"); bytes.push(0); } else { text.push('z'); bytes.push(b'z'); } continue; }
        // "??x" trigraph-looking sequences are harmless in gnu11; '?' escapes are fine
        text.push_str(&t);
        bytes.push(c as u8);
    }
    E::Str { text: format!("{}\"{}\"", pre.c(), text), pre, bytes }
}

#[derive(Clone, Copy, PartialEq, Eq, Debug)]
pub enum Mode { CexprInt, CexprFloat, Full, CharStr }

pub struct Pool<'a> {
    /// names usable as numeric operands, with their C type
    pub numeric: &'a [(String, CTy)],
    /// names with string values
    pub strings: &'a [String],
    /// names with char values
    pub chars: &'a [String],
    /// allow `u` suffixes on integer literals in this body
    pub unsigned_ok: bool,
}

fn paren(e: E) -> E { E::Paren(Box::new(e)) }

fn atomise(r: &mut Rng, e: E) -> E {
    match e {
        E::Int { .. } | E::Flt { .. } | E::Ident(_) | E::Paren(_) | E::SizeofTy(_) | E::Chr { .. } => if r.chance(1, 8) { paren(e) } else { e },
        e => paren(e),
    }
}

pub fn gen_num(r: &mut Rng, mode: Mode, depth: u32, pool: &Pool) -> E {
    let leaf = |r: &mut Rng| -> E {
        if !pool.numeric.is_empty() && r.chance(1, 4) {
            let cands: Vec<&(String, CTy)> = pool.numeric.iter().filter(|(_, t)| mode != Mode::CexprInt || !t.is_float()).collect();
            if !cands.is_empty() { return E::Ident(r.pick(&cands).0.clone()); }
        }
        match mode {
            Mode::CexprFloat if r.chance(1, 2) => float_lit(r),
            Mode::Full if r.chance(1, 8) => float_lit(r),
            Mode::Full if r.chance(1, 12) => char_lit(r),
            Mode::Full if r.chance(1, 14) => E::SizeofTy(*r.pick(&[Char, Short, Int, Long, LLong, Float, Double, UInt, Bool])),
            _ => { let n = gen_int_value(r, true); int_lit(r, n, pool.unsigned_ok) }
        }
    };
    if depth == 0 || r.chance(1, 5) { return leaf(r); }
    let sub = |r: &mut Rng| { let e = gen_num(r, mode, depth - 1, pool); atomise(r, e) };
    let cexpr_bin: &[&'static str] = &["*", "/", "%", "+", "-", "<<", ">>", "&", "^", "|", "+", "-", "*", "|", "&"];
    let float_bin: &[&'static str] = &["*", "/", "+", "-"];
    let full_bin: &[&'static str] = &["*", "/", "%", "+", "-", "<<", ">>", "&", "^", "|", "<", ">", "<=", ">=", "==", "!=", "&&", "||"];
    match mode {
        Mode::CexprInt | Mode::CexprFloat => match r.below(10) {
            0 | 1 => { let op = *r.pick(&["-", "~", "+", "-"]); let op = if mode == Mode::CexprFloat && op == "~" { "-" } else { op }; E::Un(op, Box::new(sub(r))) }
            _ => {
                let op = *r.pick(if mode == Mode::CexprFloat { float_bin } else { cexpr_bin });
                let a = sub(r);
                let b = if (op == "<<" || op == ">>") && r.chance(9, 10) { let lim = if r.chance(1, 2) { 31 } else { 66 }; let n = r.below(lim) as u128; int_lit(r, n, pool.unsigned_ok) }
                        else if (op == "/" || op == "%") && r.chance(2, 3) { let n = gen_int_value(r, true).max(1); int_lit(r, n, pool.unsigned_ok) }
                        else { sub(r) };
                E::Bin(op, Box::new(a), Box::new(b))
            }
        },
        _ => match r.below(16) {
            0 | 1 => E::Un(*r.pick(&["-", "~", "!", "+"]), Box::new(sub(r))),
            2 | 3 => E::Cond(Box::new(sub(r)), Box::new(sub(r)), Box::new(sub(r))),
            4 | 5 | 6 => E::Cast(*r.pick(&[Bool, Char, SChar, UChar, Short, UShort, Int, UInt, Long, ULong, LLong, ULLong, Float, Double]), Box::new(sub(r))),
            _ => {
                let op = *r.pick(full_bin);
                let a = sub(r);
                let b = if (op == "<<" || op == ">>") && r.chance(9, 10) { let n = r.below(40) as u128; int_lit(r, n, pool.unsigned_ok) } else { sub(r) };
                E::Bin(op, Box::new(a), Box::new(b))
            }
        },
    }
}

pub fn gen_body(r: &mut Rng, mode: Mode, pool: &Pool) -> E {
    let e = match mode {
        Mode::CharStr => match r.below(10) {
            0..=2 => char_lit(r),
            3 if !pool.chars.is_empty() => E::Ident(r.pick(pool.chars).clone()),
            4 | 5 => {
                // concatenation of literals and string-valued names
                let k = r.range(2, 4);
                let mut parts: Vec<E> = (0..k).map(|_| if !pool.strings.is_empty() && r.chance(1, 3) { E::Ident(r.pick(pool.strings).clone()) } else { str_lit(r, false) }).collect();
                if r.chance(1, 12) { parts[0] = str_lit(r, true); }
                let mut it = parts.into_iter();
                let first = it.next().unwrap();
                it.fold(first, |a, b| E::Cat(Box::new(a), Box::new(b)))
            }
            6 if !pool.strings.is_empty() => E::Ident(r.pick(pool.strings).clone()),
            _ => str_lit(r, true),
        },
        m => { let d = r.range(0, 4) as u32; gen_num(r, m, d, pool) }
    };
    match r.below(4) { 0 => paren(e), 1 if matches!(e, E::Paren(_)) => paren(e), _ => match e { E::Bin(..) | E::Cond(..) => if r.chance(1, 5) { e } else { paren(e) }, E::Un(..) | E::Cast(..) if r.chance(1, 2) => paren(e), e => e } }
}
