//! C05: syn-based inventory of the constants / enums in emitted bindings, plus a tiny JSON writer.
use std::collections::BTreeMap;
use syn::{Expr, Item, Lit};

#[derive(Clone, Debug, PartialEq)]
pub enum Val {
    Int(i128),
    /// integer literal with a type suffix, e.g. `255u8`
    Suffixed(String),
    Float(u64),
    NaN,
    Inf(bool),
    Bytes(Vec<u8>),
    CStr(Vec<u8>),
    Bool(bool),
    /// `T(<val>)`
    Call(String, Box<Val>),
    /// `A::B`
    Path(Vec<String>),
    Other(String),
}

impl Val {
    /// canonical text of the literal (what the model predicts after the `:`)
    pub fn text(&self) -> String {
        match self {
            Val::Int(v) => format!("{v}"),
            Val::Suffixed(s) => s.clone(),
            Val::Float(b) => format!("{b:016x}"),
            Val::NaN => "nan".into(),
            Val::Inf(neg) => if *neg { "-inf".into() } else { "inf".into() },
            Val::Bytes(b) | Val::CStr(b) => if b.is_empty() { "-".into() } else { b.iter().map(|x| format!("{x:02x}")).collect() },
            Val::Bool(b) => format!("{b}"),
            Val::Call(_, v) => v.text(),
            Val::Path(p) => p.join("::"),
            Val::Other(s) => format!("?{s}"),
        }
    }
}

pub fn norm_ty(t: &syn::Type) -> String {
    let s = quote::quote!(#t).to_string().replace(' ', "");
    s.replace("::std::os::raw::", "").replace("::core::ffi::", "")
}

pub fn val_of(e: &Expr) -> Val {
    match e {
        Expr::Lit(l) => match &l.lit {
            Lit::Int(i) => {
                if i.suffix().is_empty() { i.base10_parse::<i128>().map(Val::Int).unwrap_or(Val::Other(i.to_string())) }
                else { Val::Suffixed(format!("{}{}", i.base10_digits(), i.suffix())) }
            }
            Lit::Float(f) => f.base10_parse::<f64>().map(|x| Val::Float(x.to_bits())).unwrap_or(Val::Other(f.to_string())),
            Lit::ByteStr(b) => Val::Bytes(b.value()),
            Lit::CStr(c) => Val::CStr(c.value().as_bytes_with_nul().to_vec()),
            Lit::Bool(b) => Val::Bool(b.value),
            other => Val::Other(quote::quote!(#other).to_string()),
        },
        Expr::Unary(u) if matches!(u.op, syn::UnOp::Neg(_)) => match val_of(&u.expr) {
            Val::Int(v) => Val::Int(-v),
            Val::Float(b) => Val::Float((-f64::from_bits(b)).to_bits()),
            o => Val::Other(format!("-{}", o.text())),
        },
        Expr::Paren(p) => val_of(&p.expr),
        Expr::Group(g) => val_of(&g.expr),
        Expr::Cast(c) => {
            let s = { let x = &c.expr; quote::quote!(#x).to_string().replace(' ', "") };
            match s.as_str() {
                "f64::NAN" => Val::NaN,
                "f64::INFINITY" => Val::Inf(false),
                "f64::NEG_INFINITY" => Val::Inf(true),
                _ => Val::Other(s),
            }
        }
        Expr::Call(c) => {
            let f = { let x = &c.func; quote::quote!(#x).to_string().replace(' ', "") };
            match c.args.first() {
                Some(a) if c.args.len() == 1 => Val::Call(f, Box::new(val_of(a))),
                _ => Val::Other(f),
            }
        }
        Expr::Path(p) => Val::Path(p.path.segments.iter().map(|s| s.ident.to_string()).collect()),
        other => Val::Other(quote::quote!(#other).to_string()),
    }
}

#[derive(Clone, Debug)]
pub struct ConstItem {
    /// "" (top level), "mod M", "impl T"
    pub ctx: String,
    pub name: String,
    pub ty: String,
    pub val: Val,
}

#[derive(Clone, Debug, Default)]
pub struct Inventory {
    pub consts: Vec<ConstItem>,
    /// enum name → (repr attribute, [(variant, discriminant)])
    pub enums: BTreeMap<String, (String, Vec<(String, Val)>)>,
    /// `pub type A = T;` keyed by "ctx/A"
    pub aliases: BTreeMap<String, String>,
    /// tuple structs `pub struct S(pub T);` → T
    pub newtypes: BTreeMap<String, String>,
    pub statics: Vec<String>,
}

fn repr_of(attrs: &[syn::Attribute]) -> String {
    for a in attrs {
        if a.path().is_ident("repr") {
            if let Ok(l) = a.meta.require_list() { return l.tokens.to_string().replace(' ', ""); }
        }
    }
    String::new()
}

fn walk(items: &[Item], ctx: &str, inv: &mut Inventory) {
    for it in items {
        match it {
            Item::Const(c) => inv.consts.push(ConstItem { ctx: ctx.to_string(), name: c.ident.to_string(), ty: norm_ty(&c.ty), val: val_of(&c.expr) }),
            Item::Mod(m) => if let Some((_, items)) = &m.content { walk(items, &format!("mod {}", m.ident), inv) },
            Item::Impl(i) if i.trait_.is_none() => {
                let t = norm_ty(&i.self_ty);
                for ii in &i.items {
                    if let syn::ImplItem::Const(c) = ii {
                        inv.consts.push(ConstItem { ctx: format!("impl {t}"), name: c.ident.to_string(), ty: norm_ty(&c.ty), val: val_of(&c.expr) });
                    }
                }
            }
            Item::Enum(e) => {
                let vs = e.variants.iter().map(|v| (v.ident.to_string(), v.discriminant.as_ref().map(|(_, d)| val_of(d)).unwrap_or(Val::Other("none".into())))).collect();
                inv.enums.insert(e.ident.to_string(), (repr_of(&e.attrs), vs));
            }
            Item::Type(t) => { inv.aliases.insert(format!("{ctx}/{}", t.ident), norm_ty(&t.ty)); }
            Item::Struct(s) => if let syn::Fields::Unnamed(f) = &s.fields {
                if f.unnamed.len() == 1 { inv.newtypes.insert(s.ident.to_string(), norm_ty(&f.unnamed[0].ty)); }
            },
            Item::ForeignMod(fm) => for fi in &fm.items { if let syn::ForeignItem::Static(s) = fi { inv.statics.push(s.ident.to_string()); } },
            _ => {}
        }
    }
}

pub fn inventory(src: &str) -> Result<Inventory, String> {
    let f = syn::parse_file(src).map_err(|e| format!("syn: {e}"))?;
    let mut inv = Inventory::default();
    walk(&f.items, "", &mut inv);
    Ok(inv)
}

// ---------------------------------------------------------------- JSON

#[derive(Clone, Debug)]
pub enum J { S(String), N(i128), B(bool), A(Vec<J>), O(Vec<(String, J)>) }

impl J {
    pub fn s(x: impl Into<String>) -> J { J::S(x.into()) }
    pub fn obj(v: Vec<(&str, J)>) -> J { J::O(v.into_iter().map(|(k, v)| (k.to_string(), v)).collect()) }
    pub fn map(m: &BTreeMap<String, u64>) -> J { J::O(m.iter().map(|(k, v)| (k.clone(), J::N(*v as i128))).collect()) }
    pub fn render(&self) -> String {
        match self {
            J::S(s) => crate::util::json_str(s),
            J::N(n) => format!("{n}"),
            J::B(b) => format!("{b}"),
            J::A(v) => format!("[{}]", v.iter().map(|x| x.render()).collect::<Vec<_>>().join(",")),
            J::O(v) => format!("{{{}}}", v.iter().map(|(k, x)| format!("{}:{}", crate::util::json_str(k), x.render())).collect::<Vec<_>>().join(",")),
        }
    }
}
