//! `bgverif`: correspondence harness shared code.  Links the bindgen library built from
//! /repo's working tree with `--cfg bindgen_verif`.
pub mod rng;
pub mod util;
pub mod drive;
pub mod irdump;
pub mod canon;
pub mod cppgen;
pub mod c05gen;
pub mod c05inv;
pub mod cgen;
pub mod scan;
pub mod builder_ops;
pub mod postcanon;
pub mod inv;
pub mod c04gen;
pub mod c01gen;
pub mod inventory;
pub mod probe;
pub mod irlayout;
pub mod cgraph;
pub mod allowmodel;
pub mod allowgen;
pub mod leafinv;
