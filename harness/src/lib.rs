//! `bgverif`: correspondence harness shared code.  Links the bindgen library built from
//! /repo's working tree with `--cfg bindgen_verif`.
pub mod rng;
pub mod util;
pub mod drive;
pub mod irdump;
pub mod allowmodel;
pub mod allowgen;
pub mod inventory;
