//! Small helpers: temp dirs, JSON string escaping, command running, argument parsing.
use std::path::{Path, PathBuf};
use std::process::{Command, Stdio};

pub struct Args {
    pub tier: String,
    pub seed: u64,
    pub out: PathBuf,
    pub replay: Option<PathBuf>,
    pub extra: Vec<String>,
}

impl Args {
    /// `--tier quick|thorough --seed N --out DIR [--replay FILE] [extra...]`
    pub fn parse() -> Args {
        let mut a = Args { tier: "quick".into(), seed: 1, out: PathBuf::from("."), replay: None, extra: vec![] };
        let v: Vec<String> = std::env::args().skip(1).collect();
        let mut i = 0;
        while i < v.len() {
            match v[i].as_str() {
                "--tier" => { a.tier = v[i + 1].clone(); i += 2; }
                "--seed" => { a.seed = v[i + 1].parse().unwrap_or(1); i += 2; }
                "--out" => { a.out = PathBuf::from(&v[i + 1]); i += 2; }
                "--replay" => { a.replay = Some(PathBuf::from(&v[i + 1])); i += 2; }
                _ => { a.extra.push(v[i].clone()); i += 1; }
            }
        }
        std::fs::create_dir_all(&a.out).ok();
        a
    }
    pub fn thorough(&self) -> bool {
        self.tier == "thorough"
    }
}

pub fn json_str(s: &str) -> String {
    let mut o = String::from("\"");
    for c in s.chars() {
        match c {
            '"' => o.push_str("\\\""),
            '\\' => o.push_str("\\\\"),
            '\n' => o.push_str("\\n"),
            '\r' => o.push_str("\\r"),
            '\t' => o.push_str("\\t"),
            c if (c as u32) < 0x20 => o.push_str(&format!("\\u{:04x}", c as u32)),
            c => o.push(c),
        }
    }
    o.push('"');
    o
}

/// Run a command; returns (exit code or -1 on signal/spawn failure, stdout, stderr).
pub fn run(cmd: &mut Command) -> (i32, String, String) {
    match cmd.stdin(Stdio::null()).output() {
        Ok(o) => (
            o.status.code().unwrap_or(-1),
            String::from_utf8_lossy(&o.stdout).into_owned(),
            String::from_utf8_lossy(&o.stderr).into_owned(),
        ),
        Err(e) => (-1, String::new(), format!("spawn failed: {e}")),
    }
}

/// Run with stdin text.
pub fn run_with_stdin(cmd: &mut Command, input: &str) -> (i32, String, String) {
    use std::io::Write;
    let mut child = match cmd.stdin(Stdio::piped()).stdout(Stdio::piped()).stderr(Stdio::piped()).spawn() {
        Ok(c) => c,
        Err(e) => return (-1, String::new(), format!("spawn failed: {e}")),
    };
    let mut stdin = child.stdin.take().unwrap();
    let data = input.as_bytes().to_vec();
    let t = std::thread::spawn(move || { let _ = stdin.write_all(&data); });
    let o = child.wait_with_output().unwrap();
    let _ = t.join();
    (o.status.code().unwrap_or(-1), String::from_utf8_lossy(&o.stdout).into_owned(), String::from_utf8_lossy(&o.stderr).into_owned())
}

/// Ask the Lean model driver (path in $BGMODEL) to answer the request lines.
pub fn model(requests: &[String]) -> Vec<String> {
    let exe = std::env::var("BGMODEL").unwrap_or_else(|_| "/verif/lean/.lake/build/bin/bgmodel".into());
    let mut input = requests.join("\n");
    input.push('\n');
    let (rc, out, err) = run_with_stdin(&mut Command::new(exe), &input);
    assert!(rc == 0, "bgmodel failed: {err}");
    out.lines().map(|l| l.to_owned()).collect()
}

pub fn write(path: &Path, text: &str) {
    if let Some(p) = path.parent() {
        std::fs::create_dir_all(p).ok();
    }
    std::fs::write(path, text).unwrap();
}

/// Headers of the repository test-suite with their `// bindgen-flags:` lines.
pub fn repo_headers() -> Vec<(PathBuf, Vec<String>)> {
    let repo = std::env::var("VERIF_REPO").unwrap_or_else(|_| "/repo".into());
    let dir_buf = Path::new(&repo).join("bindgen-tests/tests/headers");
    let dir = dir_buf.as_path();
    let mut v = vec![];
    let mut names: Vec<_> = std::fs::read_dir(dir).map(|d| d.filter_map(|e| e.ok()).map(|e| e.path()).collect()).unwrap_or_default();
    names.sort();
    for p in names {
        let ext = p.extension().and_then(|e| e.to_str()).unwrap_or("");
        if ext != "h" && ext != "hpp" {
            continue;
        }
        let text = std::fs::read_to_string(&p).unwrap_or_default();
        let mut flags: Vec<String> = vec![];
        for line in text.lines() {
            if let Some(rest) = line.strip_prefix("// bindgen-flags:") {
                flags.extend(shell_split(rest));
            }
        }
        v.push((p, flags));
    }
    v
}

/// Minimal POSIX-ish shell word splitting (quotes and backslashes).
pub fn shell_split(s: &str) -> Vec<String> {
    let mut out = vec![];
    let mut cur = String::new();
    let mut in_word = false;
    let mut chars = s.chars().peekable();
    while let Some(c) = chars.next() {
        match c {
            ' ' | '\t' => {
                if in_word { out.push(std::mem::take(&mut cur)); in_word = false; }
            }
            '"' => {
                in_word = true;
                while let Some(d) = chars.next() {
                    if d == '"' { break; }
                    if d == '\\' { if let Some(e) = chars.next() { cur.push(e); } } else { cur.push(d); }
                }
            }
            '\'' => {
                in_word = true;
                for d in chars.by_ref() { if d == '\'' { break; } cur.push(d); }
            }
            '\\' => { in_word = true; if let Some(e) = chars.next() { cur.push(e); } }
            c => { in_word = true; cur.push(c); }
        }
    }
    if in_word { out.push(cur); }
    out
}
