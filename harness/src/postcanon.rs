//! C18: syn-based canonical inventory of bindings text, its serialisation for the Lean model
//! driver (`pp …`), the property oracle and the region predicate of the known finding.
use std::collections::HashMap;

use quote::ToTokens;

#[derive(Clone, Debug, PartialEq, Eq)]
pub enum CItem {
    /// `kind` = name of the `syn::Item` variant
    Plain { kind: &'static str, text: String },
    Foreign { attrs: String, abi: String, unsafety: bool, items: Vec<String> },
    /// inline module `mod m { .. }`; head = attributes, visibility, `mod`, name
    Module { head: String, items: Vec<CItem> },
}

fn attrs_text(attrs: &[syn::Attribute]) -> String {
    attrs.iter().map(|a| a.to_token_stream().to_string()).collect::<Vec<_>>().join(" ")
}

pub fn kind_name(item: &syn::Item) -> &'static str {
    use syn::Item::*;
    match item {
        Const(_) => "Const",
        Enum(_) => "Enum",
        ExternCrate(_) => "ExternCrate",
        Fn(_) => "Fn",
        ForeignMod(_) => "ForeignMod",
        Impl(_) => "Impl",
        Macro(_) => "Macro",
        Mod(_) => "Mod",
        Static(_) => "Static",
        Struct(_) => "Struct",
        Trait(_) => "Trait",
        TraitAlias(_) => "TraitAlias",
        Type(_) => "Type",
        Union(_) => "Union",
        Use(_) => "Use",
        Verbatim(_) => "Verbatim",
        _ => "Other",
    }
}

pub fn canon_items(items: &[syn::Item]) -> Vec<CItem> {
    items
        .iter()
        .map(|it| match it {
            syn::Item::ForeignMod(f) => CItem::Foreign {
                attrs: attrs_text(&f.attrs),
                abi: match &f.abi.name {
                    Some(l) => l.token().to_string(),
                    None => "<none>".to_owned(),
                },
                unsafety: f.unsafety.is_some(),
                items: f.items.iter().map(|i| i.to_token_stream().to_string()).collect(),
            },
            syn::Item::Mod(m) if m.content.is_some() => {
                let mut head = attrs_text(&m.attrs);
                head.push_str(" | ");
                head.push_str(&m.vis.to_token_stream().to_string());
                if m.unsafety.is_some() {
                    head.push_str(" unsafe");
                }
                head.push_str(" mod ");
                head.push_str(&m.ident.to_string());
                CItem::Module { head, items: canon_items(&m.content.as_ref().unwrap().1) }
            }
            other => CItem::Plain { kind: kind_name(other), text: other.to_token_stream().to_string() },
        })
        .collect()
}

pub fn canon_file(src: &str) -> Result<Vec<CItem>, String> {
    let f: syn::File = syn::parse_str(src).map_err(|e| format!("syn: {e}"))?;
    Ok(canon_items(&f.items))
}

/// Text interner: equal strings <-> equal ids (the model only compares texts for equality).
#[derive(Default)]
pub struct Interner {
    map: HashMap<String, usize>,
}
impl Interner {
    pub fn id(&mut self, s: &str) -> usize {
        let n = self.map.len();
        *self.map.entry(s.to_owned()).or_insert(n)
    }
}

pub fn serialise(items: &[CItem], int: &mut Interner, out: &mut Vec<String>) {
    for it in items {
        match it {
            CItem::Plain { kind, text } => {
                out.push("P".into());
                out.push((*kind).into());
                out.push(int.id(text).to_string());
            }
            CItem::Foreign { attrs, abi, unsafety, items } => {
                out.push("F".into());
                out.push(int.id(&format!("attrs:{attrs}")).to_string());
                out.push(int.id(&format!("abi:{abi}")).to_string());
                out.push(if *unsafety { "1" } else { "0" }.into());
                out.push(items.len().to_string());
                for i in items {
                    out.push(int.id(i).to_string());
                }
            }
            CItem::Module { head, items } => {
                out.push("M".into());
                out.push(int.id(head).to_string());
                out.push("[".into());
                serialise(items, int, out);
                out.push("]".into());
            }
        }
    }
}

/// Region predicate of known finding `merge_mixed_unsafety` (same as `Post.mixedUnsafety` in Lean):
/// some level has two blocks with equal (attrs, abi) and different unsafety.
pub fn mixed_unsafety(items: &[CItem]) -> bool {
    let blocks: Vec<(&String, &String, bool)> = items
        .iter()
        .filter_map(|i| match i {
            CItem::Foreign { attrs, abi, unsafety, .. } => Some((attrs, abi, *unsafety)),
            _ => None,
        })
        .collect();
    for (i, b) in blocks.iter().enumerate() {
        for c in &blocks[i + 1..] {
            if b.0 == c.0 && b.1 == c.1 && b.2 != c.2 {
                return true;
            }
        }
    }
    items.iter().any(|i| match i {
        CItem::Module { items, .. } => mixed_unsafety(items),
        _ => false,
    })
}

/// Flat inventory with module paths: what the property counts (multiset).
pub fn inventory(items: &[CItem], path: &str, out: &mut Vec<String>) {
    for it in items {
        match it {
            CItem::Plain { kind, text } => out.push(format!("{path} :: item {kind} :: {text}")),
            CItem::Foreign { attrs, abi, unsafety, items } => {
                for i in items {
                    out.push(format!("{path} :: foreign [{attrs}] abi={abi} unsafe={unsafety} :: {i}"));
                }
            }
            CItem::Module { head, items } => {
                out.push(format!("{path} :: module :: {head}"));
                inventory(items, &format!("{path}/{head}"), out);
            }
        }
    }
}

fn kind_and_text(it: &CItem) -> Option<(&str, &str)> {
    match it {
        CItem::Plain { kind, text } => Some((kind, text)),
        CItem::Module { head, .. } => Some(("Mod", head)),
        CItem::Foreign { .. } => None,
    }
}

/// The property's own oracle on (unprocessed, processed) inventories of one level, recursively.
/// Returns the first failure as text.
pub fn oracle_level(before: &[CItem], after: &[CItem], merge: bool, path: &str) -> Result<(), String> {
    // 1. non-foreign items: per kind, the same sequence
    let mut kinds: Vec<&str> = before.iter().chain(after.iter()).filter_map(|i| kind_and_text(i).map(|k| k.0)).collect();
    kinds.sort();
    kinds.dedup();
    for k in kinds {
        let b: Vec<&str> = before.iter().filter_map(kind_and_text).filter(|x| x.0 == k).map(|x| x.1).collect();
        let a: Vec<&str> = after.iter().filter_map(kind_and_text).filter(|x| x.0 == k).map(|x| x.1).collect();
        if a != b {
            return Err(format!("{path}: items of kind {k} changed or reordered: before={} after={}", b.len(), a.len()));
        }
    }
    // 2. foreign items
    type Key<'a> = (&'a str, &'a str, bool);
    fn blocks(items: &[CItem]) -> Vec<(Key<'_>, &Vec<String>)> {
        items
            .iter()
            .filter_map(|i| match i {
                CItem::Foreign { attrs, abi, unsafety, items } => Some(((attrs.as_str(), abi.as_str(), *unsafety), items)),
                _ => None,
            })
            .collect()
    }
    let bb = blocks(before);
    let ab = blocks(after);
    if !merge {
        if bb != ab {
            return Err(format!("{path}: extern blocks changed although merging is off"));
        }
    } else {
        // per (attrs, abi, unsafety): the concatenation of the items, in order, is unchanged
        let mut keys: Vec<Key> = bb.iter().chain(ab.iter()).map(|b| b.0).collect();
        keys.sort();
        keys.dedup();
        for k in keys {
            let b: Vec<&String> = bb.iter().filter(|x| x.0 == k).flat_map(|x| x.1.iter()).collect();
            let a: Vec<&String> = ab.iter().filter(|x| x.0 == k).flat_map(|x| x.1.iter()).collect();
            if a != b {
                return Err(format!(
                    "{path}: foreign items of blocks with attrs=[{}] abi={} unsafe={} differ: before={:?} after={:?}",
                    k.0, k.1, k.2, b, a
                ));
            }
        }
    }
    // 3. inline modules pair up in order (they all have one rank)
    let bm: Vec<(&String, &Vec<CItem>)> = before.iter().filter_map(|i| match i { CItem::Module { head, items } => Some((head, items)), _ => None }).collect();
    let am: Vec<(&String, &Vec<CItem>)> = after.iter().filter_map(|i| match i { CItem::Module { head, items } => Some((head, items)), _ => None }).collect();
    if bm.len() != am.len() {
        return Err(format!("{path}: number of inline modules changed"));
    }
    for (b, a) in bm.iter().zip(am.iter()) {
        oracle_level(b.1, a.1, merge, &format!("{path}/{}", b.0))?;
    }
    Ok(())
}

/// Whole oracle: multiset of inventory entries equal + per-level order conditions.
pub fn oracle(before: &[CItem], after: &[CItem], merge: bool) -> Result<(), String> {
    let mut b = vec![];
    let mut a = vec![];
    inventory(before, "", &mut b);
    inventory(after, "", &mut a);
    b.sort();
    a.sort();
    if a != b {
        let lost: Vec<&String> = b.iter().filter(|x| a.binary_search(x).is_err()).take(3).collect();
        let gained: Vec<&String> = a.iter().filter(|x| b.binary_search(x).is_err()).take(3).collect();
        return Err(format!("inventory multiset differs: lost={lost:?} gained={gained:?} (sizes {} -> {})", b.len(), a.len()));
    }
    oracle_level(before, after, merge, "")
}

pub fn count_items(items: &[CItem]) -> (usize, usize, usize, usize) {
    // (plain, blocks, foreign items, modules)
    let mut r = (0, 0, 0, 0);
    for i in items {
        match i {
            CItem::Plain { .. } => r.0 += 1,
            CItem::Foreign { items, .. } => {
                r.1 += 1;
                r.2 += items.len();
            }
            CItem::Module { items, .. } => {
                r.3 += 1;
                let s = count_items(items);
                r.0 += s.0;
                r.1 += s.1;
                r.2 += s.2;
                r.3 += s.3;
            }
        }
    }
    r
}
