//! syn-based inventory of emitted bindings: leaf items (modules and extern blocks flattened),
//! the identifiers they define, and their token text.
use quote::ToTokens;

#[derive(Debug, Clone)]
pub struct Leaf {
    /// struct | union | enum | type | const | static | fn | impl | use | other
    pub kind: &'static str,
    /// defined identifier (`impl`: the self type's last path segment); None for `const _`
    pub name: Option<String>,
    /// module path inside the bindings (`root::ns1`), empty at top level
    pub module: String,
    /// canonical token text (extern items are prefixed with their block's attrs + abi)
    pub text: String,
    /// for struct/union: field names; for impl: method names
    pub members: Vec<String>,
}

pub fn parse(src: &str) -> Result<Vec<Leaf>, String> {
    let file: syn::File = syn::parse_str(src).map_err(|e| format!("syn: {e}"))?;
    let mut out = vec![];
    walk(&file.items, "", &mut out);
    Ok(out)
}

fn ts<T: ToTokens>(t: &T) -> String {
    t.to_token_stream().to_string()
}

fn type_last_ident(t: &syn::Type) -> Option<String> {
    match t {
        syn::Type::Path(p) => p.path.segments.last().map(|s| s.ident.to_string()),
        _ => None,
    }
}

/// the identifier a `use` item introduces (`use a::B as C` -> C; `use a::B` -> B)
fn use_name(t: &syn::UseTree) -> Option<String> {
    match t {
        syn::UseTree::Path(p) => use_name(&p.tree),
        syn::UseTree::Name(n) => Some(n.ident.to_string()),
        syn::UseTree::Rename(r) => Some(r.rename.to_string()),
        _ => None,
    }
}

fn walk(items: &[syn::Item], module: &str, out: &mut Vec<Leaf>) {
    for it in items {
        match it {
            syn::Item::Mod(m) => {
                let name = if module.is_empty() { m.ident.to_string() } else { format!("{module}::{}", m.ident) };
                if let Some((_, inner)) = &m.content {
                    walk(inner, &name, out);
                }
            }
            syn::Item::ForeignMod(f) => {
                let prefix = format!("{} {}", f.attrs.iter().map(ts).collect::<Vec<_>>().join(" "), ts(&f.abi));
                for fi in &f.items {
                    let (kind, name) = match fi {
                        syn::ForeignItem::Fn(x) => ("fn", Some(x.sig.ident.to_string())),
                        syn::ForeignItem::Static(x) => ("static", Some(x.ident.to_string())),
                        syn::ForeignItem::Type(x) => ("type", Some(x.ident.to_string())),
                        _ => ("other", None),
                    };
                    out.push(Leaf { kind, name, module: module.to_owned(), text: format!("{prefix} {{ {} }}", ts(fi)), members: vec![] });
                }
            }
            syn::Item::Struct(s) => {
                let members = s.fields.iter().filter_map(|f| f.ident.as_ref().map(|i| i.to_string())).collect();
                out.push(Leaf { kind: "struct", name: Some(s.ident.to_string()), module: module.to_owned(), text: ts(it), members });
            }
            syn::Item::Union(s) => {
                let members = s.fields.named.iter().filter_map(|f| f.ident.as_ref().map(|i| i.to_string())).collect();
                out.push(Leaf { kind: "union", name: Some(s.ident.to_string()), module: module.to_owned(), text: ts(it), members });
            }
            syn::Item::Enum(e) => out.push(Leaf { kind: "enum", name: Some(e.ident.to_string()), module: module.to_owned(), text: ts(it), members: e.variants.iter().map(|v| v.ident.to_string()).collect() }),
            syn::Item::Type(t) => out.push(Leaf { kind: "type", name: Some(t.ident.to_string()), module: module.to_owned(), text: ts(it), members: vec![] }),
            syn::Item::Const(c) => {
                let n = c.ident.to_string();
                out.push(Leaf { kind: "const", name: if n == "_" { None } else { Some(n) }, module: module.to_owned(), text: ts(it), members: vec![] });
            }
            syn::Item::Static(c) => out.push(Leaf { kind: "static", name: Some(c.ident.to_string()), module: module.to_owned(), text: ts(it), members: vec![] }),
            syn::Item::Fn(f) => out.push(Leaf { kind: "fn", name: Some(f.sig.ident.to_string()), module: module.to_owned(), text: ts(it), members: vec![] }),
            syn::Item::Impl(i) => {
                let members = i.items.iter().filter_map(|x| match x { syn::ImplItem::Fn(f) => Some(f.sig.ident.to_string()), _ => None }).collect();
                out.push(Leaf { kind: "impl", name: type_last_ident(&i.self_ty), module: module.to_owned(), text: ts(it), members });
            }
            syn::Item::Use(u) => out.push(Leaf { kind: "use", name: use_name(&u.tree), module: module.to_owned(), text: ts(it), members: vec![] }),
            other => out.push(Leaf { kind: "other", name: None, module: module.to_owned(), text: ts(other), members: vec![] }),
        }
    }
}

/// All identifiers occurring in a token text (for "still named" style checks).
pub fn idents_in(text: &str) -> Vec<String> {
    let mut out = vec![];
    let mut cur = String::new();
    for c in text.chars() {
        if c.is_alphanumeric() || c == '_' {
            cur.push(c);
        } else if !cur.is_empty() {
            out.push(std::mem::take(&mut cur));
        }
    }
    if !cur.is_empty() {
        out.push(cur);
    }
    out
}
