//! Build `reach …` requests for the Lean allow-listing model from an IR dump and the pattern sets
//! the run was given, and read back what the implementation computed.
use crate::irdump::{unesc, Record};
use std::collections::{BTreeMap, BTreeSet};

#[derive(Debug, Clone, Default)]
pub struct PatternSets {
    pub types: Vec<String>,
    pub functions: Vec<String>,
    pub vars: Vec<String>,
    pub items: Vec<String>,
    pub files: Vec<String>,
}

impl PatternSets {
    pub fn is_empty(&self) -> bool {
        self.types.is_empty() && self.functions.is_empty() && self.vars.is_empty() && self.items.is_empty() && self.files.is_empty()
    }
    /// `--allowlist-*` (prefix = "allowlist") or `--blocklist-*` flags
    pub fn flags(&self, prefix: &str) -> Vec<String> {
        let mut v = vec![];
        for (k, ps) in [("type", &self.types), ("function", &self.functions), ("var", &self.vars), ("item", &self.items), ("file", &self.files)] {
            for p in ps {
                v.push(format!("--{prefix}-{k}"));
                v.push(p.clone());
            }
        }
        v
    }
    /// Extract the sets from a CLI flag list (`--allowlist-type X`, `--allowlist-type=X`).
    pub fn from_flags(flags: &[String], prefix: &str) -> PatternSets {
        let mut s = PatternSets::default();
        let mut i = 0;
        while i < flags.len() {
            let f = &flags[i];
            if f == "--" {
                break;
            }
            for (k, idx) in [("type", 0), ("function", 1), ("var", 2), ("item", 3), ("file", 4)] {
                let name = format!("--{prefix}-{k}");
                let val = if *f == name {
                    i += 1;
                    flags.get(i).cloned()
                } else {
                    f.strip_prefix(&format!("{name}=")).map(|x| x.to_owned())
                };
                if let Some(v) = val {
                    match idx {
                        0 => s.types.push(v),
                        1 => s.functions.push(v),
                        2 => s.vars.push(v),
                        3 => s.items.push(v),
                        _ => s.files.push(v),
                    }
                    break;
                }
            }
            i += 1;
        }
        s
    }
}

pub fn hex(s: &str) -> String {
    if s.is_empty() {
        return "%".to_owned();
    }
    s.bytes().map(|b| format!("{b:02x}")).collect()
}

/// `regex_set.rs build_inner`: does the `regex` crate accept `^(item)$`?
pub fn pattern_valid(p: &str) -> bool {
    regex::Regex::new(&format!("^({p})$")).is_ok()
}

fn set_field(ps: &[String]) -> String {
    if ps.is_empty() {
        return "-".to_owned();
    }
    ps.iter().map(|p| if pattern_valid(p) { hex(p) } else { format!("!{}", hex(p)) }).collect::<Vec<_>>().join(",")
}

/// The real `RegexSet::matches` semantics computed with the `regex` crate (used by oracles).
pub fn set_matches(ps: &[String], name: &str) -> bool {
    if ps.is_empty() || !ps.iter().all(|p| pattern_valid(p)) {
        return false;
    }
    ps.iter().any(|p| regex::Regex::new(&format!("^({p})$")).unwrap().is_match(name))
}

#[derive(Debug, Clone, Default)]
pub struct DumpItem {
    pub id: u64,
    pub parent: u64,
    pub kind: String,
    /// `path_for_allowlisting()[1..].join("::")`
    pub name: String,
    pub path: Vec<String>,
    pub file: Option<String>,
    pub allowlisted: bool,
    pub codegen: bool,
    pub blocklisted: bool,
    pub opaque: bool,
    pub hide: bool,
    pub ann_opaque: bool,
    pub enabled: bool,
    /// `TypeKind` for types
    pub type_kind: Option<String>,
    pub type_name: Option<String>,
    pub fn_kind: Option<String>,
    pub enum_variants: Vec<String>,
    pub layout: Option<(u64, u64)>,
    pub type_rec: Option<Record>,
}

#[derive(Debug, Clone, Default)]
pub struct Dump {
    pub items: Vec<DumpItem>,
    pub by_id: BTreeMap<u64, usize>,
    pub edges: Vec<(u64, u64, String)>,
    pub opts: BTreeMap<String, String>,
}

impl Dump {
    pub fn item(&self, id: u64) -> Option<&DumpItem> {
        self.by_id.get(&id).map(|&i| &self.items[i])
    }
    pub fn allowlisted(&self) -> BTreeSet<u64> {
        self.items.iter().filter(|i| i.allowlisted).map(|i| i.id).collect()
    }
    pub fn codegen(&self) -> BTreeSet<u64> {
        self.items.iter().filter(|i| i.codegen).map(|i| i.id).collect()
    }
}

pub fn load(records: &[Record]) -> Dump {
    let mut d = Dump::default();
    for r in records {
        match r.tag.as_str() {
            "opt" => d.opts = r.kv.clone(),
            "item" => {
                let path: Vec<String> = r.get("path").split("::").map(unesc).collect();
                let name = if path.len() > 1 { path[1..].join("::") } else { String::new() };
                let file = match r.get("file") {
                    "-" => None,
                    f => Some(unesc(f)),
                };
                let it = DumpItem {
                    id: r.num("id").unwrap_or(0),
                    parent: r.num("parent").unwrap_or(0),
                    kind: r.get("kind").to_owned(),
                    name,
                    path,
                    file,
                    allowlisted: r.flag("allowlisted"),
                    codegen: r.flag("codegen"),
                    blocklisted: r.flag("blocklisted"),
                    opaque: r.flag("opaque"),
                    hide: r.flag("hide"),
                    ann_opaque: r.flag("ann_opaque"),
                    enabled: r.flag("enabled"),
                    ..Default::default()
                };
                d.by_id.insert(it.id, d.items.len());
                d.items.push(it);
            }
            "type" => {
                if let Some(&i) = r.num("id").and_then(|id| d.by_id.get(&id)) {
                    let it = &mut d.items[i];
                    it.type_kind = Some(r.get("k").to_owned());
                    it.type_name = r.opt_str("name");
                    if r.get("k") == "Enum" {
                        let v = r.get("variants");
                        if v != "-" && !v.is_empty() {
                            it.enum_variants = v.split(',').map(|x| unesc(x.rsplit_once(':').map_or(x, |p| p.0))).collect();
                        }
                    }
                    let lay = r.get("layout");
                    if lay != "-" {
                        let p: Vec<u64> = lay.split(',').filter_map(|x| x.parse().ok()).collect();
                        if p.len() >= 2 {
                            it.layout = Some((p[0], p[1]));
                        }
                    }
                    it.type_rec = Some(r.clone());
                }
            }
            "fn" => {
                if let Some(&i) = r.num("id").and_then(|id| d.by_id.get(&id)) {
                    d.items[i].fn_kind = Some(r.get("kind").to_owned());
                }
            }
            "edge" => d.edges.push((r.num("from").unwrap_or(0), r.num("to").unwrap_or(0), r.get("kind").to_owned())),
            _ => {}
        }
    }
    d
}

fn class_of(it: &DumpItem) -> &'static str {
    match it.kind.as_str() {
        "module" => "m",
        "type" => "t",
        "var" => "v",
        _ => {
            let k = it.fn_kind.as_deref().unwrap_or("Function");
            if k == "Function" {
                "ff"
            } else if k.contains("Constructor") {
                "fc"
            } else if k.contains("Destructor") {
                "fd"
            } else {
                "fm"
            }
        }
    }
}

/// One `reach` request line.  `uio` (use_instead_of) is not in the dump: assumed 0.
pub fn request(d: &Dump, allow: &PatternSets) -> String {
    let cfg = d.opts.get("codegen_config").cloned().unwrap_or_else(|| "63".into());
    let rec = d.opts.get("allowlist_recursively").cloned().unwrap_or_else(|| "1".into());
    let stdsz = d.opts.get("size_t_is_usize").cloned().unwrap_or_else(|| "1".into());
    let mut items = vec![];
    for it in &d.items {
        let parent = d.item(it.parent);
        let pmod = parent.is_some_and(|p| p.kind == "module");
        let en = if it.type_kind.as_deref() == Some("Enum") && it.type_name.is_none() {
            let ppath: Vec<String> = parent.map(|p| p.path.iter().skip(1).cloned().collect()).unwrap_or_default();
            let vs: Vec<String> = it
                .enum_variants
                .iter()
                .map(|v| ppath.iter().chain(std::iter::once(v)).map(|c| hex(c)).collect::<Vec<_>>().join("."))
                .collect();
            format!("E{}", vs.join("/"))
        } else {
            "-".to_owned()
        };
        items.push(format!(
            "{}:{}:0:{}:{}:{}:{}:{}",
            it.id,
            class_of(it),
            it.file.as_deref().map_or_else(|| "-".to_owned(), hex),
            hex(&it.name),
            it.type_kind.as_deref().unwrap_or("-"),
            u8::from(pmod),
            en
        ));
    }
    let edges: Vec<String> = d.edges.iter().map(|(f, t, k)| format!("{f}>{t}>{k}")).collect();
    let bl: Vec<String> = d.items.iter().filter(|i| i.blocklisted).map(|i| i.id.to_string()).collect();
    format!(
        "reach cfg={cfg} rec={rec} stdsz={stdsz} at={} af={} av={} ai={} afile={} bl={} items={} edges={}",
        set_field(&allow.types),
        set_field(&allow.functions),
        set_field(&allow.vars),
        set_field(&allow.items),
        set_field(&allow.files),
        if bl.is_empty() { "-".to_owned() } else { bl.join(",") },
        if items.is_empty() { "-".to_owned() } else { items.join(";") },
        if edges.is_empty() { "-".to_owned() } else { edges.join(";") },
    )
}

#[derive(Debug, Clone)]
pub enum Answer {
    Sets { allow: BTreeSet<u64>, codegen: BTreeSet<u64>, roots: u64 },
    Unsupported(String),
    Other(String),
}

pub fn parse_answer(line: &str) -> Answer {
    if let Some(p) = line.strip_prefix("unsupported-pattern") {
        return Answer::Unsupported(p.trim().to_owned());
    }
    let mut allow = None;
    let mut codegen = None;
    let mut roots = 0;
    for t in line.split(' ') {
        let ids = |v: &str| -> BTreeSet<u64> { if v == "-" { BTreeSet::new() } else { v.split(',').filter_map(|x| x.parse().ok()).collect() } };
        if let Some(v) = t.strip_prefix("allow=") {
            allow = Some(ids(v));
        } else if let Some(v) = t.strip_prefix("codegen=") {
            codegen = Some(ids(v));
        } else if let Some(v) = t.strip_prefix("roots=") {
            roots = v.parse().unwrap_or(0);
        }
    }
    match (allow, codegen) {
        (Some(a), Some(c)) => Answer::Sets { allow: a, codegen: c, roots },
        _ => Answer::Other(line.to_owned()),
    }
}
