//! syn-based inventory of emitted bindings: aggregates (repr attributes, fields), aliases,
//! enums, layout-assertion items; plus a resolver Rust type → (size, align) for the host
//! (x86_64-unknown-linux-gnu) built on the primitive table and the `repr(C)` rules.
use std::collections::BTreeMap;
use quote::ToTokens;

#[derive(Debug, Clone)]
pub struct Agg {
    pub name: String,
    pub is_union: bool,
    /// `repr(C, packed)` = Some(1), `packed(N)` = Some(N)
    pub packed: Option<u64>,
    /// `repr(align(N))`
    pub align: Option<u64>,
    pub transparent: bool,
    pub generics: Vec<String>,
    /// (name, type); tuple fields are named "0", "1", …
    pub fields: Vec<(String, syn::Type)>,
}

#[derive(Debug, Clone, PartialEq, Eq, PartialOrd, Ord)]
pub struct Assert {
    /// "size" | "align" | "offset" | "inst-size" | "inst-align"
    pub kind: String,
    /// type name (or instantiation name)
    pub ty: String,
    /// field name for offsets
    pub field: String,
    pub value: u64,
    /// "const" | "test:<fn name>"
    pub form: String,
}

#[derive(Debug, Default, Clone)]
pub struct Inventory {
    pub aggs: BTreeMap<String, Agg>,
    pub aliases: BTreeMap<String, syn::Type>,
    /// enum name -> repr type name
    pub enums: BTreeMap<String, String>,
    /// assertion items in order of appearance: one Vec<Assert> per item
    pub assert_items: Vec<Vec<Assert>>,
    /// token text of every item that is not an assertion item, in order (modules flattened with a
    /// `mod NAME {` / `}` marker)
    pub other_items: Vec<String>,
    /// parallel to `other_items`: (kind = struct | union | impl | mod | other, name)
    pub other_kinds: Vec<(String, String)>,
    /// token text of the assertion items, parallel to `assert_items`
    pub assert_texts: Vec<String>,
    /// parallel to `other_items`: for struct / union items the definition with every derive except
    /// `Copy` / `Clone` removed (layout probes must not depend on derive decisions), else empty
    pub layout_texts: Vec<String>,
    /// duplicate definitions seen (name)
    pub duplicates: Vec<String>,
}

fn repr_of(attrs: &[syn::Attribute]) -> (Option<u64>, Option<u64>, bool, Option<String>) {
    let (mut packed, mut align, mut transparent, mut int) = (None, None, false, None);
    for a in attrs {
        if !a.path().is_ident("repr") { continue; }
        let _ = a.parse_nested_meta(|m| {
            let id = m.path.get_ident().map(|i| i.to_string()).unwrap_or_default();
            match id.as_str() {
                "C" => {}
                "transparent" => transparent = true,
                "packed" => {
                    if m.input.peek(syn::token::Paren) {
                        let c; syn::parenthesized!(c in m.input);
                        let l: syn::LitInt = c.parse()?;
                        packed = Some(l.base10_parse::<u64>()?);
                    } else { packed = Some(1); }
                }
                "align" => {
                    let c; syn::parenthesized!(c in m.input);
                    let l: syn::LitInt = c.parse()?;
                    align = Some(l.base10_parse::<u64>()?);
                }
                other => int = Some(other.to_string()),
            }
            Ok(())
        });
    }
    (packed, align, transparent, int)
}

/// keep only `Copy` and `Clone` in `#[derive(…)]`
fn reduce_derives(attrs: &mut Vec<syn::Attribute>) {
    let mut out = vec![];
    for a in attrs.drain(..) {
        if a.path().is_ident("derive") {
            let mut keep: Vec<syn::Path> = vec![];
            let _ = a.parse_nested_meta(|m| { if m.path.is_ident("Copy") || m.path.is_ident("Clone") { keep.push(m.path.clone()); } Ok(()) });
            if !keep.is_empty() { out.push(syn::parse_quote!(#[derive(#(#keep),*)])); }
        } else {
            out.push(a);
        }
    }
    *attrs = out;
}

fn fields_of(f: &syn::Fields) -> Vec<(String, syn::Type)> {
    match f {
        syn::Fields::Named(n) => n.named.iter().map(|f| (f.ident.as_ref().unwrap().to_string(), f.ty.clone())).collect(),
        syn::Fields::Unnamed(u) => u.unnamed.iter().enumerate().map(|(i, f)| (i.to_string(), f.ty.clone())).collect(),
        syn::Fields::Unit => vec![],
    }
}

fn lit_u64(e: &syn::Expr) -> Option<u64> {
    match e {
        syn::Expr::Lit(l) => match &l.lit { syn::Lit::Int(i) => i.base10_parse().ok(), _ => None },
        syn::Expr::Paren(p) => lit_u64(&p.expr),
        syn::Expr::Group(g) => lit_u64(&g.expr),
        _ => None,
    }
}

fn classify(msg: &str, value: u64, form: &str) -> Option<Assert> {
    let mk = |kind: &str, ty: &str, field: &str| Some(Assert { kind: kind.into(), ty: ty.into(), field: field.into(), value, form: form.into() });
    if let Some(r) = msg.strip_prefix("Size of template specialization: ") { return mk("inst-size", r, ""); }
    if let Some(r) = msg.strip_prefix("Align of template specialization: ") { return mk("inst-align", r, ""); }
    if let Some(r) = msg.strip_prefix("Size of ") { return mk("size", r, ""); }
    if let Some(r) = msg.strip_prefix("Alignment of ") { return mk("align", r, ""); }
    if let Some(r) = msg.strip_prefix("Offset of field: ") {
        let (t, f) = r.rsplit_once("::")?;
        return mk("offset", t, f);
    }
    None
}

/// `["msg"][expr - N];` statements of a `const _: () = { … };` block
fn asserts_of_const_block(b: &syn::Block) -> Option<Vec<Assert>> {
    let mut v = vec![];
    for s in &b.stmts {
        let e = match s { syn::Stmt::Expr(e, _) => e, _ => return None };
        let ix = match e { syn::Expr::Index(ix) => ix, _ => return None };
        let msg = match &*ix.expr {
            syn::Expr::Array(a) if a.elems.len() == 1 => match &a.elems[0] {
                syn::Expr::Lit(l) => match &l.lit { syn::Lit::Str(s) => s.value(), _ => return None },
                _ => return None,
            },
            _ => return None,
        };
        let val = match &*ix.index {
            syn::Expr::Binary(b) if matches!(b.op, syn::BinOp::Sub(_)) => lit_u64(&b.right)?,
            _ => return None,
        };
        v.push(classify(&msg, val, "const")?);
    }
    Some(v)
}

/// `assert_eq!(expr, N, "msg");` statements of a `#[test] fn bindgen_test_layout_*()`
fn asserts_of_test_fn(f: &syn::ItemFn) -> Option<Vec<Assert>> {
    if !f.attrs.iter().any(|a| a.path().is_ident("test")) { return None; }
    let form = format!("test:{}", f.sig.ident);
    let mut v = vec![];
    for s in &f.block.stmts {
        let mac = match s {
            syn::Stmt::Macro(m) => &m.mac,
            syn::Stmt::Expr(syn::Expr::Macro(m), _) => &m.mac,
            _ => continue, // `const UNINIT …; let ptr = …;`
        };
        if !mac.path.is_ident("assert_eq") { return None; }
        let args = mac.parse_body_with(syn::punctuated::Punctuated::<syn::Expr, syn::Token![,]>::parse_terminated).ok()?;
        if args.len() != 3 { return None; }
        let val = lit_u64(&args[1])?;
        let msg = match &args[2] { syn::Expr::Lit(l) => match &l.lit { syn::Lit::Str(s) => s.value(), _ => return None }, _ => return None };
        v.push(classify(&msg, val, &form)?);
    }
    Some(v)
}

impl Inventory {
    pub fn parse(src: &str) -> Result<Inventory, String> {
        let file: syn::File = syn::parse_str(src).map_err(|e| format!("syn: {e}"))?;
        let mut inv = Inventory::default();
        inv.walk(&file.items);
        Ok(inv)
    }

    fn walk(&mut self, items: &[syn::Item]) {
        self.walk_in(items, "");
    }

    fn walk_in(&mut self, items: &[syn::Item], module: &str) {
        for it in items {
            match it {
                syn::Item::Mod(m) => {
                    if let Some((_, items)) = &m.content {
                        self.other_items.push(format!("pub mod {} {{", m.ident));
                        self.other_kinds.push(("mod".into(), m.ident.to_string()));
                        self.layout_texts.push(String::new());
                        self.walk_in(items, &m.ident.to_string());
                        self.other_items.push("}".into());
                        self.other_kinds.push(("mod".into(), String::new()));
                        self.layout_texts.push(String::new());
                    } else {
                        self.other_items.push(it.to_token_stream().to_string());
                        self.other_kinds.push(("other".into(), String::new()));
                        self.layout_texts.push(String::new());
                    }
                    continue;
                }
                syn::Item::Struct(s) => {
                    let (packed, align, transparent, _) = repr_of(&s.attrs);
                    let name = s.ident.to_string();
                    let agg = Agg { name: name.clone(), is_union: false, packed, align, transparent,
                        generics: s.generics.type_params().map(|p| p.ident.to_string()).collect(), fields: fields_of(&s.fields) };
                    if self.aggs.insert(name.clone(), agg).is_some() { self.duplicates.push(name); }
                }
                syn::Item::Union(u) => {
                    let (packed, align, transparent, _) = repr_of(&u.attrs);
                    let name = u.ident.to_string();
                    let agg = Agg { name: name.clone(), is_union: true, packed, align, transparent,
                        generics: u.generics.type_params().map(|p| p.ident.to_string()).collect(),
                        fields: u.fields.named.iter().map(|f| (f.ident.as_ref().unwrap().to_string(), f.ty.clone())).collect() };
                    if self.aggs.insert(name.clone(), agg).is_some() { self.duplicates.push(name); }
                }
                syn::Item::Enum(e) => {
                    let (_, _, _, int) = repr_of(&e.attrs);
                    self.enums.insert(e.ident.to_string(), int.unwrap_or_else(|| "isize".into()));
                }
                syn::Item::Type(t) => {
                    if module.is_empty() || module == "root" {
                        self.aliases.insert(t.ident.to_string(), (*t.ty).clone());
                    } else {
                        // `pub mod E { pub type Type = …; }` (module-consts enums)
                        self.aliases.insert(format!("{module}::{}", t.ident), (*t.ty).clone());
                    }
                }
                syn::Item::Use(u) => {
                    // `pub use self::E as A;` (typedef of an enum)
                    fn last(t: &syn::UseTree, path: &mut Vec<String>) -> Option<(String, String)> {
                        match t {
                            syn::UseTree::Path(p) => { path.push(p.ident.to_string()); last(&p.tree, path) }
                            syn::UseTree::Rename(r) => Some((r.rename.to_string(), r.ident.to_string())),
                            _ => None,
                        }
                    }
                    if let Some((alias, target)) = last(&u.tree, &mut vec![]) {
                        if let Ok(t) = syn::parse_str::<syn::Type>(&target) { self.aliases.insert(alias, t); }
                    }
                }
                syn::Item::Const(c) if c.ident == "_" => {
                    if let syn::Expr::Block(b) = &*c.expr {
                        if let Some(a) = asserts_of_const_block(&b.block) {
                            self.assert_items.push(a);
                            self.assert_texts.push(it.to_token_stream().to_string());
                            continue;
                        }
                    }
                }
                syn::Item::Fn(f) => {
                    if let Some(a) = asserts_of_test_fn(f) {
                        if !a.is_empty() {
                            self.assert_items.push(a);
                            self.assert_texts.push(it.to_token_stream().to_string());
                            continue;
                        }
                    }
                }
                _ => {}
            }
            self.other_items.push(it.to_token_stream().to_string());
            self.layout_texts.push(match it {
                syn::Item::Struct(s) => { let mut s = s.clone(); reduce_derives(&mut s.attrs); s.to_token_stream().to_string() }
                syn::Item::Union(u) => { let mut u = u.clone(); reduce_derives(&mut u.attrs); u.to_token_stream().to_string() }
                _ => String::new(),
            });
            self.other_kinds.push(match it {
                syn::Item::Struct(s) => ("struct".into(), s.ident.to_string()),
                syn::Item::Union(u) => ("union".into(), u.ident.to_string()),
                syn::Item::Impl(i) => ("impl".into(), match &*i.self_ty { syn::Type::Path(p) => p.path.segments.last().map(|s| s.ident.to_string()).unwrap_or_default(), _ => String::new() }),
                syn::Item::Type(t) => ("type".into(), t.ident.to_string()),
                _ => ("other".into(), String::new()),
            });
        }
    }

    /// Source with type definitions only (no `impl`s, no assertion items), one item per line,
    /// leaving out the aggregates named in `removed`.  Returns the text and, per line, the name of
    /// the aggregate defined on it (empty otherwise).
    pub fn types_source(&self, removed: &std::collections::BTreeSet<String>) -> (String, Vec<String>) {
        let mut src = String::new();
        let mut names = vec![];
        for ((t, (k, n)), lt) in self.other_items.iter().zip(self.other_kinds.iter()).zip(self.layout_texts.iter()) {
            if k == "impl" && !n.starts_with("__") { continue; }
            let t = if !lt.is_empty() && !n.starts_with("__") { lt } else { t };
            if (k == "struct" || k == "union" || k == "type") && removed.contains(n) { continue; }
            src.push_str(t);
            src.push('\n');
            names.push(if k == "struct" || k == "union" { n.clone() } else { String::new() });
        }
        (src, names)
    }

    /// names of aggregates that (transitively, through field types) mention one of `roots`
    pub fn dependents(&self, roots: &std::collections::BTreeSet<String>) -> std::collections::BTreeSet<String> {
        let mut set = roots.clone();
        loop {
            let mut grew = false;
            for (name, agg) in &self.aggs {
                if set.contains(name) { continue; }
                let txt: String = agg.fields.iter().map(|f| f.1.to_token_stream().to_string()).collect::<Vec<_>>().join(" ");
                if txt.split(|c: char| !c.is_alphanumeric() && c != '_').any(|w| set.contains(w)) {
                    set.insert(name.clone());
                    grew = true;
                }
            }
            // aliases to removed aggregates
            for (name, t) in &self.aliases {
                if set.contains(name) { continue; }
                let txt = t.to_token_stream().to_string();
                if txt.split(|c: char| !c.is_alphanumeric() && c != '_').any(|w| set.contains(w)) {
                    set.insert(name.clone());
                    grew = true;
                }
            }
            if !grew { break; }
        }
        set
    }

    /// does the type transitively contain a `#[repr(align)]` aggregate (rustc's E0588 walk: through
    /// fields of ADTs, arrays and generic arguments that are stored by value; `PhantomData` and
    /// pointers stop it)?
    pub fn contains_align(&self, ty: &syn::Type, depth: usize) -> bool {
        if depth > 40 { return false; }
        match ty {
            syn::Type::Paren(p) => self.contains_align(&p.elem, depth + 1),
            syn::Type::Group(g) => self.contains_align(&g.elem, depth + 1),
            syn::Type::Array(a) => self.contains_align(&a.elem, depth + 1),
            syn::Type::Path(p) => {
                let seg = match p.path.segments.last() { Some(s) => s, None => return false };
                let name = seg.ident.to_string();
                if name == "PhantomData" || name == "__BindgenUnionField" || name == "__IncompleteArrayField" { return false; }
                if name.starts_with("__BindgenOpaqueArray") && name.len() > "__BindgenOpaqueArray".len() { return true; }
                let args: Vec<&syn::Type> = match &seg.arguments {
                    syn::PathArguments::AngleBracketed(a) => a.args.iter().filter_map(|g| if let syn::GenericArgument::Type(t) = g { Some(t) } else { None }).collect(),
                    _ => vec![],
                };
                if args.iter().any(|a| self.contains_align(a, depth + 1)) { return true; }
                if let Some(a) = self.aggs.get(&name) {
                    if a.align.is_some() { return true; }
                    if a.generics.is_empty() { return a.fields.iter().any(|f| self.contains_align(&f.1, depth + 1)); }
                    return false;
                }
                if let Some(t) = self.aliases.get(&name) { return self.contains_align(t, depth + 1); }
                false
            }
            _ => false,
        }
    }
}

/// One item per line (so that rustc diagnostics can be mapped back to items), modules kept.
pub fn one_item_per_line(src: &str) -> Result<String, String> {
    let file: syn::File = syn::parse_str(src).map_err(|e| format!("syn: {e}"))?;
    fn go(items: &[syn::Item], out: &mut String) {
        for it in items {
            match it {
                syn::Item::Mod(m) if m.content.is_some() => {
                    let attrs: String = m.attrs.iter().map(|a| a.to_token_stream().to_string()).collect::<Vec<_>>().join(" ");
                    out.push_str(&format!("{attrs} {} mod {} {{\n", m.vis.to_token_stream(), m.ident));
                    go(&m.content.as_ref().unwrap().1, out);
                    out.push_str("}\n");
                }
                _ => { out.push_str(&it.to_token_stream().to_string()); out.push('\n'); }
            }
        }
    }
    let mut out = String::new();
    go(&file.items, &mut out);
    Ok(out)
}

// ---------------------------------------------------------------------------------------------
// resolver
// ---------------------------------------------------------------------------------------------

pub fn align_to(s: u64, a: u64) -> u64 { if a == 0 { s } else { s.div_ceil(a) * a } }

fn prim(name: &str) -> Option<(u64, u64)> {
    Some(match name {
        "u8" | "i8" | "bool" | "c_char" | "c_schar" | "c_uchar" => (1, 1),
        "u16" | "i16" | "c_short" | "c_ushort" => (2, 2),
        "u32" | "i32" | "f32" | "c_int" | "c_uint" | "c_float" | "char" => (4, 4),
        "u64" | "i64" | "f64" | "usize" | "isize" | "c_long" | "c_ulong" | "c_longlong" | "c_ulonglong" | "c_double" => (8, 8),
        "u128" | "i128" => (16, 16),
        _ => return None,
    })
}

#[derive(Debug, Clone, PartialEq, Eq)]
pub struct AggLayout {
    pub size: u64,
    pub align: u64,
    pub offsets: Vec<(String, u64)>,
    /// per field (name, size, align) of its type
    pub fields: Vec<(String, u64, u64)>,
}

pub struct Resolver<'a> {
    pub inv: &'a Inventory,
    /// "faithful members" mode: (size, align) to assume for these named aggregates when they occur
    /// as the type of a field (the aggregate itself is still computed from its own fields)
    pub assume: BTreeMap<String, (u64, u64)>,
    memo: std::cell::RefCell<BTreeMap<String, Option<AggLayout>>>,
}

type Subst = BTreeMap<String, (u64, u64)>;

impl<'a> Resolver<'a> {
    pub fn new(inv: &'a Inventory) -> Self { Resolver { inv, assume: BTreeMap::new(), memo: Default::default() } }

    pub fn type_layout(&self, ty: &syn::Type, subst: &Subst) -> Option<(u64, u64)> {
        match ty {
            syn::Type::Paren(p) => self.type_layout(&p.elem, subst),
            syn::Type::Group(g) => self.type_layout(&g.elem, subst),
            syn::Type::Ptr(_) | syn::Type::Reference(_) | syn::Type::BareFn(_) => Some((8, 8)),
            syn::Type::Tuple(t) if t.elems.is_empty() => Some((0, 1)),
            syn::Type::Array(a) => {
                let (s, al) = self.type_layout(&a.elem, subst)?;
                let n = lit_u64(&a.len)?;
                Some((s * n, al))
            }
            syn::Type::Path(p) => {
                let seg = p.path.segments.last()?;
                let name = seg.ident.to_string();
                let args: Vec<&syn::Type> = match &seg.arguments {
                    syn::PathArguments::AngleBracketed(a) => a.args.iter().filter_map(|g| if let syn::GenericArgument::Type(t) = g { Some(t) } else { None }).collect(),
                    _ => vec![],
                };
                if p.path.segments.len() == 1 {
                    if let Some(l) = subst.get(&name) { return Some(*l); }
                }
                if p.path.segments.len() >= 2 {
                    let q = format!("{}::{name}", p.path.segments[p.path.segments.len() - 2].ident);
                    if let Some(t) = self.inv.aliases.get(&q) { return self.type_layout(t, subst); }
                }
                match name.as_str() {
                    "Option" | "ManuallyDrop" | "UnsafeCell" | "MaybeUninit" => return self.type_layout(args.first()?, subst),
                    "PhantomData" => return Some((0, 1)),
                    _ => {}
                }
                if let Some(agg) = self.inv.aggs.get(&name) {
                    if let Some(l) = self.assume.get(&name) { return Some(*l); }
                    if agg.generics.is_empty() {
                        return self.agg_layout(&name).map(|l| (l.size, l.align));
                    }
                    let mut s2 = Subst::new();
                    for (g, a) in agg.generics.iter().zip(args.iter()) {
                        s2.insert(g.clone(), self.type_layout(a, subst)?);
                    }
                    return self.compute(agg, &s2).map(|l| (l.size, l.align));
                }
                if let Some(t) = self.inv.aliases.get(&name) { return self.type_layout(t, subst); }
                if let Some(r) = self.inv.enums.get(&name) { return prim(r); }
                prim(&name)
            }
            _ => None,
        }
    }

    pub fn agg_layout(&self, name: &str) -> Option<AggLayout> {
        if let Some(l) = self.memo.borrow().get(name) { return l.clone(); }
        let agg = self.inv.aggs.get(name)?;
        self.memo.borrow_mut().insert(name.to_string(), None); // cycle guard
        let l = self.compute(agg, &Subst::new());
        self.memo.borrow_mut().insert(name.to_string(), l.clone());
        l
    }

    /// the `repr(C)` / `packed(N)` / `align(N)` algorithm of the Rust reference
    pub fn compute(&self, agg: &Agg, subst: &Subst) -> Option<AggLayout> {
        let mut cur = 0u64;
        let mut ma = 1u64;
        let mut offsets = vec![];
        let mut fields = vec![];
        for (n, t) in &agg.fields {
            let (s, a) = self.type_layout(t, subst)?;
            fields.push((n.clone(), s, a));
            let ea = agg.packed.map_or(a, |p| a.min(p));
            ma = ma.max(ea);
            if agg.is_union {
                offsets.push((n.clone(), 0));
                cur = cur.max(s);
            } else {
                let off = align_to(cur, ea);
                offsets.push((n.clone(), off));
                cur = off + s;
            }
        }
        let align = agg.align.map_or(ma, |e| ma.max(e));
        Some(AggLayout { size: align_to(cur, align), align, offsets, fields })
    }
}

/// canonical text of a type (no whitespace, no `usize` suffix on literals)
pub fn type_text(t: &syn::Type) -> String {
    t.to_token_stream().to_string().replace(' ', "").replace("usize]", "]")
}
