//! Token-level inventory of target-gated constructs in emitted bindings (C14).
//! Names are those of `Construct.name` in lean/BindgenModel/Model/FeaturesSpec.lean.
use proc_macro2::{Delimiter, TokenStream, TokenTree};
use std::collections::BTreeSet;
use std::str::FromStr;

#[derive(Default, Debug, Clone)]
pub struct Gated {
    /// gated constructs seen
    pub constructs: BTreeSet<&'static str>,
    /// every ABI string seen after `extern`
    pub abis: BTreeSet<String>,
    /// `extern "abi" { .. }` blocks without / with `unsafe`
    pub plain_extern_blocks: usize,
    pub unsafe_extern_blocks: usize,
}

fn ident(t: &TokenTree) -> Option<String> {
    if let TokenTree::Ident(i) = t { Some(i.to_string()) } else { None }
}
fn punct(t: &TokenTree, c: char) -> bool {
    matches!(t, TokenTree::Punct(p) if p.as_char() == c)
}
fn brace(t: &TokenTree) -> bool {
    matches!(t, TokenTree::Group(g) if g.delimiter() == Delimiter::Brace)
}
fn path_sep(v: &[TokenTree], i: usize) -> bool {
    i + 1 < v.len() && punct(&v[i], ':') && punct(&v[i + 1], ':')
}

fn walk(ts: TokenStream, out: &mut Gated) {
    let v: Vec<TokenTree> = ts.into_iter().collect();
    for i in 0..v.len() {
        match &v[i] {
            TokenTree::Group(g) => walk(g.stream(), out),
            TokenTree::Literal(l) => {
                let s = l.to_string();
                if s.starts_with("c\"") || s.starts_with("cr\"") || s.starts_with("cr#") {
                    out.constructs.insert("cstr_literal");
                }
            }
            TokenTree::Ident(id) => {
                let id = id.to_string();
                match id.as_str() {
                    "extern" => {
                        let mut j = i + 1;
                        let mut abi = None;
                        if let Some(TokenTree::Literal(l)) = v.get(j) {
                            let s = l.to_string();
                            if s.starts_with('"') {
                                abi = Some(s.trim_matches('"').to_owned());
                                j += 1;
                            }
                        }
                        if let Some(a) = &abi {
                            out.abis.insert(a.clone());
                            match a.as_str() {
                                "thiscall" => { out.constructs.insert("abi_thiscall"); }
                                "vectorcall" => { out.constructs.insert("abi_vectorcall"); }
                                "C-unwind" => { out.constructs.insert("abi_c_unwind"); }
                                "efiapi" => { out.constructs.insert("abi_efiapi"); }
                                _ => {}
                            }
                        }
                        if v.get(j).map_or(false, brace) {
                            let is_unsafe = i > 0 && ident(&v[i - 1]).as_deref() == Some("unsafe");
                            if is_unsafe {
                                out.unsafe_extern_blocks += 1;
                                out.constructs.insert("unsafe_extern_block");
                            } else {
                                out.plain_extern_blocks += 1;
                            }
                        }
                    }
                    "offset_of" => {
                        if v.get(i + 1).map_or(false, |t| punct(t, '!')) {
                            out.constructs.insert("offset_of");
                        }
                    }
                    "from_bytes_with_nul_unchecked" => { out.constructs.insert("const_cstr_unchecked"); }
                    "for_value_raw" => { out.constructs.insert("layout_for_ptr"); }
                    "to_raw_parts" => {
                        if i > 0 && punct(&v[i - 1], '.') {
                            out.constructs.insert("ptr_metadata");
                        }
                    }
                    "core" => {
                        // core :: ffi :: X
                        if path_sep(&v, i + 1) && v.get(i + 3).and_then(ident).as_deref() == Some("ffi") && path_sep(&v, i + 4) {
                            if let Some(x) = v.get(i + 6).and_then(ident) {
                                if x == "CStr" {
                                    out.constructs.insert("core_ffi_cstr");
                                } else if x.starts_with("c_") && x != "c_void" {
                                    out.constructs.insert("core_ffi_c_type");
                                }
                            }
                        }
                    }
                    "ptr" => {
                        if path_sep(&v, i + 1) {
                            if let Some(x) = v.get(i + 3).and_then(ident) {
                                if x == "from_raw_parts" || x == "from_raw_parts_mut" {
                                    out.constructs.insert("ptr_metadata");
                                }
                            }
                        }
                    }
                    _ => {}
                }
            }
            _ => {}
        }
    }
}

/// Scan Rust source text; `Err` if it does not even tokenise.
pub fn scan(src: &str) -> Result<Gated, String> {
    let ts = TokenStream::from_str(src).map_err(|e| e.to_string())?;
    let mut g = Gated::default();
    walk(ts, &mut g);
    Ok(g)
}
