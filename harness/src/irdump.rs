//! Parser for the IR dump the `bindgen_verif` hook writes to `$BINDGEN_VERIF_LOG`.
use std::collections::BTreeMap;

#[derive(Debug, Clone, Default)]
pub struct Record {
    pub tag: String,
    /// bare words (no `=`) after the tag, e.g. `data` / `unit` in field records
    pub words: Vec<String>,
    pub kv: BTreeMap<String, String>,
}

impl Record {
    pub fn get(&self, k: &str) -> &str {
        self.kv.get(k).map(|s| s.as_str()).unwrap_or("")
    }
    pub fn num(&self, k: &str) -> Option<u64> {
        self.kv.get(k).and_then(|s| s.parse().ok())
    }
    pub fn flag(&self, k: &str) -> bool {
        self.get(k) == "1"
    }
    /// `name=x` -> Some(unescaped x); `name-` -> None
    pub fn opt_str(&self, k: &str) -> Option<String> {
        self.kv.get(k).map(|s| unesc(s))
    }
    pub fn ids(&self, k: &str) -> Vec<u64> {
        let v = self.get(k);
        if v == "-" || v.is_empty() { vec![] } else { v.split(',').filter_map(|x| x.parse().ok()).collect() }
    }
}

pub fn unesc(s: &str) -> String {
    if s == "%" {
        return String::new();
    }
    let b = s.as_bytes();
    let mut out = Vec::with_capacity(b.len());
    let mut i = 0;
    while i < b.len() {
        if b[i] == b'%' && i + 2 < b.len() + 0 && i + 2 <= b.len() - 1 + 1 {
            if let Ok(v) = u8::from_str_radix(&s[i + 1..i + 3], 16) {
                out.push(v);
                i += 3;
                continue;
            }
        }
        out.push(b[i]);
        i += 1;
    }
    String::from_utf8_lossy(&out).into_owned()
}

pub fn parse_line(line: &str) -> Record {
    let mut it = line.split(' ');
    let mut r = Record { tag: it.next().unwrap_or("").to_owned(), ..Default::default() };
    for t in it {
        if let Some((k, v)) = t.split_once('=') {
            r.kv.insert(k.to_owned(), v.to_owned());
        } else if t.ends_with('-') && t.len() > 1 {
            // `name-` : absent optional string; leave out of kv
        } else if !t.is_empty() {
            r.words.push(t.to_owned());
        }
    }
    r
}

/// All records of the log, split into the non-IR lines (unstable / consulted) and the dumps
/// (one Vec<Record> per `ir-begin .. ir-end`).
pub struct Log {
    pub unstable: Vec<Record>,
    pub consulted: Vec<Record>,
    pub dumps: Vec<Vec<Record>>,
    pub raw_ir_lines: Vec<Vec<String>>,
}

pub fn parse_log(text: &str) -> Log {
    let mut log = Log { unstable: vec![], consulted: vec![], dumps: vec![], raw_ir_lines: vec![] };
    let mut cur: Option<(Vec<Record>, Vec<String>)> = None;
    for line in text.lines() {
        if line == "ir-begin" {
            cur = Some((vec![], vec![]));
        } else if line == "ir-end" {
            if let Some((c, raw)) = cur.take() {
                log.dumps.push(c);
                log.raw_ir_lines.push(raw);
            }
        } else if let Some((c, raw)) = cur.as_mut() {
            c.push(parse_line(line));
            raw.push(line.to_owned());
        } else if line.starts_with("unstable ") {
            log.unstable.push(parse_line(line));
        } else if line.starts_with("FIXPOINT-UNSTABLE-CONSULTED ") {
            log.consulted.push(parse_line(line));
        }
    }
    log
}
