//! C04: generator of C libraries whose functions fold their arguments into a checksum, together
//! with the value-level reference semantics (what every checksum must be) and the renderers for
//! the C side.  The Rust caller is rendered in `bin/c04.rs` once the bindings are known.
use crate::rng::Rng;
use std::fmt::Write as _;

pub const PRIME: u64 = 0x100000001b3;
pub const INIT: u64 = 0xcbf29ce484222325;
pub fn fold(h: u64, x: u64) -> u64 {
    (h ^ x).wrapping_mul(PRIME)
}

#[derive(Clone, Copy, PartialEq, Eq, Debug)]
pub enum SK { Int, F32, F64, Bool }

pub struct Sc {
    pub c: &'static str,
    pub bits: u32,
    pub signed: bool,
    pub k: SK,
    /// Rust spelling, used only for variadic arguments (C default promotions) — everything else
    /// takes its Rust types from the bindings
    pub rs: &'static str,
}

pub const SCALARS: &[Sc] = &[
    Sc { c: "char", bits: 8, signed: true, k: SK::Int, rs: "::std::os::raw::c_char" },
    Sc { c: "signed char", bits: 8, signed: true, k: SK::Int, rs: "::std::os::raw::c_schar" },
    Sc { c: "unsigned char", bits: 8, signed: false, k: SK::Int, rs: "::std::os::raw::c_uchar" },
    Sc { c: "short", bits: 16, signed: true, k: SK::Int, rs: "::std::os::raw::c_short" },
    Sc { c: "unsigned short", bits: 16, signed: false, k: SK::Int, rs: "::std::os::raw::c_ushort" },
    Sc { c: "int", bits: 32, signed: true, k: SK::Int, rs: "::std::os::raw::c_int" },
    Sc { c: "unsigned int", bits: 32, signed: false, k: SK::Int, rs: "::std::os::raw::c_uint" },
    Sc { c: "long", bits: 64, signed: true, k: SK::Int, rs: "::std::os::raw::c_long" },
    Sc { c: "unsigned long", bits: 64, signed: false, k: SK::Int, rs: "::std::os::raw::c_ulong" },
    Sc { c: "long long", bits: 64, signed: true, k: SK::Int, rs: "::std::os::raw::c_longlong" },
    Sc { c: "unsigned long long", bits: 64, signed: false, k: SK::Int, rs: "::std::os::raw::c_ulonglong" },
    Sc { c: "__int128", bits: 128, signed: true, k: SK::Int, rs: "i128" },
    Sc { c: "unsigned __int128", bits: 128, signed: false, k: SK::Int, rs: "u128" },
    Sc { c: "int8_t", bits: 8, signed: true, k: SK::Int, rs: "i8" },
    Sc { c: "uint8_t", bits: 8, signed: false, k: SK::Int, rs: "u8" },
    Sc { c: "int16_t", bits: 16, signed: true, k: SK::Int, rs: "i16" },
    Sc { c: "uint16_t", bits: 16, signed: false, k: SK::Int, rs: "u16" },
    Sc { c: "int32_t", bits: 32, signed: true, k: SK::Int, rs: "i32" },
    Sc { c: "uint32_t", bits: 32, signed: false, k: SK::Int, rs: "u32" },
    Sc { c: "int64_t", bits: 64, signed: true, k: SK::Int, rs: "i64" },
    Sc { c: "uint64_t", bits: 64, signed: false, k: SK::Int, rs: "u64" },
    Sc { c: "size_t", bits: 64, signed: false, k: SK::Int, rs: "usize" },
    Sc { c: "wchar_t", bits: 32, signed: true, k: SK::Int, rs: "i32" },
    Sc { c: "_Bool", bits: 8, signed: false, k: SK::Bool, rs: "bool" },
    Sc { c: "float", bits: 32, signed: true, k: SK::F32, rs: "f32" },
    Sc { c: "double", bits: 64, signed: true, k: SK::F64, rs: "f64" },
    // <stdint.h> / <stddef.h> names whose width is the C library's choice, not the name's (x86_64 glibc: the 16- and
    // 32-bit `fast` types are `long`): a binding must follow the typedef, never the number in the name
    Sc { c: "int_fast8_t", bits: 8, signed: true, k: SK::Int, rs: "i8" },
    Sc { c: "uint_fast8_t", bits: 8, signed: false, k: SK::Int, rs: "u8" },
    Sc { c: "int_fast16_t", bits: 64, signed: true, k: SK::Int, rs: "i64" },
    Sc { c: "uint_fast16_t", bits: 64, signed: false, k: SK::Int, rs: "u64" },
    Sc { c: "int_fast32_t", bits: 64, signed: true, k: SK::Int, rs: "i64" },
    Sc { c: "uint_fast32_t", bits: 64, signed: false, k: SK::Int, rs: "u64" },
    Sc { c: "int_fast64_t", bits: 64, signed: true, k: SK::Int, rs: "i64" },
    Sc { c: "uint_fast64_t", bits: 64, signed: false, k: SK::Int, rs: "u64" },
    Sc { c: "int_least8_t", bits: 8, signed: true, k: SK::Int, rs: "i8" },
    Sc { c: "uint_least8_t", bits: 8, signed: false, k: SK::Int, rs: "u8" },
    Sc { c: "int_least16_t", bits: 16, signed: true, k: SK::Int, rs: "i16" },
    Sc { c: "uint_least16_t", bits: 16, signed: false, k: SK::Int, rs: "u16" },
    Sc { c: "int_least32_t", bits: 32, signed: true, k: SK::Int, rs: "i32" },
    Sc { c: "uint_least32_t", bits: 32, signed: false, k: SK::Int, rs: "u32" },
    Sc { c: "int_least64_t", bits: 64, signed: true, k: SK::Int, rs: "i64" },
    Sc { c: "uint_least64_t", bits: 64, signed: false, k: SK::Int, rs: "u64" },
    Sc { c: "intptr_t", bits: 64, signed: true, k: SK::Int, rs: "isize" },
    Sc { c: "uintptr_t", bits: 64, signed: false, k: SK::Int, rs: "usize" },
    Sc { c: "ptrdiff_t", bits: 64, signed: true, k: SK::Int, rs: "isize" },
    Sc { c: "intmax_t", bits: 64, signed: true, k: SK::Int, rs: "i64" },
    Sc { c: "uintmax_t", bits: 64, signed: false, k: SK::Int, rs: "u64" },
];
pub const SC_INT: usize = 5;
pub const SC_DOUBLE: usize = 25;
pub const SC_LONG: usize = 7;
pub const SC_ULL: usize = 10;
pub const SC_UINT: usize = 6;

#[derive(Clone, Debug, PartialEq)]
pub enum Ty {
    Sc(usize),
    Enum(usize),
    Td(usize),
    Struct(usize),
    Union(usize),
    /// pointee const, pointee
    Ptr(bool, Box<Ty>),
    Void,
    FnPtr(usize),
}

#[derive(Clone, Debug)]
pub enum Param {
    Val(Ty),
    /// `T name[len]` / `T name[]` / `T name[static len]`; const element
    Arr { elem: usize, len: usize, konst: bool, form: u8 },
    /// `T name[n1][n2]`
    Arr2 { elem: usize, n1: usize, n2: usize },
    /// parameter of array-typedef type, optionally `const`
    TdArr { td: usize, konst: bool },
}

#[derive(Clone, Debug)]
pub enum Field { Val(Ty), Arr(usize, usize) }

#[derive(Clone, Debug)]
pub struct SDef { pub name: String, pub fields: Vec<Field> }
#[derive(Clone, Debug)]
pub struct UDef { pub name: String, pub members: Vec<usize> }
#[derive(Clone, Debug)]
pub struct EDef { pub name: String, pub values: Vec<(String, i64)> }
#[derive(Clone, Debug)]
pub enum CbP { Sc(usize), PtrSc(bool, usize) }
#[derive(Clone, Debug)]
pub struct CbSig { pub ret: Option<usize>, pub params: Vec<CbP> }
#[derive(Clone, Debug)]
pub enum VarArg { Int, UInt, Long, Ull, Double, Anchor }

#[derive(Clone, Debug)]
pub struct Func {
    pub name: String,
    pub ret: Option<Ty>,
    pub params: Vec<(Option<String>, Param)>,
    pub tail: Option<Vec<VarArg>>,
    pub noreturn: bool,
    pub inline: bool,
    pub is_static: bool,
    pub declared_twice: bool,
    /// which member by-value unions are read through
    pub union_member: usize,
    /// declared and defined with `__attribute__((ms_abi))` (bound as `extern "win64"`)
    pub ms_abi: bool,
}

#[derive(Clone, Debug)]
pub struct Global {
    pub name: String,
    pub ty: GTy,
    pub konst: bool,
    pub declared_twice: bool,
    pub init: Val,
}
#[derive(Clone, Debug)]
pub enum GTy { Val(Ty), Arr(usize, usize) }

#[derive(Clone, Debug, Default)]
pub struct Lib {
    pub enums: Vec<EDef>,
    pub structs: Vec<SDef>,
    pub unions: Vec<UDef>,
    pub typedefs: Vec<(String, Ty)>,
    pub arr_typedefs: Vec<(String, usize, usize)>,
    pub cbsigs: Vec<CbSig>,
    pub funcs: Vec<Func>,
    pub globals: Vec<Global>,
}

/// `I` holds the two's-complement bit pattern truncated to the type's width.
#[derive(Clone, Debug, PartialEq)]
pub enum Val {
    I(u128),
    F32(u32),
    F64(u64),
    B(bool),
    /// leaves of a struct, in `leaves` order
    Agg(Vec<Val>),
    Arr(Vec<Val>),
    /// pointer to a local initialised with the value
    P(Box<Val>),
    Null,
    Anchor,
    /// Rust callback number / C function for the signature
    Cb,
}

#[derive(Clone, Debug, PartialEq)]
pub enum Leaf { Sc(usize), Enum(usize), PtrVoid }

pub fn mask(bits: u32) -> u128 {
    if bits >= 128 { u128::MAX } else { (1u128 << bits) - 1 }
}

impl Lib {
    pub fn resolve<'a>(&'a self, t: &'a Ty) -> &'a Ty {
        match t {
            Ty::Td(i) => self.resolve(&self.typedefs[*i].1),
            t => t,
        }
    }

    pub fn c_ty(&self, t: &Ty) -> String {
        match t {
            Ty::Sc(i) => SCALARS[*i].c.into(),
            Ty::Enum(i) => format!("enum {}", self.enums[*i].name),
            Ty::Td(i) => self.typedefs[*i].0.clone(),
            Ty::Struct(i) => format!("struct {}", self.structs[*i].name),
            Ty::Union(i) => format!("union {}", self.unions[*i].name),
            Ty::Ptr(k, t) => format!("{}{} *", self.c_ty(t), if *k { " const" } else { "" }),
            Ty::Void => "void".into(),
            // odd callbacks: a typedef of the *function type*, used through `*` (the first pointer
            // level on top of a typedef'd function type must be swallowed by the lowering)
            Ty::FnPtr(i) if i % 2 == 1 => format!("c04_cbf{} *", i),
            Ty::FnPtr(i) => format!("c04_cbt{}", i),
        }
    }

    /// leaves (member path suffix valid in C and in Rust, leaf type)
    pub fn leaves(&self, t: &Ty, pre: &str, out: &mut Vec<(String, Leaf)>) {
        match self.resolve(t) {
            Ty::Sc(i) => out.push((pre.into(), Leaf::Sc(*i))),
            Ty::Enum(i) => out.push((pre.into(), Leaf::Enum(*i))),
            Ty::Ptr(_, _) => out.push((pre.into(), Leaf::PtrVoid)),
            Ty::Struct(i) => {
                for (k, f) in self.structs[*i].fields.iter().enumerate() {
                    match f {
                        Field::Val(ft) => self.leaves(ft, &format!("{pre}.f{k}"), out),
                        Field::Arr(sc, n) => {
                            for j in 0..*n {
                                out.push((format!("{pre}.f{k}[{j}]"), Leaf::Sc(*sc)));
                            }
                        }
                    }
                }
            }
            other => panic!("no leaves for {other:?}"),
        }
    }

    pub fn struct_size_estimate(&self, i: usize) -> usize {
        let mut v = vec![];
        self.leaves(&Ty::Struct(i), "", &mut v);
        v.iter().map(|(_, l)| match l { Leaf::Sc(s) => SCALARS[*s].bits as usize / 8, Leaf::Enum(_) => 4, Leaf::PtrVoid => 8 }).sum()
    }

    // ---------------------------------------------------------------- value level

    pub fn leaf_image(&self, l: &Leaf, v: &Val, h: u64) -> u64 {
        match (l, v) {
            (Leaf::Sc(i), Val::I(bits)) => {
                let sc = &SCALARS[*i];
                if sc.bits == 128 {
                    fold(fold(h, *bits as u64), (*bits >> 64) as u64)
                } else {
                    let m = mask(sc.bits);
                    let mut x = *bits & m;
                    if sc.signed && (x >> (sc.bits - 1)) & 1 == 1 {
                        x |= !m;
                    }
                    fold(h, x as u64)
                }
            }
            (Leaf::Sc(_), Val::B(b)) => fold(h, *b as u64),
            (Leaf::Sc(_), Val::F32(b)) => fold(h, *b as u64),
            (Leaf::Sc(_), Val::F64(b)) => fold(h, *b),
            (Leaf::Enum(_), Val::I(bits)) => {
                let mut x = *bits & mask(32);
                // enumerator values are given as i64; image = value mod 2^64
                if (x >> 31) & 1 == 1 && self.enum_signed(l) {
                    x |= !mask(32);
                }
                fold(h, x as u64)
            }
            (Leaf::PtrVoid, Val::Anchor) => fold(h, 1),
            (Leaf::PtrVoid, Val::Null) => fold(h, 0),
            other => panic!("leaf_image {other:?}"),
        }
    }

    fn enum_signed(&self, l: &Leaf) -> bool {
        match l {
            Leaf::Enum(i) => self.enums[*i].values.iter().any(|(_, v)| *v < 0),
            _ => false,
        }
    }

    /// fold a by-value thing of type `t`
    pub fn fold_val(&self, t: &Ty, v: &Val, mut h: u64) -> u64 {
        match (self.resolve(t), v) {
            (Ty::Struct(_), Val::Agg(vs)) => {
                let mut ls = vec![];
                self.leaves(t, "", &mut ls);
                for ((_, l), v) in ls.iter().zip(vs) {
                    h = self.leaf_image(l, v, h);
                }
                h
            }
            (Ty::Sc(i), v) => self.leaf_image(&Leaf::Sc(*i), v, h),
            (Ty::Enum(i), v) => self.leaf_image(&Leaf::Enum(*i), v, h),
            (Ty::Ptr(_, p), Val::Anchor) if **p == Ty::Void => fold(h, 1),
            (Ty::Ptr(_, p), Val::Null) if **p == Ty::Void => fold(h, 0),
            (Ty::Ptr(_, _), Val::Null) => fold(h, 0xdead),
            (Ty::Ptr(_, p), Val::P(inner)) => self.fold_val(p, inner, h),
            other => panic!("fold_val {other:?}"),
        }
    }

    pub fn make_leaf(&self, l: &Leaf, h: u64) -> Val {
        match l {
            Leaf::Sc(i) => {
                let sc = &SCALARS[*i];
                match sc.k {
                    SK::Int => {
                        if sc.bits == 128 {
                            Val::I(((fold(h, 1) as u128) << 64) | h as u128)
                        } else {
                            Val::I(h as u128 & mask(sc.bits))
                        }
                    }
                    SK::Bool => Val::B(h & 1 == 1),
                    SK::F32 => Val::F32((((h & 0xFFFF) as i32 as f32) * 0.5).to_bits()),
                    SK::F64 => Val::F64((((h & 0xFFFF_FFFF) as i64 as f64) * 0.25).to_bits()),
                }
            }
            Leaf::Enum(i) => {
                let e = &self.enums[*i];
                let v = e.values[(h % e.values.len() as u64) as usize].1;
                Val::I(v as i128 as u128 & mask(32))
            }
            Leaf::PtrVoid => Val::Anchor,
        }
    }

    /// the value a C function builds from hash `h` for type `t` (by value)
    pub fn make_val(&self, t: &Ty, h: u64) -> Val {
        match self.resolve(t) {
            Ty::Struct(_) => {
                let mut ls = vec![];
                self.leaves(t, "", &mut ls);
                Val::Agg(ls.iter().enumerate().map(|(k, (_, l))| self.make_leaf(l, fold(h, k as u64 + 1))).collect())
            }
            Ty::Sc(i) => self.make_leaf(&Leaf::Sc(*i), h),
            Ty::Enum(i) => self.make_leaf(&Leaf::Enum(*i), h),
            Ty::Ptr(_, p) if **p == Ty::Void => Val::Anchor,
            Ty::Ptr(_, p) => Val::P(Box::new(self.make_val(p, fold(h, 1)))),
            other => panic!("make_val {other:?}"),
        }
    }

    // ---------------------------------------------------------------- C renderers

    pub fn c_fold_leaf(&self, l: &Leaf, e: &str, out: &mut String) {
        match l {
            Leaf::Sc(i) => {
                let sc = &SCALARS[*i];
                match sc.k {
                    SK::Int if sc.bits == 128 => {
                        let _ = writeln!(out, "  h = c04_fold(h, (uint64_t)({e})); h = c04_fold(h, (uint64_t)((unsigned __int128)({e}) >> 64));");
                    }
                    SK::Int | SK::Bool => { let _ = writeln!(out, "  h = c04_fold(h, (uint64_t)({e}));"); }
                    SK::F32 => { let _ = writeln!(out, "  {{ float t_ = ({e}); uint32_t b_; memcpy(&b_, &t_, 4); h = c04_fold(h, b_); }}"); }
                    SK::F64 => { let _ = writeln!(out, "  {{ double t_ = ({e}); uint64_t b_; memcpy(&b_, &t_, 8); h = c04_fold(h, b_); }}"); }
                }
            }
            Leaf::Enum(_) => { let _ = writeln!(out, "  h = c04_fold(h, (uint64_t)({e}));"); }
            Leaf::PtrVoid => { let _ = writeln!(out, "  h = c04_fold(h, (uint64_t)(({e}) == (void*)&c04_anchor));"); }
        }
    }

    /// statements folding expression `e` of by-value type `t` into `h`
    pub fn c_fold(&self, t: &Ty, e: &str, out: &mut String) {
        match self.resolve(t) {
            Ty::Struct(_) => {
                let mut ls = vec![];
                self.leaves(t, "", &mut ls);
                for (p, l) in ls {
                    self.c_fold_leaf(&l, &format!("({e}){p}"), out);
                }
            }
            Ty::Sc(i) => self.c_fold_leaf(&Leaf::Sc(*i), e, out),
            Ty::Enum(i) => self.c_fold_leaf(&Leaf::Enum(*i), e, out),
            Ty::Ptr(_, p) if **p == Ty::Void => self.c_fold_leaf(&Leaf::PtrVoid, e, out),
            Ty::Ptr(_, p) => {
                let _ = writeln!(out, "  if ({e}) {{");
                self.c_fold(p, &format!("(*({e}))"), out);
                let _ = writeln!(out, "  }} else h = c04_fold(h, 0xdead);");
            }
            other => panic!("c_fold {other:?}"),
        }
    }

    pub fn c_make_leaf(&self, l: &Leaf, hx: &str) -> String {
        match l {
            Leaf::Sc(i) => {
                let sc = &SCALARS[*i];
                match sc.k {
                    SK::Int if sc.bits == 128 => format!("(({})(((unsigned __int128)c04_fold({hx}, 1) << 64) | (unsigned __int128)({hx})))", sc.c),
                    SK::Int => format!("(({})({hx}))", sc.c),
                    SK::Bool => format!("((_Bool)(({hx}) & 1))"),
                    SK::F32 => format!("((float)(int32_t)(({hx}) & 0xFFFF) * 0.5f)"),
                    SK::F64 => format!("((double)(int64_t)(({hx}) & 0xFFFFFFFFull) * 0.25)"),
                }
            }
            Leaf::Enum(i) => format!("c04_ev{}[({hx}) % {}]", i, self.enums[*i].values.len()),
            Leaf::PtrVoid => "((void*)&c04_anchor)".into(),
        }
    }

    /// statements assigning to lvalue `lv` (by-value type `t`, not a non-void pointer) the value made from `hx`
    pub fn c_make(&self, t: &Ty, lv: &str, hx: &str, out: &mut String) {
        match self.resolve(t) {
            Ty::Struct(_) => {
                let mut ls = vec![];
                self.leaves(t, "", &mut ls);
                let _ = writeln!(out, "  memset(&{lv}, 0, sizeof {lv});");
                for (k, (p, l)) in ls.iter().enumerate() {
                    let _ = writeln!(out, "  {lv}{p} = {};", self.c_make_leaf(l, &format!("c04_fold({hx}, {})", k + 1)));
                }
            }
            Ty::Sc(i) => { let _ = writeln!(out, "  {lv} = {};", self.c_make_leaf(&Leaf::Sc(*i), hx)); }
            Ty::Enum(i) => { let _ = writeln!(out, "  {lv} = {};", self.c_make_leaf(&Leaf::Enum(*i), hx)); }
            Ty::Ptr(_, p) if **p == Ty::Void => { let _ = writeln!(out, "  {lv} = (void*)&c04_anchor;"); }
            other => panic!("c_make {other:?}"),
        }
    }

    pub fn c_literal_leaf(&self, l: &Leaf, v: &Val) -> String {
        match (l, v) {
            (Leaf::Sc(i), Val::I(b)) if SCALARS[*i].bits == 128 => {
                format!("(({})(((unsigned __int128)0x{:x}ull << 64) | 0x{:x}ull))", SCALARS[*i].c, (*b >> 64) as u64, *b as u64)
            }
            (Leaf::Sc(i), Val::I(b)) => format!("(({})0x{:x}ull)", SCALARS[*i].c, *b as u64),
            (Leaf::Sc(_), Val::B(b)) => format!("{}", *b as u8),
            (Leaf::Sc(_), Val::F32(b)) => c_float_lit(f32::from_bits(*b) as f64, true),
            (Leaf::Sc(_), Val::F64(b)) => c_float_lit(f64::from_bits(*b), false),
            (Leaf::Enum(i), Val::I(b)) => {
                let v = (*b as u32) as i32 as i64;
                let e = &self.enums[*i];
                e.values.iter().find(|(_, x)| *x == v || (*x as u32) == *b as u32).map(|(n, _)| n.clone()).unwrap_or_else(|| format!("(enum {}){}", e.name, v))
            }
            (Leaf::PtrVoid, Val::Anchor) => "(void*)&c04_anchor".into(),
            (Leaf::PtrVoid, Val::Null) => "(void*)0".into(),
            other => panic!("c_literal_leaf {other:?}"),
        }
    }
}

/// exact C literal of a float that is k/8 for a small integer k, ±0, ±inf or FLT/DBL_MAX
pub fn c_float_lit(x: f64, single: bool) -> String {
    let suf = if single { "f" } else { "" };
    if x.is_infinite() {
        return format!("({}__builtin_inf{suf}())", if x < 0.0 { "-" } else { "" });
    }
    if x == 0.0 {
        return if x.is_sign_negative() { format!("(-0.0{suf})") } else { format!("0.0{suf}") };
    }
    if single && x.abs() == f32::MAX as f64 {
        return format!("({}3.40282347e+38f)", if x < 0.0 { "-" } else { "" });
    }
    if !single && x.abs() == f64::MAX {
        return format!("({}1.7976931348623157e+308)", if x < 0.0 { "-" } else { "" });
    }
    let k = x * 8.0;
    assert!(k.fract() == 0.0 && k.abs() < 1e15, "float literal {x}");
    format!("({}.0{suf} / 8.0{suf})", k as i64)
}

// -------------------------------------------------------------------- random generation

pub const KEYWORD_NAMES: &[&str] = &["match", "type", "fn", "gen", "async", "try", "loop", "impl", "use", "move", "ref", "self_", "str", "u8", "yield", "box", "dyn", "priv", "final", "override", "crate", "mod", "pub", "where", "unsafe", "trait", "let", "mut", "in", "as", "await", "become", "macro", "super", "Self", "abstract", "virtual", "unsized", "bool_", "i32", "usize", "f64", "_"];

pub fn pick_scalar(r: &mut Rng) -> usize {
    r.below(SCALARS.len() as u64) as usize
}

/// scalars for struct fields: 128-bit integers after a smaller field make bindgen emit explicit
/// padding that breaks its own layout assertion (a C02/C01 matter, recorded there), so they are
/// only used as parameters, return values, globals and sole struct members here
pub fn pick_field_scalar(r: &mut Rng) -> usize {
    loop { let k = pick_scalar(r); if SCALARS[k].bits != 128 { return k; } }
}

pub fn gen_leaf_val(lib: &Lib, l: &Leaf, r: &mut Rng) -> Val {
    match l {
        Leaf::Sc(i) => {
            let sc = &SCALARS[*i];
            match sc.k {
                SK::Int => {
                    let m = mask(sc.bits);
                    let v = match r.below(8) {
                        0 => 0,
                        1 => 1,
                        2 => m,                       // -1 / MAX unsigned
                        3 => 1u128 << (sc.bits - 1),  // MIN signed / high bit
                        4 => (1u128 << (sc.bits - 1)) - 1, // MAX signed
                        5 => 0x80 & m,
                        _ => ((r.next() as u128) << 64 | r.next() as u128) & m,
                    };
                    Val::I(v)
                }
                SK::Bool => Val::B(r.chance(1, 2)),
                SK::F32 => Val::F32(match r.below(8) {
                    0 => 0f32.to_bits(),
                    1 => (-0f32).to_bits(),
                    2 => f32::MAX.to_bits(),
                    3 => f32::INFINITY.to_bits(),
                    4 => (-f32::MAX).to_bits(),
                    _ => (((r.below(1 << 21) as i64 - (1 << 20)) as f32) / 8.0).to_bits(),
                }),
                SK::F64 => Val::F64(match r.below(8) {
                    0 => 0f64.to_bits(),
                    1 => (-0f64).to_bits(),
                    2 => f64::MAX.to_bits(),
                    3 => f64::NEG_INFINITY.to_bits(),
                    _ => (((r.below(1 << 41) as i64 - (1 << 40)) as f64) / 8.0).to_bits(),
                }),
            }
        }
        Leaf::Enum(i) => {
            let e = &lib.enums[*i];
            Val::I(r.pick(&e.values).1 as i128 as u128 & mask(32))
        }
        Leaf::PtrVoid => if r.chance(3, 4) { Val::Anchor } else { Val::Null },
    }
}

/// value for a by-value thing of type `t` (pointers: pointer to a local holding the pointee value)
pub fn gen_val(lib: &Lib, t: &Ty, r: &mut Rng) -> Val {
    match lib.resolve(t) {
        Ty::Struct(_) => {
            let mut ls = vec![];
            lib.leaves(t, "", &mut ls);
            Val::Agg(ls.iter().map(|(_, l)| gen_leaf_val(lib, l, r)).collect())
        }
        Ty::Sc(i) => gen_leaf_val(lib, &Leaf::Sc(*i), r),
        Ty::Enum(i) => gen_leaf_val(lib, &Leaf::Enum(*i), r),
        Ty::Ptr(_, p) if **p == Ty::Void => gen_leaf_val(lib, &Leaf::PtrVoid, r),
        Ty::Ptr(_, p) => if r.chance(1, 8) { Val::Null } else { Val::P(Box::new(gen_val(lib, p, r))) },
        Ty::Union(i) => {
            // value of the member the function reads (chosen by the caller): generate per member later
            let _ = i;
            Val::Null
        }
        Ty::FnPtr(_) => if r.chance(1, 6) { Val::Null } else { Val::Cb },
        other => panic!("gen_val {other:?}"),
    }
}

fn ident(r: &mut Rng, n: usize, used: &mut Vec<String>, allow_special: bool) -> String {
    loop {
        let s = if allow_special && r.chance(1, 5) {
            let k = *r.pick(KEYWORD_NAMES);
            if k.ends_with('_') && k != "_" { k.to_string() } else { k.to_string() }
        } else if allow_special && r.chance(1, 8) {
            format!("c04${}$x{}", n, r.below(100))
        } else {
            format!("c04_f{}_{}", n, r.below(1000))
        };
        if !used.contains(&s) && s != "_" || (s == "_" && !used.contains(&s)) {
            used.push(s.clone());
            return s;
        }
    }
}

fn gen_value_ty(lib: &Lib, r: &mut Rng, allow_agg: bool) -> Ty {
    match r.below(20) {
        0..=8 => Ty::Sc(pick_scalar(r)),
        9 if !lib.enums.is_empty() => Ty::Enum(r.below(lib.enums.len() as u64) as usize),
        10 | 11 if !lib.typedefs.is_empty() => Ty::Td(r.below(lib.typedefs.len() as u64) as usize),
        12..=15 if allow_agg && !lib.structs.is_empty() => Ty::Struct(r.below(lib.structs.len() as u64) as usize),
        16 => Ty::Ptr(r.chance(1, 2), Box::new(Ty::Void)),
        17 | 18 => {
            let inner = match r.below(6) {
                0 if !lib.structs.is_empty() => Ty::Struct(r.below(lib.structs.len() as u64) as usize),
                1 if !lib.enums.is_empty() => Ty::Enum(r.below(lib.enums.len() as u64) as usize),
                2 => Ty::Ptr(r.chance(1, 2), Box::new(Ty::Sc(pick_scalar(r)))),
                3 if !lib.typedefs.is_empty() => Ty::Td(r.below(lib.typedefs.len() as u64) as usize),
                _ => Ty::Sc(pick_scalar(r)),
            };
            Ty::Ptr(r.chance(1, 2), Box::new(inner))
        }
        _ => Ty::Sc(pick_scalar(r)),
    }
}

/// special aggregate shapes around the SysV classification boundaries
fn boundary_structs() -> Vec<Vec<Field>> {
    let s = |c: &str| Field::Val(Ty::Sc(SCALARS.iter().position(|x| x.c == c).unwrap()));
    let a = |c: &str, n: usize| Field::Arr(SCALARS.iter().position(|x| x.c == c).unwrap(), n);
    vec![
        vec![s("char")],
        vec![s("float"), s("float")],
        vec![s("double"), s("double")],
        vec![s("double"), s("int")],
        vec![s("int"), s("double")],
        vec![s("float"), s("float"), s("float")],
        vec![s("float"), s("float"), s("float"), s("float")],
        vec![s("float"), s("int"), s("float"), s("float")],
        vec![a("char", 16)],
        vec![a("char", 17)],
        vec![s("long"), s("long")],
        vec![s("long"), s("long"), s("char")],
        vec![s("long"), s("long"), s("long")],
        vec![a("double", 2), s("char")],
        vec![a("unsigned char", 3)],
        vec![a("short", 3), s("char")],
        vec![a("long", 8)],
        vec![s("_Bool"), s("float"), s("short")],
        vec![a("float", 2), s("double")],
        vec![s("unsigned int"), s("unsigned int"), s("float"), s("float")],
    ]
}

pub struct GenCfg { pub max_funcs: usize, pub lib_index: usize }

pub fn gen_lib(r: &mut Rng, cfg: &GenCfg) -> Lib {
    let mut lib = Lib::default();
    let mut used: Vec<String> = vec![];
    // enums
    for i in 0..r.range(1, 3) as usize {
        let n = r.range(1, 5) as usize;
        let neg = r.chance(1, 3);
        let mut values = vec![];
        for k in 0..n {
            let v = if neg && k == 0 { -(r.below(1000) as i64) - 1 } else if r.chance(1, 6) { 0x7fff_ffff - k as i64 } else { r.below(70000) as i64 + k as i64 * 70001 };
            values.push((format!("C04E{i}_V{k}"), v));
        }
        if !neg && r.chance(1, 4) {
            values.push((format!("C04E{i}_BIG"), 0xffff_fff0u32 as i64));
        }
        lib.enums.push(EDef { name: format!("c04_e{i}"), values });
    }
    // structs: boundary shapes rotate with the library index, plus random ones
    let bs = boundary_structs();
    let nstruct = r.range(2, 5) as usize;
    for i in 0..nstruct {
        let fields = if i < 2 {
            bs[(cfg.lib_index * 2 + i) % bs.len()].clone()
        } else {
            let mut fs = vec![];
            let mut size = 0usize;
            let target = r.range(1, 64) as usize;
            while size < target && fs.len() < 9 {
                let f = match r.below(10) {
                    0 if i > 0 => Field::Val(Ty::Struct(r.below(i as u64) as usize)),
                    1 => Field::Arr(pick_field_scalar(r), r.range(1, 5) as usize),
                    2 if !lib.enums.is_empty() => Field::Val(Ty::Enum(r.below(lib.enums.len() as u64) as usize)),
                    3 => Field::Val(Ty::Ptr(false, Box::new(Ty::Void))),
                    _ => Field::Val(Ty::Sc(pick_field_scalar(r))),
                };
                size += match &f {
                    Field::Val(Ty::Sc(s)) => SCALARS[*s].bits as usize / 8,
                    Field::Arr(s, n) => SCALARS[*s].bits as usize / 8 * n,
                    Field::Val(Ty::Struct(j)) => lib.struct_size_estimate(*j),
                    _ => 8,
                };
                fs.push(f);
                if size > 64 { fs.pop(); break; }
            }
            if fs.is_empty() { fs.push(Field::Val(Ty::Sc(SC_INT))); }
            fs
        };
        lib.structs.push(SDef { name: format!("c04_s{i}"), fields });
    }
    for i in 0..r.range(0, 2) as usize {
        let n = r.range(1, 4) as usize;
        lib.unions.push(UDef { name: format!("c04_u{i}"), members: (0..n).map(|_| pick_scalar(r)).collect() });
    }
    for i in 0..r.range(1, 4) as usize {
        let t = match r.below(5) {
            0 => Ty::Struct(r.below(lib.structs.len() as u64) as usize),
            1 => Ty::Ptr(r.chance(1, 2), Box::new(Ty::Sc(pick_scalar(r)))),
            2 if i > 0 => Ty::Td(r.below(i as u64) as usize),
            _ => Ty::Sc(pick_scalar(r)),
        };
        lib.typedefs.push((format!("c04_t{i}"), t));
    }
    for i in 0..r.range(0, 2) as usize {
        lib.arr_typedefs.push((format!("c04_at{i}"), pick_scalar(r), r.range(1, 4) as usize));
    }
    for _ in 0..r.range(1, 3) {
        let ret = if r.chance(1, 4) { None } else { Some(pick_scalar(r)) };
        let params = (0..r.range(0, 4)).map(|j| if r.chance(1, 4) { CbP::PtrSc(r.chance(1, 2), pick_scalar(r)) } else { CbP::Sc(if j == 0 { pick_scalar(r) } else { pick_field_scalar(r) }) }).collect();
        lib.cbsigs.push(CbSig { ret, params });
    }
    // functions
    let nf = r.range(1, cfg.max_funcs as u64) as usize;
    for n in 0..nf {
        let name = ident(r, n, &mut used, true);
        let variadic = r.chance(1, 8);
        let noreturn = false;
        let inline = !variadic && r.chance(1, 12);
        let is_static = !inline && !variadic && r.chance(1, 20);
        let ret = match r.below(10) {
            0 | 1 => None,
            2 => Some(Ty::FnPtr(r.below(lib.cbsigs.len() as u64) as usize)),
            _ => Some(gen_value_ty(&lib, r, true)),
        };
        let mut params = vec![];
        let np = if variadic { r.range(1, 3) } else { r.range(0, 7) };
        for k in 0..np {
            let pname = if r.chance(1, 6) { None } else if r.chance(1, 6) { Some((*r.pick(&["type", "match", "fn", "self", "in", "ref", "box", "u8", "gen"])).to_string()) } else { Some(format!("p{k}")) };
            // keyword parameter names must be unique within the function
            let pname = match pname {
                Some(p) if params.iter().any(|(q, _): &(Option<String>, Param)| q.as_deref() == Some(p.as_str())) => Some(format!("p{k}")),
                p => p,
            };
            let p = if inline || is_static {
                Param::Val(Ty::Sc(SC_INT))
            } else {
                match r.below(16) {
                    0 | 1 => Param::Arr { elem: pick_scalar(r), len: r.range(1, 4) as usize, konst: r.chance(1, 2), form: r.below(3) as u8 },
                    2 => Param::Arr2 { elem: pick_scalar(r), n1: r.range(1, 3) as usize, n2: r.range(1, 3) as usize },
                    3 if !lib.arr_typedefs.is_empty() => Param::TdArr { td: r.below(lib.arr_typedefs.len() as u64) as usize, konst: r.chance(1, 2) },
                    4 | 5 => Param::Val(Ty::FnPtr(r.below(lib.cbsigs.len() as u64) as usize)),
                    6 if !lib.unions.is_empty() => Param::Val(Ty::Union(r.below(lib.unions.len() as u64) as usize)),
                    _ => Param::Val(gen_value_ty(&lib, r, true)),
                }
            };
            // the oracle's C compiler (clang 14, LLVM < 18) splits a 128-bit integer argument between
            // the last free register and the stack, rustc's LLVM does not: keep such arguments where
            // both agree (first position)
            let p = match &p {
                Param::Val(t) if k > 0 && matches!(lib.resolve(t), Ty::Sc(s) if SCALARS[*s].bits == 128) => Param::Val(Ty::Sc(SC_LONG)),
                _ => p,
            };
            params.push((pname, p));
        }
        let tail = if variadic {
            Some((0..r.range(0, 5)).map(|_| match r.below(6) { 0 => VarArg::Int, 1 => VarArg::UInt, 2 => VarArg::Long, 3 => VarArg::Ull, 4 => VarArg::Double, _ => VarArg::Anchor }).collect())
        } else { None };
        let ret = if inline || is_static { Some(Ty::Sc(SC_INT)) } else { ret };
        if inline || is_static {
            params = vec![(Some("a0".into()), Param::Val(Ty::Sc(SC_INT)))];
        }
        if variadic {
            // the parameter before `...` must not undergo default promotion
            let last = params.len() - 1;
            params[last].1 = Param::Val(Ty::Sc(SC_INT));
        }
        // ms_abi only on signatures of plain scalars / pointers to scalars (the point is the ABI keyword of the
        // extern block, not win64 aggregate passing; i128 and long double differ between clang and rustc there)
        let simple = |t: &Ty| match t { Ty::Sc(i) => SCALARS[*i].bits <= 64, Ty::Ptr(_, q) => matches!(**q, Ty::Sc(_) | Ty::Void), _ => false };
        let ms_abi = tail.is_none() && !inline && !is_static && ret.as_ref().map_or(true, |t| simple(t))
            && params.iter().all(|(_, p)| matches!(p, Param::Val(t) if simple(t))) && r.chance(1, 3);
        lib.funcs.push(Func { name, ret, params, tail, noreturn, inline, is_static, declared_twice: r.chance(1, 6), union_member: r.below(4) as usize, ms_abi });
    }
    // one noreturn function per library (called last)
    if r.chance(1, 2) {
        lib.funcs.push(Func { name: format!("c04_nr{}", r.below(100)), ret: if r.chance(1, 2) { None } else { Some(Ty::Sc(SC_INT)) },
            params: vec![(Some("a".into()), Param::Val(Ty::Sc(pick_scalar(r)))), (None, Param::Val(Ty::Sc(pick_scalar(r))))],
            tail: None, noreturn: true, inline: false, is_static: false, declared_twice: false, union_member: 0, ms_abi: false });
    }
    // globals
    for n in 0..r.range(1, 8) as usize {
        let name = if r.chance(1, 6) { let k = format!("{}", r.pick(KEYWORD_NAMES)); if used.contains(&k) || k == "_" { format!("c04_g{n}") } else { used.push(k.clone()); k } } else if r.chance(1, 8) { format!("c04$g{n}") } else { format!("c04_g{n}") };
        let (ty, init) = if r.chance(1, 5) {
            let sc = pick_scalar(r);
            let len = r.range(1, 4) as usize;
            (GTy::Arr(sc, len), Val::Arr((0..len).map(|_| gen_leaf_val(&lib, &Leaf::Sc(sc), r)).collect()))
        } else {
            let t = loop {
                let t = gen_value_ty(&lib, r, true);
                // globals: by-value things and void pointers only
                match lib.resolve(&t) { Ty::Ptr(_, p) if **p != Ty::Void => continue, _ => break t }
            };
            let v = gen_val(&lib, &t, r);
            (GTy::Val(t), v)
        };
        lib.globals.push(Global { name, ty, konst: r.chance(1, 3), declared_twice: r.chance(1, 6), init });
    }
    lib
}

// -------------------------------------------------------------------- header / C source

impl Lib {
    pub fn cb_proto(&self, i: usize, name: &str) -> String {
        let s = &self.cbsigs[i];
        let ps: Vec<String> = s.params.iter().map(|p| match p {
            CbP::Sc(k) => SCALARS[*k].c.to_string(),
            CbP::PtrSc(c, k) => format!("{}{} *", SCALARS[*k].c, if *c { " const" } else { "" }),
        }).collect();
        format!("{} {}({})", s.ret.map_or("void", |k| SCALARS[k].c), name, if ps.is_empty() { "void".into() } else { ps.join(", ") })
    }

    pub fn param_decl(&self, name: Option<&str>, p: &Param) -> String {
        let n = name.unwrap_or("");
        match p {
            Param::Val(t) => format!("{} {}", self.c_ty(t), n),
            Param::Arr { elem, len, konst, form } => {
                let c = if *konst { "const " } else { "" };
                match form {
                    0 => format!("{c}{} {n}[{len}]", SCALARS[*elem].c),
                    1 => format!("{c}{} {n}[]", SCALARS[*elem].c),
                    _ => if name.is_some() { format!("{c}{} {n}[static {len}]", SCALARS[*elem].c) } else { format!("{c}{} [{len}]", SCALARS[*elem].c) },
                }
            }
            Param::Arr2 { elem, n1, n2 } => format!("{} {n}[{n1}][{n2}]", SCALARS[*elem].c),
            Param::TdArr { td, konst } => format!("{}{} {n}", if *konst { "const " } else { "" }, self.arr_typedefs[*td].0),
        }
    }

    pub fn proto(&self, f: &Func, with_names: bool, force_names: bool) -> String {
        let mut ps: Vec<String> = f.params.iter().enumerate().map(|(k, (n, p))| {
            let nm = if force_names { Some(format!("a{k}")) } else if with_names { n.clone() } else { None };
            self.param_decl(nm.as_deref(), p)
        }).collect();
        if f.tail.is_some() { ps.push("...".into()); }
        let r = f.ret.as_ref().map_or("void".to_string(), |t| self.c_ty(t));
        format!("{}{} {}({})", if f.ms_abi { "__attribute__((ms_abi)) " } else { "" }, r, f.name, if ps.is_empty() { "void".into() } else { ps.join(", ") })
    }

    pub fn header(&self) -> String {
        let mut h = String::from("#include <stdint.h>\n#include <stddef.h>\n");
        for e in &self.enums {
            let vs: Vec<String> = e.values.iter().map(|(n, v)| format!("{n} = {v}{}", if *v > 0x7fff_ffff { "u" } else { "" })).collect();
            let _ = writeln!(h, "enum {} {{ {} }};", e.name, vs.join(", "));
        }
        for s in &self.structs {
            let _ = write!(h, "struct {} {{ ", s.name);
            for (k, f) in s.fields.iter().enumerate() {
                match f {
                    Field::Val(t) => { let _ = write!(h, "{} f{k}; ", self.c_ty(t)); }
                    Field::Arr(sc, n) => { let _ = write!(h, "{} f{k}[{n}]; ", SCALARS[*sc].c); }
                }
            }
            h.push_str("};\n");
        }
        for u in &self.unions {
            let _ = write!(h, "union {} {{ ", u.name);
            for (k, m) in u.members.iter().enumerate() {
                let _ = write!(h, "{} m{k}; ", SCALARS[*m].c);
            }
            h.push_str("};\n");
        }
        for (n, t) in &self.typedefs {
            let _ = writeln!(h, "typedef {} {};", self.c_ty(t), n);
        }
        for (n, sc, len) in &self.arr_typedefs {
            let _ = writeln!(h, "typedef {} {}[{}];", SCALARS[*sc].c, n, len);
        }
        for i in 0..self.cbsigs.len() {
            if i % 2 == 1 { let _ = writeln!(h, "typedef {};", self.cb_proto(i, &format!("c04_cbf{i}"))); }
            else { let _ = writeln!(h, "typedef {};", self.cb_proto(i, &format!("(*c04_cbt{i})"))); }
            let _ = writeln!(h, "{};", self.cb_proto(i, &format!("c04_cfn{i}")));
        }
        h.push_str("extern int c04_anchor;\nextern uint64_t c04_last;\n");
        for g in &self.globals {
            let d = match &g.ty {
                GTy::Val(t) => format!("extern {}{} {};", self.c_ty(t), if g.konst { " const" } else { "" }, g.name),
                GTy::Arr(sc, n) => format!("extern {}{} {}[{}];", SCALARS[*sc].c, if g.konst { " const" } else { "" }, g.name, n),
            };
            let _ = writeln!(h, "{d}");
            if g.declared_twice { let _ = writeln!(h, "{d}"); }
        }
        for (i, _) in self.globals.iter().enumerate() {
            let _ = writeln!(h, "uint64_t c04_ghash{i}(void);\nconst void *c04_gaddr{i}(void);");
        }
        for f in &self.funcs {
            if f.inline {
                let _ = writeln!(h, "inline {} {{ return a0 * 3 + 1; }}", self.proto(f, true, true));
                continue;
            }
            if f.is_static {
                let _ = writeln!(h, "static {} {{ return a0 + 7; }}", self.proto(f, true, true));
                continue;
            }
            let attr = if f.noreturn { " __attribute__((noreturn))" } else { "" };
            let _ = writeln!(h, "{}{attr};", self.proto(f, true, false));
            if f.declared_twice {
                let _ = writeln!(h, "{}{attr};", self.proto(f, false, false));
            }
        }
        h
    }

    /// the C translation unit defining everything (includes the header as `lib.h`)
    pub fn c_source(&self, fn_inits: &[u64]) -> String {
        let mut c = String::from("#include <string.h>\n#include <stdarg.h>\n#include <stdlib.h>\n#include <stdio.h>\n#include \"lib.h\"\n");
        c.push_str("static inline uint64_t c04_fold(uint64_t h, uint64_t x) { return (h ^ x) * 0x100000001b3ull; }\n");
        c.push_str("int c04_anchor = 42;\nuint64_t c04_last = 0;\n");
        for (i, e) in self.enums.iter().enumerate() {
            let vs: Vec<String> = e.values.iter().map(|(n, _)| n.clone()).collect();
            let _ = writeln!(c, "static const enum {} c04_ev{}[] = {{ {} }};", e.name, i, vs.join(", "));
        }
        // C-side functions handed out as function pointers
        for (i, s) in self.cbsigs.iter().enumerate() {
            let mut proto = self.cb_proto(i, &format!("c04_cfn{i}"));
            // name the parameters
            let ps: Vec<String> = s.params.iter().enumerate().map(|(k, p)| match p {
                CbP::Sc(sc) => format!("{} a{k}", SCALARS[*sc].c),
                CbP::PtrSc(cn, sc) => format!("{}{} *a{k}", SCALARS[*sc].c, if *cn { " const" } else { "" }),
            }).collect();
            let open = proto.find('(').unwrap();
            proto.truncate(open);
            let _ = writeln!(c, "{proto}({}) {{\n  uint64_t h = 0x{:x}ull;", if ps.is_empty() { "void".into() } else { ps.join(", ") }, INIT ^ (0xcb00 + i as u64));
            for (k, p) in s.params.iter().enumerate() {
                match p {
                    CbP::Sc(sc) => self.c_fold_leaf(&Leaf::Sc(*sc), &format!("a{k}"), &mut c),
                    CbP::PtrSc(_, sc) => self.c_fold_leaf(&Leaf::Sc(*sc), &format!("*a{k}"), &mut c),
                }
            }
            if let Some(rs) = s.ret {
                let _ = writeln!(c, "  return {};", self.c_make_leaf(&Leaf::Sc(rs), "h"));
            }
            c.push_str("}\n");
        }
        // globals
        for (i, g) in self.globals.iter().enumerate() {
            let k = if g.konst { " const" } else { "" };
            match (&g.ty, &g.init) {
                (GTy::Arr(sc, n), Val::Arr(vs)) => {
                    let lits: Vec<String> = vs.iter().map(|v| self.c_literal_leaf(&Leaf::Sc(*sc), v)).collect();
                    let _ = writeln!(c, "{}{k} {}[{n}] = {{ {} }};", SCALARS[*sc].c, g.name, lits.join(", "));
                    let _ = writeln!(c, "uint64_t c04_ghash{i}(void) {{ uint64_t h = 0x{INIT:x}ull;");
                    for j in 0..*n { self.c_fold_leaf(&Leaf::Sc(*sc), &format!("{}[{j}]", g.name), &mut c); }
                    c.push_str("  return h; }\n");
                }
                (GTy::Val(t), v) => {
                    let init = match (self.resolve(t), v) {
                        (Ty::Struct(_), Val::Agg(vs)) => {
                            let mut ls = vec![];
                            self.leaves(t, "", &mut ls);
                            let parts: Vec<String> = ls.iter().zip(vs).map(|((p, l), v)| format!("{p} = {}", self.c_literal_leaf(l, v))).collect();
                            format!("{{ {} }}", parts.join(", "))
                        }
                        (Ty::Sc(s), v) => self.c_literal_leaf(&Leaf::Sc(*s), v),
                        (Ty::Enum(e), v) => self.c_literal_leaf(&Leaf::Enum(*e), v),
                        (Ty::Ptr(_, _), v) => self.c_literal_leaf(&Leaf::PtrVoid, v),
                        other => panic!("global init {other:?}"),
                    };
                    let _ = writeln!(c, "{}{k} {} = {init};", self.c_ty(t), g.name);
                    let _ = writeln!(c, "uint64_t c04_ghash{i}(void) {{ uint64_t h = 0x{INIT:x}ull;");
                    self.c_fold(t, &g.name, &mut c);
                    c.push_str("  return h; }\n");
                }
                other => panic!("global {other:?}"),
            }
            let _ = writeln!(c, "const void *c04_gaddr{i}(void) {{ return (const void*)&{}; }}", g.name);
        }
        // functions
        for (fi, f) in self.funcs.iter().enumerate() {
            if f.inline {
                let _ = writeln!(c, "extern inline {};", self.proto(f, true, true));
                continue;
            }
            if f.is_static { continue; }
            let _ = writeln!(c, "{} {{\n  uint64_t h = 0x{:x}ull;", self.proto(f, true, true), fn_inits[fi]);
            for (k, (_, p)) in f.params.iter().enumerate() {
                let a = format!("a{k}");
                match p {
                    Param::Val(t) => match self.resolve(t) {
                        Ty::Union(u) => {
                            let m = f.union_member % self.unions[*u].members.len();
                            self.c_fold_leaf(&Leaf::Sc(self.unions[*u].members[m]), &format!("{a}.m{m}"), &mut c);
                        }
                        Ty::FnPtr(s) => {
                            let sig = &self.cbsigs[*s];
                            let _ = writeln!(c, "  if ({a}) {{");
                            let mut args = vec![];
                            for (j, cp) in sig.params.iter().enumerate() {
                                let sc = match cp { CbP::Sc(s) | CbP::PtrSc(_, s) => *s };
                                let _ = writeln!(c, "    {} t{k}_{j} = {};", SCALARS[sc].c, self.c_make_leaf(&Leaf::Sc(sc), &format!("c04_fold(h, {})", 200 + j)));
                                args.push(match cp { CbP::Sc(_) => format!("t{k}_{j}"), CbP::PtrSc(..) => format!("&t{k}_{j}") });
                            }
                            if let Some(rs) = sig.ret {
                                let _ = writeln!(c, "    {} r{k} = {a}({});", SCALARS[rs].c, args.join(", "));
                                self.c_fold_leaf(&Leaf::Sc(rs), &format!("r{k}"), &mut c);
                            } else {
                                let _ = writeln!(c, "    {a}({});", args.join(", "));
                            }
                            for (j, cp) in sig.params.iter().enumerate() {
                                if let CbP::PtrSc(false, sc) = cp {
                                    self.c_fold_leaf(&Leaf::Sc(*sc), &format!("t{k}_{j}"), &mut c);
                                }
                            }
                            let _ = writeln!(c, "  }} else h = c04_fold(h, 0xdead);");
                        }
                        _ => self.c_fold(t, &a, &mut c),
                    },
                    Param::Arr { elem, len, .. } => for j in 0..*len { self.c_fold_leaf(&Leaf::Sc(*elem), &format!("{a}[{j}]"), &mut c); },
                    Param::Arr2 { elem, n1, n2 } => for i in 0..*n1 { for j in 0..*n2 { self.c_fold_leaf(&Leaf::Sc(*elem), &format!("{a}[{i}][{j}]"), &mut c); } },
                    Param::TdArr { td, .. } => { let (_, sc, n) = &self.arr_typedefs[*td]; for j in 0..*n { self.c_fold_leaf(&Leaf::Sc(*sc), &format!("{a}[{j}]"), &mut c); } }
                }
            }
            if let Some(tail) = &f.tail {
                let last = f.params.len() - 1;
                let _ = writeln!(c, "  va_list ap; va_start(ap, a{last});");
                for v in tail {
                    match v {
                        VarArg::Int => self.c_fold_leaf(&Leaf::Sc(SC_INT), "va_arg(ap, int)", &mut c),
                        VarArg::UInt => self.c_fold_leaf(&Leaf::Sc(SC_UINT), "va_arg(ap, unsigned int)", &mut c),
                        VarArg::Long => self.c_fold_leaf(&Leaf::Sc(SC_LONG), "va_arg(ap, long)", &mut c),
                        VarArg::Ull => self.c_fold_leaf(&Leaf::Sc(SC_ULL), "va_arg(ap, unsigned long long)", &mut c),
                        VarArg::Double => self.c_fold_leaf(&Leaf::Sc(SC_DOUBLE), "va_arg(ap, double)", &mut c),
                        VarArg::Anchor => self.c_fold_leaf(&Leaf::PtrVoid, "va_arg(ap, void*)", &mut c),
                    }
                }
                c.push_str("  va_end(ap);\n");
            }
            // write-backs through mutable pointers to scalars / mutable arrays
            for (k, (_, p)) in f.params.iter().enumerate() {
                match p {
                    Param::Val(t) => if let Ty::Ptr(false, inner) = self.resolve(t) {
                        if let Ty::Sc(sc) = self.resolve(inner) {
                            let _ = writeln!(c, "  if (a{k}) *a{k} = {};", self.c_make_leaf(&Leaf::Sc(*sc), &format!("c04_fold(h, {})", 100 + k)));
                        }
                    },
                    Param::Arr { elem, konst: false, .. } => { let _ = writeln!(c, "  a{k}[0] = {};", self.c_make_leaf(&Leaf::Sc(*elem), &format!("c04_fold(h, {})", 100 + k))); }
                    _ => {}
                }
            }
            c.push_str("  c04_last = h;\n");
            if f.noreturn {
                c.push_str("  printf(\"NR %016llx\\n\", (unsigned long long)h); fflush(stdout); exit(0);\n}\n");
                continue;
            }
            if let Some(rt) = &f.ret {
                match self.resolve(rt) {
                    Ty::FnPtr(s) => { let _ = writeln!(c, "  return c04_cfn{s};"); }
                    Ty::Ptr(_, p) if **p != Ty::Void => {
                        let _ = writeln!(c, "  static {} slot;", self.c_ty(p));
                        match self.resolve(p) {
                            Ty::Ptr(_, q) if **q != Ty::Void => {
                                let _ = writeln!(c, "  static {} slot2;", self.c_ty(q));
                                self.c_make(q, "slot2", "c04_fold(c04_fold(h, 1), 1)", &mut c);
                                c.push_str("  slot = &slot2;\n");
                            }
                            _ => self.c_make(p, "slot", "c04_fold(h, 1)", &mut c),
                        }
                        c.push_str("  return &slot;\n");
                    }
                    Ty::Union(u) => {
                        let _ = writeln!(c, "  {} r; memset(&r, 0, sizeof r); r.m0 = {}; return r;", self.c_ty(rt), self.c_make_leaf(&Leaf::Sc(self.unions[*u].members[0]), "h"));
                    }
                    _ => {
                        let _ = writeln!(c, "  {} r;", self.c_ty(rt));
                        self.c_make(rt, "r", "h", &mut c);
                        c.push_str("  return r;\n");
                    }
                }
            }
            c.push_str("}\n");
        }
        c
    }
}
