//! Oracles shared by C02 / C06: numbers from clang (constant table in LLVM IR, works for any
//! `--target` without linking) and from rustc (a probe program printing size_of / align_of /
//! offset_of!).
use std::path::Path;
use std::process::Command;

use crate::drive::Scratch;
use crate::util::run;

/// Evaluate integer constant expressions (`sizeof(struct S)`, `_Alignof(T)`,
/// `__builtin_offsetof(struct S, f)`) against `header` for `target` (None = host).
/// Returns one value per expression.
pub fn clang_table(scratch: &Scratch, tag: &str, header: &Path, target: Option<&str>, cxx: bool, exprs: &[String]) -> Result<Vec<u64>, String> {
    if exprs.is_empty() {
        return Ok(vec![]);
    }
    let ext = if cxx { "cpp" } else { "c" };
    let tu = scratch.path(&format!("{tag}_table.{ext}"));
    let mut src = format!("#include \"{}\"\n", header.display());
    // a sentinel in front keeps the initializer from collapsing into `zeroinitializer`
    src.push_str("extern const unsigned long long BGV_T[];\nconst unsigned long long BGV_T[] = { 0xB16B00B5ULL,\n");
    for e in exprs {
        src.push_str(&format!("  (unsigned long long)({e}),\n"));
    }
    src.push_str("};\n");
    std::fs::write(&tu, &src).unwrap();
    let mut c = Command::new("clang");
    if let Some(t) = target {
        c.arg(format!("--target={t}"));
    }
    c.args(["-S", "-emit-llvm", "-O0", "-ffreestanding", "-w", "-o", "-"]);
    if cxx {
        c.args(["-x", "c++", "-std=c++14"]);
    }
    c.arg(&tu);
    let (rc, out, err) = run(&mut c);
    if rc != 0 {
        return Err(format!("clang failed: {}", err.chars().take(1500).collect::<String>()));
    }
    let line = out.lines().find(|l| l.contains("BGV_T") && l.contains("constant") && l.contains("[i64")).ok_or_else(|| "table not found in IR".to_string())?;
    let start = line.find("[i64").ok_or("no initializer")?;
    let body = &line[start + 1..];
    let end = body.find(']').ok_or("no ]")?;
    let mut vals = vec![];
    for part in body[..end].split(',') {
        let p = part.trim();
        let n = p.strip_prefix("i64 ").ok_or_else(|| format!("bad element {p}"))?;
        let v: i128 = n.trim().parse().map_err(|_| format!("bad number {n}"))?;
        vals.push(v as u64);
    }
    if vals.first() != Some(&0xB16B00B5) || vals.len() != exprs.len() + 1 {
        return Err(format!("table shape mismatch: {} values for {} expressions", vals.len(), exprs.len()));
    }
    Ok(vals[1..].to_vec())
}

#[derive(Debug, Clone)]
pub enum RQuery {
    Size(String),
    Align(String),
    Offset(String, String),
    /// size and alignment of the field's type (two values)
    FieldTy(String, String),
}

/// Compile and run a Rust probe over `bindings` (placed in `mod b`; `prefix` = path to the items,
/// e.g. `b::` or `b::root::`).  Returns the values, or rustc's diagnostics.
pub fn rustc_probe(scratch: &Scratch, tag: &str, bindings: &str, prefix: &str, queries: &[RQuery]) -> Result<Vec<u64>, String> {
    let mut src = String::from("#![allow(warnings)]\nmod b {\n");
    src.push_str(bindings);
    src.push_str("\n}\nfn heap<T>() -> *mut T { unsafe { let l = ::std::alloc::Layout::new::<T>(); if l.size() == 0 { ::std::ptr::NonNull::<T>::dangling().as_ptr() } else { ::std::alloc::alloc_zeroed(l) as *mut T } } }\nfn tysz<T>(_: *const T) -> (usize, usize) { (::std::mem::size_of::<T>(), ::std::mem::align_of::<T>()) }\nfn main() {\n");
    for q in queries {
        match q {
            RQuery::Size(t) => src.push_str(&format!("  println!(\"{{}}\", ::std::mem::size_of::<{prefix}{t}>());\n")),
            RQuery::Align(t) => src.push_str(&format!("  println!(\"{{}}\", ::std::mem::align_of::<{prefix}{t}>());\n")),
            RQuery::Offset(t, f) => src.push_str(&format!("  println!(\"{{}}\", ::std::mem::offset_of!({prefix}{t}, {f}));\n")),
            RQuery::FieldTy(t, f) => src.push_str(&format!(
                "  {{ let u: *mut {prefix}{t} = heap(); let (s, a) = tysz(unsafe {{ ::std::ptr::addr_of!((*u).{f}) }}); println!(\"{{}}\", s); println!(\"{{}}\", a); }}\n")),
        }
    }
    src.push_str("}\n");
    let f = scratch.path(&format!("{tag}_probe.rs"));
    std::fs::write(&f, &src).unwrap();
    let exe = scratch.path(&format!("{tag}_probe"));
    let (rc, _o, e) = run(Command::new("rustc").args(["--edition", "2021", "--cap-lints", "allow", "-C", "debuginfo=0", "-C", "opt-level=0", "-o"]).arg(&exe).arg(&f));
    if rc != 0 {
        return Err(e);
    }
    let (rc, out, err) = run(&mut Command::new(&exe));
    if rc != 0 {
        return Err(format!("probe exited {rc}: {err}"));
    }
    let vals: Vec<u64> = out.lines().filter_map(|l| l.trim().parse().ok()).collect();
    let want: usize = queries.iter().map(|q| if matches!(q, RQuery::FieldTy(..)) { 2 } else { 1 }).sum();
    if vals.len() != want {
        return Err(format!("probe printed {} values, expected {want}", vals.len()));
    }
    Ok(vals)
}

/// Compile `src` as a library (metadata only) with JSON diagnostics; returns the 1-based line
/// numbers of the primary spans of all errors (empty = compiles).
pub fn rustc_error_lines(scratch: &Scratch, tag: &str, src: &str, extra: &[&str]) -> Vec<(usize, String)> {
    let f = scratch.path(&format!("{tag}_lib.rs"));
    std::fs::write(&f, src).unwrap();
    let mut c = Command::new("rustc");
    c.args(["--edition", "2021", "--crate-type", "lib", "--emit", "metadata", "--cap-lints", "allow", "--error-format=json", "-o"])
        .arg(scratch.path(&format!("lib{tag}.rmeta"))).args(extra).arg(&f);
    let (rc, _o, e) = run(&mut c);
    if rc == 0 {
        return vec![];
    }
    let mut v = vec![];
    for l in e.lines() {
        if !l.contains("\"level\":\"error\"") {
            continue;
        }
        // crude JSON field extraction: message and first line_start of a primary span
        let msg = l.split("\"message\":\"").nth(1).and_then(|r| r.split('"').next()).unwrap_or("").to_string();
        let mut line = 0usize;
        for part in l.split("\"is_primary\":true") {
            // the span object containing is_primary:true has line_start before or after; search both sides
            if let Some(p) = part.rfind("\"line_start\":") {
                let n: String = part[p + 13..].chars().take_while(|c| c.is_ascii_digit()).collect();
                if let Ok(x) = n.parse() { line = x; }
                break;
            }
        }
        if line == 0 {
            if let Some(p) = l.find("\"line_start\":") {
                let n: String = l[p + 13..].chars().take_while(|c| c.is_ascii_digit()).collect();
                line = n.parse().unwrap_or(0);
            }
        }
        if msg.starts_with("aborting due to") { continue; }
        v.push((line, msg));
    }
    if v.is_empty() {
        v.push((0, format!("rustc failed: {}", e.chars().take(600).collect::<String>())));
    }
    v
}
