//! C01: text generators for the C and C++ header families of the property's quantifier, option
//! sets drawn from the flag space, and token-level mutation of repository headers.
use crate::rng::Rng;
use std::fmt::Write as _;

pub const C_SCALARS: &[&str] = &["char", "signed char", "unsigned char", "short", "unsigned short", "int", "unsigned int", "long", "unsigned long",
    "long long", "unsigned long long", "float", "double", "_Bool", "int8_t", "uint16_t", "int32_t", "uint64_t", "size_t", "wchar_t"];
pub const KEYWORDS: &[&str] = &["match", "type", "fn", "gen", "async", "try", "loop", "impl", "use", "move", "ref", "str", "u8", "yield", "box", "dyn", "priv",
    "final", "override", "crate", "mod", "pub", "where", "unsafe", "trait", "let", "mut", "in", "as", "await", "become", "macro", "super", "Self", "self",
    "abstract", "virtual", "unsized", "bool", "i32", "usize", "f64", "f32", "u128", "isize", "_"];

/// facts about a generated header that the region predicates of the known findings need
#[derive(Default, Clone, Debug)]
pub struct Facts {
    /// every identifier the generator declared (functions, variables, types, fields)
    pub idents: Vec<String>,
    /// canonical names of the functions, per scope, in declaration order (overload sets)
    pub fn_names: Vec<(String, Vec<String>)>,
    /// a struct has a member with 16-byte alignment after a member that is not 16-aligned
    pub padding_before_align16: bool,
    pub features: Vec<&'static str>,
}

struct G<'a> { r: &'a mut Rng, out: String, n: usize, structs: Vec<String>, unions: Vec<String>, enums: Vec<String>, typedefs: Vec<String>, facts: Facts, cpp: bool }

impl<'a> G<'a> {
    fn fresh(&mut self, stem: &str) -> String {
        self.n += 1;
        let s = if self.r.chance(1, 10) { let k = *self.r.pick(KEYWORDS); if self.facts.idents.iter().any(|x| x == k) || (self.cpp && cpp_reserved(k)) { format!("{stem}{}", self.n) } else { k.to_string() } }
            else if self.r.chance(1, 14) { format!("{stem}${}", self.n) }
            else if self.r.chance(1, 14) { format!("{stem}{}_", self.n) }
            else { format!("{stem}{}", self.n) };
        self.facts.idents.push(s.clone());
        s
    }
    fn plain(&mut self, stem: &str) -> String { self.n += 1; let s = format!("{stem}{}", self.n); self.facts.idents.push(s.clone()); s }
    fn scalar(&mut self) -> String { (*self.r.pick(C_SCALARS)).to_string() }
    /// a type usable by value
    fn value_ty(&mut self) -> String {
        match self.r.below(12) {
            0 | 1 if !self.structs.is_empty() => format!("{}{}", if self.cpp { "" } else { "struct " }, self.r.pick(&self.structs).clone()),
            2 if !self.unions.is_empty() => format!("{}{}", if self.cpp { "" } else { "union " }, self.r.pick(&self.unions).clone()),
            3 if !self.enums.is_empty() => format!("{}{}", if self.cpp { "" } else { "enum " }, self.r.pick(&self.enums).clone()),
            4 | 5 if !self.typedefs.is_empty() => self.r.pick(&self.typedefs).clone(),
            _ => self.scalar(),
        }
    }
    fn any_ty(&mut self) -> String {
        match self.r.below(8) {
            0 => format!("{} *", self.value_ty()),
            1 => format!("const {} *", self.value_ty()),
            2 => "void *".into(),
            3 => format!("{} **", self.scalar()),
            _ => self.value_ty(),
        }
    }
    fn field(&mut self, k: usize, idx: usize) -> String {
        let name = if self.r.chance(1, 8) { let kw = *self.r.pick(KEYWORDS); if self.cpp && cpp_reserved(kw) { format!("f{idx}") } else { kw.to_string() } } else { format!("f{idx}") };
        let name = if name == "_" { format!("f{idx}") } else { name };
        match k {
            0 => format!("{} {name};", self.any_ty()),
            1 => { let w = self.r.range(1, 31); let t = *self.r.pick(&["int", "unsigned int", "unsigned char", "unsigned short", "unsigned long long", "_Bool"]); let w = if t == "_Bool" { 1 } else if t == "unsigned char" { w.min(8) } else if t == "unsigned short" { w.min(16) } else { w }; self.facts.features.push("bitfield"); format!("{t} {name} : {w};") }
            2 => { self.facts.features.push("array-field"); format!("{} {name}[{}];", self.value_ty(), self.r.range(1, 40)) }
            3 => { self.facts.features.push("fnptr-field"); format!("{} (*{name})({});", self.scalar(), if self.r.chance(1, 2) { "int, double".into() } else { self.any_ty() }) }
            4 => { self.facts.features.push("anon-member"); let inner = self.scalar(); let inner2 = self.scalar(); format!("{} {{ {inner} a{idx}; {inner2} b{idx}; }}{};", if self.r.chance(1, 2) { "struct" } else { "union" }, if self.r.chance(1, 2) { String::new() } else { format!(" {name}") }) }
            5 => { self.facts.features.push("array2-field"); let inner = if self.r.chance(1, 3) { self.r.range(33, 70) } else { self.r.range(1, 5) }; format!("{} {name}[{}][{}];", self.scalar(), self.r.range(1, 5), inner) }
            6 => { self.facts.features.push("large-array"); format!("{} {name}[{}];", self.scalar(), self.r.range(33, 70)) }
            _ => format!("{} {name};", self.scalar()),
        }
    }
    fn record(&mut self, union: bool) {
        let name = self.fresh(if union { "U" } else { "S" });
        let nf = self.r.range(0, 7) as usize;
        let attr = match self.r.below(10) { 0 => " __attribute__((packed))", 1 => " __attribute__((aligned(8)))", 2 => " __attribute__((aligned(16)))", 3 => " __attribute__((packed, aligned(2)))", _ => "" };
        if !attr.is_empty() { self.facts.features.push("packed-or-aligned"); }
        let pragma = self.r.chance(1, 12);
        if pragma { let _ = writeln!(self.out, "#pragma pack(push, {})", self.r.pick(&[1, 2, 4])); self.facts.features.push("pragma-pack"); }
        let kw = if union { "union" } else { "struct" };
        let _ = writeln!(self.out, "{kw}{attr} {name} {{");
        let mut used = std::collections::BTreeSet::new();
        for i in 0..nf {
            let k = self.r.below(10) as usize;
            let f = self.field(k, i);
            // keyword field names must stay unique
            let fname = f.split(|c: char| !(c.is_alphanumeric() || c == '_' || c == '$')).filter(|s| !s.is_empty()).last().unwrap_or("").to_string();
            let _ = fname;
            if used.insert(f.clone()) { let _ = writeln!(self.out, "  {f}"); }
        }
        if !union && self.r.chance(1, 10) { let t = self.scalar(); let _ = writeln!(self.out, "  {t} flex[];"); self.facts.features.push("flexible-array"); if nf == 0 { let _ = writeln!(self.out, "  int pad_before_flex;"); } }
        let _ = writeln!(self.out, "}};");
        if pragma { let _ = writeln!(self.out, "#pragma pack(pop)"); }
        if union { self.unions.push(name.clone()); } else { self.structs.push(name.clone()); }
        if self.r.chance(1, 4) && !self.cpp { let t = self.plain("T"); let _ = writeln!(self.out, "typedef {kw} {name} {t};"); self.typedefs.push(t); }
    }
    fn enumeration(&mut self) {
        let anon = self.r.chance(1, 5);
        let name = if anon { String::new() } else { self.fresh("E") };
        let n = self.r.range(1, 6);
        let mut vs = vec![];
        let mut names: Vec<String> = vec![];
        for i in 0..n {
            // enumerators are a naming position too: keywords / `$` / trailing `_`, also as aliases of an
            // earlier enumerator (duplicate value: emitted as associated constants in the Rust-enum styles)
            let v = if self.r.chance(1, 3) { self.fresh(&format!("EV{i}_")) } else { self.plain(&format!("EV{i}_")) };
            names.push(v.clone());
            vs.push(match self.r.below(7) { 0 => format!("{v} = -{}", self.r.below(100)), 1 => format!("{v} = {}", self.r.below(5)), 2 => format!("{v} = 0x7fffffff"), 3 if i > 0 => format!("{v} = {}", vs.len()),
                4 | 5 if i > 0 => { let k = self.r.below(i) as usize; format!("{v} = {}", names[k]) }, _ => v });
        }
        let _ = writeln!(self.out, "enum {name} {{ {} }};", vs.join(", "));
        self.facts.features.push(if anon { "anon-enum" } else { "enum" });
        if !anon { self.enums.push(name); }
    }
    fn typedef(&mut self) {
        let t = self.fresh("T");
        let s = match self.r.below(7) {
            0 => { let a = self.any_ty(); format!("typedef {a} {t};") }
            1 => { self.facts.features.push("fnptr-typedef"); let a = self.scalar(); let b = self.any_ty(); format!("typedef {a} (*{t})({b}, int);") }
            2 => { self.facts.features.push("array-typedef"); let a = self.scalar(); format!("typedef {a} {t}[{}];", self.r.range(1, 9)) }
            3 => { self.facts.features.push("anon-struct-typedef"); let a = self.scalar(); let b = self.any_ty(); format!("typedef struct {{ {a} x; {b} y; }} {t};") }
            4 => { self.facts.features.push("anon-enum-typedef"); let v = self.plain("TEV"); format!("typedef enum {{ {v}, {v}_b = 7 }} {t};") }
            5 if !self.typedefs.is_empty() => { self.facts.features.push("typedef-chain"); let a = self.r.pick(&self.typedefs).clone(); format!("typedef {a} {t};") }
            _ => { let a = self.scalar(); format!("typedef {a} {t};") }
        };
        let _ = writeln!(self.out, "{s}");
        self.typedefs.push(t);
    }
    fn function(&mut self, scope: &str, prefix: &str) -> String {
        let name = if self.r.chance(1, 6) && !self.facts.fn_names.iter().all(|(s, v)| s != scope || v.is_empty()) && self.cpp {
            // overload of / digit-suffixed sibling of an existing function in the scope
            let (_, v) = self.facts.fn_names.iter().find(|(s, _)| s == scope).cloned().unwrap();
            let base = self.r.pick(&v).clone();
            if self.r.chance(1, 2) { base } else { format!("{base}{}", self.r.range(1, 2)) }
        } else { self.fresh("fn_") };
        let np = self.r.range(0, 5);
        let mut ps = vec![];
        for i in 0..np {
            let t = self.any_ty();
            let n = if self.r.chance(1, 6) { String::new() } else if self.r.chance(1, 6) { let k = *self.r.pick(KEYWORDS); if (self.cpp && cpp_reserved(k)) || k == "_" || ps.iter().any(|p: &String| p.ends_with(&format!(" {k}"))) { format!("p{i}") } else { k.to_string() } } else { format!("p{i}") };
            ps.push(format!("{t} {n}").trim().to_string());
        }
        let variadic = np > 0 && self.r.chance(1, 10);
        if variadic { ps.push("...".into()); }
        let ret = if self.r.chance(1, 4) { "void".to_string() } else { self.any_ty() };
        match self.facts.fn_names.iter_mut().find(|(s, _)| s == scope) { Some((_, v)) => v.push(format!("{prefix}{name}")), None => self.facts.fn_names.push((scope.into(), vec![format!("{prefix}{name}")])) }
        format!("{ret} {name}({})", if ps.is_empty() && !self.cpp { "void".to_string() } else { ps.join(", ") })
    }
    fn global(&mut self) {
        let n = self.fresh("g");
        let t = self.value_ty();
        let s = match self.r.below(4) { 0 => format!("extern const {t} {n};"), 1 => format!("extern {t} {n}[{}];", self.r.range(1, 9)), _ => format!("extern {t} {n};") };
        let _ = writeln!(self.out, "{s}");
    }
    fn macro_(&mut self) {
        let n = self.plain("M");
        let v = match self.r.below(8) { 0 => format!("{}", self.r.below(100000)), 1 => format!("-{}", self.r.below(1000)), 2 => format!("0x{:x}ULL", self.r.next()), 3 => format!("{}.5", self.r.below(100)), 4 => "\"text\\n\"".into(), 5 => format!("({} << 3)", self.r.below(100)), 6 => "'c'".into(), _ => format!("{}u", self.r.below(4000000000)) };
        let _ = writeln!(self.out, "#define {n} {v}");
        self.facts.features.push("macro");
    }
}

fn cpp_reserved(k: &str) -> bool {
    matches!(k, "try" | "virtual" | "bool" | "final" | "override" | "typeof" | "namespace" | "class" | "this" | "new" | "delete" | "template" | "typename" | "private" | "public" | "using" | "operator" | "export" | "friend" | "mutable" | "explicit" | "catch" | "throw" | "true" | "false")
}

pub fn gen_c_header(r: &mut Rng) -> (String, Facts) {
    // mostly self-contained (the system headers bring `max_align_t` & co. into every case)
    let prelude = if r.chance(1, 10) { "#include <stdint.h>\n#include <stddef.h>\n" } else { "typedef unsigned long size_t; typedef int wchar_t; typedef signed char int8_t; typedef unsigned short uint16_t; typedef int int32_t; typedef unsigned long uint64_t;\n" };
    let mut g = G { r, out: String::from(prelude), n: 0, structs: vec![], unions: vec![], enums: vec![], typedefs: vec![], facts: Facts::default(), cpp: false };
    let n = g.r.range(3, 18);
    for _ in 0..n {
        match g.r.below(12) {
            0..=2 => g.record(false),
            3 => g.record(true),
            4 => g.enumeration(),
            5 | 6 => g.typedef(),
            7 | 8 => { let f = g.function("", ""); let _ = writeln!(g.out, "{f};"); }
            9 => g.global(),
            10 => g.macro_(),
            _ => {
                // tag / typedef / function sharing a name (different C name spaces)
                let n = g.plain("same");
                match g.r.below(3) {
                    0 => { let _ = writeln!(g.out, "struct {n} {{ int x; }};\nvoid {n}(void);"); g.facts.features.push("collision-tag-function"); }
                    1 => { let _ = writeln!(g.out, "typedef struct {n} {{ int x; }} {n};"); g.facts.features.push("collision-tag-typedef-same"); }
                    _ => { let _ = writeln!(g.out, "struct {n} {{ int x; }};\nextern int {n};"); g.facts.features.push("collision-tag-var"); }
                }
                g.structs.push(n);
            }
        }
    }
    // types that are reachable only through the signature of a function-pointer member
    if g.r.chance(1, 3) {
        let stem = g.plain("cbo");
        let _ = writeln!(g.out, "struct {stem}_ev {{ int code; }};\nstruct {stem}_re {{ int ok; }};\nstruct {stem}_handler {{ struct {stem}_re (*on)(struct {stem}_ev *e, int n); int prio; }};");
        g.facts.features.push("callback-only-types");
        g.facts.idents.push(format!("{stem}_handler"));
    }
    // arrays at the boundary of the built-in array impls (32 / 33 elements), in both dimensions,
    // alone and embedded by value
    if g.r.chance(1, 2) {
        let name = g.plain("SB");
        let (a, b) = *g.r.pick(&[(8u32, 64u32), (2, 33), (33, 2), (1, 32), (33, 33), (3, 40), (32, 32)]);
        let t = g.scalar();
        let _ = writeln!(g.out, "struct {name} {{ unsigned int count; {t} names[{a}][{b}]; }};\nstruct {name}_holder {{ struct {name} table; int flags; }};");
        g.facts.features.push("array2-boundary");
        g.structs.push(name);
    }
    (g.out, g.facts)
}

pub fn gen_cpp_header(r: &mut Rng) -> (String, Facts) {
    let mut g = G { r, out: String::new(), n: 0, structs: vec![], unions: vec![], enums: vec![], typedefs: vec![], facts: Facts::default(), cpp: true };
    g.out.push_str("typedef unsigned long size_t; typedef signed char int8_t; typedef unsigned short uint16_t; typedef int int32_t; typedef unsigned long uint64_t;\n");
    let n = g.r.range(3, 14);
    let mut classes: Vec<String> = vec![];
    let mut templates: Vec<(String, usize)> = vec![];
    let mut ns_depth = 0;
    for _ in 0..n {
        match g.r.below(14) {
            0 if ns_depth < 2 => { let nm = if g.r.chance(1, 6) { String::new() } else { g.plain("ns") }; let _ = writeln!(g.out, "{}namespace {nm} {{", if g.r.chance(1, 8) && !nm.is_empty() { "inline " } else { "" }); ns_depth += 1; g.facts.features.push("namespace"); }
            1 if ns_depth > 0 => { let _ = writeln!(g.out, "}}"); ns_depth -= 1; }
            2..=4 => {
                // class
                let name = g.fresh("C");
                let base = if !classes.is_empty() && g.r.chance(1, 3) { g.facts.features.push("inheritance"); format!(" : {}public {}", if g.r.chance(1, 5) { "virtual " } else { "" }, g.r.pick(&classes).clone()) } else { String::new() };
                let _ = writeln!(g.out, "class {name}{base} {{\npublic:");
                let nf = g.r.range(0, 4) as usize;
                for i in 0..nf { let k = *g.r.pick(&[0usize, 0, 1, 2, 7, 7]); let f = g.field(k, i); let _ = writeln!(g.out, "  {f}"); }
                let scope = format!("class:{name}");
                if g.r.chance(1, 2) { let t = g.scalar(); let _ = writeln!(g.out, "  {name}({t} x);"); g.facts.features.push("ctor"); }
                if g.r.chance(1, 4) { let _ = writeln!(g.out, "  {name}(int a, int b);"); }
                if g.r.chance(1, 3) { let _ = writeln!(g.out, "  {}~{name}();", if g.r.chance(1, 2) { "virtual " } else { "" }); g.facts.features.push("dtor"); }
                for _ in 0..g.r.range(0, 4) {
                    let f = g.function(&scope, &format!("{name}_"));
                    let q = match g.r.below(6) { 0 => "virtual ", 1 => "static ", _ => "" };
                    if q == "virtual " { g.facts.features.push("virtual"); }
                    let cq = if q != "static " && g.r.chance(1, 3) { " const" } else { "" };
                    let pure_ = if q == "virtual " && g.r.chance(1, 4) { " = 0" } else { "" };
                    let _ = writeln!(g.out, "  {q}{f}{cq}{pure_};");
                }
                if g.r.chance(1, 5) { let inner = g.plain("Inner"); let _ = writeln!(g.out, "  struct {inner} {{ int v; {name} *owner; }};\n  {inner} inner_member;"); g.facts.features.push("nested-class"); }
                if g.r.chance(1, 6) { let _ = writeln!(g.out, "  static int counter;\n  static const int K = 3;"); g.facts.features.push("static-member"); }
                let _ = writeln!(g.out, "}};");
                classes.push(name.clone());
                g.structs.push(name);
            }
            5 | 6 => {
                // template
                let name = g.plain("Tpl");
                let np = g.r.range(1, 3) as usize;
                let params: Vec<String> = (0..np).map(|i| format!("typename P{i}")).collect();
                let _ = writeln!(g.out, "template<{}> struct {name} {{", params.join(", "));
                let used = g.r.range(0, np as u64) as usize;
                for i in 0..used { let _ = writeln!(g.out, "  P{i} {}m{i};", if g.r.chance(1, 2) { "*" } else { "" }); }
                if g.r.chance(1, 3) { let _ = writeln!(g.out, "  int plain;"); }
                if g.r.chance(1, 4) { let _ = writeln!(g.out, "  struct Node {{ P0 item; Node *next; }};\n  Node *head;"); g.facts.features.push("template-nested"); }
                if g.r.chance(1, 4) { let _ = writeln!(g.out, "  P0 arr[4];"); }
                let _ = writeln!(g.out, "}};");
                g.facts.features.push(if used == np { "template-all-used" } else { "template-unused-param" });
                templates.push((name, np));
            }
            7 if !templates.is_empty() => {
                // instantiation uses
                let (t, np) = g.r.pick(&templates).clone();
                let args: Vec<String> = (0..np).map(|_| g.any_ty()).collect();
                let v = g.fresh("inst");
                match g.r.below(3) {
                    0 => { let _ = writeln!(g.out, "extern {t}<{}> {v};", args.join(", ")); }
                    1 => { let _ = writeln!(g.out, "struct {v}_holder {{ {t}<{}> member; int z; }};", args.join(", ")); }
                    _ => { let _ = writeln!(g.out, "typedef {t}<{}> {v}_t;", args.join(", ")); }
                }
                g.facts.features.push("template-instantiation");
            }
            8 => g.enumeration(),
            9 => { let e = g.plain("EC"); let _ = writeln!(g.out, "enum class {e} : {} {{ A, B = 5, C }};", g.r.pick(&["int", "unsigned char", "long"])); g.enums.push(e); g.facts.features.push("enum-class"); }
            10 => g.typedef(),
            11 => { let scope = format!("ns{ns_depth}"); let f = g.function(&scope, ""); let _ = writeln!(g.out, "{f};"); }
            12 => { let a = g.plain("A"); let t = g.any_ty(); let _ = writeln!(g.out, "using {a} = {t};"); g.typedefs.push(a); g.facts.features.push("using-alias"); }
            _ => g.global(),
        }
    }
    for _ in 0..ns_depth { g.out.push_str("}\n"); }
    // a bit-field record in one namespace followed by a sibling namespace without any: helper types
    // (`__BindgenBitfieldUnit`, …) are decided by state accumulated over all modules
    if g.r.chance(1, 3) {
        let stem = g.plain("nsbf");
        let _ = writeln!(g.out, "namespace {stem}_a {{\n  struct {stem}_BF {{ unsigned int lo : 3; int mid : 5; unsigned long long hi : 40; }};\n  union {stem}_BU {{ unsigned char raw; unsigned char bit : 1; }};\n}}\nnamespace {stem}_b {{\n  struct {stem}_Plain {{ int x; {stem}_a::{stem}_BF *p; }};\n  namespace inner {{ struct {stem}_Deep {{ char c[3]; }}; }}\n}}");
        g.facts.features.push("bitfield-then-plain-namespace");
    }
    // helper types of the prelude that are needed only inside a namespace: a union that cannot be a Rust union (a
    // member with a destructor -> `__BindgenUnionField` wrapper), an incomplete-array member (`__IncompleteArrayField`),
    // an opaque-array blob (over-aligned padding)
    if g.r.chance(1, 3) {
        let stem = g.plain("nshelp");
        let _ = writeln!(g.out, "namespace {stem}_n {{\n  struct {stem}_D {{ ~{stem}_D(); int x; }};\n  union {stem}_UW {{ {stem}_D d; int i; double f; }};\n  struct {stem}_Flex {{ int n; long tail[]; }};\n  struct {stem}_Holder {{ {stem}_UW u; char c; }};\n}}\nnamespace {stem}_m {{ struct {stem}_P {{ int y; }}; }}");
        g.facts.features.push("helper-types-in-namespace");
    }
    // two namespaces exporting variables, constants and functions under the same unqualified
    // names (distinct items that map to one Rust name once namespaces are not mangled in)
    if g.r.chance(1, 3) {
        let stem = g.plain("twin");
        let t = g.scalar();
        for side in ["a", "b"] {
            let _ = writeln!(g.out, "namespace {stem}_{side} {{\n  extern {t} {stem}_v;\n  const int {stem}_k = {};\n  int {stem}_f(int x);\n  extern const char *const {stem}_names[4];\n}}", if side == "a" { 48000 } else { 60 });
        }
        g.facts.features.push("twin-namespaces");
    }
    (g.out, g.facts)
}

pub struct OptSet { pub flags: Vec<String>, pub edition: &'static str, pub blocklisted: Vec<String> }

/// an option set drawn from the flag space of the property's quantifier
pub fn gen_options(r: &mut Rng, cpp: bool, facts: &Facts) -> OptSet {
    let mut f: Vec<String> = vec![];
    let mut on = |r: &mut Rng, num: u64, den: u64, flag: &str| { if r.chance(num, den) { f.push(flag.into()); } };
    on(r, 1, 2, "--with-derive-default");
    on(r, 1, 2, "--with-derive-hash");
    on(r, 1, 2, "--with-derive-partialeq");
    on(r, 1, 3, "--with-derive-partialord");
    on(r, 1, 3, "--with-derive-eq");
    on(r, 1, 3, "--with-derive-ord");
    // Rust's PartialOrd / Ord need PartialEq / Eq: keep the drawn set consistent most of the time so that
    // the known region `derive_ord_without_eq` does not swallow the exploration
    if !r.chance(1, 8) {
        let has = |f: &Vec<String>, x: &str| f.iter().any(|y| y == x);
        if (has(&f, "--with-derive-partialord") || has(&f, "--with-derive-ord")) && !has(&f, "--with-derive-partialeq") { f.push("--with-derive-partialeq".into()); }
        if has(&f, "--with-derive-ord") && !has(&f, "--with-derive-eq") { f.push("--with-derive-eq".into()); }
    }
    let mut on = |r: &mut Rng, num: u64, den: u64, flag: &str| { if r.chance(num, den) { f.push(flag.into()); } };
    on(r, 1, 6, "--no-derive-copy");
    on(r, 1, 6, "--no-derive-debug");
    on(r, 1, 3, "--impl-debug");
    on(r, 1, 3, "--impl-partialeq");
    on(r, 1, 3, "--c-naming");
    on(r, 1, 3, "--explicit-padding");
    on(r, 1, 4, "--flexarray-dst");
    on(r, 1, 3, "--use-core");
    on(r, 1, 3, "--no-layout-tests");
    on(r, 1, 3, "--sort-semantically");
    on(r, 1, 3, "--merge-extern-blocks");
    on(r, 1, 3, "--wrap-unsafe-ops");
    if cpp { on(r, 1, 2, "--enable-cxx-namespaces"); on(r, 1, 3, "--disable-name-namespacing"); }
    if r.chance(1, 2) { f.push("--default-enum-style".into()); f.push((*r.pick(&["consts", "moduleconsts", "bitfield", "newtype", "newtype_global", "rust", "rust_non_exhaustive"])).into()); }
    if r.chance(1, 3) { f.push("--default-alias-style".into()); f.push((*r.pick(&["type_alias", "new_type", "new_type_deref"])).into()); }
    if r.chance(1, 3) { f.push("--default-non-copy-union-style".into()); f.push((*r.pick(&["bindgen_wrapper", "manually_drop"])).into()); }
    if r.chance(1, 4) { f.push("--ctypes-prefix".into()); f.push((*r.pick(&["::core::ffi", "::std::os::raw", "::std::ffi"])).into()); }
    let edition = *r.pick(&["2018", "2021", "2024"]);
    f.push("--rust-edition".into()); f.push(edition.into());
    if edition == "2024" { f.push("--rust-target".into()); f.push("1.85".into()); }
    // an allow-list (the output must still be self-contained) and code-generation subsets
    if r.chance(1, 5) {
        let cands: Vec<&String> = facts.idents.iter().filter(|i| (i.starts_with('S') || i.starts_with('C') || i.starts_with('U')) && i.len() > 1 && i.chars().skip(1).all(|c| c.is_ascii_digit())).collect();
        if !cands.is_empty() {
            f.push("--allowlist-type".into()); f.push((*r.pick(&cands)).clone());
            if r.chance(1, 2) { f.push("--allowlist-type".into()); f.push((*r.pick(&cands)).clone()); }
        }
    }
    if let Some(h) = facts.idents.iter().find(|i| i.ends_with("_handler")) {
        if r.chance(1, 2) {
            f.push("--allowlist-type".into()); f.push(h.clone());
            match r.below(3) { 0 => f.push("--ignore-functions".into()), 1 => { f.push("--generate".into()); f.push("types".into()); } _ => {} }
        }
    }
    let has_cfg = |f: &Vec<String>| f.iter().any(|x| x == "--ignore-functions" || x == "--generate");
    match r.below(10) { 0 if !has_cfg(&f) => f.push("--ignore-functions".into()), 1 if !has_cfg(&f) => { f.push("--generate".into()); f.push("types,vars".into()); } 2 => f.push("--ignore-methods".into()), _ => {} }
    let mut blocklisted = vec![];
    if r.chance(1, 8) {
        if let Some(t) = facts.idents.iter().find(|i| i.starts_with('S') && i.chars().skip(1).all(|c| c.is_ascii_digit())) {
            f.push("--blocklist-type".into()); f.push(t.clone()); blocklisted.push(t.clone());
        }
    }
    OptSet { flags: f, edition, blocklisted }
}

// ------------------------------------------------------------------ token-level mutation

pub fn tokenize(src: &str) -> Vec<String> {
    let b: Vec<char> = src.chars().collect();
    let mut v = vec![];
    let mut i = 0;
    while i < b.len() {
        let c = b[i];
        if c == '/' && i + 1 < b.len() && b[i + 1] == '/' { let s = i; while i < b.len() && b[i] != '\n' { i += 1; } v.push(b[s..i].iter().collect()); }
        else if c == '/' && i + 1 < b.len() && b[i + 1] == '*' { let s = i; i += 2; while i + 1 < b.len() && !(b[i] == '*' && b[i + 1] == '/') { i += 1; } i = (i + 2).min(b.len()); v.push(b[s..i].iter().collect()); }
        else if c == '#' { let s = i; while i < b.len() && b[i] != '\n' { if b[i] == '\\' { i += 1; } i += 1; } i = i.min(b.len()); v.push(b[s..i].iter().collect()); }
        else if c.is_whitespace() { let s = i; while i < b.len() && b[i].is_whitespace() { i += 1; } v.push(b[s..i].iter().collect()); }
        else if c.is_alphanumeric() || c == '_' || c == '$' { let s = i; while i < b.len() && (b[i].is_alphanumeric() || b[i] == '_' || b[i] == '$' || b[i] == '.') { i += 1; } v.push(b[s..i].iter().collect()); }
        else if c == '"' || c == '\'' { let s = i; i += 1; while i < b.len() && b[i] != c { if b[i] == '\\' { i += 1; } i += 1; } i = (i + 1).min(b.len()); v.push(b[s..i].iter().collect()); }
        else { v.push(c.to_string()); i += 1; }
    }
    v
}

/// one token-level mutation; returns the mutated text and the mutation kind
pub fn mutate(src: &str, r: &mut Rng) -> (String, &'static str) {
    let mut t = tokenize(src);
    let idx: Vec<usize> = t.iter().enumerate().filter(|(_, s)| !s.starts_with('#') && !s.starts_with("//") && !s.starts_with("/*") && !s.trim().is_empty()).map(|(i, _)| i).collect();
    if idx.len() < 4 { return (src.to_string(), "none"); }
    let is_ident = |s: &str| s.chars().next().is_some_and(|c| c.is_alphabetic() || c == '_') && !matches!(s, "struct" | "union" | "enum" | "class" | "typedef" | "const" | "unsigned" | "signed" | "int" | "char" | "long" | "short" | "void" | "float" | "double" | "template" | "typename" | "namespace" | "public" | "private" | "protected" | "virtual" | "static" | "extern" | "inline" | "operator" | "return" | "sizeof" | "using" | "bool" | "if" | "else" | "for" | "while");
    let kind = r.below(8);
    match kind {
        0 => { let a = *r.pick(&idx); let b = *r.pick(&idx); t.swap(a, b); (t.concat(), "swap") }
        1 => { let a = *r.pick(&idx); t.remove(a); (t.concat(), "delete") }
        2 => { let a = *r.pick(&idx); let x = t[a].clone(); t.insert(a, x); (t.concat(), "duplicate") }
        3 | 4 => {
            // rename every occurrence of one identifier to a keyword / `$` name / digit-suffixed sibling
            let ids: Vec<String> = idx.iter().map(|i| t[*i].clone()).filter(|s| is_ident(s)).collect();
            if ids.is_empty() { return (src.to_string(), "none"); }
            let old = r.pick(&ids).clone();
            let new = match r.below(4) { 0 => (*r.pick(KEYWORDS)).to_string(), 1 => format!("{old}$x"), 2 => format!("{old}1"), _ => format!("{old}_") };
            for s in t.iter_mut() { if *s == old { *s = new.clone(); } }
            (t.concat(), "rename")
        }
        5 => {
            // change a number
            let nums: Vec<usize> = idx.iter().copied().filter(|i| t[*i].chars().next().is_some_and(|c| c.is_ascii_digit())).collect();
            if nums.is_empty() { return (src.to_string(), "none"); }
            let a = *r.pick(&nums);
            t[a] = (*r.pick(&["0", "1", "2", "3", "7", "8", "16", "31", "32", "33", "63", "64", "65", "127", "255", "256", "4096", "0x7fffffff", "0xffffffff", "1000000"])).to_string();
            (t.concat(), "number")
        }
        6 => {
            // replace a type keyword
            let tys: Vec<usize> = idx.iter().copied().filter(|i| matches!(t[*i].as_str(), "int" | "char" | "long" | "short" | "float" | "double" | "unsigned" | "bool")).collect();
            if tys.is_empty() { return (src.to_string(), "none"); }
            let a = *r.pick(&tys);
            t[a] = (*r.pick(&["int", "char", "long", "short", "float", "double", "unsigned", "long long", "__int128", "long double", "_Bool"])).to_string();
            (t.concat(), "type")
        }
        _ => {
            // duplicate a whole top-level `…;` chunk
            let a = *r.pick(&idx);
            let end = (a..t.len()).find(|i| t[*i] == ";").unwrap_or(t.len() - 1);
            let chunk: Vec<String> = t[a..=end].to_vec();
            let mut u = t[..=end].to_vec(); u.push("\n".into()); u.extend(chunk); u.extend_from_slice(&t[end + 1..]);
            (u.concat(), "dup-chunk")
        }
    }
}
